//! C07 / C16 twin: executable versions of the decoders in units/c07/spec.rs, applied to the
//! output of the REAL make_string_constant functions (through the verif hooks), exhaustively
//! for all strings up to a length bound over a small adversarial alphabet.
use crate::json::J;
use crate::{Report, Violation};

const ALPHABET: [char; 12] = ['a', ' ', '"', '\\', '$', '`', '!', '*', '\n', '\r', 'é', '€'];

fn body(t: &[char], esc: &dyn Fn(char) -> Option<Option<char>>, expanders: &[char], escape_char: char, dq_doubling: bool) -> Option<Vec<char>> {
    // generic double-quote body decoder; `esc(d)` for the char after the escape character:
    //   Some(Some(x)) -> yields x ; Some(None) -> yields nothing (line continuation) ; None -> escape char is literal
    let mut out = vec![];
    let mut i = 0;
    loop {
        if i >= t.len() {
            return None;
        }
        let c = t[i];
        if c == '"' {
            if dq_doubling && i + 1 < t.len() && t[i + 1] == '"' {
                out.push('"');
                i += 2;
                continue;
            }
            return if i + 1 == t.len() { Some(out) } else { None };
        }
        if expanders.contains(&c) {
            return None;
        }
        if c == escape_char {
            if i + 1 >= t.len() {
                return None;
            }
            match esc(t[i + 1]) {
                Some(Some(x)) => {
                    out.push(x);
                    i += 2;
                }
                Some(None) => i += 2,
                None => {
                    out.push(c);
                    i += 1;
                }
            }
            continue;
        }
        out.push(c);
        i += 1;
    }
}

pub fn decode(shell: &str, t: &str) -> Option<String> {
    let cs: Vec<char> = t.chars().collect();
    if cs.is_empty() || cs[0] != '"' {
        return None;
    }
    let r = match shell {
        "bash" | "zsh" => body(&cs[1..], &|d| match d {
            '$' | '`' | '"' | '\\' => Some(Some(d)),
            '\n' => Some(None),
            _ => None,
        }, &['$', '`'], '\\', false),
        "fish" => body(&cs[1..], &|d| match d {
            '$' | '"' | '\\' => Some(Some(d)),
            '\n' => Some(None),
            _ => None,
        }, &['$'], '\\', false),
        "pwsh" => body(&cs[1..], &|d| match d {
            '0' => Some(Some('\0')),
            'a' => Some(Some('\x07')),
            'b' => Some(Some('\x08')),
            'e' => Some(Some('\x1b')),
            'f' => Some(Some('\x0c')),
            'n' => Some(Some('\n')),
            'r' => Some(Some('\r')),
            't' => Some(Some('\t')),
            'v' => Some(Some('\x0b')),
            'u' => Some(Some('\u{fffd}')), // `u{..}: never produced by the encoder; treated as mismatch
            d => Some(Some(d)),
        }, &['$'], '`', true),
        "dot" => body(&cs[1..], &|d| match d {
            '"' | '\\' => Some(Some(d)),
            _ => None,
        }, &[], '\\', false),
        _ => None,
    };
    r.map(|v| v.into_iter().collect())
}

pub fn encode(shell: &str, s: &str) -> String {
    match shell {
        "bash" => complgen::bash::verif_hooks::make_string_constant(s),
        "fish" => complgen::fish::verif_hooks::make_string_constant(s),
        "zsh" => complgen::zsh::verif_hooks::make_string_constant(s),
        "pwsh" => complgen::pwsh::verif_hooks::make_string_constant(s),
        "dot" => complgen::regex::verif_hooks::make_dot_string_constant(s),
        _ => unreachable!(),
    }
}

fn obligation(shell: &str) -> String {
    if shell == "dot" { "C16.dot.roundtrip".to_string() } else { format!("C07.{shell}.roundtrip") }
}

pub fn run(thorough: bool) -> Report {
    let maxlen = if thorough { 6 } else { 4 };
    let mut rep = Report { bound: format!("all strings of length <= {maxlen} over {:?} x {{bash,fish,zsh,pwsh,dot}}", ALPHABET), exhaustive: true, ..Default::default() };
    let mut cur: Vec<usize> = vec![];
    // enumerate by length
    for len in 0..=maxlen {
        cur.clear();
        cur.resize(len, 0);
        loop {
            let s: String = cur.iter().map(|&i| ALPHABET[i]).collect();
            for shell in ["bash", "fish", "zsh", "pwsh", "dot"] {
                rep.cases += 1;
                // a panic of the real function (e.g. slicing inside a multi-byte character) is a failed round trip, with its input
                let enc = match std::panic::catch_unwind(|| encode(shell, &s)) {
                    Ok(e) => e,
                    Err(_) => {
                        if rep.violations.len() < 200 {
                            rep.violations.push(Violation {
                                obligation: obligation(shell),
                                what: format!("{shell} make_string_constant({s:?}) panicked"),
                                input: J::obj(vec![("shell", J::s(shell)), ("text", J::s(&s))]),
                                expected: J::s(&s),
                                actual: J::s("<panic>"),
                                signature: format!("{}|{:?}", obligation(shell), s),
                                replay_args: vec!["c07_strings".into(), shell.into(), s.clone()],
                            });
                        }
                        continue;
                    }
                };
                let dec = decode(shell, &enc);
                if enc.len() != s.len() + 2 {
                    rep.distinct_nontrivial += 1; // at least one character needed escaping
                }
                if dec.as_deref() != Some(s.as_str()) {
                    if rep.violations.len() < 200 {
                        rep.violations.push(Violation {
                            obligation: obligation(shell),
                            what: format!("{shell} string constant for {s:?} is {enc:?}, which the shell reads as {dec:?}"),
                            input: J::obj(vec![("shell", J::s(shell)), ("text", J::s(&s))]),
                            expected: J::s(&s),
                            actual: match &dec { Some(d) => J::s(d), None => J::s("<not a single inert double-quoted string>") },
                            signature: format!("{}|{:?}", obligation(shell), s),
                            replay_args: vec!["c07_strings".into(), shell.into(), s.clone()],
                        });
                    }
                } else if rep.samples.len() < 5 && len == 3 && enc.len() > s.len() + 3 {
                    rep.samples.push(J::obj(vec![("shell", J::s(shell)), ("text", J::s(&s)), ("constant", J::s(&enc)), ("decoded", J::s(dec.unwrap()))]));
                }
            }
            // next
            let mut k = len;
            loop {
                if k == 0 {
                    break;
                }
                k -= 1;
                cur[k] += 1;
                if cur[k] < ALPHABET.len() {
                    break;
                }
                cur[k] = 0;
                if k == 0 {
                    k = usize::MAX;
                    break;
                }
            }
            if len == 0 || k == usize::MAX {
                break;
            }
        }
    }
    // keep the shortest counterexample per obligation first
    rep.violations.sort_by_key(|v| (v.obligation.clone(), v.signature.len()));
    rep
}

pub fn replay(args: &[String]) -> i32 {
    let (shell, s) = (&args[0], &args[1]);
    let enc = encode(shell, s);
    let dec = decode(shell, &enc);
    println!("real {shell} make_string_constant({s:?}) = {enc}");
    println!("read back by the {shell} double-quote rules: {dec:?}");
    println!("expected: Some({s:?})");
    if dec.as_deref() == Some(s.as_str()) { 0 } else { 1 }
}
