//! Reads the text written by the REAL bash emitter back with bash's own syntax (function blocks,
//! `local -a literals=("..")`, associative-array initialisers `([k]=v ..)`, nested
//! `name[k]="([a]=b ..)"`) and compares it with the lookup tables / automaton (C04).
use crate::c04::ShellView;
use crate::strings::decode;
use complgen::dfa::{DFA, Inp, verif_hooks as dh};
use complgen::tables::verif_hooks as th;
use std::collections::{BTreeMap, BTreeSet};

#[derive(Default, Debug, Clone)]
struct Block {
    literals: Option<Vec<String>>,
    /// name -> key -> (key -> value)   for  name[k]="([a]=b ..)"
    nested: BTreeMap<String, BTreeMap<u32, BTreeMap<u32, u32>>>,
    /// name -> key -> raw value         for  local -A name=([k]=v ..)  (v number or quoted list)
    flat: BTreeMap<String, BTreeMap<u32, String>>,
    scalars: BTreeMap<String, String>,
    calls_shape: Option<String>,
    body: Vec<String>,
    /// names this function declares with `local` (a callee sees the caller's variable of the
    /// same name unless it declares its own: bash scoping is dynamic)
    declared: BTreeSet<String>,
}

impl Block {
    /// the tables a callee of `self` sees when `self` was called from `caller`: its own
    /// declarations, the caller's for every name it does not declare; an assignment
    /// `name[k]=..` to an undeclared name lands in the caller's table
    fn seen_from(&self, caller: &Block) -> Block {
        let mut eff = caller.clone();
        eff.calls_shape = self.calls_shape.clone();
        eff.body = self.body.clone();
        for n in &self.declared {
            eff.flat.remove(n);
            eff.nested.remove(n);
            eff.scalars.remove(n);
            if n == "literals" {
                eff.literals = None;
            }
        }
        if self.literals.is_some() {
            eff.literals = self.literals.clone();
        }
        for (k, v) in &self.flat {
            eff.flat.insert(k.clone(), v.clone());
        }
        for (k, v) in &self.scalars {
            eff.scalars.insert(k.clone(), v.clone());
        }
        for (k, v) in &self.nested {
            let e = eff.nested.entry(k.clone()).or_default();
            for (kk, vv) in v {
                e.insert(*kk, vv.clone());
            }
        }
        eff.declared.extend(self.declared.iter().cloned());
        eff
    }
}

/// parse `[k]=v [k]="v w"` ...
fn parse_assoc(s: &str) -> Option<BTreeMap<u32, String>> {
    let cs: Vec<char> = s.chars().collect();
    let mut i = 0;
    let mut out = BTreeMap::new();
    while i < cs.len() {
        while i < cs.len() && cs[i] == ' ' {
            i += 1;
        }
        if i >= cs.len() {
            break;
        }
        if cs[i] != '[' {
            return None;
        }
        let mut j = i + 1;
        while j < cs.len() && cs[j] != ']' {
            j += 1;
        }
        let key: u32 = cs[i + 1..j].iter().collect::<String>().parse().ok()?;
        if j + 1 >= cs.len() || cs[j + 1] != '=' {
            return None;
        }
        let mut k = j + 2;
        let val: String;
        if k < cs.len() && cs[k] == '"' {
            let mut e = k + 1;
            while e < cs.len() && cs[e] != '"' {
                e += 1;
            }
            val = cs[k + 1..e].iter().collect();
            k = e + 1;
        } else {
            let mut e = k;
            while e < cs.len() && cs[e] != ' ' {
                e += 1;
            }
            val = cs[k..e].iter().collect();
            k = e;
        }
        if out.insert(key, val).is_some() {
            return None; // duplicate key: bash would keep the last one silently
        }
        i = k;
    }
    Some(out)
}

/// split `"a" "b\"c"` into raw double-quoted tokens
fn split_dq(s: &str) -> Option<Vec<String>> {
    let cs: Vec<char> = s.chars().collect();
    let mut out = vec![];
    let mut i = 0;
    while i < cs.len() {
        if cs[i] == ' ' {
            i += 1;
            continue;
        }
        if cs[i] != '"' {
            return None;
        }
        let mut j = i + 1;
        while j < cs.len() {
            if cs[j] == '\\' {
                j += 2;
                continue;
            }
            if cs[j] == '"' {
                break;
            }
            j += 1;
        }
        if j >= cs.len() {
            return None;
        }
        out.push(cs[i..=j].iter().collect());
        i = j + 1;
    }
    Some(out)
}

fn parse_script(script: &str, errs: &mut Vec<(String, String)>) -> (BTreeMap<String, Block>, Vec<String>) {
    let mut blocks: BTreeMap<String, Block> = BTreeMap::new();
    let mut top: Vec<String> = vec![];
    let mut cur: Option<(String, Block)> = None;
    let lines: Vec<&str> = script.lines().collect();
    let mut i = 0;
    while i < lines.len() {
        let line = lines[i];
        i += 1;
        if cur.is_none() {
            if let Some(name) = line.strip_suffix(" () {") {
                if !name.contains(' ') {
                    cur = Some((name.to_string(), Block::default()));
                    continue;
                }
            }
            top.push(line.to_string());
            continue;
        }
        if line == "}" {
            let (n, b) = cur.take().unwrap();
            if blocks.insert(n.clone(), b).is_some() {
                errs.push(("duplicate_function".into(), format!("function {n} is defined twice")));
            }
            continue;
        }
        let (_, b) = cur.as_mut().unwrap();
        b.body.push(line.to_string());
        let t = line.trim_start();
        if let Some(rest) = t.strip_prefix("local ") {
            // `local [-a|-A] name[=..]`
            let r = rest.strip_prefix("-a ").or_else(|| rest.strip_prefix("-A ")).unwrap_or(rest);
            let name: String = r.chars().take_while(|c| c.is_ascii_alphanumeric() || *c == '_').collect();
            if !name.is_empty() {
                b.declared.insert(name);
            }
        }
        if let Some(rest) = t.strip_prefix("local -a literals=(") {
            // the array may span lines if a literal contains a newline: join until the closing paren
            let mut acc = rest.to_string();
            while !acc.ends_with(')') && i < lines.len() {
                acc.push('\n');
                acc.push_str(lines[i]);
                i += 1;
            }
            let inner = acc.strip_suffix(')').unwrap_or(&acc);
            match split_dq(inner) {
                Some(toks) => {
                    let mut v = vec![];
                    for tk in toks {
                        match decode("bash", &tk) {
                            Some(s) => v.push(s),
                            None => errs.push(("literals_quoting".into(), format!("literal constant {tk} is not an inert bash double-quoted string"))),
                        }
                    }
                    b.literals = Some(v);
                }
                None => errs.push(("literals_syntax".into(), format!("cannot split literals array: {inner}"))),
            }
        } else if let Some(rest) = t.strip_prefix("local -A ") {
            if let Some((name, init)) = rest.split_once('=') {
                if !init.starts_with('(') {
                    continue; // run-time code of the script (e.g. `local -A state_transitions=${..}`), not a table
                }
                let inner = init.strip_prefix('(').and_then(|x| x.strip_suffix(')'));
                match inner.and_then(parse_assoc) {
                    Some(m) => {
                        b.flat.insert(name.to_string(), m);
                    }
                    None => errs.push(("assoc_syntax".into(), format!("cannot read initialiser of {name}: {init}"))),
                }
            } else {
                b.flat.entry(rest.to_string()).or_default();
            }
        } else if let Some(rest) = t.strip_prefix("local ") {
            if let Some((name, v)) = rest.split_once('=') {
                if !name.contains(' ') && !name.starts_with('-') {
                    b.scalars.insert(name.to_string(), v.to_string());
                }
            }
        } else if let Some(p) = t.find("]=\"(") {
            // name[k]="([a]=b ..)"
            if let Some(br) = t.find('[') {
                let name = &t[..br];
                if let Ok(key) = t[br + 1..p].parse::<u32>() {
                    let inner = t[p + 4..].strip_suffix(")\"");
                    match inner.and_then(parse_assoc) {
                        Some(m) => {
                            let mut mm = BTreeMap::new();
                            for (k, v) in m {
                                match v.parse::<u32>() {
                                    Ok(x) => {
                                        mm.insert(k, x);
                                    }
                                    Err(_) => errs.push(("assoc_syntax".into(), format!("non-numeric target in {t}"))),
                                }
                            }
                            if b.nested.entry(name.to_string()).or_default().insert(key, mm).is_some() {
                                errs.push(("duplicate_state".into(), format!("{name}[{key}] assigned twice")));
                            }
                        }
                        None => errs.push(("assoc_syntax".into(), format!("cannot read {t}"))),
                    }
                }
            }
        } else if t.contains("_subword_shape_") && t.ends_with("\"$1\" \"$2\"") {
            b.calls_shape = Some(t.split(' ').next().unwrap_or("").to_string());
        }
    }
    (blocks, top)
}

fn drop_empty<V: Clone>(m: &BTreeMap<u32, Vec<V>>) -> BTreeMap<u32, Vec<V>> {
    m.iter().filter(|(_, v)| !v.is_empty()).map(|(k, v)| (*k, v.clone())).collect()
}

fn ids_of(s: &str) -> Vec<u32> {
    s.split_whitespace().filter_map(|x| x.parse().ok()).collect()
}

/// compare the tables of one block (plus, for shared shapes, the shape block) with a dump
fn cmp_tables(what: &str, tabs: &Block, d: &th::Dump, errs: &mut Vec<(String, String)>) {
    let empty = BTreeMap::new();
    let lit = tabs.nested.get("literal_transitions").unwrap_or(&empty);
    if lit != &d.match_literal {
        errs.push(("match.literal".into(), format!("{what}: literal_transitions in the script = {lit:?}, tables = {:?}", d.match_literal)));
    }
    if let Some(cmdt) = &d.match_command {
        let got = tabs.nested.get("command_transitions").unwrap_or(&empty);
        if got != cmdt {
            errs.push(("match.command".into(), format!("{what}: command_transitions in the script = {got:?}, tables = {cmdt:?}")));
        }
    }
    if let Some(star) = &d.match_star {
        let got: BTreeSet<(u32, u32)> = tabs.flat.get("star_transitions").map(|m| m.iter().filter_map(|(k, v)| v.parse().ok().map(|t| (*k, t))).collect()).unwrap_or_default();
        let exp: BTreeSet<(u32, u32)> = star.iter().cloned().collect();
        if got != exp {
            errs.push(("match.star".into(), format!("{what}: star_transitions in the script = {got:?}, tables = {exp:?}")));
        }
    }
    match tabs.scalars.get("max_fallback_level").and_then(|v| v.parse::<usize>().ok()) {
        Some(m) if m == d.max_fallback_level => {}
        other => errs.push(("max_fallback_level".into(), format!("{what}: max_fallback_level in the script = {other:?}, tables = {}", d.max_fallback_level))),
    }
    for (lvl, exp) in d.compl_literal.iter().enumerate() {
        let got: BTreeMap<u32, Vec<u32>> = tabs.flat.get(&format!("literal_transitions_level_{lvl}")).map(|m| m.iter().map(|(k, v)| (*k, ids_of(v))).collect()).unwrap_or_default();
        if drop_empty(&got) != drop_empty(exp) {
            errs.push(("completion.literal".into(), format!("{what}: literal_transitions_level_{lvl} in the script = {got:?}, tables = {exp:?}")));
        }
    }
    if let Some(cc) = &d.compl_command {
        for (lvl, exp) in cc.iter().enumerate() {
            let got: BTreeMap<u32, Vec<u32>> = tabs.flat.get(&format!("commands_level_{lvl}")).map(|m| m.iter().map(|(k, v)| (*k, ids_of(v))).collect()).unwrap_or_default();
            if drop_empty(&got) != drop_empty(exp) {
                errs.push(("completion.command".into(), format!("{what}: commands_level_{lvl} in the script = {got:?}, tables = {exp:?}")));
            }
        }
    }
}

pub fn check_text(dfa: &DFA, view: &ShellView, errs: &mut Vec<(String, String)>) {
    let mut buf: Vec<u8> = vec![];
    if let Err(e) = complgen::bash::write_completion_script(&mut buf, "cmd", dfa) {
        errs.push(("emit".into(), format!("write_completion_script failed: {e:?}")));
        return;
    }
    let script = String::from_utf8_lossy(&buf).into_owned();
    let (blocks, top) = parse_script(&script, errs);
    // registration
    if !top.iter().any(|l| l.trim() == "complete -o nospace -F _cmd cmd") {
        errs.push(("registration".into(), "no `complete -o nospace -F _cmd cmd` line at top level".into()));
    }
    // command functions
    for (id, c) in view.cmds.iter().enumerate() {
        let body = if c.trim().is_empty() { ":" } else { c.trim() };
        match blocks.get(&format!("_cmd_cmd_{id}")) {
            Some(b) => {
                let got = b.body.join("\n");
                if got.trim() != body {
                    errs.push(("command_function".into(), format!("_cmd_cmd_{id} runs {:?}, the automaton's command {id} is {:?}", got.trim(), body)));
                }
            }
            None => errs.push(("command_function".into(), format!("no function _cmd_cmd_{id} for command {body:?}"))),
        }
    }
    let n_cmd_fns = blocks.keys().filter(|k| k.starts_with("_cmd_cmd_")).count();
    if n_cmd_fns != view.cmds.len() {
        errs.push(("command_function".into(), format!("{n_cmd_fns} command functions for {} commands", view.cmds.len())));
    }
    // main function
    let Some(main) = blocks.get("_cmd") else {
        errs.push(("main_function".into(), "no function _cmd".into()));
        return;
    };
    let exp_lits: Vec<String> = view.main.all_literals.iter().map(|(_, l, _)| l.clone()).collect();
    if main.literals.as_ref() != Some(&exp_lits) {
        errs.push(("literals".into(), format!("literals array of _cmd = {:?}, literal table = {exp_lits:?}", main.literals)));
    }
    cmp_tables("_cmd", main, &view.main, errs);
    match main.scalars.get("state").and_then(|v| v.parse::<u32>().ok()) {
        Some(s) if s == dfa.starting_state => {}
        other => errs.push(("start_state".into(), format!("`local state=` is {other:?}, the automaton starts in {}", dfa.starting_state))),
    }
    // within-word transitions of the main automaton
    let ids: BTreeMap<usize, usize> = th::subwords(dfa, 0).into_iter().map(|(d, i)| (dh::dfa_id_raw(d), i)).collect();
    let mut exp_sub: BTreeMap<u32, BTreeMap<u32, u32>> = BTreeMap::new();
    let mut exp_sub_lvl: BTreeMap<usize, BTreeMap<u32, BTreeSet<u32>>> = BTreeMap::new();
    for (from, tos) in &dfa.transitions {
        for (inp_id, to) in tos {
            if let Inp::Subword { subdfa, fallback_level } = dh::inp_of(dfa, *inp_id) {
                let id = ids[&dh::dfa_id_raw(*subdfa)] as u32;
                exp_sub.entry(*from).or_default().insert(id, *to);
                exp_sub_lvl.entry(*fallback_level).or_default().entry(*from).or_default().insert(id);
            }
        }
    }
    let empty = BTreeMap::new();
    let got_sub = main.nested.get("subword_transitions").unwrap_or(&empty);
    if got_sub != &exp_sub {
        errs.push(("subword_transitions".into(), format!("subword_transitions in the script = {got_sub:?}, automaton = {exp_sub:?}")));
    }
    for (lvl, exp) in &exp_sub_lvl {
        let got: BTreeMap<u32, BTreeSet<u32>> = main.flat.get(&format!("subword_transitions_level_{lvl}")).map(|m| m.iter().map(|(k, v)| (*k, ids_of(v).into_iter().collect())).collect()).unwrap_or_default();
        if &got != exp {
            errs.push(("subword_completions".into(), format!("subword_transitions_level_{lvl} in the script = {got:?}, automaton = {exp:?}")));
        }
    }
    // within-word functions
    for (id, dump) in &view.subs {
        let name = format!("_cmd_subword_{id}");
        let Some(b) = blocks.get(&name) else {
            errs.push(("subword_function".into(), format!("no function {name}")));
            continue;
        };
        let exp_lits: Vec<String> = dump.all_literals.iter().map(|(_, l, _)| l.clone()).collect();
        // the shared matcher is called from this function (possibly through a shape function),
        // which was called from _cmd: it reads every table through bash's dynamic scoping
        let seen = b.seen_from(main);
        let seen = match &b.calls_shape {
            Some(shape) => match blocks.get(shape) {
                Some(s) => s.seen_from(&seen),
                None => {
                    errs.push(("subword_function".into(), format!("{name} calls the undefined {shape}")));
                    continue;
                }
            },
            None => seen,
        };
        if seen.literals.as_ref() != Some(&exp_lits) {
            errs.push(("subword_literals".into(), format!("literals array seen by the matcher in {name} = {:?}, literal table = {exp_lits:?}", seen.literals)));
        }
        let tabs = &seen;
        let mut sub_errs = vec![];
        cmp_tables(&name, tabs, dump, &mut sub_errs);
        for (f, m) in sub_errs {
            errs.push((format!("subword.{f}"), m));
        }
    }
}
