//! harness <check> --tier quick|thorough --seed N      -> one JSON object on stdout
//! harness replay <check> <args..>                      -> re-executes one case on the real code
mod c04;
mod c04bash;
mod c04text;
mod c06;
mod c07bash;
mod c09bash;
mod c13;
mod c16;
mod cpipe;
mod csem;
mod gram;
mod json;
mod lang;
mod pipeline;
mod refsem;
mod strings;

use json::J;

pub struct Violation {
    pub obligation: String,
    pub what: String,
    pub input: J,
    pub expected: J,
    pub actual: J,
    /// identifies the failing input/call site for known_findings.json
    pub signature: String,
    pub replay_args: Vec<String>,
}

#[derive(Default)]
pub struct Report {
    pub bound: String,
    pub cases: u64,
    pub distinct_nontrivial: u64,
    pub exhaustive: bool,
    pub samples: Vec<J>,
    pub violations: Vec<Violation>,
    pub undecided: Vec<String>,
}

impl Report {
    pub fn emit(&self) {
        // one representative (the first = smallest enumerated) per signature, with a count
        let mut firsts: Vec<&Violation> = vec![];
        let mut counts: std::collections::BTreeMap<&str, i64> = Default::default();
        for v in &self.violations {
            let c = counts.entry(v.signature.as_str()).or_insert(0);
            if *c == 0 {
                firsts.push(v);
            }
            *c += 1;
        }
        let v: Vec<J> = firsts
            .iter()
            .take(200)
            .map(|v| {
                J::obj(vec![
                    ("obligation", J::s(&v.obligation)),
                    ("what", J::s(&v.what)),
                    ("input", v.input.clone()),
                    ("expected", v.expected.clone()),
                    ("actual", v.actual.clone()),
                    ("signature", J::s(&v.signature)),
                    ("same_signature_cases", J::Num(counts[v.signature.as_str()])),
                    ("replay_args", J::Arr(v.replay_args.iter().map(J::s).collect())),
                ])
            })
            .collect();
        let o = J::obj(vec![
            ("bound", J::s(&self.bound)),
            ("cases", J::Num(self.cases as i64)),
            ("distinct_nontrivial", J::Num(self.distinct_nontrivial as i64)),
            ("exhaustive", J::Bool(self.exhaustive)),
            ("samples", J::Arr(self.samples.iter().take(5).cloned().collect())),
            ("violations", J::Arr(v)),
            ("n_violations", J::Num(self.violations.len() as i64)),
            ("undecided", J::Arr(self.undecided.iter().map(J::s).collect())),
        ]);
        println!("{}", o.to_string());
    }
}

fn main() {
    let args: Vec<String> = std::env::args().collect();
    if args.len() < 2 {
        eprintln!("usage: harness <check> --tier T --seed N | harness replay <check> args..");
        std::process::exit(2);
    }
    if args[1] == "replay" {
        let rc = match args[2].as_str() {
            "c07_strings" => strings::replay(&args[3..]),
            "pipeline" | "pipeline_fuzz" => cpipe::replay(&args[3..]),
            "c06_display" => c06::replay_display(&args[3..]),
            "c07_bash" => c07bash::replay(&args[3..]),
            "c09_bash" => c09bash::replay(&args[3..]),
            "c04_tables" => c04::replay(&args[3..]),
            "c16_dumps" => c16::replay(&args[3..]),
            "c13_locations" | "c13_cli" => c13::replay(&args[2], &args[3..]),
            "c11_choice" | "c15_warnings" | "c08_classify" => csem::replay(&args[2], &args[3..]),
            "c06_spans" => c06::replay_spans(&args[3..]),
            "c06_cli" => c06::replay_cli(&args[3..]),
            other => {
                eprintln!("unknown check {other}");
                2
            }
        };
        std::process::exit(rc);
    }
    let mut tier = "quick".to_string();
    let mut seed = 0u64;
    let mut i = 2;
    while i < args.len() {
        match args[i].as_str() {
            "--tier" => {
                tier = args[i + 1].clone();
                i += 1;
            }
            "--seed" => {
                seed = args[i + 1].parse().unwrap_or(0);
                i += 1;
            }
            _ => {}
        }
        i += 1;
    }
    let thorough = tier == "thorough";
    let rep = match args[1].as_str() {
        "c07_strings" => strings::run(thorough),
        "pipeline" => cpipe::run(thorough, seed),
        "pipeline_fuzz" => cpipe::run_fuzz(thorough, seed),
        "c06_display" => c06::display(thorough),
        "c07_bash" => c07bash::run(thorough),
        "c09_bash" => c09bash::run(thorough),
        "c04_tables" => c04::run(thorough, seed),
        "c16_dumps" => c16::run(thorough, seed),
        "c13_locations" => c13::run_library(thorough),
        "c13_cli" => c13::run_cli(thorough),
        "c11_choice" => csem::c11(thorough),
        "c15_warnings" => csem::c15(thorough, seed),
        "c08_classify" => csem::c08(thorough),
        "c06_spans" => c06::spans(thorough, seed),
        "c06_cli" => c06::cli(thorough, seed),
        other => {
            eprintln!("unknown check {other}");
            std::process::exit(2);
        }
    };
    rep.emit();
}
