//! The REAL pipeline, called exactly as src/main.rs does, and views of its results in the
//! vocabulary of the reference semantics.
#![allow(dead_code)]
use crate::lang::*;
use complgen::check::ValidGrammar;
use complgen::dfa::{DFA, Inp, verif_hooks as dh};
use complgen::parse::{Grammar as RealGrammar, Shell};
use complgen::regex::{Regex, RegexInternPool};
use std::collections::{BTreeMap, BTreeSet};

pub fn shell_of(s: &str) -> Shell {
    match s {
        "bash" => Shell::Bash,
        "fish" => Shell::Fish,
        "zsh" => Shell::Zsh,
        _ => Shell::Pwsh,
    }
}

pub struct Compiled {
    pub raw: DFA,
    pub min: DFA,
    pub command: String,
    pub undefined: BTreeSet<String>,
    pub unused_plain: BTreeSet<String>,
    pub unused_specs: BTreeSet<String>,
}

pub fn error_class(e: &complgen::Error) -> String {
    let s = format!("{e:?}");
    s.split(|c: char| !c.is_alphanumeric()).next().unwrap_or("").to_string()
}

/// Breadcrumb for aborts that cannot be caught in-process (stack overflow, abort()): before the
/// real pipeline is entered the input is written to the file named by VERIF_CRUMB; when the
/// harness process dies by a signal the driver reports that input as the failing one.
static CRUMB_CTX: std::sync::Mutex<Option<(String, String)>> = std::sync::Mutex::new(None);

/// what the caller expects of the next `compile` (obligation to blame if the process dies, expected outcome)
pub fn expect_next(obligation: &str, expected: &str) {
    *CRUMB_CTX.lock().unwrap() = Some((obligation.to_string(), expected.to_string()));
}

fn crumb(text: &str, shell: &str) {
    if let Ok(path) = std::env::var("VERIF_CRUMB") {
        let ctx = CRUMB_CTX.lock().unwrap().take();
        let (obl, exp) = ctx.unwrap_or_else(|| ("C06.pipeline.no_abort".to_string(), "a script or a diagnostic".to_string()));
        let j = crate::json::J::obj(vec![("obligation", crate::json::J::s(&obl)), ("expected", crate::json::J::s(&exp)), ("grammar", crate::json::J::s(text)), ("shell", crate::json::J::s(shell))]);
        let _ = std::fs::write(path, j.to_string());
    }
}

/// parse -> validate -> regex -> DFA -> (ambiguity check) -> minimize, as main.rs::aot does.
pub fn compile(text: &str, shell: &str) -> Result<Compiled, String> {
    crumb(text, shell);
    let g = RealGrammar::parse(text).map_err(|e| error_class(&e))?;
    let v = ValidGrammar::from_grammar(g, shell_of(shell)).map_err(|e| error_class(&e))?;
    let mut pool = RegexInternPool::default();
    let regex = Regex::from_valid_grammar(&v, &mut pool).map_err(|e| error_class(&e))?;
    let raw = DFA::from_regex_raw(regex, &pool).map_err(|e| error_class(&e))?;
    let min = raw.clone().minimize();
    min.check_ambiguity_best_effort().map_err(|e| error_class(&e))?;
    let names = |m: &ustr::UstrMap<complgen::parse::HumanSpan>| m.keys().map(|k| k.as_str().to_string()).collect::<BTreeSet<_>>();
    Ok(Compiled {
        command: v.command.as_str().to_string(),
        undefined: names(&v.undefined_nonterminals),
        unused_plain: names(&v.unused_nonterminals),
        unused_specs: names(&v.unused_specializations),
        raw,
        min,
    })
}

/// Run `f` catching panics of the real code; Err(message) on panic.
pub fn guarded<T>(f: impl FnOnce() -> T + std::panic::UnwindSafe) -> Result<T, String> {
    let prev = std::panic::take_hook();
    std::panic::set_hook(Box::new(|_| {}));
    let r = std::panic::catch_unwind(f);
    std::panic::set_hook(prev);
    r.map_err(|e| {
        if let Some(s) = e.downcast_ref::<&str>() {
            s.to_string()
        } else if let Some(s) = e.downcast_ref::<String>() {
            s.clone()
        } else {
            "panic".to_string()
        }
    })
}

fn opt_s(d: &Option<ustr::Ustr>) -> String {
    match d {
        Some(x) => format!("={}", x.as_str()),
        None => "-".to_string(),
    }
}

#[derive(Clone, Copy, PartialEq, Eq)]
pub enum Labels {
    /// text, description, `||` level (the vocabulary of refsem.rs)
    Full,
    /// text and description, no levels
    NoLevels,
    /// how the item is read when matching: literal text / command / any word / word language
    Reading,
}

pub fn item_with(owner: &DFA, inp: &Inp, depth: usize, mode: Labels) -> String {
    let sub_canon = |subdfa: &complgen::dfa::DFAId| -> String {
        let sub = dh::subdfa_of(owner, *subdfa);
        if depth > 3 {
            return "<nested too deep>".to_string();
        }
        match determinize(&nfa_with(sub, owner, depth + 1, mode)) {
            Some(d) => d.canonical().serialize(),
            None => "<too big>".to_string(),
        }
    };
    match (mode, inp) {
        (Labels::Full, Inp::Literal { literal, description, fallback_level }) => format!("L:{}|{}|{}", literal.as_str(), opt_s(description), fallback_level),
        (Labels::Full, Inp::Command { cmd, fallback_level }) => format!("C:{}|{}|0", cmd.as_str(), fallback_level),
        (Labels::Full, Inp::Compadd { cmd, fallback_level }) => format!("C:{}|{}|1", cmd.as_str(), fallback_level),
        (Labels::Full, Inp::Subword { subdfa, fallback_level }) => format!("W:{fallback_level}|{}", sub_canon(subdfa)),
        (Labels::NoLevels, Inp::Literal { literal, description, .. }) => format!("L:{}|{}", literal.as_str(), opt_s(description)),
        (Labels::Reading, Inp::Literal { literal, .. }) => format!("L:{}", literal.as_str()),
        (_, Inp::Command { cmd, .. }) => format!("C:{}|0", cmd.as_str()),
        (_, Inp::Compadd { cmd, .. }) => format!("C:{}|1", cmd.as_str()),
        (_, Inp::Subword { subdfa, .. }) => format!("W:{}", sub_canon(subdfa)),
        (_, Inp::Star) => "S".to_string(),
    }
}

/// NFA view of a real automaton over item strings. `owner` holds the sub-automata pool.
/// State numbering and edge order depend only on the automaton, not on `mode`.
pub fn nfa_with(dfa: &DFA, owner: &DFA, depth: usize, mode: Labels) -> Nfa {
    let mut ids: BTreeMap<u32, usize> = BTreeMap::new();
    let mut states: Vec<u32> = vec![];
    let mut get = |s: u32, states: &mut Vec<u32>| -> usize {
        *ids.entry(s).or_insert_with(|| {
            states.push(s);
            states.len() - 1
        })
    };
    let start = get(dfa.starting_state, &mut states);
    let mut edges: Vec<(usize, String, usize)> = vec![];
    let mut item_cache: BTreeMap<u32, String> = BTreeMap::new();
    for (from, tos) in &dfa.transitions {
        let f = get(*from, &mut states);
        for (inp_id, to) in tos {
            let t = get(*to, &mut states);
            let raw = dh::inp_id_raw(*inp_id);
            let item = item_cache.entry(raw).or_insert_with(|| item_with(owner, dh::inp_of(dfa, *inp_id), depth, mode)).clone();
            edges.push((f, item, t));
        }
    }
    for s in dfa.accepting_states.iter() {
        get(s, &mut states);
    }
    let mut nfa = Nfa { start, acc: vec![false; states.len()], trans: vec![vec![]; states.len()] };
    for (i, s) in states.iter().enumerate() {
        nfa.acc[i] = dfa.accepting_states.contains(*s);
    }
    for (f, a, t) in edges {
        nfa.trans[f].push((a, t));
    }
    nfa
}

pub fn nfa_of(dfa: &DFA, owner: &DFA, depth: usize, strip: bool) -> Nfa {
    nfa_with(dfa, owner, depth, if strip { Labels::Reading } else { Labels::Full })
}

pub fn nfa_nolevels(dfa: &DFA) -> Nfa {
    nfa_with(dfa, dfa, 0, Labels::NoLevels)
}

/// Deterministic view over raw symbol ids (for C03: minimality w.r.t. the automaton's own alphabet).
pub fn raw_dfa_of(dfa: &DFA) -> (Dfa, Vec<u32>) {
    let mut ids: BTreeMap<u32, usize> = BTreeMap::new();
    let mut states: Vec<u32> = vec![];
    let mut get = |s: u32, states: &mut Vec<u32>| -> usize {
        *ids.entry(s).or_insert_with(|| {
            states.push(s);
            states.len() - 1
        })
    };
    let start = get(dfa.starting_state, &mut states);
    let mut edges = vec![];
    for (from, tos) in &dfa.transitions {
        let f = get(*from, &mut states);
        for (inp_id, to) in tos {
            let t = get(*to, &mut states);
            edges.push((f, format!("i{}", dh::inp_id_raw(*inp_id)), t));
        }
    }
    for s in dfa.accepting_states.iter() {
        get(s, &mut states);
    }
    let mut d = Dfa { start, acc: vec![false; states.len()], trans: vec![BTreeMap::new(); states.len()] };
    for (i, s) in states.iter().enumerate() {
        d.acc[i] = dfa.accepting_states.contains(*s);
    }
    for (f, a, t) in edges {
        d.trans[f].insert(a, t);
    }
    (d, states)
}

pub fn all_subdfas(dfa: &DFA) -> Vec<&DFA> {
    (0..dh::num_subdfas(dfa)).map(|i| dh::subdfa_of(dfa, dh::dfa_id_from_raw(i))).collect()
}
