//! C04 bounded stand-ins on the real code:
//!  * `tables`: the shell-independent LookupTables every emitter prints (through the hook's
//!    plain-data view) describe exactly the automaton: literal list (distinct (text, description)
//!    pairs, longest first), match tables, per-level completion tables, for the main automaton
//!    and every within-word automaton, with each shell's index base and flags; and the grouping
//!    of within-word automata (isomorphic_to / shape_hash) only groups automata whose printed
//!    tables are equal.
//!  * `bash_text`: the text emitted by the real bash emitter, read back with bash's own syntax
//!    (associative-array initialisers, double-quoted literals), yields exactly those tables, one
//!    command function per id with the body verbatim, the start state and the registration.
use crate::cpipe;
use crate::json::J;
use crate::pipeline::*;
use crate::{Report, Violation};
use complgen::dfa::{DFA, Inp, verif_hooks as dh};
use complgen::tables::verif_hooks as th;
use std::collections::{BTreeMap, BTreeSet};

pub fn array_start(shell: &str) -> usize {
    match shell {
        "fish" | "zsh" => 1,
        _ => 0,
    }
}

fn transitions_of(dfa: &DFA) -> Vec<(u32, Inp, u32)> {
    let mut out = vec![];
    for (from, tos) in &dfa.transitions {
        for (inp_id, to) in tos {
            out.push((*from, dh::inp_of(dfa, *inp_id).clone(), *to));
        }
    }
    out
}

fn pool_of(dfa: &DFA) -> Vec<Inp> {
    (0..dh::num_inputs(dfa)).map(|i| dh::inp_of(dfa, dh::inp_id_from_raw(i as u32)).clone()).collect()
}

/// Expected tables, computed from the automaton by the C04 statement (independent of dfa.rs getters).
#[derive(Debug, Clone, PartialEq, Eq, Default)]
pub struct Expected {
    pub literals: Vec<(u32, String, String)>,
    /// state -> literal id -> possible targets (more than one only under the known finding D10)
    pub match_literal: BTreeMap<u32, BTreeMap<u32, BTreeSet<u32>>>,
    pub match_command: BTreeMap<u32, BTreeMap<u32, BTreeSet<u32>>>,
    pub match_compadd: BTreeMap<u32, BTreeMap<u32, BTreeSet<u32>>>,
    pub star: BTreeSet<(u32, u32)>,
    pub max_level: usize,
    pub compl_literal: Vec<BTreeMap<u32, BTreeSet<u32>>>,
    pub compl_command: Vec<BTreeMap<u32, BTreeSet<u32>>>,
    pub compl_compadd: Vec<BTreeMap<u32, BTreeSet<u32>>>,
}

pub fn expected(dfa: &DFA, cmds: &[String], start: usize) -> Expected {
    let mut e = Expected::default();
    let mut lits: BTreeSet<(usize, String, String)> = BTreeSet::new();
    for inp in pool_of(dfa) {
        if let Inp::Literal { literal, description, .. } = inp {
            lits.insert((literal.len(), literal.as_str().to_string(), description.map(|d| d.as_str().to_string()).unwrap_or_default()));
        }
    }
    // longest first; among equal lengths by text, descending
    let mut v: Vec<(usize, String, String)> = lits.into_iter().collect();
    v.sort_by(|a, b| (b.0, &b.1).cmp(&(a.0, &a.1)));
    let mut id_of: BTreeMap<(String, String), u32> = BTreeMap::new();
    // entries with the same (len, text) but different descriptions: their relative order is not
    // fixed by the property; normalise by grouping on text (checked as a set per text below)
    for (i, (_, t, d)) in v.iter().enumerate() {
        e.literals.push(((i + start) as u32, t.clone(), d.clone()));
        id_of.insert((t.clone(), d.clone()), (i + start) as u32);
    }
    let cmd_id = |c: &str| cmds.iter().position(|x| x == c).map(|i| i as u32);
    let mut max_level: Option<usize> = None;
    let trans = transitions_of(dfa);
    for (_, inp, _) in &trans {
        let l = match inp {
            Inp::Literal { fallback_level, .. } | Inp::Subword { fallback_level, .. } | Inp::Command { fallback_level, .. } | Inp::Compadd { fallback_level, .. } => Some(*fallback_level),
            Inp::Star => None,
        };
        if let Some(l) = l {
            max_level = Some(max_level.map_or(l, |m: usize| m.max(l)));
        }
    }
    e.max_level = max_level.unwrap_or(start);
    e.compl_literal = vec![Default::default(); e.max_level + 1];
    e.compl_command = vec![Default::default(); e.max_level + 1];
    e.compl_compadd = vec![Default::default(); e.max_level + 1];
    for (from, inp, to) in &trans {
        match inp {
            Inp::Literal { literal, description, fallback_level } => {
                let id = id_of[&(literal.as_str().to_string(), description.map(|d| d.as_str().to_string()).unwrap_or_default())];
                e.match_literal.entry(*from).or_default().entry(id).or_default().insert(*to);
                e.compl_literal[*fallback_level].entry(*from).or_default().insert(id);
            }
            Inp::Command { cmd, fallback_level } => {
                if let Some(id) = cmd_id(cmd.as_str()) {
                    e.match_command.entry(*from).or_default().entry(id).or_default().insert(*to);
                    e.compl_command[*fallback_level].entry(*from).or_default().insert(id);
                }
            }
            Inp::Compadd { cmd, fallback_level } => {
                if let Some(id) = cmd_id(cmd.as_str()) {
                    e.match_compadd.entry(*from).or_default().entry(id).or_default().insert(*to);
                    e.compl_compadd[*fallback_level].entry(*from).or_default().insert(id);
                }
            }
            Inp::Star => {
                e.star.insert((*from, *to));
            }
            Inp::Subword { .. } => {}
        }
    }
    e
}

fn cmp_match(name: &str, exp: &BTreeMap<u32, BTreeMap<u32, BTreeSet<u32>>>, got: &BTreeMap<u32, BTreeMap<u32, u32>>) -> Option<String> {
    let ek: BTreeSet<&u32> = exp.keys().collect();
    let gk: BTreeSet<&u32> = got.keys().collect();
    if ek != gk {
        return Some(format!("{name}: states with entries {gk:?}, automaton has such transitions from {ek:?}"));
    }
    for (s, m) in exp {
        let g = &got[s];
        if m.keys().collect::<BTreeSet<_>>() != g.keys().collect::<BTreeSet<_>>() {
            return Some(format!("{name}[{s}]: ids {:?}, expected {:?}", g.keys().collect::<Vec<_>>(), m.keys().collect::<Vec<_>>()));
        }
        for (id, tg) in m {
            if !tg.contains(&g[id]) {
                return Some(format!("{name}[{s}][{id}] = {}, the automaton goes to {:?}", g[id], tg));
            }
        }
    }
    None
}

fn cmp_compl<T: Copy + Into<u64>>(name: &str, exp: &Vec<BTreeMap<u32, BTreeSet<u32>>>, got: &Vec<BTreeMap<u32, Vec<T>>>) -> Option<String> {
    if exp.len() != got.len() {
        return Some(format!("{name}: {} levels, expected {}", got.len(), exp.len()));
    }
    for (lvl, (e, g)) in exp.iter().zip(got.iter()).enumerate() {
        let e2: BTreeMap<u32, BTreeSet<u64>> = e.iter().filter(|(_, v)| !v.is_empty()).map(|(k, v)| (*k, v.iter().map(|x| *x as u64).collect())).collect();
        let g2: BTreeMap<u32, BTreeSet<u64>> = g.iter().filter(|(_, v)| !v.is_empty()).map(|(k, v)| (*k, v.iter().map(|x| (*x).into()).collect())).collect();
        if e2 != g2 {
            return Some(format!("{name} level {lvl}: {g2:?}, expected {e2:?}"));
        }
        for (s, v) in g {
            let set: BTreeSet<u64> = v.iter().map(|x| (*x).into()).collect();
            if set.len() != v.len() {
                return Some(format!("{name} level {lvl} state {s}: duplicate ids {:?}", v.iter().map(|x| (*x).into()).collect::<Vec<u64>>()));
            }
        }
    }
    None
}

/// Compare the dump of the real tables with the expectation. Returns (field, message).
pub fn compare(e: &Expected, d: &th::Dump, flags: (bool, bool, bool)) -> Option<(String, String)> {
    // literal list: same multiset of (text, description), ids = start.., longest first
    let el: Vec<(u32, String, String)> = e.literals.clone();
    let gl = &d.all_literals;
    if el.len() != gl.len() {
        return Some(("all_literals".into(), format!("{} literals, expected {}", gl.len(), el.len())));
    }
    for (i, (id, _, _)) in gl.iter().enumerate() {
        if *id != el[i].0 {
            return Some(("all_literals".into(), format!("literal #{i} has id {id}, expected {}", el[i].0)));
        }
    }
    let es: BTreeSet<(String, String)> = el.iter().map(|(_, t, d)| (t.clone(), d.clone())).collect();
    let gs: BTreeSet<(String, String)> = gl.iter().map(|(_, t, d)| (t.clone(), d.clone())).collect();
    if es != gs || gs.len() != gl.len() {
        return Some(("all_literals".into(), format!("literal/description pairs {gl:?}, expected {el:?}")));
    }
    for w in gl.windows(2) {
        if (w[0].1.len(), &w[0].1) < (w[1].1.len(), &w[1].1) {
            return Some(("all_literals.order".into(), format!("{:?} is listed before the longer/greater {:?}", w[0].1, w[1].1)));
        }
    }
    // the expectation's ids follow its own tie order between equal texts with different
    // descriptions; translate through (text, description)
    let gid: BTreeMap<(String, String), u32> = gl.iter().map(|(i, t, dd)| ((t.clone(), dd.clone()), *i)).collect();
    let tr: BTreeMap<u32, u32> = el.iter().map(|(i, t, dd)| (*i, gid[&(t.clone(), dd.clone())])).collect();
    let map_ids = |m: &BTreeMap<u32, BTreeMap<u32, BTreeSet<u32>>>| -> BTreeMap<u32, BTreeMap<u32, BTreeSet<u32>>> { m.iter().map(|(s, mm)| (*s, mm.iter().map(|(i, t)| (tr[i], t.clone())).collect())).collect() };
    if let Some(m) = cmp_match("literal match table", &map_ids(&e.match_literal), &d.match_literal) {
        return Some(("match.literal".into(), m));
    }
    match (&d.match_command, flags.0) {
        (Some(g), true) => {
            if let Some(m) = cmp_match("command match table", &e.match_command, g) {
                return Some(("match.command".into(), m));
            }
        }
        (None, false) => {}
        (g, f) => return Some(("match.command".into(), format!("command table present={} but commands-code flag={f}", g.is_some()))),
    }
    match (&d.match_compadd, flags.1) {
        (Some(g), true) => {
            if let Some(m) = cmp_match("compadd match table", &e.match_compadd, g) {
                return Some(("match.compadd".into(), m));
            }
        }
        (None, false) => {}
        (g, f) => return Some(("match.compadd".into(), format!("compadd table present={} but flag={f}", g.is_some()))),
    }
    match (&d.match_star, flags.2) {
        (Some(g), true) => {
            let gs: BTreeSet<(u32, u32)> = g.iter().cloned().collect();
            if gs != e.star || gs.len() != g.len() {
                return Some(("match.star".into(), format!("any-word transitions {g:?}, expected {:?}", e.star)));
            }
        }
        (None, false) => {}
        (g, f) => return Some(("match.star".into(), format!("star table present={} but flag={f}", g.is_some()))),
    }
    if d.max_fallback_level != e.max_level {
        return Some(("max_fallback_level".into(), format!("{} expected {}", d.max_fallback_level, e.max_level)));
    }
    let el2: Vec<BTreeMap<u32, BTreeSet<u32>>> = e.compl_literal.iter().map(|m| m.iter().map(|(s, ids)| (*s, ids.iter().map(|i| tr[i]).collect())).collect()).collect();
    if let Some(m) = cmp_compl("literal completions", &el2, &d.compl_literal) {
        return Some(("completion.literal".into(), m));
    }
    if let (Some(g), true) = (&d.compl_command, flags.0) {
        if let Some(m) = cmp_compl("command completions", &e.compl_command, g) {
            return Some(("completion.command".into(), m));
        }
    }
    if let (Some(g), true) = (&d.compl_compadd, flags.1) {
        let g2: Vec<BTreeMap<u32, Vec<u32>>> = g.iter().map(|m| m.iter().map(|(k, v)| (*k, v.iter().map(|x| *x as u32).collect())).collect()).collect();
        if let Some(m) = cmp_compl("compadd completions", &e.compl_compadd, &g2) {
            return Some(("completion.compadd".into(), m));
        }
    }
    None
}

fn all_commands(dfa: &DFA) -> BTreeSet<String> {
    let mut out = BTreeSet::new();
    let mut collect = |d: &DFA| {
        for (_, inp, _) in transitions_of(d) {
            match inp {
                Inp::Command { cmd, .. } | Inp::Compadd { cmd, .. } => {
                    out.insert(cmd.as_str().to_string());
                }
                _ => {}
            }
        }
    };
    collect(dfa);
    for (_, inp, _) in transitions_of(dfa) {
        if let Inp::Subword { subdfa, .. } = inp {
            collect(dh::subdfa_of(dfa, subdfa));
        }
    }
    out
}

fn shape_of(d: &th::Dump) -> String {
    format!("{:?}|{:?}|{:?}|{:?}|{}|{:?}|{:?}|{:?}", d.match_literal, d.match_command, d.match_compadd, d.match_star, d.max_fallback_level, d.compl_literal, d.compl_command, d.compl_compadd)
}

pub struct ShellView {
    pub cmds: Vec<String>,
    pub main: th::Dump,
    /// (emitted subword id, tables)
    pub subs: Vec<(usize, th::Dump)>,
    pub needs: [bool; 7],
}

/// Everything an emitter derives from the automaton, composed the way write_completion_script does.
pub fn shell_view(dfa: &DFA, shell: &str, out: &mut Vec<(String, String)>) -> ShellView {
    let start = array_start(shell);
    let needs = th::needs(dfa);
    let cmds_set = th::commands(dfa);
    let cmds: Vec<String> = cmds_set.iter().map(|c| c.as_str().to_string()).collect();
    let zsh = shell == "zsh";
    // expectations about the ids and flags
    let ec = all_commands(dfa);
    if cmds.iter().cloned().collect::<BTreeSet<_>>() != ec || cmds.len() != ec.len() {
        out.push(("commands".into(), format!("command ids {cmds:?}, commands of the automaton {ec:?}")));
    }
    let trans = transitions_of(dfa);
    let has = |f: &dyn Fn(&Inp) -> bool, d: &DFA| transitions_of(d).iter().any(|(_, i, _)| f(i));
    let subs_used: Vec<complgen::dfa::DFAId> = {
        let mut v = vec![];
        for (_, i, _) in &trans {
            if let Inp::Subword { subdfa, .. } = i {
                if !v.contains(subdfa) {
                    v.push(*subdfa);
                }
            }
        }
        v
    };
    let exp_needs = [
        !subs_used.is_empty(),
        has(&|i| matches!(i, Inp::Command { .. }), dfa),
        subs_used.iter().any(|s| has(&|i| matches!(i, Inp::Command { .. }), dh::subdfa_of(dfa, *s))),
        has(&|i| matches!(i, Inp::Compadd { .. }), dfa),
        subs_used.iter().any(|s| has(&|i| matches!(i, Inp::Compadd { .. }), dh::subdfa_of(dfa, *s))),
        has(&|i| matches!(i, Inp::Star), dfa),
        subs_used.iter().any(|s| has(&|i| matches!(i, Inp::Star), dh::subdfa_of(dfa, *s))),
    ];
    if exp_needs != needs {
        out.push(("needs_flags".into(), format!("{needs:?}, expected {exp_needs:?} (subwords, top commands, subword commands, top compadds, subword compadds, top star, subword star)")));
    }
    let main_flags = (needs[1], zsh && needs[3], needs[5]);
    let main = th::lookup_tables(dfa, &cmds_set, start, main_flags.0, main_flags.1, main_flags.2).dump();
    if let Some((f, m)) = compare(&expected(dfa, &cmds, start), &main, main_flags) {
        out.push((format!("main.{f}"), m));
    }
    let ids = th::subwords(dfa, start);
    let id_set: BTreeSet<usize> = ids.iter().map(|(_, i)| *i).collect();
    if ids.len() != subs_used.len() || id_set.len() != ids.len() || id_set.iter().next().map_or(false, |m| *m != start) || id_set.iter().last().map_or(false, |m| *m != start + ids.len() - 1) || !ids.iter().all(|(d, _)| subs_used.contains(d)) {
        out.push(("subword_ids".into(), format!("within-word automata numbered {:?} from base {start}, automaton uses {} of them", ids.iter().map(|(_, i)| *i).collect::<Vec<_>>(), subs_used.len())));
    }
    let sub_flags = (needs[2], zsh && needs[4], needs[6]);
    let mut subs = vec![];
    let mut tabs = vec![];
    for (dfaid, id) in &ids {
        let sd = dh::subdfa_of(dfa, *dfaid);
        let t = th::lookup_tables(sd, &cmds_set, start, sub_flags.0, sub_flags.1, sub_flags.2);
        let dump = t.dump();
        if let Some((f, m)) = compare(&expected(sd, &cmds, start), &dump, sub_flags) {
            out.push((format!("subword.{f}"), format!("within-word automaton {id}: {m}")));
        }
        subs.push((*id, dump));
        tabs.push(t);
    }
    // grouping of same-shaped within-word automata
    for i in 0..tabs.len() {
        for j in 0..tabs.len() {
            let iso = tabs[i].isomorphic_to(&tabs[j]);
            let same = shape_of(&subs[i].1) == shape_of(&subs[j].1);
            if iso && !same {
                out.push(("grouping.isomorphic_implies_same_tables".into(), format!("within-word automata {} and {} are grouped as same-shaped but their printed tables differ", subs[i].0, subs[j].0)));
            }
            if iso && subs[i].1.shape_hash != subs[j].1.shape_hash {
                out.push(("grouping.hash_consistent".into(), format!("within-word automata {} and {} are isomorphic but hash differently (they would never be compared)", subs[i].0, subs[j].0)));
            }
            if i == j && !iso {
                out.push(("grouping.reflexive".into(), format!("within-word automaton {} is not isomorphic to itself", subs[i].0)));
            }
        }
    }
    ShellView { cmds, main, subs, needs }
}

fn viol(obl: &str, what: String, text: &str, shell: &str, class: &str) -> Violation {
    Violation {
        obligation: obl.to_string(),
        what,
        input: J::obj(vec![("grammar", J::s(text)), ("shell", J::s(shell))]),
        expected: J::s("tables describe the automaton"),
        actual: J::s("see message"),
        signature: format!("{obl}|{class}"),
        replay_args: vec!["c04_tables".into(), obl.into(), shell.into(), text.into()],
    }
}

/// The text readers know the emitted scripts by the names of their tables. If a name they rely
/// on no longer occurs anywhere in the script of a grammar that uses every feature, the layout of
/// the scripts has changed and the readers cannot judge: that is reported as undecided, never as
/// a violation.
pub fn layout_recognised(shell: &str) -> std::result::Result<(), String> {
    const PROBE: &str = "cmd (--x=(a \"d1\" | b <U>) | k={{{ c1 }}} | <PATH> | foo \"dd\" || bar <Y> | <Z>) [<U>]...;\n<Y> ::= {{{ echo y }}};\n<Z@zsh> ::= {{{ _z }}};\n<Z> ::= {{{ z }}};\n";
    let anchors: &[&str] = match shell {
        "bash" => &["local -a literals=(", "literal_transitions", "command_transitions", "star_transitions", "subword_transitions", "max_fallback_level", "literal_transitions_level_", "commands_level_", "subword_transitions_level_", "_cmd_subword_", "_cmd_cmd_", "local state=", "complete -o nospace -F _cmd cmd"],
        "fish" => &["literals", "descrs", "descr_literal_ids", "descr_ids", "literal_transitions_inputs", "literal_transitions_tos", "command_transitions", "star_transitions_from", "star_transitions_to", "subword_transitions_ids", "subword_transitions_tos", "max_fallback_level", "literal_froms_level_", "literal_inputs_level_", "commands_level_", "command_froms_level_", "subwords_level_", "subword_froms_level_", "_cmd_subword_", "_cmd_cmd_"],
        "zsh" => &["literals", "descriptions", "descr_id_from_literal_id", "literal_transitions", "command_transitions", "compadd_transitions", "star_transitions", "subword_transitions", "max_fallback_level", "literal_transitions_level_", "commands_level_", "compadd_commands_level_", "subword_transitions_level_", "_cmd_subword_", "_cmd_cmd_"],
        _ => &["literals", "descriptions", "literal_transitions", "command_transitions", "star_transitions", "subword_transitions", "max_fallback_level", "literal_transitions_level_", "commands_level_", "subword_transitions_level_", "_cmd_subword_", "_cmd_cmd_"],
    };
    let sh = shell.to_string();
    let script = match guarded(move || -> std::result::Result<String, String> {
        let comp = compile(PROBE, &sh)?;
        let mut buf: Vec<u8> = vec![];
        let r = match sh.as_str() {
            "bash" => complgen::bash::write_completion_script(&mut buf, "cmd", &comp.min),
            "zsh" => complgen::zsh::write_completion_script(&mut buf, "cmd", &comp.min),
            "fish" => complgen::fish::write_completion_script(&mut buf, "cmd", &comp.min),
            _ => complgen::pwsh::write_completion_script(&mut buf, "cmd", &comp.min),
        };
        r.map_err(|e| format!("{e:?}"))?;
        Ok(String::from_utf8_lossy(&buf).into_owned())
    }) {
        Ok(Ok(s)) => s,
        // the probe does not compile / emit on this tree: let the ordinary checks speak
        _ => return Ok(()),
    };
    for a in anchors {
        if !script.contains(a) {
            return Err(format!("the {shell} script of a grammar using every feature no longer contains `{a}`: the layout of the emitted scripts has changed and the text reader of this check cannot judge it"));
        }
    }
    Ok(())
}

thread_local! {
    /// shells whose script layout was not recognised in this run: text comparison skipped
    pub static SKIP_TEXT: std::cell::RefCell<std::collections::BTreeSet<String>> = std::cell::RefCell::new(Default::default());
}

pub fn check_one(text: &str, shell: &str, out: &mut Vec<Violation>) -> bool {
    let (t2, s2) = (text.to_string(), shell.to_string());
    let Ok(Ok(comp)) = guarded(move || compile(&t2, &s2)) else { return false };
    let comp2 = comp.min.clone();
    let sh = shell.to_string();
    let skip_text = SKIP_TEXT.with(|s| s.borrow().contains(shell));
    let res = guarded(move || {
        let mut msgs = vec![];
        let v = shell_view(&comp2, &sh, &mut msgs);
        let mut text_msgs = vec![];
        if skip_text {
        } else if sh == "bash" {
            crate::c04bash::check_text(&comp2, &v, &mut text_msgs);
        } else {
            crate::c04text::check_text(&comp2, &v, &sh, &mut text_msgs);
        }
        (msgs, text_msgs)
    });
    match res {
        Err(p) => out.push(viol("C06.pipeline.no_panic", format!("building the lookup tables / script panicked: {p}"), text, shell, &format!("panic:{}", p.chars().take(50).collect::<String>()))),
        Ok((msgs, text_msgs)) => {
            for (f, m) in msgs {
                out.push(viol(&format!("C04.tables.{f}"), m, text, shell, &f));
            }
            for (f, m) in text_msgs {
                out.push(viol(&format!("C04.{shell}_text.{f}"), m, text, shell, &f));
            }
        }
    }
    true
}

pub fn run(thorough: bool, seed: u64) -> Report {
    let shells = ["bash", "fish", "zsh", "pwsh"];
    let mut rep = Report {
        bound: format!("grammar corpus of the pipeline stand-in ({} tier) x {:?}: main and within-word tables vs automaton, grouping consistency; bash: emitted text decoded", if thorough { "thorough" } else { "quick" }, shells),
        exhaustive: true,
        ..Default::default()
    };
    for sh in shells {
        if let Err(why) = layout_recognised(sh) {
            rep.undecided.push(why);
            SKIP_TEXT.with(|s| s.borrow_mut().insert(sh.to_string()));
        }
    }
    let corpus = cpipe::corpus(thorough, seed);
    let mut accepted = 0u64;
    for gr in &corpus {
        let text = gr.print();
        for sh in shells {
            rep.cases += 1;
            if check_one(&text, sh, &mut rep.violations) {
                accepted += 1;
                if text.contains('=') || text.contains("||") {
                    rep.distinct_nontrivial += 1;
                }
            }
        }
    }
    // a few grammars with several same-shaped / differently-shaped within-word automata
    for text in [
        "cmd a=(<P> || <Q>) | b=(<Q> || <P>);\n<P@zsh> ::= {{{ p }}};\n<Q@zsh> ::= {{{ q }}};\n<P> ::= {{{ pp }}};\n<Q> ::= {{{ qq }}};\n",
        "cmd --x=(a|b) | --y=(c|d) | --z=(e|f|g) | w=<U>;\n",
        "cmd --x=(a \"d1\"|b) | --y=(c|d \"d2\") || k={{{ c1 }}} | l={{{ c2 }}};\n",
        "cmd (--long=(x|y) | --l=(x|y))... (s1=<PATH> | s2=<DIRECTORY>);\n",
    ] {
        for sh in shells {
            rep.cases += 1;
            rep.distinct_nontrivial += 1;
            check_one(text, sh, &mut rep.violations);
        }
    }
    let mut pool_pairs = 0u64;
    // isomorphic_to / shape_hash on pairs the emitters happen not to compare: every pair of
    // distinct within-word table sets met anywhere in the corpus
    for sh in ["bash", "zsh"] {
        let (pairs, mut vs) = iso_pool(&corpus, sh);
        pool_pairs += pairs;
        rep.violations.append(&mut vs);
    }
    rep.samples.push(J::obj(vec![("accepted_cases", J::Num(accepted as i64)), ("isomorphism_pairs_compared", J::Num(pool_pairs as i64))]));
    if accepted * 3 < rep.cases {
        rep.undecided.push("fewer than a third of the corpus accepted".into());
    }
    rep
}

pub fn replay(args: &[String]) -> i32 {
    let (obl, shell, text) = (&args[0], &args[1], &args[2]);
    println!("grammar:\n{text}shell: {shell}");
    let mut v = vec![];
    check_one(text, shell, &mut v);
    for x in &v {
        println!("  [{}] {}", x.obligation, x.what);
    }
    if v.iter().any(|x| &x.obligation == obl) { 1 } else { 0 }
}

/// All distinct within-word table sets of the corpus (for one shell's numbering), compared
/// pairwise: `isomorphic_to` may only hold between table sets that print identically, and
/// isomorphic table sets must hash alike.
fn iso_pool(corpus: &[crate::gram::Grammar], shell: &str) -> (u64, Vec<Violation>) {
    let start = array_start(shell);
    let mut pool: Vec<(th::Tables, String, u64, String)> = vec![];
    let mut seen: BTreeSet<String> = BTreeSet::new();
    // same pieces, same shape, different assignment of `||` levels / descriptions / commands
    let mut texts: Vec<String> = vec![];
    for (o1, o2) in [("|", "|"), ("|", "||"), ("||", "|"), ("||", "||")] {
        texts.push(format!("cmd p(aa {o1} bb {o2} cc) q;\n"));
        texts.push(format!("cmd p(aa {o1} {{{{{{ c1 }}}}}} {o2} {{{{{{ c2 }}}}}}) q;\n"));
        texts.push(format!("cmd p({{{{{{ c2 }}}}}} {o1} {{{{{{ c1 }}}}}} {o2} aa) q;\n"));
        texts.push(format!("cmd p(<P> {o1} <Q> {o2} aa) q;\n<P@zsh> ::= {{{{{{ c1 }}}}}};\n<Q@zsh> ::= {{{{{{ c2 }}}}}};\n<P> ::= {{{{{{ c1 }}}}}};\n<Q> ::= {{{{{{ c2 }}}}}};\n"));
        texts.push(format!("cmd p(aa {o1} <U>) q {o2} r;\n"));
    }
    texts.extend(corpus.iter().map(|g| g.print()));
    for text in texts {
        if pool.len() >= 1200 {
            break;
        }
        if !text.contains('=') && !text.contains(")(") && !text.contains("<O>") && !text.starts_with("cmd p(") {
            // cheap pre-filter: no within-word expression
            continue;
        }
        let (t2, s2) = (text.clone(), shell.to_string());
        let Ok(Ok(comp)) = guarded(move || compile(&t2, &s2)) else { continue };
        let dfa = &comp.min;
        let needs = th::needs(dfa);
        let cmds = th::commands(dfa);
        for (dfaid, _) in th::subwords(dfa, start) {
            let sd = dh::subdfa_of(dfa, dfaid);
            let t = th::lookup_tables(sd, &cmds, start, needs[2], shell == "zsh" && needs[4], needs[6]);
            let d = t.dump();
            let shape = shape_of(&d);
            if seen.insert(shape.clone()) {
                pool.push((t, shape, d.shape_hash, text.clone()));
            }
        }
    }
    let mut vs = vec![];
    let mut pairs = 0u64;
    for i in 0..pool.len() {
        for j in (i + 1)..pool.len() {
            pairs += 1;
            // distinct shapes by construction
            if pool[i].0.isomorphic_to(&pool[j].0) || pool[j].0.isomorphic_to(&pool[i].0) {
                vs.push(Violation {
                    obligation: "C04.tables.grouping.isomorphic_implies_same_tables".into(),
                    what: format!("two within-word table sets that print differently are reported isomorphic (they would share one emitted table set): [{}] vs [{}]", pool[i].1.chars().take(160).collect::<String>(), pool[j].1.chars().take(160).collect::<String>()),
                    input: J::obj(vec![("grammar_a", J::s(&pool[i].3)), ("grammar_b", J::s(&pool[j].3)), ("shell", J::s(shell))]),
                    expected: J::s("not isomorphic"),
                    actual: J::s("isomorphic"),
                    signature: "C04.tables.grouping.isomorphic_implies_same_tables|pool".into(),
                    replay_args: vec!["c04_tables".into(), "C04.tables.grouping.isomorphic_implies_same_tables".into(), shell.into(), pool[i].3.clone()],
                });
                if vs.len() > 20 {
                    return (pairs, vs);
                }
            }
        }
    }
    (pairs, vs)
}
