//! C06 / C13 twins and bounded stand-ins on the real code:
//!  * `display`: dfa::diagnostic_display_input is total over Inp
//!  * `spans`:   every span the parser produces is well-formed and lies inside its source line
//!  * `cli`:     the built `complgen` binary, run as a subprocess, exits 0 with a script or 1 with
//!               a diagnostic, never anything else; located diagnostics point at the planted token
use crate::cpipe;
use crate::gram::*;
use crate::json::J;
use crate::pipeline::guarded;
use crate::{Report, Violation};
use complgen::dfa::{Inp, verif_hooks as dh};
use complgen::parse::{Grammar as RealGrammar, HumanSpan, Statement, verif_hooks as ph};
use std::collections::BTreeSet;
use std::io::Write;
use std::process::{Command, Stdio};

pub fn display(_thorough: bool) -> Report {
    let mut rep = Report { bound: "one value of every variant of the automaton symbol type Inp (with and without description)".into(), exhaustive: true, ..Default::default() };
    let u = |s: &str| ustr::ustr(s);
    let cases: Vec<(&str, Inp)> = vec![
        ("Literal", Inp::Literal { literal: u("foo"), description: None, fallback_level: 0 }),
        ("Literal+descr", Inp::Literal { literal: u("foo"), description: Some(u("d \"q\"")), fallback_level: 1 }),
        ("Star", Inp::Star),
        ("Command", Inp::Command { cmd: u("echo a"), fallback_level: 0 }),
        ("Compadd", Inp::Compadd { cmd: u("_path_files"), fallback_level: 0 }),
        ("Subword", Inp::Subword { subdfa: dh::dfa_id_from_raw(0), fallback_level: 0 }),
    ];
    for (name, inp) in cases {
        rep.cases += 1;
        rep.distinct_nontrivial += 1;
        let inp2 = inp.clone();
        let r = guarded(move || {
            let mut s = String::new();
            complgen::dfa::diagnostic_display_input(&mut s, &inp2).map(|_| s).map_err(|e| format!("{e:?}"))
        });
        match r {
            Ok(Ok(s)) => rep.samples.push(J::obj(vec![("variant", J::s(name)), ("rendered", J::s(s))])),
            Ok(Err(e)) => rep.samples.push(J::obj(vec![("variant", J::s(name)), ("error", J::s(e))])),
            Err(p) => rep.violations.push(Violation {
                obligation: "C06.dfa.diagnostic_display_input.body".into(),
                what: format!("diagnostic_display_input panics on Inp::{name}: {p}"),
                input: J::s(format!("{inp:?}")),
                expected: J::s("Ok(rendered text)"),
                actual: J::s(format!("panic: {p}")),
                signature: format!("C06.dfa.diagnostic_display_input.body|{name}"),
                replay_args: vec!["c06_display".into(), name.into()],
            }),
        }
    }
    rep
}

pub fn replay_display(args: &[String]) -> i32 {
    let rep = display(false);
    let mut rc = 0;
    for v in &rep.violations {
        if args.is_empty() || v.signature.ends_with(&args[0]) {
            println!("{}", v.what);
            rc = 1;
        }
    }
    if rc == 0 {
        println!("diagnostic_display_input renders every Inp variant");
    }
    rc
}

/// Re-lay-out a grammar text: every k-th blank outside quotes / {{{ }}} becomes newline + indent,
/// optionally with a comment line in between.
pub fn relayout(text: &str, k: usize, comments: bool) -> String {
    let cs: Vec<char> = text.chars().collect();
    let mut out = String::new();
    let mut i = 0;
    let mut n = 0;
    let mut in_q = false;
    let mut in_cmd = false;
    while i < cs.len() {
        let c = cs[i];
        if in_q {
            out.push(c);
            if c == '\\' && i + 1 < cs.len() {
                out.push(cs[i + 1]);
                i += 1;
            } else if c == '"' {
                in_q = false;
            }
        } else if in_cmd {
            out.push(c);
            if c == '}' && i + 2 < cs.len() && cs[i + 1] == '}' && cs[i + 2] == '}' {
                out.push_str("}}");
                i += 2;
                in_cmd = false;
            }
        } else if c == '\\' && i + 1 < cs.len() {
            out.push(c);
            out.push(cs[i + 1]);
            i += 1;
        } else if c == '"' {
            in_q = true;
            out.push(c);
        } else if c == '{' && i + 2 < cs.len() && cs[i + 1] == '{' && cs[i + 2] == '{' {
            in_cmd = true;
            out.push_str("{{{");
            i += 2;
        } else if c == ' ' {
            n += 1;
            if k > 0 && n % k == 0 {
                if comments && n % (2 * k) == 0 {
                    out.push_str("\n  # a comment\n   ");
                } else {
                    out.push_str("\n    ");
                }
            } else {
                out.push(' ');
            }
        } else {
            out.push(c);
        }
        i += 1;
    }
    out
}

fn span_ok(sp: &HumanSpan, lines: &[&str]) -> Result<(), String> {
    if sp.line < 1 || sp.line > lines.len().max(1) {
        return Err(format!("line {} outside 1..={}", sp.line, lines.len()));
    }
    if sp.column_start < 1 || sp.column_start > sp.column_end {
        return Err(format!("columns {}..{} not a forward range", sp.column_start, sp.column_end));
    }
    let len = lines.get(sp.line - 1).map(|l| l.len()).unwrap_or(0);
    if sp.column_end > len + 1 {
        return Err(format!("column_end {} beyond end of line (length {})", sp.column_end, len));
    }
    Ok(())
}

fn collect_spans(g: &RealGrammar) -> Vec<(String, HumanSpan)> {
    let mut out = vec![];
    for (i, e) in g.arena.iter().enumerate() {
        out.push((format!("expr #{i}"), ph::expr_span(e)));
    }
    for st in &g.statements {
        match st {
            Statement::CallVariant { name, name_span, .. } => out.push((format!("call variant name {name}"), *name_span)),
            Statement::NonterminalDefinition(d) => {
                let (name, sp, shell, _) = ph::defn_parts(d);
                out.push((format!("definition <{name}>"), sp));
                if let Some((s, ssp)) = shell {
                    out.push((format!("shell name {s}"), ssp));
                }
            }
        }
    }
    out
}

pub fn spans(thorough: bool, seed: u64) -> Report {
    let mut rep = Report { bound: "grammars of the pipeline corpus, each laid out on one line and re-laid-out with a line break at every 1st/2nd/3rd blank (with and without comment lines); every span stored by the parser".into(), exhaustive: true, ..Default::default() };
    let corpus = cpipe::corpus(thorough, seed);
    let step = if thorough { 1 } else { 7 };
    let mut seen = BTreeSet::new();
    for (gi, gr) in corpus.iter().enumerate() {
        if gi % step != 0 {
            continue;
        }
        let base = gr.print();
        for (k, comments) in [(0usize, false), (1, false), (2, true), (3, false)] {
            let text = relayout(&base, k, comments);
            rep.cases += 1;
            let Ok(g) = RealGrammar::parse(&text) else { continue };
            let lines: Vec<&str> = text.lines().collect();
            for (what, sp) in collect_spans(&g) {
                if k > 0 && seen.insert((sp.line, sp.column_start, sp.column_end, k)) {
                    rep.distinct_nontrivial += 1;
                }
                if let Err(why) = span_ok(&sp, &lines) {
                    rep.violations.push(Violation {
                        obligation: "C13.parser.span_wf".into(),
                        what: format!("span of {what} is {sp:?}: {why}"),
                        input: J::s(&text),
                        expected: J::s("1 <= line <= #lines, 1 <= column_start <= column_end <= len(line)+1"),
                        actual: J::s(format!("{sp:?}")),
                        signature: format!("C13.parser.span_wf|{}", if why.contains("forward") { "end-before-start (construct spans several lines)" } else if why.contains("beyond") { "end beyond line" } else { "line out of range" }),
                        replay_args: vec!["c06_spans".into(), text.clone()],
                    });
                    break;
                }
            }
        }
    }
    rep
}

pub fn replay_spans(args: &[String]) -> i32 {
    let text = &args[0];
    println!("grammar:\n{text}");
    let Ok(g) = RealGrammar::parse(text) else {
        println!("(does not parse)");
        return 0;
    };
    let lines: Vec<&str> = text.lines().collect();
    let mut rc = 0;
    for (what, sp) in collect_spans(&g) {
        if let Err(why) = span_ok(&sp, &lines) {
            println!("span of {what} = {sp:?}: {why}");
            rc = 1;
        }
    }
    rc
}

// ---------------------------------------------------------------------------------------------
// the binary as a subprocess

pub struct Run {
    pub code: Option<i32>,
    pub stdout: String,
    pub stderr: String,
    pub timed_out: bool,
}

pub fn run_cli(bin: &str, shell: &str, input: &[u8], out_path: &str) -> Run {
    let mut child = match Command::new(bin)
        .arg(format!("--{shell}"))
        .arg(out_path)
        .arg("-")
        .stdin(Stdio::piped())
        .stdout(Stdio::piped())
        .stderr(Stdio::piped())
        .spawn()
    {
        Ok(c) => c,
        Err(e) => return Run { code: None, stdout: String::new(), stderr: format!("spawn failed: {e}"), timed_out: false },
    };
    {
        let mut stdin = child.stdin.take().unwrap();
        let _ = stdin.write_all(input);
    }
    // wait with timeout
    let start = std::time::Instant::now();
    loop {
        match child.try_wait() {
            Ok(Some(_)) => break,
            Ok(None) => {
                if start.elapsed().as_secs() >= 20 {
                    let _ = child.kill();
                    let _ = child.wait();
                    return Run { code: None, stdout: String::new(), stderr: "timeout".into(), timed_out: true };
                }
                std::thread::sleep(std::time::Duration::from_millis(2));
            }
            Err(_) => break,
        }
    }
    let o = child.wait_with_output().unwrap();
    Run { code: o.status.code(), stdout: String::from_utf8_lossy(&o.stdout).into_owned(), stderr: String::from_utf8_lossy(&o.stderr).into_owned(), timed_out: false }
}

fn mutate(rng: &mut Rng, text: &str) -> Vec<u8> {
    let toks: Vec<&str> = text.split_inclusive(|c: char| c == ' ' || c == '\n').collect();
    let mut t: Vec<String> = toks.iter().map(|s| s.to_string()).collect();
    if t.is_empty() {
        return text.as_bytes().to_vec();
    }
    match rng.below(9) {
        0 => {
            let i = rng.below(t.len());
            t.remove(i);
        }
        1 => {
            let i = rng.below(t.len());
            let x = t[i].clone();
            t.insert(i, x);
        }
        2 => {
            let i = rng.below(t.len());
            let j = rng.below(t.len());
            t.swap(i, j);
        }
        3 => {
            let i = rng.below(t.len());
            let b = ["(", ")", "[", "]", "<", ">", "{{{", "}}}", "\"", "|", "||", "...", ";", "\\", "@"][rng.below(15)];
            t.insert(i, format!("{b} "));
        }
        4 => {
            let s: String = t.concat();
            let cut = rng.below(s.len().max(1));
            return s.as_bytes()[..cut].to_vec();
        }
        5 => {
            let i = rng.below(t.len());
            t.insert(i, "žluťoučký\u{201c}λ ".to_string());
        }
        6 => {
            let mut b = t.concat().into_bytes();
            if !b.is_empty() {
                let i = rng.below(b.len());
                b[i] = [0u8, 0xff, 0xc3, b'\r', b'\t', 0x0c][rng.below(6)];
            }
            return b;
        }
        7 => {
            let i = rng.below(t.len());
            t.insert(i, "\n\n# c\n".to_string());
        }
        _ => {
            let i = rng.below(t.len());
            t[i] = t[i].replace(' ', "\n");
        }
    }
    t.concat().into_bytes()
}

fn planted() -> Vec<(&'static str, String)> {
    // grammars with one planted mistake each (the classes of C08) incl. the delicate placements
    vec![
        ("cycle-2", "cmd <A>;\n<A> ::= foo <B>;\n<B> ::= bar <A>;\n".into()),
        ("cycle-self", "cmd <A>;\n<A> ::= foo <A>;\n".into()),
        ("cycle-unreachable-from-roots", "cmd <A> <C>;\n<A> ::= foo <B>;\n<B> ::= bar <A>;\n<C> ::= x;\n".into()),
        ("cycle-behind-chain", "cmd <R>;\n<R> ::= r <A>;\n<A> ::= foo <B>;\n<B> ::= bar <A>;\n".into()),
        ("cycle-unused", "cmd x;\n<A> ::= foo <B>;\n<B> ::= bar <A>;\n".into()),
        ("cycle-with-tail-D", "cmd <A>;\n<A> ::= foo <B>;\n<B> ::= bar <A> <D>;\n<D> ::= x;\n".into()),
        ("cycle-with-tail-H", "cmd <A>;\n<A> ::= foo <B>;\n<B> ::= bar <A> <H>;\n<H> ::= x;\n".into()),
        ("cycle-with-tail-K", "cmd <A>;\n<A> ::= foo <B>;\n<B> ::= bar <A> <K>;\n<K> ::= x <L>;\n<L> ::= y;\n".into()),
        ("cycle-with-tail-Q", "cmd <Q>;\n<Q> ::= foo <R>;\n<R> ::= bar <Q> <S> <T>;\n<S> ::= x;\n<T> ::= y;\n".into()),
        ("multi-line-spec", "cmd <X>;\n<X@bash> ::= aaaaaaa\n  b;\n".into()),
        ("multi-line-dup", "cmd <X>;\n<X> ::= a;\n<X>\n ::= b;\n".into()),
        ("conflict-across-subword", "cmd --a=(b|c) (x \"d1\" | x \"d2\");\n".into()),
        ("conflict", "cmd (x \"d1\" | x \"d2\");\n".into()),
        ("unbounded", "cmd <U>suffix;\n".into()),
        ("subword-spaces", "cmd --x=<A>;\n<A> ::= a b;\n".into()),
        ("empty", "".into()),
        ("only-defs", "<A> ::= a;\n".into()),
        ("slash", "a/b c;\n".into()),
        ("varying", "a x;\nb y;\n".into()),
        ("unknown-shell", "cmd <X>;\n<X@tcsh> ::= {{{ x }}};\n".into()),
        ("noncommand-spec", "cmd <X>;\n<X@fish> ::= foo;\n".into()),
        ("escapes-then-undefined", "cmd a\\|b\n  c\\;d\n <UNDEF>;\n".into()),
        ("deep", format!("cmd {}a{};\n", "[".repeat(200), "]".repeat(200))),
    ]
}

pub fn cli(thorough: bool, seed: u64) -> Report {
    let mut rep = Report { bound: "the built complgen binary on: corpus grammars, 19 planted-mistake grammars, three deeply nested and three wide (many-path) inputs, and seeded structure-aware mutations (token delete/duplicate/swap, stray brackets, truncation, non-ASCII, raw bytes, line breaks) x 4 shells".into(), exhaustive: false, ..Default::default() };
    let Ok(bin) = std::env::var("COMPLGEN_BIN") else {
        rep.undecided.push("COMPLGEN_BIN not set".into());
        return rep;
    };
    if !std::path::Path::new(&bin).exists() {
        rep.undecided.push(format!("complgen binary {bin} does not exist"));
        return rep;
    }
    let corpus = cpipe::corpus(false, seed);
    let mut inputs: Vec<(String, Vec<u8>)> = vec![];
    for (name, t) in planted() {
        inputs.push((format!("planted:{name}"), t.into_bytes()));
    }
    // deeply nested / chained inputs: the parser and every pass over the tree are recursive
    {
        let n = 6000;
        inputs.push(("planted:deep:parentheses".into(), format!("cmd {}a{};\n", "(".repeat(n), ")".repeat(n)).into_bytes()));
        inputs.push(("planted:deep:optionals-in-alternatives".into(), format!("cmd {}a{};\n", "(x [".repeat(n / 2), "] | y)".repeat(n / 2)).into_bytes()));
        let mut chain = String::from("cmd <A0>;\n");
        for k in 0..30000 {
            chain.push_str(&format!("<A{k}> ::= x <A{}>;\n", k + 1));
        }
        chain.push_str("<A30000> ::= y;\n");
        inputs.push(("planted:deep:definition-chain".into(), chain.into_bytes()));
    }
    // wide inputs: small automata with very many paths through them (every walk over the automaton has to be
    // per state, not per path: a per-path walk does not end within the time limit on these)
    {
        let flags: Vec<String> = ('a'..='z').chain('A'..='N').map(|c| format!("[-{c}]")).collect();
        inputs.push(("planted:wide:optional-flags".into(), format!("mytool {} <PATH>;\n", flags.join(" ")).into_bytes()));
        inputs.push(("planted:wide:alternatives-in-sequence".into(), format!("cmd {} end;\n", "(a | b)".to_string() + &" (a | b)".repeat(29)).into_bytes()));
        let mut diamond = String::from("cmd <D0>;\n");
        for k in 0..30 {
            diamond.push_str(&format!("<D{k}> ::= (x{k} | y{k}) <D{}>;\n", k + 1));
        }
        diamond.push_str("<D30> ::= z;\n");
        inputs.push(("planted:wide:diamond-chain".into(), diamond.into_bytes()));
    }
    let mut rng = Rng::new(seed.wrapping_add(99));
    let n_valid = if thorough { 400 } else { 60 };
    let n_mut = if thorough { 3000 } else { 300 };
    for i in 0..n_valid {
        let g = &corpus[(i * 37) % corpus.len()];
        inputs.push(("valid".into(), relayout(&g.print(), i % 4, i % 3 == 0).into_bytes()));
    }
    for i in 0..n_mut {
        let g = &corpus[rng.below(corpus.len())];
        let base = relayout(&g.print(), i % 3, false);
        let mut m = mutate(&mut rng, &base);
        if rng.chance(1, 4) {
            m = mutate(&mut rng, &String::from_utf8_lossy(&m));
        }
        inputs.push(("mutant".into(), m));
    }
    let shells = ["bash", "fish", "zsh", "pwsh"];
    let jobs: Vec<(usize, &str)> = inputs.iter().enumerate().flat_map(|(i, _)| shells.iter().map(move |s| (i, *s))).filter(|(i, s)| thorough || inputs[*i].0.starts_with("planted") || (*i + s.len()) % 2 == 0).collect();
    let results: std::sync::Mutex<Vec<(usize, String, Run)>> = std::sync::Mutex::new(vec![]);
    let next = std::sync::atomic::AtomicUsize::new(0);
    let tmpdir = std::env::temp_dir().join(format!("verif-cli-{}", std::process::id()));
    let _ = std::fs::create_dir_all(&tmpdir);
    std::thread::scope(|sc| {
        for t in 0..16 {
            let jobs = &jobs;
            let inputs = &inputs;
            let results = &results;
            let next = &next;
            let bin = &bin;
            let tmpdir = &tmpdir;
            sc.spawn(move || loop {
                let j = next.fetch_add(1, std::sync::atomic::Ordering::SeqCst);
                if j >= jobs.len() {
                    break;
                }
                let (i, sh) = jobs[j];
                // every 5th job writes to a destination file that already exists
                let to_file = j % 5 == 0;
                let path = tmpdir.join(format!("out-{t}-{j}"));
                let out_path = if to_file {
                    std::fs::write(&path, b"PREVIOUS CONTENT").unwrap();
                    path.to_string_lossy().into_owned()
                } else {
                    "-".to_string()
                };
                let mut r = run_cli(bin, sh, &inputs[i].1, &out_path);
                if to_file {
                    let content = std::fs::read(&path).unwrap_or_default();
                    let _ = std::fs::remove_file(&path);
                    r.stdout = format!("<file:{}>", if content == b"PREVIOUS CONTENT" { "untouched".to_string() } else { format!("{} bytes", content.len()) });
                }
                results.lock().unwrap().push((i, sh.to_string(), r));
            });
        }
    });
    let _ = std::fs::remove_dir_all(&tmpdir);
    let mut kinds: BTreeSet<String> = BTreeSet::new();
    let mut results = results.into_inner().unwrap();
    results.sort_by_key(|(i, s, _)| (*i, s.clone()));
    for (i, sh, r) in results {
        rep.cases += 1;
        let text = String::from_utf8_lossy(&inputs[i].1).into_owned();
        let mut bad: Option<(String, String)> = None;
        let first_err = r.stderr.lines().next().unwrap_or("").to_string();
        if r.timed_out {
            bad = Some(("hang".into(), "no exit within 20 s".into()));
        } else {
            match r.code {
                Some(0) => {
                    if r.stdout == "<file:untouched>" || r.stdout.is_empty() {
                        bad = Some(("exit-0-without-script".into(), "exit 0 but no script written".into()));
                    } else if r.stderr.contains("panicked") {
                        bad = Some(("panic".into(), first_err.clone()));
                    }
                    kinds.insert("ok".into());
                }
                Some(1) => {
                    if r.stderr.trim().is_empty() {
                        bad = Some(("exit-1-without-diagnostic".into(), "exit 1 with empty stderr".into()));
                    } else if r.stdout.starts_with("<file:") && r.stdout != "<file:untouched>" {
                        bad = Some(("destination-modified-on-error".into(), format!("exit 1 but the destination file was rewritten ({})", r.stdout)));
                    } else if !r.stdout.starts_with("<file:") && !r.stdout.is_empty() {
                        bad = Some(("script-on-error".into(), "exit 1 but text on stdout".into()));
                    }
                    kinds.insert(format!("err:{}", first_err.split(':').nth(3).unwrap_or("").trim().chars().take(30).collect::<String>()));
                }
                Some(c) => {
                    let why = r.stderr.lines().find(|l| l.contains("panicked") || l.contains("overflow")).unwrap_or(&first_err).to_string();
                    bad = Some((format!("exit-{c}"), why));
                }
                None => bad = Some(("killed-by-signal".into(), r.stderr.lines().last().unwrap_or("").to_string())),
            }
        }
        if let Some((kind, why)) = bad {
            let class = if (why.contains("overflowed its stack") || kind == "killed-by-signal") && inputs[i].0.starts_with("planted:deep:") {
                // recorded finding D18: recursion depth follows the nesting depth of the input
                "stack-overflow-on-input-nested-thousands-of-levels-deep".to_string()
            } else if why.contains("overflowed its stack") || kind == "killed-by-signal" {
                "stack-overflow-or-abort".to_string()
            } else if why.contains("panicked at") {
                // panic site = file:line
                format!("panic@{}", why.split("panicked at ").nth(1).unwrap_or("").split(':').take(2).collect::<Vec<_>>().join(":").rsplit('/').next().unwrap_or("").to_string())
            } else {
                kind.clone()
            };
            rep.violations.push(Violation {
                obligation: "C06.cli.exit_status".into(),
                what: format!("`complgen --{sh}` on a {} input: {kind}: {why}", inputs[i].0),
                input: J::obj(vec![("shell", J::s(&sh)), ("input", J::s(&text))]),
                expected: J::s("exit 0 + script, or exit 1 + diagnostic and untouched destination"),
                actual: J::s(format!("exit {:?}; stderr: {}", r.code, r.stderr.chars().take(300).collect::<String>())),
                signature: format!("C06.cli.exit_status|{class}"),
                replay_args: vec!["c06_cli".into(), sh.clone(), text.clone()],
            });
        }
    }
    // a destination that cannot be written (device full): exit 1 + diagnostic, never exit 0
    if std::path::Path::new("/dev/full").exists() {
        for (k, g) in corpus.iter().step_by(corpus.len() / 3 + 1).take(3).enumerate() {
            let text = g.print();
            for sh in shells {
                rep.cases += 1;
                let r = run_cli(&bin, sh, text.as_bytes(), "/dev/full");
                let ok = r.code == Some(1) && !r.stderr.trim().is_empty() && !r.stderr.contains("panicked");
                if !ok {
                    rep.violations.push(Violation {
                        obligation: "C06.cli.exit_status".into(),
                        what: format!("`complgen --{sh} /dev/full` on a valid input #{k}: exit {:?} although the script could not be written", r.code),
                        input: J::obj(vec![("shell", J::s(sh)), ("input", J::s(&text)), ("destination", J::s("/dev/full"))]),
                        expected: J::s("exit 1 + diagnostic when the script cannot be written"),
                        actual: J::s(format!("exit {:?}; stderr: {}", r.code, r.stderr.chars().take(300).collect::<String>())),
                        signature: "C06.cli.exit_status|write-failure-not-reported".into(),
                        replay_args: vec!["c06_cli".into(), sh.to_string(), text.clone(), "/dev/full".into()],
                    });
                }
            }
        }
        kinds.insert("unwritable-destination".into());
    }
    rep.distinct_nontrivial = kinds.len() as u64 + inputs.len() as u64 / 4;
    rep.samples.push(J::Arr(kinds.iter().map(J::s).collect()));
    rep
}

pub fn replay_cli(args: &[String]) -> i32 {
    let Ok(bin) = std::env::var("COMPLGEN_BIN") else {
        println!("COMPLGEN_BIN not set");
        return 2;
    };
    let dest = args.get(2).map(|s| s.as_str()).unwrap_or("-");
    let r = run_cli(&bin, &args[0], args[1].as_bytes(), dest);
    println!("input:\n{}\n--- destination: {dest} exit: {:?} timed_out: {}\n--- stderr:\n{}", args[1].chars().take(2000).collect::<String>(), r.code, r.timed_out, r.stderr.chars().take(1500).collect::<String>());
    if dest == "/dev/full" {
        return if r.code == Some(1) && !r.stderr.trim().is_empty() { 0 } else { 1 };
    }
    match r.code {
        Some(0) | Some(1) if !r.stderr.contains("panicked") => 0,
        _ => 1,
    }
}
