//! Reference semantics of a grammar, written from the property statements (C02, C11, C15) and
//! the README — independent of complgen's passes. Produces a regular expression over
//! *labelled items*:
//!   L:<text>|<descr or ->|<level>         literal
//!   C:<cmd>|<level>|<compadd 0/1>          external command (compadd = zsh built-in/specialised)
//!   S                                      any single word (undefined nonterminal)
//!   W:<level>|<canonical minimal automaton of the within-word language>
#![allow(dead_code)]
use crate::gram::*;
use crate::lang::*;
use std::collections::{BTreeMap, BTreeSet};

#[derive(Clone, Debug, PartialEq, Eq)]
pub enum RefErr {
    Cycle,
    NoCallVariants,
    TooBig,
}

pub const SHELLS: [&str; 4] = ["bash", "fish", "zsh", "pwsh"];

pub fn builtin_cmd(name: &str, shell: &str) -> Option<&'static str> {
    Some(match (name, shell) {
        ("PATH", "bash") => r#"compgen -A file -- "$1""#,
        ("PATH", "fish") => r#"__fish_complete_path "$argv[1]""#,
        ("PATH", "zsh") => "_path_files",
        ("PATH", "pwsh") => "Get-ChildItem | ForEach-Object { $_.Name }",
        ("DIRECTORY", "bash") => r#"compgen -A directory -- "$1""#,
        ("DIRECTORY", "fish") => r#"__fish_complete_directories "$argv[1]""#,
        ("DIRECTORY", "zsh") => "_path_files -/",
        ("DIRECTORY", "pwsh") => "Get-ChildItem -Directory | ForEach-Object { $_.Name }",
        _ => return None,
    })
}

/// Expanded expression: nonterminals resolved, descriptions distributed.
#[derive(Clone, Debug, PartialEq, Eq)]
pub enum E {
    Lit(String, Option<String>),
    Cmd(String, bool),
    Star(String),
    Seq(Vec<E>),
    Alt(Vec<E>),
    Fb(Vec<E>),
    Opt(Box<E>),
    Many(Box<E>),
    Sub(Vec<E>),
    /// the expansion of a plain definition (transparent; keeps the boundary visible)
    Def(Box<E>),
}

pub struct Ref<'g> {
    pub shell: &'g str,
    pub plain: BTreeMap<String, G>,
    pub specs: BTreeMap<(String, String), String>,
    /// bookkeeping for C15
    pub used_plain: BTreeSet<String>,
    pub used_specs: BTreeSet<String>,
    pub undefined: BTreeSet<String>,
}

/// description distribution: "the first literal of each alternative gets the description,
/// spent once per sequence"
pub fn dist(g: &G, d: &mut Option<String>) -> G {
    match g {
        G::Dd(x, dd) => {
            let mut nd = Some(dd.clone());
            dist(x, &mut nd)
        }
        G::Lit(t, None) if d.is_some() => G::Lit(t.clone(), d.take()),
        G::Lit(..) | G::Nt(_) | G::Cmd(_) => g.clone(),
        G::Seq(v) => G::Seq(v.iter().map(|x| dist(x, d)).collect()),
        G::Sub(v) => G::Sub(v.iter().map(|x| dist(x, d)).collect()),
        G::Alt(v) => G::Alt(v.iter().map(|x| dist(x, &mut d.clone())).collect()),
        G::Fb(v) => G::Fb(v.iter().map(|x| dist(x, d)).collect()),
        G::Opt(x) => G::Opt(Box::new(dist(x, d))),
        G::Many(x) => G::Many(Box::new(dist(x, d))),
    }
}

impl<'g> Ref<'g> {
    pub fn new(gr: &Grammar, shell: &'g str) -> Self {
        let mut plain = BTreeMap::new();
        let mut specs = BTreeMap::new();
        for s in &gr.stmts {
            match s {
                Stmt::Def(n, None, g) => {
                    plain.entry(n.clone()).or_insert_with(|| g.clone());
                }
                Stmt::Def(n, Some(sh), G::Cmd(c)) => {
                    specs.entry((n.clone(), sh.clone())).or_insert_with(|| c.clone());
                }
                _ => {}
            }
        }
        Ref { shell, plain, specs, used_plain: Default::default(), used_specs: Default::default(), undefined: Default::default() }
    }

    /// C11: `<X>` = the `<X@S>` definition, else the plain definition, else the built-in for
    /// PATH / DIRECTORY, else any word.
    pub fn expand(&mut self, g: &G, stack: &mut Vec<String>) -> Result<E, RefErr> {
        Ok(match g {
            G::Lit(t, d) => E::Lit(t.clone(), d.clone()),
            G::Cmd(c) => E::Cmd(c.trim().to_string(), false),
            G::Nt(n) => {
                if let Some(c) = self.specs.get(&(n.clone(), self.shell.to_string())) {
                    self.used_specs.insert(n.clone());
                    E::Cmd(c.trim().to_string(), self.shell == "zsh")
                } else if let Some(body) = self.plain.get(n).cloned() {
                    if stack.contains(n) {
                        return Err(RefErr::Cycle);
                    }
                    self.used_plain.insert(n.clone());
                    stack.push(n.clone());
                    let mut none = None;
                    let body = dist(&body, &mut none);
                    let e = self.expand(&body, stack)?;
                    stack.pop();
                    E::Def(Box::new(e))
                } else if let Some(c) = builtin_cmd(n, self.shell) {
                    E::Cmd(c.to_string(), self.shell == "zsh")
                } else {
                    self.undefined.insert(n.clone());
                    E::Star(n.clone())
                }
            }
            G::Seq(v) => E::Seq(v.iter().map(|x| self.expand(x, stack)).collect::<Result<_, _>>()?),
            G::Alt(v) => E::Alt(v.iter().map(|x| self.expand(x, stack)).collect::<Result<_, _>>()?),
            G::Fb(v) => E::Fb(v.iter().map(|x| self.expand(x, stack)).collect::<Result<_, _>>()?),
            G::Sub(v) => E::Sub(v.iter().map(|x| self.expand(x, stack)).collect::<Result<_, _>>()?),
            G::Opt(x) => E::Opt(Box::new(self.expand(x, stack)?)),
            G::Many(x) => E::Many(Box::new(self.expand(x, stack)?)),
            G::Dd(..) => unreachable!("dist removes Dd"),
        })
    }

    pub fn root(&mut self, gr: &Grammar) -> Result<E, RefErr> {
        let mut variants = vec![];
        for s in &gr.stmts {
            if let Stmt::Call(_, g) = s {
                let mut none = None;
                let g = dist(g, &mut none);
                variants.push(self.expand(&g, &mut vec![])?);
            }
        }
        match variants.len() {
            0 => Err(RefErr::NoCallVariants),
            1 => Ok(variants.pop().unwrap()),
            _ => Ok(E::Alt(variants)),
        }
    }
}

fn opt_s(d: &Option<String>) -> String {
    match d {
        Some(x) => format!("={x}"),
        None => "-".to_string(),
    }
}

/// E -> R over labelled items. `level` = index of the innermost enclosing `||` branch.
pub fn sem(e: &E, level: usize, in_word: bool, items: &mut Items) -> Result<R, RefErr> {
    Ok(match e {
        E::Lit(t, d) => R::Sym(items.id(&format!("L:{t}|{}|{level}", opt_s(d)))),
        E::Cmd(c, compadd) => R::Sym(items.id(&format!("C:{c}|{level}|{}", *compadd as u8))),
        E::Star(_) => R::Sym(items.id("S")),
        E::Seq(v) => cat_all(v.iter().map(|x| sem(x, level, in_word, items)).collect::<Result<_, _>>()?),
        E::Alt(v) => alt(v.iter().map(|x| sem(x, level, in_word, items)).collect::<Result<_, _>>()?),
        E::Fb(v) => alt(v.iter().enumerate().map(|(i, x)| sem(x, i, in_word, items)).collect::<Result<_, _>>()?),
        E::Opt(x) => alt(vec![sem(x, level, in_word, items)?, R::Eps]),
        E::Many(x) => {
            let r = sem(x, level, in_word, items)?;
            cat(r.clone(), star(r))
        }
        E::Def(x) => sem(x, level, in_word, items)?,
        E::Sub(parts) => {
            let inner = cat_all(parts.iter().map(|x| sem(x, level, true, items)).collect::<Result<_, _>>()?);
            if in_word {
                inner
            } else {
                let d = dfa_of_regex(&inner, items).ok_or(RefErr::TooBig)?;
                let canon = d.canonical().serialize();
                R::Sym(items.id(&format!("W:{level}|{canon}")))
            }
        }
    })
}

/// Grammar -> canonical minimal automaton of its labelled language for `shell`.
pub fn reference_language(gr: &Grammar, shell: &str) -> Result<(Dfa, Items), RefErr> {
    let mut r = Ref::new(gr, shell);
    let e = r.root(gr)?;
    let mut items = Items::default();
    let re = sem(&e, 0, false, &mut items)?;
    let d = dfa_of_regex(&re, &items).ok_or(RefErr::TooBig)?;
    Ok((d.canonical(), items))
}

// ---------------------------------------------------------------------------------------------
// C08: which rejections the property prescribes for a grammar (semantic oracle)

#[derive(Debug, Default, Clone)]
pub struct Verdict {
    /// classes of mistakes the grammar certainly contains (it must be rejected with one of
    /// `must` or `may`)
    pub must: BTreeSet<String>,
    /// classes whose presence depends on a reading the property leaves open
    pub may: BTreeSet<String>,
    /// rejections the property does not prescribe but the code base is known to issue
    /// (recorded in known_findings.json): class -> reason
    pub known_spurious: BTreeMap<String, String>,
    /// mistakes the property prescribes a rejection for but the code base is known to accept
    pub known_missed: BTreeMap<String, String>,
}

/// last / first item of an expression; `through`: also look inside expanded definitions
fn e_tail(e: &E, through: bool) -> &E {
    match e {
        E::Seq(v) | E::Sub(v) => v.last().map(|x| e_tail(x, through)).unwrap_or(e),
        E::Def(x) if through => e_tail(x, through),
        _ => e,
    }
}
fn e_head(e: &E, through: bool) -> &E {
    match e {
        E::Seq(v) | E::Sub(v) => v.first().map(|x| e_head(x, through)).unwrap_or(e),
        E::Def(x) if through => e_head(x, through),
        _ => e,
    }
}
fn adjacent_literals(v: &[E], through: bool) -> bool {
    v.windows(2).any(|p| matches!(e_tail(&p[0], through), E::Lit(..)) && matches!(e_head(&p[1], through), E::Lit(..)))
}

/// walk an expanded expression; `in_word`: inside a within-word expression
fn walk_words(e: &E, in_word: bool, in_def: bool, v: &mut Verdict, words: &mut Vec<E>) {
    match e {
        E::Lit(..) | E::Cmd(..) | E::Star(_) => {}
        E::Seq(c) => {
            if in_word && adjacent_literals(c, false) {
                // two space-separated literals inside a word
                v.must.insert("SubwordSpaces".into());
            } else if in_word && adjacent_literals(c, true) {
                // ... where one of them is the first / last literal of a nonterminal's definition
                if in_def {
                    v.must.insert("SubwordSpaces".into());
                } else {
                    // only detected by the code base when the sequence itself sits in a definition
                    v.known_missed.insert("SubwordSpaces".into(), "literal-at-the-edge-of-a-definition-referenced-from-a-call-variant".into());
                }
            }
            c.iter().for_each(|x| walk_words(x, in_word, in_def, v, words));
        }
        E::Sub(c) => {
            if adjacent_literals(c, false) {
                // juxtaposed parts whose neighbouring ends are both literals (e.g. `x(a b)`,
                // `x((y) "d")`): the property speaks of space-separated literals only
                v.may.insert("SubwordSpaces".into());
            }
            if !in_word {
                words.push(e.clone());
            }
            c.iter().for_each(|x| walk_words(x, true, in_def, v, words));
        }
        E::Alt(c) | E::Fb(c) => c.iter().for_each(|x| walk_words(x, in_word, in_def, v, words)),
        E::Opt(x) | E::Many(x) => walk_words(x, in_word, in_def, v, words),
        E::Def(x) => walk_words(x, in_word, true, v, words),
    }
}

fn conflicting_descriptions(d: &Dfa) -> bool {
    for m in &d.trans {
        let mut by_text: BTreeMap<&str, BTreeSet<&str>> = BTreeMap::new();
        for a in m.keys() {
            if let Some(rest) = a.strip_prefix("L:") {
                let mut p = rest.rsplitn(3, '|');
                let _level = p.next();
                let descr = p.next().unwrap_or("");
                let text = p.next().unwrap_or("");
                by_text.entry(text).or_default().insert(descr);
            }
        }
        if by_text.values().any(|s| s.len() > 1) {
            return true;
        }
    }
    false
}

pub fn expected_verdict(gr: &Grammar, shell: &str) -> Option<Verdict> {
    let mut r = Ref::new(gr, shell);
    let e = r.root(gr).ok()?;
    let mut v = Verdict::default();
    let mut words = vec![];
    walk_words(&e, false, false, &mut v, &mut words);
    for w in &words {
        let mut items = Items::default();
        let E::Sub(parts) = w else { continue };
        let inner = cat_all(parts.iter().map(|x| sem(x, 0, true, &mut items)).collect::<Result<_, _>>().ok()?);
        let d = dfa_of_regex(&inner, &items)?.canonical();
        // a placeholder inside a word that something can follow
        for m in &d.trans {
            if let Some(t) = m.get("S") {
                if !d.trans[*t].is_empty() {
                    v.must.insert("UnboundedMatchable".into());
                }
                // the placeholder is the last item, but at the same point another item can be
                // read instead and something follows that item (e.g. `[a]<U>`, `(a|<U>)`+...)
                if m.iter().any(|(a, q)| a != "S" && !d.trans[*q].is_empty()) {
                    v.known_spurious.insert("UnboundedMatchable".into(), "placeholder-beside-an-item-that-is-followed".into());
                }
            }
        }
        if conflicting_descriptions(&d) {
            v.must.insert("ConflictingDescriptions".into());
        }
    }
    if v.must.is_empty() && v.may.is_empty() {
        let mut items = Items::default();
        let re = sem(&e, 0, false, &mut items).ok()?;
        let d = dfa_of_regex(&re, &items)?.canonical();
        if conflicting_descriptions(&d) {
            v.must.insert("ConflictingDescriptions".into());
        }
    } else {
        // the main automaton may hold a conflict as well; which mistake is reported first is not prescribed
        let mut items = Items::default();
        if let Ok(re) = sem(&e, 0, false, &mut items) {
            if let Some(d) = dfa_of_regex(&re, &items) {
                if conflicting_descriptions(&d.canonical()) {
                    v.may.insert("ConflictingDescriptions".into());
                }
            }
        }
    }
    Some(v)
}

/// How the grammar respells within-word expressions (after expansion): two differently spelled
/// expressions that denote the same labelled language, e.g. `--x=(a|b)` and `--x=(b|a)`.
/// `reordered`: some such pair meets its symbols in a different order (or uses `||` inside the
/// word) -- the recorded finding D16, interning is structural incl. symbol order.
/// `regrouped`: some such pair meets the same symbols in the same order (`(a|b|c)` vs `(a|(b|c))`,
/// or a part written through a definition): their minimal automata are structurally equal, so the
/// unchanged compiler interns them as one -- two symbols for such a pair are NOT the recorded finding.
pub struct Respelled {
    pub reordered: bool,
    pub regrouped: bool,
}

pub fn respelled_words(gr: &Grammar, shell: &str) -> Respelled {
    let mut r = Ref::new(gr, shell);
    let Ok(e) = r.root(gr) else { return Respelled { reordered: false, regrouped: false } };
    fn collect(e: &E, out: &mut Vec<E>) {
        match e {
            E::Sub(_) => out.push(e.clone()),
            E::Seq(c) | E::Alt(c) | E::Fb(c) => c.iter().for_each(|x| collect(x, out)),
            E::Opt(x) | E::Many(x) | E::Def(x) => collect(x, out),
            _ => {}
        }
    }
    /// the leaves in the order of their first occurrence; None if the word uses `||`
    fn order(e: &E, out: &mut Vec<String>) -> bool {
        match e {
            E::Lit(..) | E::Cmd(..) | E::Star(..) => {
                let k = format!("{e:?}");
                if !out.contains(&k) {
                    out.push(k);
                }
                true
            }
            E::Fb(_) => false,
            E::Seq(c) | E::Alt(c) | E::Sub(c) => c.iter().all(|x| order(x, out)),
            E::Opt(x) | E::Many(x) | E::Def(x) => order(x, out),
        }
    }
    let mut words = vec![];
    collect(&e, &mut words);
    let mut by_lang: BTreeMap<String, BTreeMap<String, Option<Vec<String>>>> = BTreeMap::new();
    for w in &words {
        let mut items = Items::default();
        let E::Sub(parts) = w else { continue };
        let Ok(rs) = parts.iter().map(|x| sem(x, 0, true, &mut items)).collect::<Result<Vec<_>, _>>() else { continue };
        let Some(d) = dfa_of_regex(&cat_all(rs), &items) else { continue };
        let mut o = vec![];
        let ord = if order(w, &mut o) { Some(o) } else { None };
        by_lang.entry(d.canonical().serialize()).or_default().insert(format!("{w:?}"), ord);
    }
    let mut res = Respelled { reordered: false, regrouped: false };
    for spellings in by_lang.values() {
        if spellings.len() > 1 {
            let orders: BTreeSet<&Option<Vec<String>>> = spellings.values().collect();
            if orders.len() > 1 || orders.iter().any(|o| o.is_none()) {
                res.reordered = true;
            } else {
                res.regrouped = true;
            }
        }
    }
    res
}

pub fn has_respelled_word(gr: &Grammar, shell: &str) -> bool {
    let r = respelled_words(gr, shell);
    r.reordered || r.regrouped
}
