//! C13 (and the CLI part of C15): located diagnostics point at the construct they complain about.
//! Labelled bounded stand-in. Grammars are written as templates in which the offending tokens
//! are bracketed by « » ; an independent scanner computes their line / byte column; the spans
//! carried by the library's Error / warning maps, and the `path:line:col:` headers + source
//! excerpts printed by the built binary, must agree with them. Every template is tried behind
//! several prefixes (nothing / comment and blank lines / a statement with backslash-escaped
//! literals / a multi-line statement).
use crate::json::J;
use crate::pipeline::guarded;
use crate::{Report, Violation};
use complgen::parse::HumanSpan;
use std::collections::BTreeSet;

#[derive(Clone, Debug, PartialEq, Eq, PartialOrd, Ord)]
pub struct Loc {
    pub line: usize,
    pub col: usize,
    pub end: usize,
}

/// strip « » and ‹ › markers; return (text, locations of the « » tokens in order, locations of
/// the ‹ › tokens in order: the references a SubwordSpaces diagnostic says it came through)
pub fn unmark(tpl: &str) -> (String, Vec<Loc>, Vec<Loc>) {
    let mut out = String::new();
    let mut locs = vec![];
    let mut trace = vec![];
    let mut topen: Option<(usize, usize)> = None;
    let mut line = 1;
    let mut col = 1; // 1-based byte column
    let mut open: Option<(usize, usize)> = None;
    for c in tpl.chars() {
        match c {
            '«' => open = Some((line, col)),
            '»' => {
                let (l, s) = open.take().unwrap();
                // a token that spans lines ends, for the purpose of the span, on its first line
                locs.push(Loc { line: l, col: s, end: if l == line { col } else { 0 } });
            }
            '‹' => topen = Some((line, col)),
            '›' => {
                let (l, s) = topen.take().unwrap();
                trace.push(Loc { line: l, col: s, end: if l == line { col } else { 0 } });
            }
            '\n' => {
                out.push(c);
                line += 1;
                col = 1;
            }
            c => {
                out.push(c);
                col += c.len_utf8();
            }
        }
    }
    (out, locs, trace)
}

const PREFIXES: [(&str, &str); 5] = [
    ("nothing", ""),
    ("comment+blank", "# a comment\n\n   # another\n"),
    ("escaped-literals", "cmd a\\|b c\\;d \\(e\\) f\\\\g;\n"),
    ("multi-line-statement", "cmd x\n    y [z\n  w];\n\n"),
    ("escaped-same-statement", "cmd q\\<r\\> [s]\n   t\\.u;\ncmd v\\{\\};\n"),
];

/// (class, template, which error / warning kind, ordered?)
/// kinds: error classes of complgen::Error, or warn-undefined / warn-unused / warn-unused-spec
fn templates() -> Vec<(&'static str, &'static str)> {
    vec![
        ("warn-undefined", "cmd foo «<UNDEF>» bar;\n"),
        ("warn-undefined", "cmd foo\n   bar\\|baz «<UNDEF>»;\n"),
        ("warn-undefined", "cmd --x=«<UNDEF>» | y;\n"),
        ("warn-undefined", "cmd <A>;\n<A> ::= p \\(q\\)\n  «<UNDEF>»;\n"),
        ("warn-unused", "cmd foo;\n«<UNUSED>» ::= a | b;\n"),
        ("warn-unused", "cmd foo;\n\n  «<UNUSED>»\n  ::= a\n  | b;\n"),
        ("warn-unused-spec", "cmd foo;\n«<S@SHELL>» ::= {{{ x }}};\n"),
        ("UnknownShell", "cmd <X>;\n<X@«tcsh»> ::= {{{ x }}};\n"),
        ("UnknownShell", "cmd <X>;\n  <X@«ba-sh»>\n ::= {{{ x }}};\n"),
        ("NonCommandSpecialization", "cmd <X>;\n<X@fish> ::= «foo | bar»;\n"),
        ("NonCommandSpecialization", "cmd <X>;\n<X@zsh> ::=\n   «foo\n   bar»;\n"),
        ("DuplicateNonterminalDefinition", "cmd <X>;\n«<X>» ::= a;\n<Y> ::= <X>;\n«<X>» ::= b;\n"),
        ("DuplicateNonterminalDefinition", "cmd <X>;\n«<X@SHELL>» ::= {{{ a }}};\n«<X@SHELL>» ::= {{{ b }}};\n"),
        ("VaryingCommandNames", "«cmd» a;\n«other» b;\n"),
        ("VaryingCommandNames", "«cmd» a;\ncmd c;\n  «other»\n b;\n«third» d;\n"),
        ("InvalidCommandName", "«a/cmd» x;\n"),
        ("SubwordSpaces", "cmd --x=‹<A>›;\n<A> ::= «aa» «bb»;\n"),
        ("SubwordSpaces", "cmd --x=‹<A>›;\n<A> ::= ‹<B>›;\n<B> ::= q\n  | «aa»\n    «bb»;\n"),
        // references that are not on the way to the offending definition (undefined names,
        // definitions without the mistake) are not part of the trace
        ("SubwordSpaces", "cmd rename <NAME> <FILE>;\ncmd set <OK>\n    --level=‹<LEVEL>›;\n<OK> ::= fine;\n<LEVEL> ::= «very» «high» | low;\n"),
        ("SubwordSpaces", "cmd --a=<U> --b=<OK>,‹<L>›;\n<OK> ::= x | y;\n<L> ::= <V>‹<M>›;\n<M> ::= «p» «q»;\n"),
        // the offending literal receives a distributed description (and is re-created by that pass)
        ("SubwordSpaces", "cmd (--quiet\n     | <L>(«debug» «info»)) \"verbosity\";\n"),
        ("SubwordSpaces", "cmd [x] (p‹<A>›) \"dd\";\n<A> ::= (q | «r1»\n «r2») \"inner\";\n"),
        ("UnboundedMatchable", "cmd (y\n | «<U>»«s») \"dd\";\n"),
        ("UnboundedMatchable", "cmd «<U>»«suffix»;\n"),
        ("UnboundedMatchable", "cmd x\n  --o=«<U>»«,»<V>;\n"),
        ("ParseError", "cmd a;\n«)» b;\ncmd c;\n"),
        ("ParseError", "cmd a;\n\n# c\n  «<X» ::= ;\n"),
        ("ParseError", "cmd a\n  b;\n«cmd (c;»\n"),
        // the mistake sits deep inside the statement (after `::=`, on a later line): the location is
        // still the start of the first statement that cannot be parsed
        ("ParseError", "cmd <FOO>;\n«<FOO>» ::= bar\n    | (baz;\n"),
        ("ParseError", "cmd <FOO>;\n\n  «<FOO>» ::= bar baz);\n"),
        ("ParseError", "cmd a;\n«cmd» b (c\n  | d;\ncmd e;\n"),
    ]
}

fn shells() -> [&'static str; 2] {
    ["bash", "fish"]
}

struct Case {
    class: &'static str,
    prefix: &'static str,
    text: String,
    locs: Vec<Loc>,
    /// SubwordSpaces: the references the diagnostic came through, outermost first
    trace: Vec<Loc>,
    shell: &'static str,
}

fn cases() -> Vec<Case> {
    let mut out = vec![];
    for (class, tpl) in templates() {
        for (pname, p) in PREFIXES {
            // call variants must share the command name; prefixes use `cmd`
            if (class == "VaryingCommandNames" || class == "InvalidCommandName") && p.contains("cmd ") {
                continue;
            }
            for sh in shells() {
                let t = tpl.replace("SHELL", sh);
                let (text, mut locs, trace) = unmark(&format!("{p}{t}"));
                if class == "ParseError" {
                    // a syntax error is located at a point (one column wide), not at a token
                    locs.iter_mut().for_each(|l| l.end = 0);
                }
                out.push(Case { class, prefix: pname, text, locs, trace, shell: sh });
            }
        }
    }
    out
}

fn loc_of(sp: &HumanSpan) -> Loc {
    Loc { line: sp.line, col: sp.column_start, end: sp.column_end }
}

/// every element of `got` matches an element of `chain`, in order
fn is_subsequence(got: &[Loc], chain: &[Loc]) -> bool {
    let mut k = 0;
    for g in got {
        while k < chain.len() && !same(g, &chain[k]) {
            k += 1;
        }
        if k == chain.len() {
            return false;
        }
        k += 1;
    }
    true
}

fn same(a: &Loc, exp: &Loc) -> bool {
    a.line == exp.line && a.col == exp.col && (exp.end == 0 || a.end == exp.end)
}

/// spans reported by the library for this input: (kind, ordered locations)
fn library_spans(text: &str, shell: &str) -> Result<(String, Vec<Loc>), String> {
    use complgen::check::ValidGrammar;
    use complgen::parse::Grammar;
    use complgen::regex::{Regex, RegexInternPool};
    use complgen::Error;
    let from_err = |e: Error| -> (String, Vec<Loc>) {
        let class = crate::pipeline::error_class(&e);
        let v: Vec<Loc> = match &e {
            Error::ParseError(s) | Error::InvalidCommandName(s) | Error::UnknownShell(s) | Error::NonCommandSpecialization(s) => vec![loc_of(s)],
            Error::VaryingCommandNames(ss) | Error::NonterminalDefinitionsCycle(ss) => ss.iter().map(loc_of).collect(),
            Error::DuplicateNonterminalDefinition(a, b) | Error::UnboundedMatchable(a, b) => vec![loc_of(a), loc_of(b)],
            Error::SubwordSpaces(a, b, tr) => [loc_of(a), loc_of(b)].into_iter().chain(tr.iter().map(loc_of)).collect(),
            _ => vec![],
        };
        (class, v)
    };
    let g = match Grammar::parse(text) {
        Ok(g) => g,
        Err(e) => return Ok(from_err(e)),
    };
    let v = match ValidGrammar::from_grammar(g, crate::pipeline::shell_of(shell)) {
        Ok(v) => v,
        Err(e) => return Ok(from_err(e)),
    };
    let mut pool = RegexInternPool::default();
    if let Err(e) = Regex::from_valid_grammar(&v, &mut pool) {
        return Ok(from_err(e));
    }
    let mut w: Vec<(String, Loc)> = vec![];
    for (n, s) in &v.undefined_nonterminals {
        if n.as_str() != "_" {
            w.push(("warn-undefined".into(), loc_of(s)));
        }
    }
    for (_, s) in &v.unused_nonterminals {
        w.push(("warn-unused".into(), loc_of(s)));
    }
    for (_, s) in &v.unused_specializations {
        w.push(("warn-unused-spec".into(), loc_of(s)));
    }
    w.sort();
    let kinds: BTreeSet<String> = w.iter().map(|(k, _)| k.clone()).collect();
    Ok((kinds.into_iter().collect::<Vec<_>>().join("+"), w.into_iter().map(|(_, l)| l).collect()))
}

fn viol(obl: &str, what: String, c: &Case, class: &str, check: &str) -> Violation {
    Violation {
        obligation: obl.into(),
        what,
        input: J::obj(vec![("grammar", J::s(&c.text)), ("shell", J::s(c.shell))]),
        expected: J::Arr(c.locs.iter().map(|l| J::s(format!("{}:{}", l.line, l.col))).collect()),
        actual: J::s("see message"),
        signature: format!("{obl}|{class}"),
        replay_args: vec![check.into(), c.class.into(), c.prefix.into(), c.shell.into(), c.text.clone()],
    }
}

fn check_library(c: &Case, out: &mut Vec<Violation>) {
    let (t, s) = (c.text.clone(), c.shell.to_string());
    let got = match guarded(move || library_spans(&t, &s)) {
        Ok(Ok(x)) => x,
        Ok(Err(e)) => {
            out.push(viol("C13.library.located", e, c, "internal", "c13_locations"));
            return;
        }
        Err(p) => {
            out.push(viol("C06.pipeline.no_panic", format!("panic: {p}"), c, "panic", "c13_locations"));
            return;
        }
    };
    if got.0 != c.class {
        out.push(viol("C13.library.kind", format!("expected a {} diagnostic, the library reports {:?}", c.class, got.0), c, &format!("{}-instead-of-{}", got.0, c.class), "c13_locations"));
        return;
    }
    let ordered = matches!(c.class, "DuplicateNonterminalDefinition" | "SubwordSpaces" | "UnboundedMatchable");
    // SubwordSpaces carries, after the two literals, references it came through: each of them
    // must be one of the references on the way to the offending definition (‹ ›), in order
    // (definitions are expanded before the check, so inner references may be absent)
    let want: Vec<Loc> = c.locs.iter().chain(c.trace.iter()).cloned().collect();
    let ok = if c.class == "SubwordSpaces" {
        got.1.len() >= c.locs.len() && got.1.iter().zip(c.locs.iter()).all(|(a, e)| same(a, e)) && is_subsequence(&got.1[c.locs.len()..], &c.trace)
    } else if ordered {
        got.1.len() == want.len() && got.1.iter().zip(want.iter()).all(|(a, e)| same(a, e))
    } else {
        got.1.len() == want.len() && want.iter().all(|e| got.1.iter().any(|a| same(a, e)))
    };
    if !ok {
        let after_escape = c.prefix.contains("escaped") || c.text.contains('\\');
        let show = |v: &Vec<Loc>| v.iter().map(|l| format!("{}:{}-{}", l.line, l.col, l.end)).collect::<Vec<_>>().join(", ");
        let trace_only = ordered && got.1.len() >= c.locs.len() && got.1.iter().zip(c.locs.iter()).all(|(a, e)| same(a, e));
        out.push(viol("C13.library.span", format!("{} behind prefix `{}`: reported at [{}], the construct is at [{}]", c.class, c.prefix, show(&got.1), show(&want)), c, if after_escape { "wrong-after-backslash-escape" } else if trace_only { "wrong-reference-trace" } else if ordered && got.1.len() == want.len() { "wrong-or-swapped" } else { "wrong-location" }, "c13_locations"));
    }
}

/// `-:LINE:COL:error: msg` / `-:LINE:COL:warning: msg` headers with the excerpt that follows
fn parse_stderr(err: &str) -> Vec<(usize, usize, String, Option<(usize, String)>, Option<usize>)> {
    let lines: Vec<&str> = err.lines().collect();
    let mut out = vec![];
    let mut i = 0;
    while i < lines.len() {
        let l = lines[i];
        if let Some(rest) = l.strip_prefix("-:") {
            let parts: Vec<&str> = rest.splitn(3, ':').collect();
            if parts.len() == 3 {
                if let (Ok(line), Ok(col)) = (parts[0].parse::<usize>(), parts[1].parse::<usize>()) {
                    let kind = parts[2].split(':').next().unwrap_or("").to_string();
                    // excerpt: "N | text" then "  | ^^^" / "  | ---"
                    let mut excerpt = None;
                    let mut caret = None;
                    let mut j = i + 1;
                    while j < lines.len() && !lines[j].starts_with("-:") && j < i + 8 {
                        let t = lines[j];
                        if let Some(bar) = t.find(" | ") {
                            let num = t[..bar].trim();
                            if let Ok(n) = num.parse::<usize>() {
                                excerpt = Some((n, t[bar + 3..].to_string()));
                            } else if num.is_empty() {
                                let body = &t[bar + 3..];
                                if let Some(p) = body.find(|ch| ch == '^' || ch == '-') {
                                    if caret.is_none() && excerpt.is_some() {
                                        caret = Some(p + 1);
                                    }
                                }
                            }
                        }
                        j += 1;
                    }
                    out.push((line, col, kind, excerpt, caret));
                }
            }
        }
        i += 1;
    }
    out
}

thread_local! {
    /// diagnostics whose headers could not be read at all (format changed): undecided, not wrong
    static UNREADABLE: std::cell::RefCell<u64> = std::cell::RefCell::new(0);
}

fn check_cli(c: &Case, bin: &str, out: &mut Vec<Violation>) {
    let r = crate::c06::run_cli(bin, c.shell, c.text.as_bytes(), "-");
    let is_warn = c.class.starts_with("warn-");
    let expect_code = if is_warn { 0 } else { 1 };
    if r.code != Some(expect_code) {
        out.push(viol("C13.cli.exit", format!("{}: exit {:?}, expected {expect_code}; stderr: {}", c.class, r.code, r.stderr.chars().take(200).collect::<String>()), c, "exit-status", "c13_cli"));
        return;
    }
    let hs = parse_stderr(&r.stderr);
    if hs.is_empty() && !r.stderr.trim().is_empty() {
        // there is a diagnostic, but not one header of the form `-:LINE:COL:kind:` can be read:
        // the format of the diagnostics has changed and this reader cannot judge it
        UNREADABLE.with(|u| *u.borrow_mut() += 1);
        return;
    }
    let src: Vec<&str> = c.text.lines().collect();
    // every header's excerpt shows the header's own line, and the underline starts at its column
    for (line, col, kind, excerpt, caret) in &hs {
        match excerpt {
            Some((n, text)) => {
                if n != line || src.get(line - 1).map(|s| *s != text.as_str()).unwrap_or(true) {
                    out.push(viol("C13.cli.excerpt", format!("header {line}:{col} ({kind}) is followed by the excerpt of line {n}: {text:?}"), c, "header-excerpt-mismatch", "c13_cli"));
                    return;
                }
                if let Some(p) = caret {
                    if p != col {
                        out.push(viol("C13.cli.excerpt", format!("header {line}:{col} ({kind}) but the underline starts at column {p}"), c, "header-underline-mismatch", "c13_cli"));
                        return;
                    }
                }
            }
            None => {
                out.push(viol("C13.cli.excerpt", format!("header {line}:{col} ({kind}) has no source excerpt"), c, "no-excerpt", "c13_cli"));
                return;
            }
        }
    }
    let want_kind = if is_warn { "warning" } else { "error" };
    let got: Vec<Loc> = hs.iter().filter(|h| h.2 == want_kind).map(|h| Loc { line: h.0, col: h.1, end: 0 }).collect();
    // expected locations must all be present, in order for ordered kinds; the SubwordSpaces trace ("Referenced in a subword context at") is part of them
    let mut want: Vec<Loc> = c.locs.iter().chain(c.trace.iter()).map(|l| Loc { line: l.line, col: l.col, end: 0 }).collect();
    if c.class == "DuplicateNonterminalDefinition" {
        want.reverse(); // the duplicate is printed first, then "Previous definition"
    }
    let mut k = 0;
    for g in &got {
        if k < want.len() && g.line == want[k].line && g.col == want[k].col {
            k += 1;
        }
    }
    let all_present = want.iter().all(|w| got.iter().any(|g| g.line == w.line && g.col == w.col));
    let ordered = matches!(c.class, "DuplicateNonterminalDefinition" | "SubwordSpaces" | "UnboundedMatchable");
    // a SubwordSpaces diagnostic prints its two literals and then references on the way to the
    // offending definition, nothing else
    if c.class == "SubwordSpaces" {
        let n = c.locs.len();
        let head_ok = got.len() >= n && got.iter().zip(want.iter()).take(n).all(|(g, w)| g.line == w.line && g.col == w.col);
        let chain: Vec<Loc> = c.trace.iter().map(|l| Loc { line: l.line, col: l.col, end: 0 }).collect();
        if !head_ok || !is_subsequence(&got[n.min(got.len())..], &chain) {
            let show = |v: &Vec<Loc>| v.iter().map(|l| format!("{}:{}", l.line, l.col)).collect::<Vec<_>>().join(", ");
            out.push(viol("C13.cli.header", format!("SubwordSpaces behind prefix `{}`: error headers at [{}], expected the two literals then references among [{}]", c.prefix, show(&got), show(&want)), c, if head_ok { "wrong-reference-trace" } else { "wrong-location-or-order" }, "c13_cli"));
        }
        return;
    }
    if !all_present || (ordered && k != want.len()) || (is_warn && got.len() != want.len()) {
        let show = |v: &Vec<Loc>| v.iter().map(|l| format!("{}:{}", l.line, l.col)).collect::<Vec<_>>().join(", ");
        let after_escape = c.prefix.contains("escaped") || c.text.contains('\\');
        out.push(viol(if is_warn { "C15.cli.warnings" } else { "C13.cli.header" }, format!("{} behind prefix `{}`: {want_kind} headers at [{}], expected [{}]", c.class, c.prefix, show(&got), show(&want)), c, if after_escape { "wrong-after-backslash-escape" } else if got.len() < want.len() { "missing" } else { "wrong-location-or-order" }, "c13_cli"));
    }
}

pub fn run_library(_thorough: bool) -> Report {
    let mut rep = Report { bound: format!("{} templates (every located diagnostic / warning class) x {} prefixes (nothing, comments+blank lines, escaped literals, multi-line statement, escapes in the same region) x shells {:?}: spans carried by the library", templates().len(), PREFIXES.len(), shells()), exhaustive: true, ..Default::default() };
    for c in cases() {
        rep.cases += 1;
        rep.distinct_nontrivial += 1;
        check_library(&c, &mut rep.violations);
        if rep.samples.len() < 3 && c.prefix == "escaped-literals" {
            rep.samples.push(J::obj(vec![("class", J::s(c.class)), ("grammar", J::s(&c.text)), ("expected", J::Arr(c.locs.iter().map(|l| J::s(format!("{}:{}", l.line, l.col))).collect()))]));
        }
    }
    rep
}

pub fn run_cli(_thorough: bool) -> Report {
    let mut rep = Report { bound: format!("the same {} templates x {} prefixes x shells {:?} through the built binary: `path:line:col:` headers, source excerpts and underlines on stderr, exit status", templates().len(), PREFIXES.len(), shells()), exhaustive: true, ..Default::default() };
    let Ok(bin) = std::env::var("COMPLGEN_BIN") else {
        rep.undecided.push("COMPLGEN_BIN not set".into());
        return rep;
    };
    if !std::path::Path::new(&bin).exists() {
        rep.undecided.push(format!("complgen binary {bin} does not exist"));
        return rep;
    }
    for c in cases() {
        rep.cases += 1;
        rep.distinct_nontrivial += 1;
        check_cli(&c, &bin, &mut rep.violations);
    }
    let unreadable = UNREADABLE.with(|u| *u.borrow());
    if unreadable > 0 {
        rep.undecided.push(format!("{unreadable} diagnostics were printed in a form this check cannot read (no `-:LINE:COL:kind:` header): the format of the diagnostics has changed"));
    }
    rep.samples.push(J::s("headers are parsed as -:LINE:COL:(error|warning): and matched with the `N | source` excerpt and the ^^^ / --- underline"));
    rep
}

pub fn replay(check: &str, args: &[String]) -> i32 {
    // args: class prefix shell text
    let c = Case {
        class: Box::leak(args[0].clone().into_boxed_str()),
        prefix: Box::leak(args[1].clone().into_boxed_str()),
        shell: Box::leak(args[2].clone().into_boxed_str()),
        text: args[3].clone(),
        locs: cases().into_iter().find(|x| x.text == args[3] && x.shell == args[2]).map(|x| x.locs).unwrap_or_default(),
        trace: cases().into_iter().find(|x| x.text == args[3] && x.shell == args[2]).map(|x| x.trace).unwrap_or_default(),
    };
    println!("grammar:\n{}expected locations: {:?}", c.text, c.locs);
    let mut v = vec![];
    if check == "c13_cli" {
        match std::env::var("COMPLGEN_BIN") {
            Ok(bin) => {
                let r = crate::c06::run_cli(&bin, c.shell, c.text.as_bytes(), "-");
                println!("exit {:?}\n{}", r.code, r.stderr);
                check_cli(&c, &bin, &mut v)
            }
            Err(_) => return 2,
        }
    } else {
        println!("library reports: {:?}", library_spans(&c.text, c.shell));
        check_library(&c, &mut v);
    }
    for x in &v {
        println!("  [{}] {}", x.obligation, x.what);
    }
    if v.is_empty() { 0 } else { 1 }
}
