//! C09, bash clause ("... and by execution in bash against the `|` variant of the same
//! grammar"): labelled bounded stand-in. For small `||` grammars the scripts emitted by the REAL
//! bash emitter for the grammar and for its `|` variant are sourced in the installed bash and
//! asked for candidates at the same cursor positions:
//!   * every candidate of the `||` script is a candidate of the `|` script,
//!   * whenever the `|` script offers something the `||` script offers something too
//!     ("every candidate the `|` grammar offers is also offered by the `||` grammar whenever no
//!     candidate of an earlier branch extends the typed prefix"),
//!   * where all candidates are literals of one `||` group the first branch with a match wins.
use crate::c07bash::emit_bash;
use crate::gram::*;
use crate::json::J;
use crate::{Report, Violation};
use std::collections::BTreeSet;
use std::io::Write;
use std::process::{Command, Stdio};

const STUB: &str = r#"
# readline is not active in a non-interactive shell: `bind -v` (used only to read
# completion-ignore-case) is stubbed out
bind () { :; }
_get_comp_words_by_ref () {
    while [[ $# -gt 0 ]]; do
        case $1 in
            -n) shift 2 ;;
            words) words=("${COMP_WORDS[@]}"); shift ;;
            cword) cword=$COMP_CWORD; shift ;;
            *) shift ;;
        esac
    done
}
"#;

fn bash_sq(s: &str) -> String {
    format!("'{}'", s.replace('\'', r"'\''"))
}

/// run all probes of one script in a single bash process; returns the candidate sets
fn run_probes(script: &str, probes: &[Vec<String>]) -> Option<Vec<BTreeSet<String>>> {
    let mut s = String::new();
    s.push_str(STUB);
    s.push_str(script);
    for p in probes {
        s.push_str("\nCOMP_WORDS=(cmd");
        for w in p {
            s.push(' ');
            s.push_str(&bash_sq(w));
        }
        s.push_str(&format!(")\nCOMP_CWORD={}\nCOMPREPLY=()\n_cmd\nfor r in \"${{COMPREPLY[@]}}\"; do printf '%s\\037' \"$r\"; done\nprintf '\\036'\n", p.len()));
    }
    let mut child = Command::new("bash").arg("--norc").arg("--noprofile").stdin(Stdio::piped()).stdout(Stdio::piped()).stderr(Stdio::null()).spawn().ok()?;
    child.stdin.take()?.write_all(s.as_bytes()).ok()?;
    let o = child.wait_with_output().ok()?;
    let out = String::from_utf8_lossy(&o.stdout).into_owned();
    let groups: Vec<&str> = out.split('\u{1e}').collect();
    if groups.len() < probes.len() {
        return None;
    }
    Some(groups[..probes.len()].iter().map(|g| g.split('\u{1f}').filter(|x| !x.trim().is_empty()).map(|x| x.trim_end().trim_start_matches('\n').to_string()).collect()).collect())
}

fn strip_fb(g: &G) -> G {
    match g {
        G::Fb(v) | G::Alt(v) => G::Alt(v.iter().map(strip_fb).collect()),
        G::Seq(v) => G::Seq(v.iter().map(strip_fb).collect()),
        G::Sub(v) => G::Sub(v.iter().map(strip_fb).collect()),
        G::Opt(x) => G::Opt(Box::new(strip_fb(x))),
        G::Many(x) => G::Many(Box::new(strip_fb(x))),
        G::Dd(x, d) => G::Dd(Box::new(strip_fb(x)), d.clone()),
        other => other.clone(),
    }
}

fn has_fb(g: &G) -> bool {
    match g {
        G::Fb(_) => true,
        G::Seq(v) | G::Alt(v) | G::Sub(v) => v.iter().any(has_fb),
        G::Opt(x) | G::Many(x) | G::Dd(x, _) => has_fb(x),
        _ => false,
    }
}

fn literals_of(g: &G, out: &mut BTreeSet<String>) {
    match g {
        G::Lit(t, _) => {
            out.insert(t.clone());
        }
        G::Seq(v) | G::Alt(v) | G::Sub(v) | G::Fb(v) => v.iter().for_each(|x| literals_of(x, out)),
        G::Opt(x) | G::Many(x) | G::Dd(x, _) => literals_of(x, out),
        _ => {}
    }
}

fn corpus(thorough: bool) -> Vec<G> {
    let leaves = vec![lit("foo"), lit("far"), lit("bar"), cmd("echo fizz"), cmd("echo buzz")];
    let wleaves = vec![lit("--x="), lit("a"), lit("b")];
    let mut out = vec![];
    for n in 3..=(if thorough { 4 } else { 3 }) {
        let mut v = vec![];
        enumerate(n, &leaves, false, &mut v);
        out.extend(v.into_iter().filter(has_fb));
    }
    // `||` whose branches hold within-word expressions
    let mut words = vec![];
    let mut v = vec![];
    enumerate(5, &wleaves, false, &mut v);
    words.extend(v.into_iter().filter(|g| matches!(g, G::Sub(p) if matches!(p.first(), Some(G::Lit(t, _)) if t == "--x="))).take(if thorough { 12 } else { 4 }));
    words.push(G::Sub(vec![lit("--x="), G::Alt(vec![lit("a"), lit("b")])]));
    for w in &words {
        out.push(G::Fb(vec![w.clone(), lit("foo")]));
        out.push(G::Fb(vec![lit("foo"), w.clone()]));
        out.push(G::Fb(vec![w.clone(), lit("foo"), lit("far")]));
        out.push(G::Seq(vec![G::Fb(vec![w.clone(), cmd("echo fizz")]), lit("bar")]));
    }
    // only grammars without the known determinism finding: no literal shared by two branches
    out.into_iter()
        .filter(|g| {
            fn ok(g: &G) -> bool {
                match g {
                    G::Fb(v) => {
                        let mut seen = BTreeSet::new();
                        for b in v {
                            let mut l = BTreeSet::new();
                            literals_of(b, &mut l);
                            let mut cmds = BTreeSet::new();
                            fn cmds_of(g: &G, out: &mut BTreeSet<String>) {
                                match g {
                                    G::Cmd(c) => {
                                        out.insert(format!("cmd:{c}"));
                                    }
                                    G::Seq(v) | G::Alt(v) | G::Sub(v) | G::Fb(v) => v.iter().for_each(|x| cmds_of(x, out)),
                                    G::Opt(x) | G::Many(x) | G::Dd(x, _) => cmds_of(x, out),
                                    _ => {}
                                }
                            }
                            cmds_of(b, &mut cmds);
                            l.extend(cmds);
                            if l.iter().any(|x| seen.contains(x)) {
                                return false;
                            }
                            seen.extend(l);
                        }
                        v.iter().all(ok)
                    }
                    G::Seq(v) | G::Alt(v) | G::Sub(v) => v.iter().all(ok),
                    G::Opt(x) | G::Many(x) | G::Dd(x, _) => ok(x),
                    _ => true,
                }
            }
            ok(g)
        })
        .collect()
}

/// (probes, probes where the `|` script offers something, violations); None = grammar rejected
fn one_grammar(g: &G, thorough: bool) -> Option<(u64, u64, Vec<Violation>)> {
    let gr = Grammar { stmts: vec![Stmt::Call("cmd".into(), g.clone())] };
    let flat = Grammar { stmts: vec![Stmt::Call("cmd".into(), strip_fb(g))] };
    let (Ok(s_fb), Ok(s_or)) = (emit_bash(&gr.print()), emit_bash(&flat.print())) else { return None };
    let mut vocab = BTreeSet::new();
    literals_of(g, &mut vocab);
    vocab.insert("fizz".into());
    vocab.insert("buzz".into());
    let mut prefixes: BTreeSet<String> = BTreeSet::new();
    prefixes.insert(String::new());
    prefixes.insert("z".into());
    for w in &vocab {
        for k in 1..=w.len().min(if thorough { 5 } else { 2 }) {
            prefixes.insert(w[..k].to_string());
        }
    }
    prefixes.insert("--x=".into());
    prefixes.insert("--x=a".into());
    let mut probes: Vec<Vec<String>> = prefixes.iter().map(|p| vec![p.clone()]).collect();
    for w in vocab.iter().chain(["--x=a".to_string()].iter()) {
        for p in if thorough { vec!["", "f", "b", "--"] } else { vec!["", "f"] } {
            probes.push(vec![w.clone(), p.to_string()]);
        }
    }
    let (Some(r_fb), Some(r_or)) = (run_probes(&s_fb, &probes), run_probes(&s_or, &probes)) else { return Some((0, 0, vec![])) };
    let mut vs = vec![];
    let mut nontrivial = 0;
    for (i, p) in probes.iter().enumerate() {
        let (a, b) = (&r_fb[i], &r_or[i]);
        if !b.is_empty() {
            nontrivial += 1;
        }
        let mk = |obl: &str, what: String, class: &str| Violation {
            obligation: obl.into(),
            what,
            input: J::obj(vec![("grammar", J::s(gr.print())), ("typed", J::Arr(p.iter().map(J::s).collect()))]),
            expected: J::Arr(b.iter().map(J::s).collect()),
            actual: J::Arr(a.iter().map(J::s).collect()),
            signature: format!("{obl}|{class}"),
            replay_args: vec!["c09_bash".into()],
        };
        if !a.is_subset(b) {
            vs.push(mk("C09.bash.fallback_subset", format!("typed {:?}: the `||` script offers {:?}, the `|` script only {:?}", p, a, b), "extra-candidate"));
        } else if a.is_empty() && !b.is_empty() {
            vs.push(mk("C09.bash.fallback_not_empty", format!("typed {:?}: the `|` script offers {:?} but the `||` script offers nothing", p, b), "lost-all-candidates"));
        }
    }
    Some((probes.len() as u64, nontrivial, vs))
}

pub fn run(thorough: bool) -> Report {
    let mut rep = Report { bound: "`||` grammars of 3..4 (thorough: 5) nodes over 3 literals, 2 commands and a dozen within-word expressions, without a literal shared between branches; cursor after 0..1 complete words with every 0/1/2-character prefix of the vocabulary and a foreign prefix; the `||` script vs the script of the `|` variant, both executed in the installed bash".into(), exhaustive: true, ..Default::default() };
    if Command::new("bash").arg("-c").arg("exit 0").status().is_err() {
        rep.undecided.push("bash is not available".into());
        return rep;
    }
    let mut gs = corpus(thorough);
    if !thorough {
        // quick tier: the within-word shapes (at the end of the corpus) and every 4th of the rest
        let n = gs.len();
        gs = gs.into_iter().enumerate().filter(|(i, _)| *i + 12 >= n || i % 6 == 0).map(|(_, g)| g).collect();
    }
    let results: std::sync::Mutex<Vec<(usize, Option<(u64, u64, Vec<Violation>)>)>> = std::sync::Mutex::new(vec![]);
    let next = std::sync::atomic::AtomicUsize::new(0);
    std::thread::scope(|sc| {
        for _ in 0..16 {
            sc.spawn(|| loop {
                let i = next.fetch_add(1, std::sync::atomic::Ordering::SeqCst);
                if i >= gs.len() {
                    break;
                }
                let r = one_grammar(&gs[i], thorough);
                results.lock().unwrap().push((i, r));
            });
        }
    });
    let mut results = results.into_inner().unwrap();
    results.sort_by_key(|(i, _)| *i);
    let mut accepted = 0;
    for (i, r) in results {
        match r {
            Some((cases, nontrivial, vs)) => {
                accepted += 1;
                rep.cases += cases;
                rep.distinct_nontrivial += nontrivial;
                rep.violations.extend(vs);
                if rep.samples.len() < 3 {
                    rep.samples.push(J::s(Grammar { stmts: vec![Stmt::Call("cmd".into(), gs[i].clone())] }.print()));
                }
            }
            None => {}
        }
    }
    rep.samples.push(J::obj(vec![("grammars", J::Num(gs.len() as i64)), ("accepted", J::Num(accepted))]));
    if accepted * 2 < gs.len() as i64 {
        rep.undecided.push("fewer than half of the grammars accepted".into());
    }
    rep
}

pub fn replay(_args: &[String]) -> i32 {
    let rep = run(false);
    for v in rep.violations.iter().take(10) {
        println!("[{}] {}", v.obligation, v.what);
    }
    if rep.violations.is_empty() {
        println!("`||` and `|` scripts agree on every probe");
        0
    } else {
        1
    }
}
