//! C07, bash clause ("in bash this is observed directly"): a labelled bounded stand-in that
//! executes the script emitted by the REAL bash emitter in the installed bash:
//!   * the script passes `bash -n`,
//!   * the candidates offered for the first word are character-for-character the literals,
//!   * a literal is matched only by the identical word (probe words that glob-match / expand to
//!     the literal must not be read as it).
use crate::gram::*;
use crate::json::J;
use crate::{Report, Violation};
use std::io::Write;
use std::process::{Command, Stdio};

const STUB: &str = r#"
# readline is not active in a non-interactive shell: `bind -v` (used only to read
# completion-ignore-case) is stubbed out
bind () { :; }
_get_comp_words_by_ref () {
    while [[ $# -gt 0 ]]; do
        case $1 in
            -n) shift 2 ;;
            words) words=("${COMP_WORDS[@]}"); shift ;;
            cword) cword=$COMP_CWORD; shift ;;
            cur) cur=${COMP_WORDS[$COMP_CWORD]}; shift ;;
            prev) prev=${COMP_WORDS[$COMP_CWORD-1]}; shift ;;
            *) shift ;;
        esac
    done
}
"#;

fn run_bash(script: &str) -> Option<(i32, String, String)> {
    let mut child = Command::new("bash").arg("--norc").arg("--noprofile").stdin(Stdio::piped()).stdout(Stdio::piped()).stderr(Stdio::piped()).spawn().ok()?;
    child.stdin.take()?.write_all(script.as_bytes()).ok()?;
    let o = child.wait_with_output().ok()?;
    Some((o.status.code().unwrap_or(-1), String::from_utf8_lossy(&o.stdout).into_owned(), String::from_utf8_lossy(&o.stderr).into_owned()))
}

fn bash_sq(s: &str) -> String {
    format!("'{}'", s.replace('\'', r"'\''"))
}

/// (literal, probe words that must NOT be read as the literal)
fn nasty() -> Vec<(&'static str, Vec<&'static str>)> {
    vec![
        ("a*", vec!["abc", "a"]),
        ("?b", vec!["xb"]),
        ("[ab]c", vec!["ac", "bc"]),
        ("x\\y", vec!["xy", "x\\\\y"]),
        ("\\", vec!["", "\\\\"]),
        ("$HOME", vec!["/root", ""]),
        ("`id`", vec!["uid=0(root)"]),
        ("!x", vec!["x"]),
        ("~", vec!["/root"]),
        ("c#d", vec!["c"]),
        ("a&b", vec!["a"]),
        ("{p,q}", vec!["p", "q"]),
        ("\"dq\"", vec!["dq"]),
        ("'sq'", vec!["sq"]),
        ("(g)", vec!["g"]),
        ("<r>", vec!["r"]),
        ("a|b", vec!["a", "b"]),
        ("e;f", vec!["e"]),
        ("$(id)", vec!["uid=0(root)"]),
        ("${X}", vec![""]),
        ("plain", vec!["plai", "plainx"]),
    ]
}

pub fn emit_bash(text: &str) -> Result<String, String> {
    let c = crate::pipeline::compile(text, "bash")?;
    let mut buf: Vec<u8> = vec![];
    complgen::bash::write_completion_script(&mut buf, &c.command, &c.min).map_err(|e| format!("{e:?}"))?;
    String::from_utf8(buf).map_err(|e| e.to_string())
}

pub fn run(_thorough: bool) -> Report {
    let mut rep = Report { bound: "one grammar `cmd (LIT_i mark_i | ..)` over 21 adversarial literals (glob characters, backslashes, $, backticks, quotes, braces, operators); for each literal the identical word and 1-2 look-alike words; first-word candidates; bash -n".into(), exhaustive: true, ..Default::default() };
    if run_bash("exit 0").is_none() {
        rep.undecided.push("bash is not available".into());
        return rep;
    }
    // keep the literals the grammar syntax can express (each checked alone through the real parser)
    let lits: Vec<(&'static str, Vec<&'static str>)> = nasty()
        .into_iter()
        .filter(|(l, _)| {
            let g = Grammar { stmts: vec![Stmt::Call("cmd".into(), G::Seq(vec![lit(l), lit("m")]))] };
            crate::pipeline::compile(&g.print(), "bash").is_ok()
        })
        .collect();
    if lits.len() < 15 {
        rep.undecided.push(format!("only {} of the adversarial literals are accepted by the parser", lits.len()));
        return rep;
    }
    let alts: Vec<G> = lits.iter().enumerate().map(|(i, (l, _))| G::Seq(vec![lit(l), lit(&format!("mark{i}"))])).collect();
    let gr = Grammar { stmts: vec![Stmt::Call("cmd".into(), G::Alt(alts))] };
    let text = gr.print();
    let script = match emit_bash(&text) {
        Ok(s) => s,
        Err(e) => {
            rep.undecided.push(format!("the adversarial grammar was rejected: {e}"));
            return rep;
        }
    };
    let mk = |obl: &str, what: String, input: J, expected: J, actual: J, class: &str| Violation {
        obligation: obl.into(),
        what,
        input,
        expected,
        actual,
        signature: format!("{obl}|{class}"),
        replay_args: vec!["c07_bash".into()],
    };
    // 1. syntax
    rep.cases += 1;
    let (rc, _, err) = run_bash(&format!("bash -n <<'COMPLGEN_EOF'\n{script}\nCOMPLGEN_EOF\n")).unwrap();
    if rc != 0 {
        rep.violations.push(mk("C07.bash.script_syntax", format!("bash -n rejects the emitted script: {}", err.lines().next().unwrap_or("")), J::s(&text), J::s("bash -n exit 0"), J::s(err.chars().take(300).collect::<String>()), "bash-n"));
        return rep;
    }
    // 2. first-word candidates
    rep.cases += 1;
    let probe = |words: &[&str]| -> Option<Vec<String>> {
        let mut s = String::new();
        s.push_str(STUB);
        s.push_str(&script);
        s.push_str("\nCOMP_WORDS=(cmd");
        for w in words {
            s.push(' ');
            s.push_str(&bash_sq(w));
        }
        s.push_str(&format!(")\nCOMP_CWORD={}\nCOMPREPLY=()\n_cmd\nfor r in \"${{COMPREPLY[@]}}\"; do printf '%s\\0' \"$r\"; done\n", words.len()));
        let (_, out, _) = run_bash(&s)?;
        Some(out.split('\0').filter(|x| !x.is_empty()).map(|x| x.to_string()).collect())
    };
    let mut got = probe(&[""]).unwrap_or_default();
    got.sort();
    let mut want: Vec<String> = lits.iter().map(|(l, _)| l.to_string()).collect();
    want.sort();
    // bash appends a space to unique candidates only at the readline level; complgen's own
    // candidates may carry a trailing space: compare modulo one trailing space
    let norm = |v: &Vec<String>| v.iter().map(|x| x.strip_suffix(' ').unwrap_or(x).to_string()).collect::<Vec<_>>();
    if norm(&got) != want {
        rep.violations.push(mk("C07.bash.candidates_verbatim", format!("candidates offered for the first word differ from the grammar's literals"), J::s(&text), J::Arr(want.iter().map(J::s).collect()), J::Arr(got.iter().map(J::s).collect()), "first-word-candidates"));
    }
    rep.distinct_nontrivial += 1;
    // 3. matched only by the identical word
    for (i, (l, lookalikes)) in lits.iter().enumerate() {
        rep.cases += 1;
        rep.distinct_nontrivial += 1;
        let r = norm(&probe(&[l, ""]).unwrap_or_default());
        let mark = format!("mark{i}");
        if r != vec![mark.clone()] {
            rep.violations.push(mk("C07.bash.literal_matched_by_itself", format!("after the word {l:?} (a literal of the grammar) the script offers {r:?} instead of [{mark:?}]"), J::obj(vec![("grammar", J::s(&text)), ("typed", J::s(*l))]), J::Arr(vec![J::s(&mark)]), J::Arr(r.iter().map(J::s).collect()), "identical-word-not-matched"));
        }
        for w in lookalikes {
            if lits.iter().any(|(x, _)| x == w) {
                continue;
            }
            rep.cases += 1;
            let r = norm(&probe(&[w, ""]).unwrap_or_default());
            if !r.is_empty() {
                rep.violations.push(mk("C07.bash.literal_matched_only_by_itself", format!("the word {w:?} is not a literal of the grammar (closest: {l:?}) but the script continues with {r:?}"), J::obj(vec![("grammar", J::s(&text)), ("typed", J::s(*w))]), J::Arr(vec![]), J::Arr(r.iter().map(J::s).collect()), "lookalike-word-matched"));
            }
        }
    }
    rep.samples.push(J::obj(vec![("grammar", J::s(&text))]));
    rep
}

pub fn replay(_args: &[String]) -> i32 {
    let rep = run(false);
    for v in &rep.violations {
        println!("[{}] {}", v.obligation, v.what);
    }
    if rep.violations.is_empty() {
        println!("emitted bash script: bash -n ok, candidates verbatim, literals matched only by the identical word");
        0
    } else {
        1
    }
}
