//! C16: the --dfa and --regex Graphviz dumps. Labelled bounded stand-in on the real
//! DFA::to_dot / Regex::to_dot: the text is parsed with a DOT parser written from the DOT
//! grammar (quoted strings as Graphviz's scanner reads them: `\"` is a quote, a `\\` pair is kept
//! as a unit, the first other `"` ends the string), and the resulting graph is compared with the
//! automaton / the regex's expected items.
use crate::c04::array_start;
use crate::cpipe;
use crate::json::J;
use crate::pipeline::*;
use crate::{Report, Violation};
use complgen::dfa::{DFA, Inp, verif_hooks as dh};
use complgen::regex::{Regex, RegexInput, RegexInternPool};
use complgen::tables::verif_hooks as th;
use std::collections::{BTreeMap, BTreeSet};

#[derive(Debug, Clone, PartialEq)]
enum Tok {
    Id(String),
    Str(String),
    P(char),
    Arrow,
}

fn lex(s: &str) -> Result<Vec<Tok>, String> {
    let cs: Vec<char> = s.chars().collect();
    let mut i = 0;
    let mut out = vec![];
    while i < cs.len() {
        let c = cs[i];
        if c.is_whitespace() {
            i += 1;
        } else if c == '"' {
            let mut j = i + 1;
            let mut val = String::new();
            loop {
                if j >= cs.len() {
                    return Err(format!("unterminated string starting at char {i}: {:?}", cs[i..cs.len().min(i + 40)].iter().collect::<String>()));
                }
                if cs[j] == '\\' && j + 1 < cs.len() && cs[j + 1] == '"' {
                    val.push('"');
                    j += 2;
                } else if cs[j] == '\\' && j + 1 < cs.len() && cs[j + 1] == '\\' {
                    val.push('\\');
                    j += 2;
                } else if cs[j] == '"' {
                    break;
                } else {
                    val.push(cs[j]);
                    j += 1;
                }
            }
            out.push(Tok::Str(val));
            i = j + 1;
        } else if c == '-' && i + 1 < cs.len() && cs[i + 1] == '>' {
            out.push(Tok::Arrow);
            i += 2;
        } else if "{}[]=;,".contains(c) {
            out.push(Tok::P(c));
            i += 1;
        } else if c.is_alphanumeric() || c == '_' || c == '.' {
            let mut j = i;
            while j < cs.len() && (cs[j].is_alphanumeric() || cs[j] == '_' || cs[j] == '.') {
                j += 1;
            }
            out.push(Tok::Id(cs[i..j].iter().collect()));
            i = j;
        } else {
            return Err(format!("unexpected character {c:?} outside a quoted string near {:?}", cs[i.saturating_sub(20)..cs.len().min(i + 20)].iter().collect::<String>()));
        }
    }
    Ok(out)
}

#[derive(Debug, Default, Clone)]
pub struct Graph {
    /// node id -> (label, shape in force when first declared, cluster path)
    pub nodes: BTreeMap<String, (Option<String>, String, Vec<String>)>,
    /// (from, to, label, style)
    pub edges: Vec<(String, String, Option<String>, Option<String>)>,
    pub clusters: BTreeSet<String>,
}

struct P {
    t: Vec<Tok>,
    i: usize,
}
impl P {
    fn peek(&self) -> Option<&Tok> {
        self.t.get(self.i)
    }
    fn next(&mut self) -> Option<Tok> {
        let x = self.t.get(self.i).cloned();
        self.i += 1;
        x
    }
    fn expect(&mut self, c: char) -> Result<(), String> {
        match self.next() {
            Some(Tok::P(x)) if x == c => Ok(()),
            other => Err(format!("expected `{c}`, found {other:?} (token {})", self.i)),
        }
    }
    fn id(&mut self) -> Result<String, String> {
        match self.next() {
            Some(Tok::Id(s)) | Some(Tok::Str(s)) => Ok(s),
            other => Err(format!("expected an identifier, found {other:?} (token {})", self.i)),
        }
    }
    fn attrs(&mut self) -> Result<BTreeMap<String, String>, String> {
        let mut m = BTreeMap::new();
        while matches!(self.peek(), Some(Tok::P('['))) {
            self.next();
            while !matches!(self.peek(), Some(Tok::P(']'))) {
                let k = self.id()?;
                self.expect('=')?;
                let v = self.id()?;
                m.insert(k, v);
                if matches!(self.peek(), Some(Tok::P(',')) | Some(Tok::P(';'))) {
                    self.next();
                }
            }
            self.expect(']')?;
        }
        Ok(m)
    }
    fn stmts(&mut self, g: &mut Graph, path: &mut Vec<String>, shape: &mut String) -> Result<(), String> {
        loop {
            match self.peek() {
                None => return Err("unexpected end of file inside a graph body".into()),
                Some(Tok::P('}')) => return Ok(()),
                Some(Tok::P(';')) => {
                    self.next();
                }
                Some(Tok::Id(k)) if k == "subgraph" => {
                    self.next();
                    let name = self.id()?;
                    self.expect('{')?;
                    g.clusters.insert(name.clone());
                    path.push(name);
                    let mut inner_shape = shape.clone();
                    self.stmts(g, path, &mut inner_shape)?;
                    path.pop();
                    self.expect('}')?;
                }
                Some(Tok::Id(k)) if (k == "node" || k == "edge" || k == "graph") && matches!(self.t.get(self.i + 1), Some(Tok::P('['))) => {
                    let kind = k.clone();
                    self.next();
                    let a = self.attrs()?;
                    if kind == "node" {
                        if let Some(s) = a.get("shape") {
                            *shape = s.clone();
                        }
                    }
                }
                _ => {
                    let a = self.id()?;
                    match self.peek() {
                        Some(Tok::P('=')) => {
                            self.next();
                            let _ = self.id()?;
                        }
                        Some(Tok::Arrow) => {
                            self.next();
                            let b = self.id()?;
                            let at = self.attrs()?;
                            g.edges.push((a, b, at.get("label").cloned(), at.get("style").cloned()));
                        }
                        _ => {
                            let at = self.attrs()?;
                            g.nodes.entry(a).or_insert((at.get("label").cloned(), shape.clone(), path.clone()));
                        }
                    }
                    if matches!(self.peek(), Some(Tok::P(';'))) {
                        self.next();
                    }
                }
            }
        }
    }
}

pub fn parse_dot(s: &str) -> Result<Graph, String> {
    let t = lex(s)?;
    let mut p = P { t, i: 0 };
    match p.next() {
        Some(Tok::Id(k)) if k == "digraph" => {}
        other => return Err(format!("expected `digraph`, found {other:?}")),
    }
    if matches!(p.peek(), Some(Tok::Id(_)) | Some(Tok::Str(_))) {
        p.next();
    }
    p.expect('{')?;
    let mut g = Graph::default();
    let mut shape = "ellipse".to_string();
    p.stmts(&mut g, &mut vec![], &mut shape)?;
    p.expect('}')?;
    if p.peek().is_some() {
        return Err(format!("text after the closing brace of the digraph (token {})", p.i));
    }
    Ok(g)
}

type Errs = Vec<(String, String)>;

fn states_of(d: &DFA) -> BTreeSet<u32> {
    let mut s = BTreeSet::new();
    s.insert(d.starting_state);
    for (f, tos) in &d.transitions {
        s.insert(*f);
        for (_, t) in tos {
            s.insert(*t);
        }
    }
    s.extend(d.accepting_states.iter());
    s
}

fn check_dfa_graph(g: &Graph, owner: &DFA, d: &DFA, prefix: &str, base: u32, ids: &BTreeMap<usize, usize>, errs: &mut Errs) {
    let name = |s: u32| format!("_{prefix}{}", s + base);
    let mine: BTreeSet<String> = g.nodes.keys().filter(|k| k.starts_with(&format!("_{prefix}")) && k[1 + prefix.len()..].chars().all(|c| c.is_ascii_digit())).cloned().collect();
    let exp: BTreeSet<String> = states_of(d).iter().map(|s| name(*s)).collect();
    if mine != exp {
        errs.push(("dfa.nodes".into(), format!("nodes of automaton `{prefix}`: {mine:?}, states (numbered from {base}): {exp:?}")));
    }
    if let Some((_, shape, _)) = g.nodes.get(&name(d.starting_state)) {
        if !shape.contains("octagon") {
            errs.push(("dfa.start_marked".into(), format!("start state {} is drawn as {shape}", name(d.starting_state))));
        }
    }
    for a in d.accepting_states.iter() {
        if let Some((_, shape, _)) = g.nodes.get(&name(a)) {
            if !shape.contains("double") {
                errs.push(("dfa.accepting_marked".into(), format!("accepting state {} is drawn as {shape}", name(a))));
            }
        }
    }
    for s in states_of(d) {
        if !d.accepting_states.contains(s) {
            if let Some((_, shape, _)) = g.nodes.get(&name(s)) {
                if shape.contains("double") {
                    errs.push(("dfa.accepting_marked".into(), format!("non-accepting state {} is drawn as {shape}", name(s))));
                }
            }
        }
    }
    for (from, tos) in &d.transitions {
        for (inp_id, to) in tos {
            match dh::inp_of(d, *inp_id) {
                Inp::Subword { subdfa, .. } => {
                    let sub = dh::subdfa_of(owner, *subdfa);
                    let Some(id) = ids.get(&dh::dfa_id_raw(*subdfa)) else { continue };
                    let sp = format!("{id}_");
                    let entry = format!("_{sp}{}", sub.starting_state + base);
                    if !g.edges.iter().any(|(a, b, _, _)| *a == name(*from) && *b == entry) {
                        errs.push(("dfa.subword_edges".into(), format!("no edge {} -> {entry} into within-word automaton {id}", name(*from))));
                    }
                    for acc in sub.accepting_states.iter() {
                        let exit = format!("_{sp}{}", acc + base);
                        if !g.edges.iter().any(|(a, b, _, _)| *a == exit && *b == name(*to)) {
                            errs.push(("dfa.subword_edges".into(), format!("no edge {exit} -> {} leaving within-word automaton {id}", name(*to))));
                        }
                    }
                }
                inp => {
                    let want = match inp {
                        Inp::Literal { literal, .. } => literal.as_str().to_string(),
                        Inp::Command { cmd, .. } | Inp::Compadd { cmd, .. } => cmd.as_str().to_string(),
                        _ => "*".to_string(),
                    };
                    let found = g.edges.iter().any(|(a, b, l, _)| *a == name(*from) && *b == name(*to) && l.as_ref().map_or(false, |l| l.contains(&want)));
                    if !found {
                        errs.push(("dfa.edges".into(), format!("no edge {} -> {} labelled with {want:?}", name(*from), name(*to))));
                    }
                }
            }
        }
    }
}

pub fn check_dfa_dump(dfa: &DFA, shell: &str, errs: &mut Errs) {
    let base = array_start(shell) as u32;
    let mut buf: Vec<u8> = vec![];
    if let Err(e) = dfa.to_dot(&mut buf, base) {
        errs.push(("dfa.emit".into(), format!("to_dot failed: {e:?}")));
        return;
    }
    let text = String::from_utf8_lossy(&buf).into_owned();
    let g = match parse_dot(&text) {
        Ok(g) => g,
        Err(e) => {
            errs.push(("dfa.valid_dot".into(), format!("the --dfa dump is not a valid digraph: {e}")));
            return;
        }
    };
    let ids: BTreeMap<usize, usize> = th::subwords(dfa, base as usize).into_iter().map(|(d, i)| (dh::dfa_id_raw(d), i)).collect();
    check_dfa_graph(&g, dfa, dfa, "", base, &ids, errs);
    let exp_clusters: BTreeSet<String> = ids.values().map(|i| format!("cluster_{i}")).collect();
    if g.clusters != exp_clusters {
        errs.push(("dfa.clusters".into(), format!("clusters {:?}, one per within-word automaton expected: {exp_clusters:?}", g.clusters)));
    }
    for (raw, id) in &ids {
        let sub = dh::subdfa_of(dfa, dh::dfa_id_from_raw(*raw));
        check_dfa_graph(&g, dfa, sub, &format!("{id}_"), base, &BTreeMap::new(), errs);
    }
    // every edge joins declared nodes
    for (a, b, _, _) in &g.edges {
        for n in [a, b] {
            if !g.nodes.contains_key(n) {
                errs.push(("dfa.edge_endpoints".into(), format!("edge {a} -> {b}: {n} is not a node of any automaton")));
            }
        }
    }
    let n_trans: usize = dfa.transitions.values().map(|m| m.len()).sum();
    let labelled = g.edges.iter().filter(|e| e.0.matches('_').count() == 1 && e.1.matches('_').count() == 1 && e.3.is_none()).count();
    let n_plain: usize = dfa.transitions.iter().map(|(_, m)| m.iter().filter(|(i, _)| !matches!(dh::inp_of(dfa, **i), Inp::Subword { .. })).count()).sum();
    if labelled != n_plain {
        errs.push(("dfa.edge_count".into(), format!("{labelled} plain edges in the main automaton, {n_plain} such transitions ({n_trans} in total)")));
    }
}

fn expected_labels(r: &Regex, pool: &RegexInternPool, seen: &mut BTreeSet<usize>, out: &mut Vec<String>) {
    for (pos, inp) in r.input_from_position.iter().enumerate() {
        match inp {
            RegexInput::Literal { literal, description, .. } => out.push(match description {
                Some(d) => format!("{pos}: \"{}\"\n\"{}\"", literal.as_str(), d.as_str()),
                None => format!("{pos}: \"{}\"", literal.as_str()),
            }),
            RegexInput::Nonterminal { nonterm, .. } => out.push(format!("{pos}: <{}>", nonterm.as_str())),
            RegexInput::Command { cmd, .. } => out.push(format!("{pos}: {}", cmd.as_str())),
            RegexInput::Subword { subword_regex_id, .. } => {
                let id: usize = format!("{subword_regex_id}").parse().unwrap_or(0);
                if seen.insert(id) {
                    expected_labels(complgen::regex::verif_hooks::lookup(pool, *subword_regex_id), pool, seen, out);
                }
            }
        }
    }
}

pub fn check_regex_dump(text: &str, shell: &str, errs: &mut Errs) {
    use complgen::check::ValidGrammar;
    use complgen::parse::Grammar;
    let Ok(g) = Grammar::parse(text) else { return };
    let Ok(v) = ValidGrammar::from_grammar(g, shell_of(shell)) else { return };
    let mut pool = RegexInternPool::default();
    let Ok(regex) = Regex::from_valid_grammar(&v, &mut pool) else { return };
    let mut buf: Vec<u8> = vec![];
    if let Err(e) = regex.to_dot(&mut buf, &pool) {
        errs.push(("regex.emit".into(), format!("to_dot failed: {e:?}")));
        return;
    }
    let dump = String::from_utf8_lossy(&buf).into_owned();
    let g = match parse_dot(&dump) {
        Ok(g) => g,
        Err(e) => {
            errs.push(("regex.valid_dot".into(), format!("the --regex dump is not a valid digraph: {e}")));
            return;
        }
    };
    let mut want = vec![];
    expected_labels(&regex, &pool, &mut BTreeSet::new(), &mut want);
    let have: Vec<String> = g.nodes.values().filter_map(|(l, _, _)| l.clone()).collect();
    for w in want {
        if !have.contains(&w) {
            errs.push(("regex.items".into(), format!("no node labelled {w:?} (labels: {:?})", have.iter().filter(|h| h.contains(':')).take(8).collect::<Vec<_>>())));
        }
    }
    for (a, b, _, _) in &g.edges {
        for n in [a, b] {
            if !g.nodes.contains_key(n) {
                errs.push(("regex.edge_endpoints".into(), format!("edge {a} -> {b}: {n} has no label (never declared)")));
            }
        }
    }
}

fn viol(f: &str, m: String, text: &str, shell: &str) -> Violation {
    Violation {
        obligation: format!("C16.{f}"),
        what: m,
        input: J::obj(vec![("grammar", J::s(text)), ("shell", J::s(shell))]),
        expected: J::s("valid digraph showing the automaton / every expected item"),
        actual: J::s("see message"),
        signature: format!("C16.{f}|{f}"),
        replay_args: vec!["c16_dumps".into(), format!("C16.{f}"), shell.into(), text.into()],
    }
}

pub fn check_one(text: &str, shell: &str, out: &mut Vec<Violation>) -> bool {
    let (t2, s2) = (text.to_string(), shell.to_string());
    let Ok(Ok(comp)) = guarded(move || compile(&t2, &s2)) else { return false };
    let (d2, s3, t3) = (comp.min.clone(), shell.to_string(), text.to_string());
    match guarded(move || {
        let mut e = vec![];
        check_dfa_dump(&d2, &s3, &mut e);
        check_regex_dump(&t3, &s3, &mut e);
        e
    }) {
        Ok(errs) => {
            let mut seen = BTreeSet::new();
            for (f, m) in errs {
                if seen.insert(f.clone()) {
                    out.push(viol(&f, m, text, shell));
                }
            }
        }
        Err(p) => out.push(viol("no_panic", format!("writing a dump panicked: {p}"), text, shell)),
    }
    true
}

pub fn run(thorough: bool, seed: u64) -> Report {
    let shells: Vec<&str> = if thorough { vec!["bash", "fish", "zsh", "pwsh"] } else { vec!["bash", "zsh"] };
    let mut rep = Report { bound: format!("pipeline corpus ({} tier) + grammars with quotes / backslashes / braces in literals, descriptions and commands, several within-word automata, x {:?}; both dumps parsed with a DOT parser", if thorough { "thorough" } else { "quick" }, shells), exhaustive: true, ..Default::default() };
    let mut texts: Vec<String> = vec![
        "cmd foo \"de\\\"x\" | a\\\"b | c\\\\d \"back\\\\slash\" | {{{ echo \"q\" \\\\ }}} | e\\{f\\};\n".into(),
        "cmd --x=(a\\\"1 \"d\\\"1\" | b) y=<U> | --z={{{ printf '%s\\n' \"$1\" }}};\n".into(),
        "cmd (p=(a|b) | q=(c|d) | r=(e|f|g))... <PATH>;\n".into(),
        "cmd <C> <C>;\n<C> ::= --color=(always | never);\n".into(),
        "cmd [a [b]] | [c [b]];\n".into(),
        "cmd (x \"tab\there\" | y \"nl\\\\n\");\n".into(),
    ];
    let step = if thorough { 3 } else { 17 };
    texts.extend(cpipe::corpus(thorough, seed).iter().step_by(step).map(|g| g.print()));
    let mut accepted = 0;
    for text in &texts {
        for sh in &shells {
            rep.cases += 1;
            if check_one(text, sh, &mut rep.violations) {
                accepted += 1;
                rep.distinct_nontrivial += 1;
            }
        }
        if rep.samples.len() < 2 {
            rep.samples.push(J::s(text));
        }
    }
    rep.samples.push(J::obj(vec![("accepted", J::Num(accepted))]));
    if accepted * 3 < rep.cases as i64 {
        rep.undecided.push("fewer than a third of the grammars accepted".into());
    }
    rep
}

pub fn replay(args: &[String]) -> i32 {
    let (obl, shell, text) = (&args[0], &args[1], &args[2]);
    println!("grammar:\n{text}shell: {shell}");
    let mut v = vec![];
    check_one(text, shell, &mut v);
    for x in &v {
        println!("  [{}] {}", x.obligation, x.what);
    }
    if v.iter().any(|x| &x.obligation == obl) { 1 } else { 0 }
}
