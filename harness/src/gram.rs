//! Abstract grammars for the bounded stand-ins: a tree type, a printer to `.usage` text (so the
//! real parser is part of every run) and exhaustive / seeded-random generators.
#![allow(dead_code)]

#[derive(Clone, Debug, PartialEq, Eq, Hash, PartialOrd, Ord)]
pub enum G {
    Lit(String, Option<String>),
    Nt(String),
    Cmd(String),
    Seq(Vec<G>),
    Alt(Vec<G>),
    Fb(Vec<G>),
    Opt(Box<G>),
    Many(Box<G>),
    /// within-word juxtaposition
    Sub(Vec<G>),
    /// `(x) "descr"`
    Dd(Box<G>, String),
}

#[derive(Clone, Debug, PartialEq, Eq, Hash)]
pub enum Stmt {
    Call(String, G),
    /// name, shell (None = plain), body
    Def(String, Option<String>, G),
}

#[derive(Clone, Debug, PartialEq, Eq, Hash)]
pub struct Grammar {
    pub stmts: Vec<Stmt>,
}

pub fn lit(s: &str) -> G {
    G::Lit(s.to_string(), None)
}
pub fn litd(s: &str, d: &str) -> G {
    G::Lit(s.to_string(), Some(d.to_string()))
}
pub fn nt(s: &str) -> G {
    G::Nt(s.to_string())
}
pub fn cmd(s: &str) -> G {
    G::Cmd(s.to_string())
}

fn esc_lit(s: &str) -> String {
    let mut out = String::new();
    for c in s.chars() {
        if matches!(c, '(' | ')' | '[' | ']' | '<' | '>' | '|' | ';' | '"' | '{' | '}' | '\\') {
            out.push('\\');
        }
        out.push(c);
    }
    out
}

fn esc_descr(s: &str) -> String {
    let mut out = String::new();
    for c in s.chars() {
        if c == '"' || c == '\\' {
            out.push('\\');
        }
        out.push(c);
    }
    out
}

impl G {
    pub fn size(&self) -> usize {
        match self {
            G::Lit(..) | G::Nt(_) | G::Cmd(_) => 1,
            G::Seq(v) | G::Alt(v) | G::Fb(v) | G::Sub(v) => 1 + v.iter().map(|g| g.size()).sum::<usize>(),
            G::Opt(x) | G::Many(x) | G::Dd(x, _) => 1 + x.size(),
        }
    }

    fn is_atomic(&self) -> bool {
        matches!(self, G::Lit(_, None) | G::Nt(_) | G::Cmd(_) | G::Opt(_))
    }

    /// text usable as one factor of a sequence / one part of a word
    fn atom(&self) -> String {
        if self.is_atomic() { self.print() } else { format!("({})", self.print()) }
    }

    pub fn print(&self) -> String {
        match self {
            G::Lit(t, None) => esc_lit(t),
            G::Lit(t, Some(d)) => format!("{} \"{}\"", esc_lit(t), esc_descr(d)),
            G::Nt(n) => format!("<{n}>"),
            G::Cmd(c) => format!("{{{{{{ {c} }}}}}}"),
            G::Seq(v) => v
                .iter()
                .map(|g| match g {
                    G::Seq(_) | G::Alt(_) | G::Fb(_) => format!("({})", g.print()),
                    _ => g.print(),
                })
                .collect::<Vec<_>>()
                .join(" "),
            G::Alt(v) => v
                .iter()
                .map(|g| match g {
                    G::Alt(_) | G::Fb(_) => format!("({})", g.print()),
                    _ => g.print(),
                })
                .collect::<Vec<_>>()
                .join(" | "),
            G::Fb(v) => v
                .iter()
                .map(|g| match g {
                    G::Fb(_) => format!("({})", g.print()),
                    _ => g.print(),
                })
                .collect::<Vec<_>>()
                .join(" || "),
            G::Opt(x) => format!("[{}]", x.print()),
            G::Many(x) => match &**x {
                G::Lit(_, Some(_)) => format!("({})...", x.print()),
                _ => format!("{}...", x.atom()),
            },
            G::Sub(parts) => parts
                .iter()
                .map(|p| match p {
                    G::Lit(t, None) => esc_lit(t),
                    G::Many(_) => format!("({})", p.print()),
                    other => other.atom(),
                })
                .collect::<Vec<_>>()
                .join(""),
            G::Dd(x, d) => format!("({}) \"{}\"", x.print(), esc_descr(d)),
        }
    }
}

impl Grammar {
    pub fn print(&self) -> String {
        let mut out = String::new();
        for s in &self.stmts {
            match s {
                Stmt::Call(c, g) => out.push_str(&format!("{c} {};\n", g.print())),
                Stmt::Def(n, None, g) => out.push_str(&format!("<{n}> ::= {};\n", g.print())),
                Stmt::Def(n, Some(sh), g) => out.push_str(&format!("<{n}@{sh}> ::= {};\n", g.print())),
            }
        }
        out
    }
}

/// Small deterministic PRNG (xorshift*), seeded from VERIF_SEED.
pub struct Rng(pub u64);
impl Rng {
    pub fn new(seed: u64) -> Self {
        Rng(seed.wrapping_mul(0x9E3779B97F4A7C15) ^ 0xD1B54A32D192ED03)
    }
    pub fn next(&mut self) -> u64 {
        let mut x = self.0;
        x ^= x >> 12;
        x ^= x << 25;
        x ^= x >> 27;
        self.0 = x;
        x.wrapping_mul(0x2545F4914F6CDD1D)
    }
    pub fn below(&mut self, n: usize) -> usize {
        (self.next() % (n as u64)) as usize
    }
    pub fn chance(&mut self, num: usize, den: usize) -> bool {
        self.below(den) < num
    }
}

/// Leaves used by the exhaustive enumeration.
pub fn default_leaves() -> Vec<G> {
    vec![lit("a"), lit("b"), litd("a", "d1"), litd("c", "d2"), nt("X"), nt("U"), cmd("echo k")]
}

/// All trees with exactly `n` nodes over `leaves`, with operators Seq2, Alt2, Fb2, Opt, Many,
/// Sub2 (word of two parts), Dd. `in_word` restricts to shapes legal inside a word.
pub fn enumerate(n: usize, leaves: &[G], in_word: bool, out: &mut Vec<G>) {
    if n == 0 {
        return;
    }
    if n == 1 {
        for l in leaves {
            if in_word && matches!(l, G::Lit(_, Some(_))) {
                continue;
            }
            out.push(l.clone());
        }
        return;
    }
    // unary
    let mut sub = vec![];
    enumerate(n - 1, leaves, in_word, &mut sub);
    for s in &sub {
        out.push(G::Opt(Box::new(s.clone())));
        if !matches!(s, G::Many(_)) {
            out.push(G::Many(Box::new(s.clone())));
        }
        if dd_ok(s) || (in_word && matches!(s, G::Nt(_) | G::Cmd(_))) {
            out.push(G::Dd(Box::new(s.clone()), "dd".to_string()));
        }
    }
    // binary
    for k in 1..(n - 1) {
        let mut l = vec![];
        let mut r = vec![];
        enumerate(k, leaves, in_word, &mut l);
        enumerate(n - 1 - k, leaves, in_word, &mut r);
        for a in &l {
            for b in &r {
                out.push(G::Seq(vec![a.clone(), b.clone()]));
                out.push(G::Alt(vec![a.clone(), b.clone()]));
                out.push(G::Fb(vec![a.clone(), b.clone()]));
            }
        }
        if in_word && n <= 4 {
            // a juxtaposition nested in a group of a word, e.g. `--r=(all|from<N>),x`
            for a in &l {
                for b in &r {
                    if word_part_ok(a) && word_part_ok(b) && !(matches!(a, G::Lit(..)) && matches!(b, G::Lit(..))) {
                        out.push(G::Sub(vec![a.clone(), b.clone()]));
                    }
                }
            }
        }
        if !in_word {
            let mut wl = vec![];
            let mut wr = vec![];
            enumerate(k, leaves, true, &mut wl);
            enumerate(n - 1 - k, leaves, true, &mut wr);
            for a in &wl {
                for b in &wr {
                    if word_part_ok(a) && word_part_ok(b) && !(matches!(a, G::Lit(..)) && matches!(b, G::Lit(..))) {
                        out.push(G::Sub(vec![a.clone(), b.clone()]));
                    }
                }
            }
        }
    }
}

/// shapes on which every reading of "the first literal of each alternative gets the
/// description" agrees: a literal-headed sequence/word, or an alternative of those
fn dd_ok(g: &G) -> bool {
    match g {
        G::Lit(_, None) => true,
        G::Seq(v) | G::Sub(v) => matches!(v.first(), Some(G::Lit(_, None))),
        G::Alt(v) => v.iter().all(dd_ok),
        _ => false,
    }
}

fn word_part_ok(g: &G) -> bool {
    match g {
        G::Lit(_, None) | G::Nt(_) | G::Cmd(_) => true,
        G::Dd(x, _) => word_inner_ok(x),
        G::Opt(x) => word_inner_ok(x),
        G::Alt(v) | G::Seq(v) | G::Fb(v) => v.iter().all(word_inner_ok),
        G::Many(x) => word_inner_ok(x),
        _ => false,
    }
}
fn word_inner_ok(g: &G) -> bool {
    match g {
        G::Lit(_, None) | G::Nt(_) | G::Cmd(_) => true,
        G::Sub(v) => v.iter().all(word_part_ok),
        G::Opt(x) | G::Many(x) | G::Dd(x, _) => word_inner_ok(x),
        G::Alt(v) | G::Seq(v) | G::Fb(v) => v.iter().all(word_inner_ok),
        _ => false,
    }
}

/// Seeded random tree of roughly `budget` nodes.
pub fn random_tree(rng: &mut Rng, budget: usize, leaves: &[G], in_word: bool) -> G {
    if budget <= 1 {
        loop {
            let l = &leaves[rng.below(leaves.len())];
            if in_word && matches!(l, G::Lit(_, Some(_))) {
                continue;
            }
            return l.clone();
        }
    }
    let k = rng.below(if in_word { 5 } else { 7 });
    match k {
        0 | 1 | 2 => {
            let n = 2 + rng.below(2);
            let each = ((budget - 1) / n).max(1);
            let kids: Vec<G> = (0..n).map(|_| random_tree(rng, each, leaves, in_word)).collect();
            match k {
                0 => G::Seq(kids),
                1 => G::Alt(kids),
                _ => G::Fb(kids),
            }
        }
        3 => G::Opt(Box::new(random_tree(rng, budget - 1, leaves, in_word))),
        4 => {
            let x = random_tree(rng, budget - 1, leaves, in_word);
            if matches!(x, G::Many(_)) { x } else { G::Many(Box::new(x)) }
        }
        5 => {
            let n = 2 + rng.below(2);
            let each = ((budget - 1) / n).max(1);
            let mut parts: Vec<G> = vec![];
            for _ in 0..n {
                let p = random_tree(rng, each, leaves, true);
                if word_part_ok(&p) && !(matches!(p, G::Lit(..)) && matches!(parts.last(), Some(G::Lit(..)))) {
                    parts.push(p);
                }
            }
            if parts.len() >= 2 { G::Sub(parts) } else { random_tree(rng, budget, leaves, in_word) }
        }
        _ => {
            let x = random_tree(rng, budget - 1, leaves, in_word);
            if dd_ok(&x) { G::Dd(Box::new(x), "dd".to_string()) } else { x }
        }
    }
}
