//! Language machinery of the bounded stand-ins, independent of complgen: regular expressions
//! with Brzozowski derivatives, subset construction, Moore minimisation, canonical forms,
//! shortest distinguishing words.
#![allow(dead_code)]
use std::collections::{BTreeMap, BTreeSet, HashMap, VecDeque};

#[derive(Clone, PartialEq, Eq, Hash, PartialOrd, Ord, Debug)]
pub enum R {
    Empty,
    Eps,
    Sym(u32),
    Cat(Box<R>, Box<R>),
    Alt(Vec<R>),
    Star(Box<R>),
}

pub fn cat(a: R, b: R) -> R {
    match (a, b) {
        (R::Empty, _) | (_, R::Empty) => R::Empty,
        (R::Eps, x) | (x, R::Eps) => x,
        (R::Cat(x, y), z) => cat(*x, cat(*y, z)),
        (a, b) => R::Cat(Box::new(a), Box::new(b)),
    }
}
pub fn cat_all(v: Vec<R>) -> R {
    let mut acc = R::Eps;
    for x in v.into_iter().rev() {
        acc = cat(x, acc);
    }
    acc
}
pub fn alt(v: Vec<R>) -> R {
    let mut flat: BTreeSet<R> = BTreeSet::new();
    let mut stack = v;
    while let Some(x) = stack.pop() {
        match x {
            R::Empty => {}
            R::Alt(ys) => stack.extend(ys),
            x => {
                flat.insert(x);
            }
        }
    }
    let mut v: Vec<R> = flat.into_iter().collect();
    match v.len() {
        0 => R::Empty,
        1 => v.pop().unwrap(),
        _ => R::Alt(v),
    }
}
pub fn star(x: R) -> R {
    match x {
        R::Empty | R::Eps => R::Eps,
        R::Star(y) => R::Star(y),
        x => R::Star(Box::new(x)),
    }
}

impl R {
    pub fn nullable(&self) -> bool {
        match self {
            R::Empty | R::Sym(_) => false,
            R::Eps | R::Star(_) => true,
            R::Cat(a, b) => a.nullable() && b.nullable(),
            R::Alt(v) => v.iter().any(|x| x.nullable()),
        }
    }
    pub fn deriv(&self, a: u32) -> R {
        match self {
            R::Empty | R::Eps => R::Empty,
            R::Sym(b) => {
                if *b == a {
                    R::Eps
                } else {
                    R::Empty
                }
            }
            R::Cat(x, y) => {
                let left = cat(x.deriv(a), (**y).clone());
                if x.nullable() { alt(vec![left, y.deriv(a)]) } else { left }
            }
            R::Alt(v) => alt(v.iter().map(|x| x.deriv(a)).collect()),
            R::Star(x) => cat(x.deriv(a), R::Star(x.clone())),
        }
    }
    pub fn syms(&self, out: &mut BTreeSet<u32>) {
        match self {
            R::Empty | R::Eps => {}
            R::Sym(a) => {
                out.insert(*a);
            }
            R::Cat(x, y) => {
                x.syms(out);
                y.syms(out);
            }
            R::Alt(v) => v.iter().for_each(|x| x.syms(out)),
            R::Star(x) => x.syms(out),
        }
    }
}

/// Item interner: canonical item strings <-> u32.
#[derive(Default, Clone)]
pub struct Items {
    pub names: Vec<String>,
    pub idx: HashMap<String, u32>,
}
impl Items {
    pub fn id(&mut self, s: &str) -> u32 {
        if let Some(i) = self.idx.get(s) {
            return *i;
        }
        let i = self.names.len() as u32;
        self.names.push(s.to_string());
        self.idx.insert(s.to_string(), i);
        i
    }
}

/// Partial deterministic automaton over string-named symbols.
#[derive(Clone, Debug)]
pub struct Dfa {
    pub start: usize,
    pub acc: Vec<bool>,
    pub trans: Vec<BTreeMap<String, usize>>,
}

/// Nondeterministic view (several transitions per (state, symbol)).
#[derive(Clone, Debug, Default)]
pub struct Nfa {
    pub start: usize,
    pub acc: Vec<bool>,
    pub trans: Vec<Vec<(String, usize)>>,
}

pub const MAX_STATES: usize = 4000;

pub fn dfa_of_regex(r: &R, items: &Items) -> Option<Dfa> {
    let mut syms = BTreeSet::new();
    r.syms(&mut syms);
    let mut ids: HashMap<R, usize> = HashMap::new();
    let mut states: Vec<R> = vec![r.clone()];
    ids.insert(r.clone(), 0);
    let mut trans: Vec<BTreeMap<String, usize>> = vec![BTreeMap::new()];
    let mut i = 0;
    while i < states.len() {
        let cur = states[i].clone();
        for a in &syms {
            let d = cur.deriv(*a);
            if d == R::Empty {
                continue;
            }
            let j = match ids.get(&d) {
                Some(j) => *j,
                None => {
                    let j = states.len();
                    if j > MAX_STATES {
                        return None;
                    }
                    ids.insert(d.clone(), j);
                    states.push(d);
                    trans.push(BTreeMap::new());
                    j
                }
            };
            trans[i].insert(items.names[*a as usize].clone(), j);
        }
        i += 1;
    }
    Some(Dfa { start: 0, acc: states.iter().map(|s| s.nullable()).collect(), trans })
}

pub fn determinize(n: &Nfa) -> Option<Dfa> {
    let mut ids: HashMap<BTreeSet<usize>, usize> = HashMap::new();
    let s0: BTreeSet<usize> = [n.start].into_iter().collect();
    let mut sets = vec![s0.clone()];
    ids.insert(s0, 0);
    let mut trans: Vec<BTreeMap<String, usize>> = vec![BTreeMap::new()];
    let mut i = 0;
    while i < sets.len() {
        let cur = sets[i].clone();
        let mut by_sym: BTreeMap<String, BTreeSet<usize>> = BTreeMap::new();
        for s in &cur {
            for (a, t) in &n.trans[*s] {
                by_sym.entry(a.clone()).or_default().insert(*t);
            }
        }
        for (a, tgt) in by_sym {
            let j = match ids.get(&tgt) {
                Some(j) => *j,
                None => {
                    let j = sets.len();
                    if j > MAX_STATES {
                        return None;
                    }
                    ids.insert(tgt.clone(), j);
                    sets.push(tgt);
                    trans.push(BTreeMap::new());
                    j
                }
            };
            trans[i].insert(a, j);
        }
        i += 1;
    }
    Some(Dfa { start: 0, acc: sets.iter().map(|s| s.iter().any(|q| n.acc[*q])).collect(), trans })
}

impl Dfa {
    pub fn n(&self) -> usize {
        self.acc.len()
    }

    pub fn reachable(&self) -> Vec<bool> {
        let mut seen = vec![false; self.n()];
        let mut q = VecDeque::new();
        seen[self.start] = true;
        q.push_back(self.start);
        while let Some(s) = q.pop_front() {
            for t in self.trans[s].values() {
                if !seen[*t] {
                    seen[*t] = true;
                    q.push_back(*t);
                }
            }
        }
        seen
    }

    /// states from which an accepting state can be reached
    pub fn live(&self) -> Vec<bool> {
        let mut live = self.acc.clone();
        loop {
            let mut changed = false;
            for s in 0..self.n() {
                if !live[s] && self.trans[s].values().any(|t| live[*t]) {
                    live[s] = true;
                    changed = true;
                }
            }
            if !changed {
                return live;
            }
        }
    }

    /// Trim (reachable and live), Moore-minimise, renumber in BFS order with symbols sorted.
    /// The empty language is the automaton with one non-accepting start state and no edges.
    pub fn canonical(&self) -> Dfa {
        let reach = self.reachable();
        let live = self.live();
        let keep: Vec<bool> = (0..self.n()).map(|s| reach[s] && live[s]).collect();
        if !keep[self.start] {
            return Dfa { start: 0, acc: vec![false], trans: vec![BTreeMap::new()] };
        }
        // Moore refinement over kept states; missing/dropped targets = implicit sink (class usize::MAX)
        let mut class: Vec<usize> = (0..self.n()).map(|s| if self.acc[s] { 1 } else { 0 }).collect();
        let alphabet: BTreeSet<&String> = self.trans.iter().flat_map(|m| m.keys()).collect();
        loop {
            let mut sig_ids: HashMap<(usize, Vec<usize>), usize> = HashMap::new();
            let mut newc = vec![usize::MAX; self.n()];
            for s in 0..self.n() {
                if !keep[s] {
                    continue;
                }
                let sig: Vec<usize> = alphabet
                    .iter()
                    .map(|a| match self.trans[s].get(*a) {
                        Some(t) if keep[*t] => class[*t],
                        _ => usize::MAX,
                    })
                    .collect();
                let k = (class[s], sig);
                let next = sig_ids.len();
                newc[s] = *sig_ids.entry(k).or_insert(next);
            }
            let old_n = (0..self.n()).filter(|s| keep[*s]).map(|s| class[s]).collect::<BTreeSet<_>>().len();
            let new_n = sig_ids.len();
            class = newc;
            if new_n == old_n {
                break;
            }
        }
        // quotient + BFS renumber
        let mut order: Vec<usize> = vec![];
        let mut num: HashMap<usize, usize> = HashMap::new();
        let mut rep: HashMap<usize, usize> = HashMap::new();
        for s in 0..self.n() {
            if keep[s] {
                rep.entry(class[s]).or_insert(s);
            }
        }
        let c0 = class[self.start];
        num.insert(c0, 0);
        order.push(c0);
        let mut i = 0;
        let mut trans: Vec<BTreeMap<String, usize>> = vec![BTreeMap::new()];
        while i < order.len() {
            let c = order[i];
            let s = rep[&c];
            for (a, t) in &self.trans[s] {
                if !keep[*t] {
                    continue;
                }
                let ct = class[*t];
                let j = match num.get(&ct) {
                    Some(j) => *j,
                    None => {
                        let j = order.len();
                        num.insert(ct, j);
                        order.push(ct);
                        trans.push(BTreeMap::new());
                        j
                    }
                };
                trans[i].insert(a.clone(), j);
            }
            i += 1;
        }
        let acc = order.iter().map(|c| self.acc[rep[c]]).collect();
        Dfa { start: 0, acc, trans }
    }

    pub fn serialize(&self) -> String {
        let mut out = format!("n={};acc=", self.n());
        for (i, a) in self.acc.iter().enumerate() {
            if *a {
                out.push_str(&format!("{i},"));
            }
        }
        out.push(';');
        for (s, m) in self.trans.iter().enumerate() {
            for (a, t) in m {
                out.push_str(&format!("[{s} -{a}-> {t}]"));
            }
        }
        out
    }

    pub fn accepts_empty_language(&self) -> bool {
        let c = self.canonical();
        c.n() == 1 && !c.acc[0] && c.trans[0].is_empty()
    }
}

/// Shortest word accepted by exactly one of the two automata (None = same language).
pub fn distinguishing_word(a: &Dfa, b: &Dfa) -> Option<(Vec<String>, bool)> {
    // states: Option<usize> (None = sink)
    let mut seen: BTreeSet<(Option<usize>, Option<usize>)> = BTreeSet::new();
    let mut q: VecDeque<(Option<usize>, Option<usize>, Vec<String>)> = VecDeque::new();
    seen.insert((Some(a.start), Some(b.start)));
    q.push_back((Some(a.start), Some(b.start), vec![]));
    while let Some((x, y, w)) = q.pop_front() {
        let ax = x.map(|s| a.acc[s]).unwrap_or(false);
        let ay = y.map(|s| b.acc[s]).unwrap_or(false);
        if ax != ay {
            return Some((w, ax));
        }
        let mut syms: BTreeSet<&String> = BTreeSet::new();
        if let Some(s) = x {
            syms.extend(a.trans[s].keys());
        }
        if let Some(s) = y {
            syms.extend(b.trans[s].keys());
        }
        for sym in syms {
            let nx = x.and_then(|s| a.trans[s].get(sym).copied());
            let ny = y.and_then(|s| b.trans[s].get(sym).copied());
            if nx.is_none() && ny.is_none() {
                continue;
            }
            if seen.insert((nx, ny)) {
                let mut w2 = w.clone();
                w2.push(sym.clone());
                q.push_back((nx, ny, w2));
            }
        }
    }
    None
}
