//! Bounded stand-ins for the glue inside ValidGrammar::from_grammar that is not under a Verus
//! contract: C11 (which definition is chosen), C15 (warning sets), C08 (classification of
//! planted mistakes; clean grammars accepted).
use crate::gram::*;
use crate::json::J;
use crate::lang::*;
use crate::pipeline::*;
use crate::refsem::*;
use crate::{Report, Violation};
use std::collections::{BTreeMap, BTreeSet};

fn viol(obl: &str, what: String, text: &str, shell: &str, expected: J, actual: J, class: &str, check: &str) -> Violation {
    Violation {
        obligation: obl.to_string(),
        what,
        input: J::obj(vec![("grammar", J::s(text)), ("shell", J::s(shell))]),
        expected,
        actual,
        signature: format!("{obl}|{class}"),
        replay_args: vec![check.into(), obl.into(), shell.into(), text.into()],
    }
}

// ---------------------------------------------------------------------------------------------
// C11

fn c11_grammar(name: &str, mask: u32, pos: usize) -> Grammar {
    let mut stmts = vec![];
    match pos {
        0 => stmts.push(Stmt::Call("cmd".into(), nt(name))),
        1 => stmts.push(Stmt::Call("cmd".into(), G::Sub(vec![lit("pre="), nt(name)]))),
        // inside every other operator: the later / the first `||` branch, an alternative, an
        // optional, a repetition, a word inside a `||` branch
        3 => stmts.push(Stmt::Call("cmd".into(), G::Fb(vec![lit("a"), nt(name)]))),
        4 => stmts.push(Stmt::Call("cmd".into(), G::Fb(vec![nt(name), lit("a")]))),
        5 => stmts.push(Stmt::Call("cmd".into(), G::Alt(vec![lit("a"), G::Seq(vec![lit("b"), nt(name)])]))),
        6 => stmts.push(Stmt::Call("cmd".into(), G::Seq(vec![lit("o"), G::Opt(Box::new(nt(name)))]))),
        7 => stmts.push(Stmt::Call("cmd".into(), G::Seq(vec![lit("m"), G::Many(Box::new(G::Seq(vec![lit("k"), nt(name)])))]))),
        8 => stmts.push(Stmt::Call("cmd".into(), G::Fb(vec![lit("a"), G::Sub(vec![lit("pre="), nt(name)])]))),
        _ => {
            stmts.push(Stmt::Call("cmd".into(), nt("W")));
            stmts.push(Stmt::Def("W".into(), None, G::Seq(vec![lit("x"), nt(name)])));
        }
    }
    let kinds = [None, Some("bash"), Some("fish"), Some("zsh"), Some("pwsh")];
    for (b, k) in kinds.iter().enumerate() {
        if mask & (1 << b) != 0 {
            let tag = format!("{}-{}", name.to_lowercase(), k.unwrap_or("plain"));
            stmts.push(Stmt::Def(name.into(), k.map(|s| s.to_string()), cmd(&tag)));
        }
    }
    Grammar { stmts }
}

fn commands_of(d: &Dfa) -> BTreeSet<String> {
    let mut out = BTreeSet::new();
    for m in &d.trans {
        for a in m.keys() {
            collect_cmds(a, &mut out);
        }
    }
    out
}
fn collect_cmds(item: &str, out: &mut BTreeSet<String>) {
    // C:<cmd>|<level>|<compadd> at top level or inside W:.. canonical strings
    let mut rest = item;
    while let Some(p) = rest.find("C:") {
        let after = &rest[p + 2..];
        let end = after.find("-> ").unwrap_or(after.len());
        let body = &after[..end];
        let mut parts = body.rsplitn(3, '|');
        let compadd = parts.next().unwrap_or("").trim_end_matches('-');
        let _lvl = parts.next();
        let cmd = parts.next().unwrap_or("");
        out.insert(format!("{cmd} (compadd={})", compadd.trim()));
        rest = &after[end..];
    }
    if item == "S" || item.contains("-S->") {
        out.insert("<any word>".into());
    }
}

pub fn c11(_thorough: bool) -> Report {
    let mut rep = Report { bound: "names {X, PATH, DIRECTORY} x all 32 subsets of {plain, @bash, @fish, @zsh, @pwsh} command definitions (distinct texts) x reference position {top level, inside a word, through a definition, in the later / first `||` branch, in an alternative, optional, repetition, word inside a `||` branch} x 4 shells = 3456 grammars (the property's own finite quantifier over names and definitions, one representative per operator for the position)".into(), exhaustive: true, ..Default::default() };
    for name in ["X", "PATH", "DIRECTORY"] {
        for mask in 0..32u32 {
            for pos in 0..9 {
                let gr = c11_grammar(name, mask, pos);
                let text = gr.print();
                for sh in SHELLS {
                    rep.cases += 1;
                    if mask != 0 {
                        rep.distinct_nontrivial += 1;
                    }
                    c11_one(&gr, &text, sh, &mut rep.violations);
                    if rep.samples.len() < 3 && mask == 0b01101 && pos == 1 {
                        rep.samples.push(J::obj(vec![("shell", J::s(sh)), ("grammar", J::s(&text))]));
                    }
                }
            }
        }
    }
    rep
}

fn c11_one(gr: &Grammar, text: &str, sh: &str, out: &mut Vec<Violation>) {
    let (t2, s2) = (text.to_string(), sh.to_string());
    let comp = match guarded(move || compile(&t2, &s2)) {
        Err(p) => {
            out.push(viol("C06.pipeline.no_panic", format!("pipeline panicked: {p}"), text, sh, J::s("no panic"), J::s(p.clone()), &format!("panic:{}", p.chars().take(40).collect::<String>()), "c11_choice"));
            return;
        }
        Ok(Err(class)) => {
            out.push(viol("C11.choice.accepted", format!("a grammar with only command definitions was rejected: {class}"), text, sh, J::s("accepted"), J::s(&class), &class, "c11_choice"));
            return;
        }
        Ok(Ok(c)) => c,
    };
    let Ok((refd, _)) = reference_language(gr, sh) else { return };
    let Some(real) = determinize(&nfa_of(&comp.min, &comp.min, 0, false)) else { return };
    let real = real.canonical();
    if real.serialize() != refd.serialize() {
        let exp = commands_of(&refd);
        let act = commands_of(&real);
        let nameposclass = if exp != act {
            // which rule of the lookup order is broken
            let e = exp.iter().next().cloned().unwrap_or_default();
            let a = act.iter().next().cloned().unwrap_or_default();
            let kind = |s: &str| -> &'static str {
                if s.contains("-plain") { "plain" } else if s.contains("-bash") || s.contains("-fish") || s.contains("-zsh") || s.contains("-pwsh") { "specialised" } else if s.contains("any word") { "any-word" } else { "builtin" }
            };
            format!("expected-{}-got-{}", kind(&e), kind(&a))
        } else {
            "same-commands-different-automaton".to_string()
        };
        out.push(viol("C11.choice.chosen_definition", format!("for {sh} the nonterminal stands for {:?} but the compiled automaton expects {:?}", exp, act), text, sh, J::Arr(exp.iter().map(J::s).collect()), J::Arr(act.iter().map(J::s).collect()), &nameposclass, "c11_choice"));
    }
}

// ---------------------------------------------------------------------------------------------
// C15

#[derive(Clone, Copy, PartialEq, Eq, Debug)]
enum DefKind {
    None,
    PlainLit,
    PlainCmd,
    PlainRefOther,
    SpecTarget,
    SpecOther,
    PlainCmdSpecTarget,
}
const DEFKINDS: [DefKind; 7] = [DefKind::None, DefKind::PlainLit, DefKind::PlainCmd, DefKind::PlainRefOther, DefKind::SpecTarget, DefKind::SpecOther, DefKind::PlainCmdSpecTarget];

fn c15_grammar(names: &[&str], kinds: &[DefKind], refs: &[usize], shell: &str) -> Grammar {
    let other = if shell == "fish" { "zsh" } else { "fish" };
    let mut root: Vec<G> = vec![lit("r")];
    let mut stmts = vec![];
    for (i, n) in names.iter().enumerate() {
        match refs[i] {
            1 => root.push(nt(n)),
            2 => root.push(G::Sub(vec![lit(&format!("w{i}=")), nt(n)])),
            _ => {}
        }
        let o = names[(i + 1) % names.len()];
        match kinds[i] {
            DefKind::None => {}
            DefKind::PlainLit => stmts.push(Stmt::Def(n.to_string(), None, lit(&format!("l{i}")))),
            DefKind::PlainCmd => stmts.push(Stmt::Def(n.to_string(), None, cmd(&format!("c{i}")))),
            DefKind::PlainRefOther => stmts.push(Stmt::Def(n.to_string(), None, G::Seq(vec![lit(&format!("m{i}")), nt(o)]))),
            DefKind::SpecTarget => stmts.push(Stmt::Def(n.to_string(), Some(shell.into()), cmd(&format!("s{i}")))),
            DefKind::SpecOther => stmts.push(Stmt::Def(n.to_string(), Some(other.into()), cmd(&format!("o{i}")))),
            DefKind::PlainCmdSpecTarget => {
                stmts.push(Stmt::Def(n.to_string(), None, cmd(&format!("c{i}"))));
                stmts.push(Stmt::Def(n.to_string(), Some(shell.into()), cmd(&format!("s{i}"))));
            }
        }
    }
    let mut all = vec![Stmt::Call("cmd".into(), G::Seq(root))];
    all.extend(stmts);
    Grammar { stmts: all }
}

fn referenced_names(gr: &Grammar) -> BTreeSet<String> {
    fn walk(g: &G, out: &mut BTreeSet<String>) {
        match g {
            G::Nt(n) => {
                out.insert(n.clone());
            }
            G::Seq(v) | G::Alt(v) | G::Fb(v) | G::Sub(v) => v.iter().for_each(|x| walk(x, out)),
            G::Opt(x) | G::Many(x) | G::Dd(x, _) => walk(x, out),
            _ => {}
        }
    }
    let mut out = BTreeSet::new();
    for s in &gr.stmts {
        match s {
            Stmt::Call(_, g) => walk(g, &mut out),
            Stmt::Def(_, None, g) => walk(g, &mut out),
            Stmt::Def(_, Some(_), _) => {}
        }
    }
    out
}

/// expected warning sets, from the C15 statement
fn expected_warnings(gr: &Grammar, shell: &str) -> Option<(BTreeSet<String>, BTreeSet<String>, BTreeSet<String>)> {
    let mut r = Ref::new(gr, shell);
    r.root(gr).ok()?;
    let referenced = referenced_names(gr);
    let unused_plain: BTreeSet<String> = r.plain.keys().filter(|n| !referenced.contains(*n)).cloned().collect();
    let unused_specs: BTreeSet<String> = r.specs.keys().filter(|(_, sh)| sh == shell).map(|(n, _)| n.clone()).filter(|n| !referenced.contains(n)).collect();
    Some((r.undefined.clone(), unused_plain, unused_specs))
}

fn c15_one(gr: &Grammar, text: &str, sh: &str, out: &mut Vec<Violation>, stats: &mut BTreeMap<String, u64>) {
    let (t2, s2) = (text.to_string(), sh.to_string());
    let comp = match guarded(move || compile(&t2, &s2)) {
        Err(p) => {
            out.push(viol("C06.pipeline.no_panic", format!("pipeline panicked: {p}"), text, sh, J::s("no panic"), J::s(p.clone()), &format!("panic:{}", p.chars().take(40).collect::<String>()), "c15_warnings"));
            return;
        }
        Ok(Err(class)) => {
            *stats.entry(format!("rejected:{class}")).or_default() += 1;
            return;
        }
        Ok(Ok(c)) => c,
    };
    *stats.entry("accepted".into()).or_default() += 1;
    let Some((undef, unused_plain, unused_specs)) = expected_warnings(gr, sh) else {
        *stats.entry("accepted-but-reference-rejects".into()).or_default() += 1;
        return;
    };
    let j = |s: &BTreeSet<String>| J::Arr(s.iter().map(J::s).collect());
    let diff = |e: &BTreeSet<String>, a: &BTreeSet<String>| if a.is_subset(e) { "missing-warning" } else if e.is_subset(a) { "spurious-warning" } else { "wrong-warnings" };
    if comp.undefined != undef {
        out.push(viol("C15.from_grammar.undefined", format!("undefined nonterminals reported {:?}, the grammar's call variants reach {:?} undefined", comp.undefined, undef), text, sh, j(&undef), j(&comp.undefined), diff(&undef, &comp.undefined), "c15_warnings"));
    }
    if comp.unused_plain != unused_plain {
        out.push(viol("C15.from_grammar.unused_definitions", format!("unused definitions reported {:?}, definitions nothing refers to: {:?}", comp.unused_plain, unused_plain), text, sh, j(&unused_plain), j(&comp.unused_plain), diff(&unused_plain, &comp.unused_plain), "c15_warnings"));
    }
    if comp.unused_specs != unused_specs {
        out.push(viol("C15.from_grammar.unused_specializations", format!("unused specializations reported {:?}, target-shell definitions nothing refers to: {:?}", comp.unused_specs, unused_specs), text, sh, j(&unused_specs), j(&comp.unused_specs), diff(&unused_specs, &comp.unused_specs), "c15_warnings"));
    }
}

/// dependency chains and diamonds of 4..6 definitions: the order in which definitions are
/// substituted into each other matters only from four links on
fn c15_fixed() -> Vec<Grammar> {
    let mut out = vec![];
    for n in 4..=6usize {
        for last_defined in [true, false] {
            for unused_tail in [false, true] {
                let mut stmts = vec![Stmt::Call("cmd".into(), nt("N0"))];
                for k in 0..n {
                    let rhs = if k + 1 < n || !last_defined { G::Seq(vec![lit(&format!("x{k}")), nt(&format!("N{}", k + 1))]) } else { lit("last") };
                    stmts.push(Stmt::Def(format!("N{k}"), None, rhs));
                }
                if unused_tail {
                    stmts.push(Stmt::Def("Z".into(), None, G::Seq(vec![lit("z"), nt("N2")])));
                }
                out.push(Grammar { stmts });
                // the same definitions written in the opposite order
                let mut g = out.last().unwrap().clone();
                g.stmts[1..].reverse();
                out.push(g);
            }
        }
    }
    // diamond: A -> B C ; B -> D ; C -> D ; D -> E ; E -> e
    out.push(Grammar { stmts: vec![
        Stmt::Call("cmd".into(), nt("A")),
        Stmt::Def("A".into(), None, G::Seq(vec![nt("B"), nt("C")])),
        Stmt::Def("B".into(), None, G::Seq(vec![lit("b"), nt("D")])),
        Stmt::Def("C".into(), None, G::Seq(vec![lit("c"), nt("D")])),
        Stmt::Def("D".into(), None, G::Seq(vec![lit("d"), nt("E")])),
        Stmt::Def("E".into(), None, G::Alt(vec![lit("e"), nt("F")])),
    ] });
    out
}

pub fn c15(thorough: bool, seed: u64) -> Report {
    let mut rep = Report { bound: "2 names (exhaustive: 7 definition kinds x 3 reference positions each) and 3 names incl. `_`/PATH (seeded random), dependency chains of 4..6 definitions in both statement orders and a diamond, x 4 shells; definition kinds: none / plain literal / plain command / plain referring to the next name / @target / @other shell / plain command + @target".into(), exhaustive: true, ..Default::default() };
    let mut stats = BTreeMap::new();
    let names2 = ["A", "B"];
    for k0 in DEFKINDS {
        for k1 in DEFKINDS {
            for r0 in 0..3 {
                for r1 in 0..3 {
                    for sh in SHELLS {
                        let gr = c15_grammar(&names2, &[k0, k1], &[r0, r1], sh);
                        let text = gr.print();
                        rep.cases += 1;
                        rep.distinct_nontrivial += 1;
                        c15_one(&gr, &text, sh, &mut rep.violations, &mut stats);
                        if rep.samples.len() < 2 && k0 == DefKind::PlainRefOther && k1 == DefKind::SpecTarget && r0 == 0 && r1 == 0 {
                            rep.samples.push(J::obj(vec![("shell", J::s(sh)), ("grammar", J::s(&text))]));
                        }
                    }
                }
            }
        }
    }
    for gr in c15_fixed() {
        let text = gr.print();
        for sh in SHELLS {
            rep.cases += 1;
            rep.distinct_nontrivial += 1;
            c15_one(&gr, &text, sh, &mut rep.violations, &mut stats);
        }
    }
    let mut rng = Rng::new(seed.wrapping_add(5));
    let n = if thorough { 6000 } else { 600 };
    let pool = ["A", "B", "_", "PATH", "C", "DIRECTORY"];
    for _ in 0..n {
        let names: Vec<&str> = {
            let mut v: Vec<&str> = vec![];
            while v.len() < 3 {
                let c = pool[rng.below(pool.len())];
                if !v.contains(&c) {
                    v.push(c);
                }
            }
            v
        };
        let kinds: Vec<DefKind> = (0..3).map(|_| DEFKINDS[rng.below(7)]).collect();
        let refs: Vec<usize> = (0..3).map(|_| rng.below(3)).collect();
        let sh = SHELLS[rng.below(4)];
        let gr = c15_grammar(&names, &kinds, &refs, sh);
        let text = gr.print();
        rep.cases += 1;
        c15_one(&gr, &text, sh, &mut rep.violations, &mut stats);
    }
    rep.samples.push(J::Obj(stats.iter().map(|(k, v)| (k.clone(), J::Num(*v as i64))).collect()));
    if *stats.get("accepted").unwrap_or(&0) * 3 < rep.cases {
        rep.undecided.push("fewer than a third of the generated grammars were accepted: stand-in would be vacuous".into());
    }
    rep
}

// ---------------------------------------------------------------------------------------------
// C08

/// (class expected, or "" for accepted; applies to which shells: None = all) , grammar text
fn c08_cases() -> Vec<(String, Option<Vec<&'static str>>, String)> {
    let mut v: Vec<(String, Option<Vec<&'static str>>, String)> = vec![];
    let cyc = "NonterminalDefinitionsCycle";
    // cycles of length 1..3, with every relation to the roots, over several name sets (hash orders)
    for names in [["A", "B", "C", "D"], ["H", "A", "B", "Q"], ["K", "L", "M", "N"], ["Zed", "Y", "X", "W"], ["B", "A", "D", "C"]] {
        let [a, b, c, d] = names;
        for root in [format!("cmd <{a}>;\n"), "cmd x;\n".to_string(), format!("cmd <{d}>;\n")] {
            v.push((cyc.into(), None, format!("{root}<{a}> ::= foo <{a}>;\n<{d}> ::= y;\n")));
            v.push((cyc.into(), None, format!("{root}<{a}> ::= foo <{b}>;\n<{b}> ::= bar <{a}>;\n<{d}> ::= y;\n")));
            v.push((cyc.into(), None, format!("{root}<{a}> ::= foo <{b}>;\n<{b}> ::= bar <{c}>;\n<{c}> ::= baz <{a}>;\n<{d}> ::= y;\n")));
            v.push((cyc.into(), None, format!("{root}<{a}> ::= foo <{b}>;\n<{b}> ::= bar <{a}> <{d}>;\n<{d}> ::= y;\n")));
            v.push((cyc.into(), None, format!("{root}<{d}> ::= r <{a}>;\n<{a}> ::= foo <{b}>;\n<{b}> ::= bar <{a}>;\n")));
            v.push((cyc.into(), None, format!("{root}<{a}> ::= foo [<{b}>...];\n<{b}> ::= (x | --o=<{a}>);\n<{d}> ::= y;\n")));
            // acyclic look-alikes must be accepted
            v.push(("".into(), None, format!("{root}<{a}> ::= foo <{b}>;\n<{b}> ::= bar <{c}>;\n<{c}> ::= baz;\n<{d}> ::= y <{c}>;\n")));
            v.push(("".into(), None, format!("{root}<{a}> ::= foo <{b}> <{b}>;\n<{b}> ::= bar;\n<{d}> ::= y <{a}> <{b}>;\n")));
        }
    }
    let dup = "DuplicateNonterminalDefinition";
    v.push((dup.into(), None, "cmd <A>;\n<A> ::= a;\n<A> ::= b;\n".into()));
    v.push((dup.into(), None, "cmd x;\n<B> ::= q;\n<A> ::= a;\n<C> ::= <A>;\n<A> ::= a;\n".into()));
    v.push((dup.into(), Some(vec!["zsh"]), "cmd <A>;\n<A@zsh> ::= {{{ a }}};\n<A@zsh> ::= {{{ b }}};\n".into()));
    v.push(("".into(), Some(vec!["bash", "fish", "pwsh"]), "cmd <A>;\n<A@zsh> ::= {{{ a }}};\n<A@zsh> ::= {{{ b }}};\n".into()));
    v.push((dup.into(), Some(vec!["bash"]), "cmd <A>;\n<A@bash> ::= {{{ a }}};\n<A> ::= {{{ p }}};\n<A@fish> ::= {{{ f }}};\n<A@bash> ::= {{{ b }}};\n".into()));
    v.push(("VaryingCommandNames".into(), None, "a x;\nb y;\n".into()));
    v.push(("VaryingCommandNames".into(), None, "a x;\na y;\n<Q> ::= z;\nb y;\n".into()));
    v.push(("".into(), None, "a x;\na y;\n<Q> ::= z;\na <Q>;\n".into()));
    v.push(("MissingCallVariants".into(), None, "<A> ::= a;\n".into()));
    v.push(("MissingCallVariants".into(), None, "".into()));
    v.push(("InvalidCommandName".into(), None, "a/b x;\n".into()));
    v.push(("InvalidCommandName".into(), None, "/usr/bin/foo x;\n/usr/bin/foo y;\n".into()).clone());
    v.push(("UnknownShell".into(), None, "cmd <X>;\n<X@tcsh> ::= {{{ x }}};\n".into()));
    v.push(("UnknownShell".into(), None, "cmd x;\n<X@bash> ::= {{{ x }}};\n<Y@Bash> ::= {{{ y }}};\n".into()));
    let ncs = "NonCommandSpecialization";
    v.push((ncs.into(), None, "cmd <X>;\n<X@fish> ::= foo;\n".into()));
    v.push((ncs.into(), None, "cmd x;\n<X@pwsh> ::= {{{ a }}} b;\n".into()));
    v.push((ncs.into(), Some(vec!["bash"]), "cmd <X>;\n<X@bash> ::= {{{ a }}};\n<X> ::= foo | bar;\n".into()));
    v.push(("".into(), Some(vec!["fish", "zsh", "pwsh"]), "cmd <X>;\n<X@bash> ::= {{{ a }}};\n<X> ::= foo | bar;\n".into()));
    let sws = "SubwordSpaces";
    v.push((sws.into(), None, "cmd --x=<A>;\n<A> ::= a b;\n".into()));
    v.push((sws.into(), None, "cmd --x=<A>;\n<A> ::= <B>;\n<B> ::= q | <C>;\n<C> ::= [o] (a b);\n".into()));
    v.push((sws.into(), None, "cmd y | z [--x=(p | <A>)...];\n<A> ::= c <B>;\n<B> ::= d;\n".into()));
    v.push(("".into(), None, "cmd --x=<A> <A>;\n<A> ::= a <U>;\n".into()));
    let unb = "UnboundedMatchable";
    v.push((unb.into(), None, "cmd <U>suffix;\n".into()));
    v.push((unb.into(), None, "cmd --o=<U>,<V>;\n".into()));
    v.push((unb.into(), None, "cmd x (y | --o=(<U>|a)b);\n".into()));
    v.push((unb.into(), None, "cmd --o=<A>z;\n<A> ::= p | <U>;\n".into()));
    v.push(("".into(), None, "cmd --o=<U> | p=(a|b)<V>;\n".into()));
    let cd = "ConflictingDescriptions";
    v.push((cd.into(), None, "cmd (x \"d1\" | x \"d2\");\n".into()));
    v.push((cd.into(), None, "cmd a (b | c) (x \"d1\" | y | x \"d2\" z);\n".into()));
    v.push((cd.into(), None, "cmd <A> | <B>;\n<A> ::= x \"d1\" p;\n<B> ::= x q;\n".into()));
    v.push((cd.into(), None, "cmd --a=(b|c) (x \"d1\" | x \"d2\");\n".into()));
    v.push(("".into(), None, "cmd (x \"d1\" | x \"d1\" y) | z (x \"d2\");\n".into()));
    // the clashing pair at every offset among the other literals expected at that point
    // (the check sorts the expected items and compares neighbours)
    for before in 0..5usize {
        for after in 0..3usize {
            let mut alts: Vec<String> = (0..before).map(|k| format!("b{k} w")).collect();
            alts.push("m \"first\" p".into());
            alts.push("m \"second\" q".into());
            alts.extend((0..after).map(|k| format!("z{k}")));
            v.push((cd.into(), None, format!("cmd ({});\n", alts.join(" | "))));
            // same, the clash sitting in a later `||` branch
            v.push((cd.into(), None, format!("cmd (k0 || {});\n", alts.join(" | "))));
            // look-alike: same literal, same description twice
            let mut ok = alts.clone();
            ok[before + 1] = "m \"first\" q".into();
            v.push(("".into(), None, format!("cmd ({});\n", ok.join(" | "))));
        }
    }
    // clean grammars of every construct
    v.push(("".into(), None, "cmd [--help] (start | stop \"halt\") <PATH>... || --level=(1|2|3) <U> {{{ echo a }}};\ncmd sub <X>;\n<X> ::= a | b <Y>;\n<Y> ::= {{{ ls }}};\n<Y@zsh> ::= {{{ _files }}};\n".into()));
    v
}

pub fn c08(_thorough: bool) -> Report {
    let mut rep = Report { bound: "table of planted mistakes (every class of the property, several placements and name orders: cycles behind chains / beside unrelated definitions / with tails, duplicates per shell, specialisations, words) and clean look-alikes x 4 shells".into(), exhaustive: true, ..Default::default() };
    for (class, shells, text) in c08_cases() {
        let shells: Vec<&str> = shells.unwrap_or_else(|| SHELLS.to_vec());
        for sh in shells {
            rep.cases += 1;
            rep.distinct_nontrivial += 1;
            c08_one(&class, &text, sh, &mut rep.violations);
        }
        if rep.samples.len() < 3 && class == "NonterminalDefinitionsCycle" {
            rep.samples.push(J::obj(vec![("expected", J::s(&class)), ("grammar", J::s(&text))]));
        }
    }
    rep
}

fn c08_one(class: &str, text: &str, sh: &str, out: &mut Vec<Violation>) {
    let (t2, s2) = (text.to_string(), sh.to_string());
    crate::pipeline::expect_next("C08.from_grammar.classification", if class.is_empty() { "accepted" } else { class });
    let got = match guarded(move || compile(&t2, &s2)) {
        Err(p) => {
            out.push(viol("C06.pipeline.no_panic", format!("pipeline panicked: {p}"), text, sh, J::s("no panic"), J::s(p.clone()), &format!("panic:{}", p.chars().take(40).collect::<String>()), "c08_classify"));
            return;
        }
        Ok(Err(c)) => c,
        Ok(Ok(_)) => String::new(),
    };
    if got != class {
        let show = |c: &str| if c.is_empty() { "accepted".to_string() } else { c.to_string() };
        out.push(viol("C08.from_grammar.classification", format!("expected {}, got {}", show(class), show(&got)), text, sh, J::s(show(class)), J::s(show(&got)), &format!("{}-instead-of-{}", show(&got), show(class)), "c08_classify"));
    }
}

pub fn replay(check: &str, args: &[String]) -> i32 {
    let (obl, sh, text) = (&args[0], &args[1], &args[2]);
    println!("grammar:\n{text}shell: {sh}");
    let mut v = vec![];
    match check {
        "c08_classify" => {
            for (class, shells, t) in c08_cases() {
                if &t == text && shells.as_ref().map(|s| s.contains(&sh.as_str())).unwrap_or(true) {
                    c08_one(&class, text, sh, &mut v);
                }
            }
        }
        "c11_choice" => {
            for name in ["X", "PATH", "DIRECTORY"] {
                for mask in 0..32u32 {
                    for pos in 0..9 {
                        let gr = c11_grammar(name, mask, pos);
                        if &gr.print() == text {
                            c11_one(&gr, text, sh, &mut v);
                        }
                    }
                }
            }
        }
        _ => {
            // C15: the abstract grammar is needed for the expectation; rebuild by search
            let mut stats = BTreeMap::new();
            for gr in c15_fixed() {
                if &gr.print() == text {
                    c15_one(&gr, text, sh, &mut v, &mut stats);
                }
            }
            let pool = ["A", "B", "_", "PATH", "C", "DIRECTORY"];
            'outer: for a in pool {
                for b in pool {
                    for c in pool {
                        let names: Vec<&str> = if c == b { vec![a, b] } else { vec![a, b, c] };
                        if a == b {
                            continue;
                        }
                        let n = names.len();
                        let total = 21usize.pow(n as u32);
                        for code in 0..total {
                            let mut x = code;
                            let mut kinds = vec![];
                            let mut refs = vec![];
                            for _ in 0..n {
                                kinds.push(DEFKINDS[x % 7]);
                                x /= 7;
                                refs.push(x % 3);
                                x /= 3;
                            }
                            let gr = c15_grammar(&names, &kinds, &refs, sh);
                            if &gr.print() == text {
                                c15_one(&gr, text, sh, &mut v, &mut stats);
                                break 'outer;
                            }
                        }
                    }
                }
            }
        }
    }
    for x in &v {
        println!("  [{}] {}", x.obligation, x.what);
    }
    if v.iter().any(|x| &x.obligation == obl) { 1 } else { 0 }
}
