//! Bounded stand-ins over the real pipeline: C02 (language incl. labels), C03 (minimisation),
//! C09 (match determinism, `||` transparency), C06 (no panic on the way).
use crate::gram::*;
use crate::json::J;
use crate::lang::*;
use crate::pipeline::*;
use crate::refsem::*;
use crate::{Report, Violation};
use std::collections::{BTreeMap, BTreeSet};

/// definitions appended to every enumerated grammar: X plain, Y specialised for bash and zsh
/// with a plain command fallback, U / `_` undefined, PATH built-in.
pub fn env_defs() -> Vec<Stmt> {
    vec![
        Stmt::Def("X".into(), None, G::Alt(vec![litd("p", "dp"), lit("q")])),
        Stmt::Def("Y".into(), Some("bash".into()), cmd("ybash")),
        Stmt::Def("Y".into(), Some("zsh".into()), cmd("yzsh")),
        Stmt::Def("Y".into(), None, cmd("yplain")),
        // a chain of nested definitions (expansion order matters from depth 3 on)
        Stmt::Def("A1".into(), None, G::Seq(vec![lit("x1"), nt("B1")])),
        Stmt::Def("B1".into(), None, G::Alt(vec![G::Seq(vec![lit("y1"), nt("C1")]), lit("y2")])),
        Stmt::Def("C1".into(), None, G::Seq(vec![lit("z1"), G::Opt(Box::new(nt("D1")))])),
        Stmt::Def("D1".into(), None, G::Alt(vec![lit("w1"), nt("X")])),
        // a definition that contains a within-word expression
        Stmt::Def("O".into(), None, G::Sub(vec![lit("--c="), G::Alt(vec![lit("u"), lit("v")])])),
        // a definition with two space-separated literals (a mistake only when used inside a word)
        Stmt::Def("SP".into(), None, G::Alt(vec![lit("fast"), G::Seq(vec![lit("very"), lit("slow")])])),
    ]
}

/// reverse the parts of every word and the order of every alternative: same pieces, other order
fn mirror(g: &G) -> G {
    match g {
        G::Sub(v) => {
            let mut w: Vec<G> = v.iter().map(mirror).collect();
            w.reverse();
            // two adjacent literals would fuse into one token: keep the original order then
            if w.windows(2).any(|p| matches!((&p[0], &p[1]), (G::Lit(..), G::Lit(..)))) { G::Sub(v.iter().map(mirror).collect()) } else { G::Sub(w) }
        }
        G::Alt(v) => {
            let mut w: Vec<G> = v.iter().map(mirror).collect();
            w.reverse();
            G::Alt(w)
        }
        G::Seq(v) => G::Seq(v.iter().map(mirror).collect()),
        G::Fb(v) => G::Fb(v.iter().map(mirror).collect()),
        G::Opt(x) => G::Opt(Box::new(mirror(x))),
        G::Many(x) => G::Many(Box::new(mirror(x))),
        G::Dd(x, d) => G::Dd(Box::new(mirror(x)), d.clone()),
        other => other.clone(),
    }
}

/// reverse the order of every alternative (the parts of words stay in place): another spelling
/// of the same language
fn permute_alts(g: &G) -> G {
    match g {
        G::Alt(v) => {
            let mut w: Vec<G> = v.iter().map(permute_alts).collect();
            w.reverse();
            G::Alt(w)
        }
        G::Sub(v) => G::Sub(v.iter().map(permute_alts).collect()),
        G::Seq(v) => G::Seq(v.iter().map(permute_alts).collect()),
        G::Fb(v) => G::Fb(v.iter().map(permute_alts).collect()),
        G::Opt(x) => G::Opt(Box::new(permute_alts(x))),
        G::Many(x) => G::Many(Box::new(permute_alts(x))),
        G::Dd(x, d) => G::Dd(Box::new(permute_alts(x)), d.clone()),
        other => other.clone(),
    }
}

pub fn wrap(g: &G) -> Grammar {
    let mut stmts = vec![Stmt::Call("cmd".into(), g.clone())];
    stmts.extend(env_defs());
    Grammar { stmts }
}

pub fn corpus(thorough: bool, seed: u64) -> Vec<Grammar> {
    let leaves_small = vec![lit("a"), lit("b"), litd("a", "d1"), nt("X"), nt("U"), nt("Y"), cmd("echo k")];
    let leaves_big = vec![lit("a"), lit("b"), lit("ab"), litd("a", "d1"), litd("c", "d2"), nt("X"), nt("U"), nt("Y"), nt("PATH"), nt("_"), cmd("echo k"), cmd("echo j"), nt("A1"), nt("O"), nt("SP")];
    let mut out: Vec<Grammar> = vec![];
    let max = if thorough { 5 } else { 4 };
    for n in 1..=max {
        let mut v = vec![];
        let leaves = if n <= 3 { &leaves_big } else { &leaves_small };
        enumerate(n, leaves, false, &mut v);
        out.extend(v.iter().map(wrap));
    }
    // hand-picked shapes known to be delicate (kept small; each is also reachable by enumeration at larger sizes)
    let special: Vec<G> = vec![
        G::Alt(vec![G::Opt(Box::new(G::Seq(vec![lit("a"), G::Opt(Box::new(lit("b")))]))), G::Opt(Box::new(G::Seq(vec![lit("c"), G::Opt(Box::new(lit("b")))])))]),
        G::Fb(vec![G::Seq(vec![lit("a"), lit("b")]), G::Seq(vec![lit("a"), lit("c")])]),
        G::Fb(vec![lit("foo"), cmd("echo a")]),
        G::Fb(vec![lit("foo"), nt("Y")]),
        G::Fb(vec![lit("foo"), G::Sub(vec![lit("--x="), nt("Y")])]),
        G::Seq(vec![G::Sub(vec![lit("--a="), G::Alt(vec![lit("b"), lit("c")])]), G::Alt(vec![lit("x"), lit("y")])]),
        G::Alt(vec![G::Sub(vec![lit("--a="), G::Alt(vec![lit("b"), lit("c")])]), G::Sub(vec![lit("--a="), G::Alt(vec![lit("c"), lit("b")])])]),
        G::Alt(vec![G::Seq(vec![G::Sub(vec![lit("--a="), G::Alt(vec![lit("b"), lit("c")])]), lit("f")]), G::Seq(vec![G::Sub(vec![lit("--a="), G::Alt(vec![lit("c"), lit("b")])]), lit("g")])]),
        G::Alt(vec![G::Seq(vec![G::Sub(vec![lit("--a="), G::Alt(vec![lit("b"), lit("c")])]), lit("f")]), G::Seq(vec![G::Sub(vec![lit("--a="), G::Alt(vec![lit("b"), lit("c")])]), lit("g")])]),
        G::Many(Box::new(G::Alt(vec![lit("a"), G::Seq(vec![lit("b"), lit("c")])]))),
        G::Seq(vec![G::Many(Box::new(lit("a"))), lit("a")]),
        G::Dd(Box::new(G::Alt(vec![G::Sub(vec![lit("--color="), nt("U")]), G::Seq(vec![lit("--color"), nt("U")])])), "dd".into()),
        G::Sub(vec![lit("--color="), G::Dd(Box::new(nt("U")), "when".into())]),
        G::Sub(vec![lit("pre"), G::Dd(Box::new(lit("a")), "d".into())]),
        G::Sub(vec![G::Dd(Box::new(G::Sub(vec![lit("a"), cmd("echo 1")])), "descr".into()), lit("=foo")]),
        G::Sub(vec![lit("--x="), G::Dd(Box::new(G::Alt(vec![lit("a"), lit("b")])), "d".into()), nt("U")]),
    ];
    out.extend(special.iter().map(wrap));
    // every small within-word expression next to its mirror image (same pieces, other order),
    // and the same expression / definition used under two different `||` branches
    let word_leaves = vec![lit("a"), lit("b"), nt("U"), cmd("echo k"), cmd("echo j"), nt("Y"), nt("SP")];
    let mut words: Vec<G> = vec![];
    for n in 3..=(if thorough { 5 } else { 4 }) {
        let mut v = vec![];
        enumerate(n, &word_leaves, false, &mut v);
        words.extend(v.into_iter().filter(|g| matches!(g, G::Sub(_))));
    }
    for w in &words {
        let m = mirror(w);
        if &m != w {
            out.push(wrap(&G::Alt(vec![G::Seq(vec![lit("x"), w.clone()]), G::Seq(vec![lit("y"), m.clone()])])));
        }
        out.push(wrap(&G::Fb(vec![w.clone(), G::Seq(vec![lit("e"), w.clone()])])));
        // the same word expression written twice at one point with different continuations,
        // and next to a differently spelled expression of the same pieces
        out.push(wrap(&G::Alt(vec![G::Seq(vec![w.clone(), lit("f")]), G::Seq(vec![w.clone(), lit("g")])])));
        if &m != w {
            out.push(wrap(&G::Alt(vec![G::Seq(vec![w.clone(), lit("f")]), G::Seq(vec![m.clone(), lit("g")])])));
        }
        let pa = permute_alts(w);
        if &pa != w {
            out.push(wrap(&G::Alt(vec![G::Seq(vec![w.clone(), lit("f")]), G::Seq(vec![pa, lit("g")])])));
        }
    }
    // a within-word expression met again after a different one has been compiled in between
    // (the automaton pool must hand back the id of the equal automaton, not of the latest one)
    for (i, w) in words.iter().enumerate() {
        let w2 = &words[(i + 1) % words.len()];
        if w2 != w {
            out.push(wrap(&G::Alt(vec![G::Seq(vec![lit("x"), w.clone(), lit("f")]), G::Seq(vec![lit("y"), w2.clone(), lit("g")]), G::Seq(vec![lit("z"), w.clone(), lit("h")])])));
        }
    }
    out.push(wrap(&G::Alt(vec![
        G::Seq(vec![G::Sub(vec![lit("--color="), G::Alt(vec![lit("always"), lit("never")])]), lit("x")]),
        G::Seq(vec![G::Sub(vec![lit("--format="), G::Alt(vec![lit("json"), lit("yaml")])]), lit("z")]),
        G::Seq(vec![G::Sub(vec![lit("--color="), G::Alt(vec![lit("always"), lit("never")])]), lit("y")]),
    ])));
    // one within-word expression written twice with the same symbols in the same order but grouped
    // differently, or partly through a definition: the minimal automata are structurally equal, so
    // the two spellings must be one symbol (one reading per typed word)
    out.push(wrap(&G::Alt(vec![
        G::Seq(vec![G::Sub(vec![lit("--x="), G::Alt(vec![lit("a"), lit("b"), lit("c")])]), lit("f")]),
        G::Seq(vec![G::Sub(vec![lit("--x="), G::Alt(vec![lit("a"), G::Alt(vec![lit("b"), lit("c")])])]), lit("g")]),
    ])));
    out.push(wrap(&G::Alt(vec![
        G::Seq(vec![G::Sub(vec![lit("--x="), G::Alt(vec![G::Alt(vec![lit("a"), lit("b")]), lit("c")])]), lit("f")]),
        G::Seq(vec![G::Sub(vec![lit("--x="), G::Alt(vec![lit("a"), lit("b"), lit("c")])]), lit("g")]),
    ])));
    {
        let mut g = wrap(&G::Alt(vec![
            G::Seq(vec![G::Sub(vec![lit("--color="), G::Alt(vec![lit("always"), lit("never"), lit("auto")])]), lit("f")]),
            G::Seq(vec![G::Sub(vec![lit("--color="), G::Alt(vec![lit("always"), nt("WHEN")])]), lit("g")]),
        ]));
        g.stmts.push(Stmt::Def("WHEN".into(), None, G::Alt(vec![lit("never"), lit("auto")])));
        out.push(g);
        let mut g = wrap(&G::Alt(vec![
            G::Seq(vec![G::Sub(vec![lit("--level="), nt("N3"), lit("%")]), lit("f")]),
            G::Seq(vec![G::Sub(vec![lit("--level="), nt("PCT")]), lit("g")]),
        ]));
        g.stmts.push(Stmt::Def("N3".into(), None, G::Alt(vec![lit("1"), lit("2"), lit("3")])));
        g.stmts.push(Stmt::Def("PCT".into(), None, G::Sub(vec![G::Alt(vec![lit("1"), lit("2"), lit("3")]), lit("%")])));
        out.push(g);
    }
    // a definition holding a within-word expression referenced more than once (the same regex is
    // interned once per reference), with and without a different within-word expression after it
    out.push(wrap(&G::Seq(vec![nt("O"), nt("O")])));
    out.push(wrap(&G::Alt(vec![G::Seq(vec![lit("add"), nt("O")]), G::Seq(vec![lit("rm"), nt("O")]), G::Seq(vec![lit("ls"), G::Sub(vec![lit("--sort="), G::Alt(vec![lit("name"), lit("size")])])])])));
    out.push(wrap(&G::Alt(vec![G::Seq(vec![lit("ls"), G::Sub(vec![lit("--sort="), G::Alt(vec![lit("name"), lit("size")])])]), G::Seq(vec![lit("add"), nt("O")]), G::Seq(vec![lit("rm"), nt("O")])])));
    out.push(wrap(&G::Seq(vec![G::Opt(Box::new(nt("O"))), G::Sub(vec![lit("--x="), nt("U")]), nt("O")])));
    // the same literal with an explicitly empty description / without one / with one
    out.push(wrap(&G::Alt(vec![G::Seq(vec![litd("a", ""), lit("f")]), G::Seq(vec![lit("a"), lit("g")])])));
    out.push(wrap(&G::Alt(vec![G::Seq(vec![litd("a", ""), lit("f")]), G::Seq(vec![litd("a", ""), lit("g")])])));
    out.push(wrap(&G::Seq(vec![G::Opt(Box::new(litd("a", "x"))), G::Alt(vec![litd("a", "x"), lit("b")])])));
    for n in ["X", "Y", "A1", "O", "PATH", "U", "SP"] {
        // first as a whole word, later inside a word (and the other way round)
        out.push(wrap(&G::Seq(vec![G::Opt(Box::new(nt(n))), G::Sub(vec![lit("--m="), nt(n)])])));
        out.push(wrap(&G::Seq(vec![G::Sub(vec![lit("--m="), nt(n)]), G::Opt(Box::new(nt(n)))])));
        out.push(wrap(&G::Fb(vec![nt(n), G::Seq(vec![lit("e"), nt(n)])])));
        out.push(wrap(&G::Seq(vec![G::Opt(Box::new(G::Fb(vec![lit("a"), nt(n)]))), nt(n)])));
        out.push(wrap(&G::Sub(vec![lit("p="), nt(n)])));
    }
    // a plain definition of PATH / DIRECTORY replaces the built-in meaning
    for (redef, other) in [("PATH", "DIRECTORY"), ("DIRECTORY", "PATH")] {
        for body in [G::Alt(vec![litd("default", "the stock one"), lit("user")]), G::Seq(vec![lit("p"), nt("U")]), G::Sub(vec![lit("k="), nt("U")])] {
            let mut g = wrap(&G::Alt(vec![G::Seq(vec![lit("--config"), nt(redef)]), G::Seq(vec![lit("--dir"), nt(other)]), G::Sub(vec![lit("--at="), nt(redef)])]));
            g.stmts.push(Stmt::Def(redef.into(), None, body));
            out.push(g);
        }
    }
    let mut rng = Rng::new(seed.wrapping_add(17));
    let nrand = if thorough { 3000 } else { 300 };
    for i in 0..nrand {
        let budget = 6 + (i % 10);
        let g = random_tree(&mut rng, budget, &leaves_big, false);
        out.push(wrap(&g));
    }
    out
}

fn strip_fb(g: &G) -> G {
    match g {
        G::Fb(v) | G::Alt(v) => G::Alt(v.iter().map(strip_fb).collect()),
        G::Seq(v) => G::Seq(v.iter().map(strip_fb).collect()),
        G::Sub(v) => G::Sub(v.iter().map(strip_fb).collect()),
        G::Opt(x) => G::Opt(Box::new(strip_fb(x))),
        G::Many(x) => G::Many(Box::new(strip_fb(x))),
        G::Dd(x, d) => G::Dd(Box::new(strip_fb(x)), d.clone()),
        other => other.clone(),
    }
}

fn viol(obl: &str, what: String, text: &str, shell: &str, expected: J, actual: J, class: &str) -> Violation {
    Violation {
        obligation: obl.to_string(),
        what,
        input: J::obj(vec![("grammar", J::s(text)), ("shell", J::s(shell))]),
        expected,
        actual,
        signature: format!("{obl}|{class}"),
        replay_args: vec!["pipeline".into(), obl.into(), shell.into(), text.into()],
    }
}

/// All pipeline-level obligations for one grammar text and shell. `gr` = abstract grammar (for
/// the reference); None when replaying from text only (then only reference-free checks run).
pub fn check_one(gr: Option<&Grammar>, text: &str, shell: &str, out: &mut Vec<Violation>, stats: &mut BTreeMap<String, u64>) {
    let t2 = text.to_string();
    let sh2 = shell.to_string();
    let res = guarded(move || compile(&t2, &sh2));
    let comp = match res {
        Err(p) => {
            out.push(viol("C06.pipeline.no_panic", format!("the library pipeline panicked: {p}"), text, shell, J::s("Ok or Err"), J::s(format!("panic: {p}")), &format!("panic:{}", p.chars().take(60).collect::<String>())));
            *stats.entry("panic".into()).or_default() += 1;
            return;
        }
        Ok(Err(class)) => {
            *stats.entry(format!("rejected:{class}")).or_default() += 1;
            // C08: a rejection must be one the property prescribes for this grammar
            if let Some(v) = gr.and_then(|g| expected_verdict(g, shell)) {
                if !v.must.contains(&class) && !v.may.contains(&class) {
                    let sig = match v.known_spurious.get(&class) {
                        Some(reason) => format!("spurious-{class}-{reason}"),
                        None => format!("spurious-{class}"),
                    };
                    out.push(viol("C08.pipeline.verdict", format!("rejected with {class}, but the grammar contains none of that kind of mistake (prescribed: {:?}, tolerated: {:?})", v.must, v.may), text, shell, J::s(if v.must.is_empty() { "accepted".to_string() } else { format!("{:?}", v.must) }), J::s(&class), &sig));
                }
            }
            return;
        }
        Ok(Ok(c)) => c,
    };
    *stats.entry("accepted".into()).or_default() += 1;
    if let Some(v) = gr.and_then(|g| expected_verdict(g, shell)) {
        if !v.must.is_empty() {
            out.push(viol("C08.pipeline.verdict", format!("accepted although the grammar contains a mistake of kind {:?}", v.must), text, shell, J::s(format!("{:?}", v.must)), J::s("accepted"), &format!("missed-{}", v.must.iter().next().unwrap())));
        } else if let Some((class, reason)) = v.known_missed.iter().next() {
            out.push(viol("C08.pipeline.verdict", format!("accepted although the grammar contains a mistake of kind {class} ({reason})"), text, shell, J::s(class), J::s("accepted"), &format!("missed-{class}-{reason}")));
        }
    }
    let raw_nfa = nfa_of(&comp.raw, &comp.raw, 0, false);
    let min_nfa = nfa_of(&comp.min, &comp.min, 0, false);
    let min_read = nfa_of(&comp.min, &comp.min, 0, true);
    let (Some(raw_d), Some(min_d)) = (determinize(&raw_nfa), determinize(&min_nfa)) else {
        *stats.entry("too_big".into()).or_default() += 1;
        return;
    };
    let raw_c = raw_d.canonical();
    let min_c = min_d.canonical();

    // ---- C02: labelled language = reference
    // (C09 below needs to know whether the labels of the automaton are the grammar's own: the
    // recorded findings are about one item written in two `||` branches, not about items whose
    // level differs from the branch they sit in)
    let mut labels_are_the_grammars = true;
    if let Some(gr) = gr {
        match reference_language(gr, shell) {
            Ok((refd, _)) => {
                if refd.serialize() != min_c.serialize() {
                    labels_are_the_grammars = false;
                }
                if refd.serialize() != raw_c.serialize() {
                    let w = distinguishing_word(&refd, &raw_c);
                    let (word, in_ref) = w.unwrap_or((vec![], false));
                    out.push(viol("C02.pipeline.raw_language", format!("automaton before minimisation {} the labelled word sequence {:?} which the grammar {}", if in_ref { "rejects" } else { "accepts" }, word, if in_ref { "allows" } else { "does not allow" }), text, shell, J::s(refd.serialize()), J::s(raw_c.serialize()), &lang_class(&word, in_ref)));
                }
                if refd.serialize() != min_c.serialize() {
                    let w = distinguishing_word(&refd, &min_c);
                    let (word, in_ref) = w.unwrap_or((vec![], false));
                    out.push(viol("C02.pipeline.min_language", format!("minimised automaton {} the labelled word sequence {:?} which the grammar {}", if in_ref { "rejects" } else { "accepts" }, word, if in_ref { "allows" } else { "does not allow" }), text, shell, J::s(refd.serialize()), J::s(min_c.serialize()), &lang_class(&word, in_ref)));
                }
            }
            Err(RefErr::TooBig) => {
                *stats.entry("ref_too_big".into()).or_default() += 1;
            }
            Err(e) => {
                // accepted although the reference cannot give it a meaning (cycle): C08 territory
                *stats.entry(format!("ref_err:{e:?}")).or_default() += 1;
            }
        }
    }

    // ---- C03: minimisation keeps the language (over the automaton's own symbols), result trim and minimal
    c03_checks(&comp.raw, &comp.min, "main", text, shell, out);
    for (i, sub) in all_subdfas(&comp.min).into_iter().enumerate() {
        // within-word automata are stored minimised
        c03_min_only(sub, &format!("within-word #{i}"), text, shell, out);
    }

    // ---- C09: no state with two readings of one word leading to different continuations
    c09_determinism(&min_nfa, &min_read, &nfa_nolevels(&comp.min), "main", text, shell, gr.map_or((false, false), |g| { let r = respelled_words(g, shell); (r.reordered, r.regrouped) }), labels_are_the_grammars, out);

    // ---- C09: `||` behaves exactly like `|` when matching
    if let Some(gr) = gr {
        let flat = Grammar { stmts: gr.stmts.iter().map(|s| match s {
            Stmt::Call(c, g) => Stmt::Call(c.clone(), strip_fb(g)),
            Stmt::Def(n, sh, g) => Stmt::Def(n.clone(), sh.clone(), strip_fb(g)),
        }).collect() };
        if &flat != gr {
            let ft = flat.print();
            let sh3 = shell.to_string();
            if let Ok(Ok(fc)) = guarded(move || compile(&ft, &sh3)) {
                let a = determinize(&min_read).map(|d| d.canonical());
                let b = determinize(&nfa_of(&fc.min, &fc.min, 0, true)).map(|d| d.canonical());
                if let (Some(a), Some(b)) = (a, b) {
                    if a.serialize() != b.serialize() {
                        let (word, in_a) = distinguishing_word(&a, &b).unwrap_or((vec![], false));
                        out.push(viol("C09.fallback.transparent_language", format!("the word sequence {:?} is matched by the {} grammar only", word, if in_a { "`||`" } else { "`|`" }), text, shell, J::s(b.serialize()), J::s(a.serialize()), "language-differs"));
                    }
                }
            }
        }
    }
}

fn lang_class(word: &[String], in_ref: bool) -> String {
    // classify by the kind of the last (deciding) item so that unrelated failures get
    // different signatures
    let last = word.last().map(|s| s.chars().take(1).collect::<String>()).unwrap_or_else(|| "eps".into());
    format!("{}:{}", if in_ref { "lost" } else { "added" }, last)
}

fn c03_checks(raw: &complgen::dfa::DFA, min: &complgen::dfa::DFA, which: &str, text: &str, shell: &str, out: &mut Vec<Violation>) {
    let (rd, _) = raw_dfa_of(raw);
    let (md, _) = raw_dfa_of(min);
    let rc = rd.canonical();
    let mc = md.canonical();
    if rc.serialize() != mc.serialize() {
        let (word, in_raw) = distinguishing_word(&rc, &mc).unwrap_or((vec![], false));
        out.push(viol("C03.minimize.language", format!("{which}: minimisation changed the language: {:?} is {} afterwards", word, if in_raw { "no longer accepted" } else { "newly accepted" }), text, shell, J::s(rc.serialize()), J::s(mc.serialize()), if in_raw { "lost" } else { "added" }));
        return;
    }
    c03_min_only(min, which, text, shell, out);
}

fn c03_min_only(min: &complgen::dfa::DFA, which: &str, text: &str, shell: &str, out: &mut Vec<Violation>) {
    let (md, ids) = raw_dfa_of(min);
    let reach = md.reachable();
    let live = md.live();
    for s in 0..md.n() {
        if !reach[s] {
            out.push(viol("C03.minimize.trim", format!("{which}: state {} of the minimised automaton is unreachable", ids[s]), text, shell, J::s("every state reachable"), J::Num(ids[s] as i64), "unreachable"));
            return;
        }
        if !live[s] && !(md.n() == 1) {
            out.push(viol("C03.minimize.trim", format!("{which}: from state {} of the minimised automaton acceptance is impossible", ids[s]), text, shell, J::s("every state can reach an accepting state"), J::Num(ids[s] as i64), "dead"));
            return;
        }
    }
    let mc = md.canonical();
    if md.n() != mc.n() {
        out.push(viol("C03.minimize.minimal", format!("{which}: minimised automaton has {} states, the minimal automaton of its language has {}", md.n(), mc.n()), text, shell, J::Num(mc.n() as i64), J::Num(md.n() as i64), "not-minimal"));
    }
}

fn c09_determinism(n: &Nfa, readings: &Nfa, nolevels: &Nfa, which: &str, text: &str, shell: &str, respelled: (bool, bool), labels_are_the_grammars: bool, out: &mut Vec<Violation>) {
    // `n` (labelled items) and `readings` (items as read when matching) have identical shape
    for (s, row) in n.trans.iter().enumerate() {
        let mut by: BTreeMap<String, BTreeSet<usize>> = BTreeMap::new();
        let mut names: BTreeMap<String, Vec<String>> = BTreeMap::new();
        let mut flat: BTreeMap<String, BTreeSet<String>> = BTreeMap::new();
        for (k, (a, t)) in row.iter().enumerate() {
            let r = readings.trans[s][k].0.clone();
            by.entry(r.clone()).or_default().insert(*t);
            names.entry(r.clone()).or_default().push(a.clone());
            flat.entry(r).or_default().insert(nolevels.trans[s][k].0.clone());
        }
        for (r, tg) in by {
            if tg.len() > 1 {
                let kind = if r.starts_with("L:") {
                    let labels = &names[&r];
                    let descrs: BTreeSet<&str> = labels.iter().map(|l| l.split('|').nth(1).unwrap_or("")).collect();
                    if descrs.len() > 1 { "same-literal-different-description" } else { "same-literal-different-fallback-level" }
                } else if r.starts_with("W:") {
                    // identical once the `||` levels are erased = the same expression used at two levels
                    let full: BTreeSet<&String> = names[&r].iter().collect();
                    if full.len() == 1 {
                        // even the labelled languages are identical: one expression spelled in two ways
                        // (e.g. permuted alternatives) is interned as two automata
                        // respelled.0: some pair meets its symbols in another order (the recorded finding D16);
                        // respelled.1 only: same symbols in the same order, regrouped or written through a
                        // definition -- the unchanged compiler interns those as one automaton
                        if respelled.0 { "identical-within-word-language-spelled-differently-two-symbols" } else if respelled.1 { "identical-within-word-language-regrouped-two-symbols" } else { "identical-within-word-expression-two-symbols" }
                    } else if flat[&r].len() > 1 {
                        "same-within-word-language-different-labels"
                    } else {
                        "same-within-word-expression-different-fallback-level"
                    }
                } else {
                    "same-command-different-fallback-level"
                };
                let kind = if labels_are_the_grammars { kind.to_string() } else { format!("{kind}-with-labels-that-are-not-the-grammars") };
                out.push(viol("C09.dfa.match_deterministic", format!("{which}: at one point the word read as {:?} has {} different continuations (items {:?})", r.chars().take(80).collect::<String>(), tg.len(), names[&r].iter().map(|x| x.chars().take(60).collect::<String>()).collect::<Vec<_>>()), text, shell, J::s("one continuation per reading"), J::Num(tg.len() as i64), &kind));
                return;
            }
        }
    }
}

pub fn run(thorough: bool, seed: u64) -> Report {
    let corpus = corpus(thorough, seed);
    let shells: Vec<&str> = if thorough { SHELLS.to_vec() } else { vec!["bash", "zsh"] };
    let mut rep = Report {
        bound: format!("every expression tree with <= {} nodes over the leaf vocabulary + hand-picked shapes (incl. every small within-word expression mirrored, repeated, and met again after a different one) + {} seeded random trees of 6..15 nodes, each wrapped as `cmd E;` with plain/specialised definitions, x shells {:?}", if thorough { 5 } else { 4 }, if thorough { 3000 } else { 300 }, shells),
        exhaustive: true,
        ..Default::default()
    };
    let mut stats: BTreeMap<String, u64> = BTreeMap::new();
    let mut distinct: BTreeSet<String> = BTreeSet::new();
    for gr in &corpus {
        let text = gr.print();
        for sh in &shells {
            rep.cases += 1;
            let before = *stats.get("accepted").unwrap_or(&0);
            check_one(Some(gr), &text, sh, &mut rep.violations, &mut stats);
            if *stats.get("accepted").unwrap_or(&0) > before && gr.stmts[0] != Stmt::Call("cmd".into(), lit("a")) {
                distinct.insert(format!("{sh}:{text}"));
            }
        }
        if rep.samples.len() < 4 && text.len() > 40 {
            rep.samples.push(J::s(&text));
        }
    }
    rep.distinct_nontrivial = distinct.len() as u64;
    rep.samples.push(J::Obj(stats.iter().map(|(k, v)| (k.clone(), J::Num(*v as i64))).collect()));
    // vacuity guard: most enumerated grammars must be accepted, else the check explored nothing
    let acc = *stats.get("accepted").unwrap_or(&0);
    if acc * 3 < rep.cases {
        rep.undecided.push(format!("only {acc} of {} generated grammars were accepted by the real pipeline; the stand-in would be vacuous", rep.cases));
    }
    rep
}

/// Seeded random grammars of 8..24 nodes over four literals (dense loops / optionals): the shapes
/// on which partition-refinement slips show up (about 1 in 4000 for the Hopcroft `break` defect).
pub fn fuzz_corpus(n: usize, seed: u64) -> Vec<Grammar> {
    let leaves = vec![lit("a"), lit("b"), lit("c"), lit("d")];
    let mut rng = Rng::new(seed.wrapping_mul(31).wrapping_add(7));
    (0..n)
        .map(|i| {
            let budget = 8 + (i % 17);
            let g = random_tree(&mut rng, budget, &leaves, false);
            Grammar { stmts: vec![Stmt::Call("cmd".into(), g)] }
        })
        .collect()
}

pub fn run_fuzz(thorough: bool, seed: u64) -> Report {
    let n = if thorough { 400_000 } else { 40_000 };
    let mut rep = Report {
        bound: format!("{n} seeded random expression trees of 8..24 nodes over the literals a,b,c,d (sequence, |, ||, [], ..., within-word juxtaposition), shell bash"),
        exhaustive: false,
        ..Default::default()
    };
    let mut stats: BTreeMap<String, u64> = BTreeMap::new();
    let mut distinct: BTreeSet<String> = BTreeSet::new();
    for gr in fuzz_corpus(n, seed) {
        let text = gr.print();
        rep.cases += 1;
        if distinct.insert(text.clone()) {
            rep.distinct_nontrivial += 1;
        }
        check_one(Some(&gr), &text, "bash", &mut rep.violations, &mut stats);
        if rep.samples.len() < 3 && text.len() > 60 {
            rep.samples.push(J::s(&text));
        }
    }
    rep.samples.push(J::Obj(stats.iter().map(|(k, v)| (k.clone(), J::Num(*v as i64))).collect()));
    let acc = *stats.get("accepted").unwrap_or(&0);
    if acc * 3 < rep.cases {
        rep.undecided.push(format!("only {acc} of {} generated grammars were accepted", rep.cases));
    }
    rep
}

pub fn replay(args: &[String]) -> i32 {
    // args: obligation shell text
    let (obl, shell, text) = (&args[0], &args[1], &args[2]);
    let mut v = vec![];
    let mut stats = BTreeMap::new();
    println!("grammar:\n{text}shell: {shell}");
    check_one(None, text, shell, &mut v, &mut stats);
    // reference-dependent obligations need the abstract grammar: re-derive by searching the corpus
    let mut found = false;
    for thorough in [false, true] {
        if found {
            break;
        }
        for gr in corpus(thorough, 0) {
            if &gr.print() == text {
                v.clear();
                check_one(Some(&gr), text, shell, &mut v, &mut stats);
                found = true;
                break;
            }
        }
    }
    if !found {
        let seed: u64 = std::env::var("VERIF_SEED").ok().and_then(|s| s.parse().ok()).unwrap_or(0);
        for gr in fuzz_corpus(400_000, seed) {
            if &gr.print() == text {
                v.clear();
                check_one(Some(&gr), text, shell, &mut v, &mut stats);
                break;
            }
        }
    }
    let mine: Vec<&Violation> = v.iter().filter(|x| &x.obligation == obl).collect();
    for x in &v {
        println!("  [{}] {}", x.obligation, x.what);
    }
    println!("pipeline verdicts: {stats:?}");
    if mine.is_empty() { 0 } else { 1 }
}
