//! Minimal JSON value + writer (no serde dependency).
use std::fmt::Write;

#[derive(Clone, Debug)]
pub enum J {
    Null,
    Bool(bool),
    Num(i64),
    Str(String),
    Arr(Vec<J>),
    Obj(Vec<(String, J)>),
}

impl J {
    pub fn s(x: impl Into<String>) -> J {
        J::Str(x.into())
    }
    pub fn obj(v: Vec<(&str, J)>) -> J {
        J::Obj(v.into_iter().map(|(k, v)| (k.to_string(), v)).collect())
    }
    pub fn write(&self, out: &mut String) {
        match self {
            J::Null => out.push_str("null"),
            J::Bool(b) => out.push_str(if *b { "true" } else { "false" }),
            J::Num(n) => {
                let _ = write!(out, "{n}");
            }
            J::Str(s) => {
                out.push('"');
                for c in s.chars() {
                    match c {
                        '"' => out.push_str("\\\""),
                        '\\' => out.push_str("\\\\"),
                        '\n' => out.push_str("\\n"),
                        '\r' => out.push_str("\\r"),
                        '\t' => out.push_str("\\t"),
                        c if (c as u32) < 0x20 => {
                            let _ = write!(out, "\\u{:04x}", c as u32);
                        }
                        c => out.push(c),
                    }
                }
                out.push('"');
            }
            J::Arr(v) => {
                out.push('[');
                for (i, x) in v.iter().enumerate() {
                    if i > 0 {
                        out.push(',');
                    }
                    x.write(out);
                }
                out.push(']');
            }
            J::Obj(v) => {
                out.push('{');
                for (i, (k, x)) in v.iter().enumerate() {
                    if i > 0 {
                        out.push(',');
                    }
                    J::Str(k.clone()).write(out);
                    out.push(':');
                    x.write(out);
                }
                out.push('}');
            }
        }
    }
    pub fn to_string(&self) -> String {
        let mut s = String::new();
        self.write(&mut s);
        s
    }
}
