//! C04: the TEXT written by the real zsh / fish / pwsh emitters, read back with each shell's own
//! table syntax and index base, and compared with the lookup tables / automaton.
//!   zsh : `declare -a [subword_]literals=("..")`, `declare -A name=([k]=v ..)`, `name[k]="([a]=b ..)"`,
//!         states and literal ids 1-based, command ids 0-based
//!   fish: `set [--global subword_]name values..` with parallel lists (…_inputs/…_tos,
//!         …_froms_level_N/…_inputs_level_N), 1-based positions = state + 1
//!   pwsh: `$name = @{k=v;..}`, `$name[k] = @{a=b;..}`, `@(a,b)`, 0-based
//! Labelled bounded stand-in (the shells themselves are not installed).
use crate::c04::{array_start, ShellView};
use crate::strings::decode;
use complgen::dfa::{DFA, Inp, verif_hooks as dh};
use complgen::tables::verif_hooks as th;
use std::collections::{BTreeMap, BTreeSet};

type M2 = BTreeMap<u32, BTreeMap<u32, u32>>;
type Lv = BTreeMap<usize, BTreeMap<u32, Vec<u32>>>;

#[derive(Default, Debug, Clone)]
pub struct DTab {
    pub literals: Option<Vec<String>>,
    /// literal id (as numbered in the tables) -> description text
    pub descr_of: BTreeMap<u32, String>,
    pub match_literal: M2,
    pub match_command: M2,
    pub match_compadd: M2,
    pub star: BTreeSet<(u32, u32)>,
    pub max_level: Option<usize>,
    pub compl_literal: Lv,
    pub compl_command: Lv,
    pub compl_compadd: Lv,
    pub sub_trans: M2,
    pub sub_compl: Lv,
    pub start: Option<u32>,
    pub calls_shape: Option<String>,
    pub body: Vec<String>,
}

#[derive(Default, Debug)]
pub struct Decoded {
    pub fns: BTreeMap<String, DTab>,
    pub main: Option<DTab>,
    pub registered: bool,
}

type Errs = Vec<(String, String)>;

fn num(s: &str) -> Option<u32> {
    s.trim().parse().ok()
}
fn nums(s: &str) -> Vec<u32> {
    s.split(|c: char| c == ' ' || c == ',').filter_map(num).collect()
}
fn sub1(x: u32, base: u32, errs: &mut Errs, what: &str) -> u32 {
    if x < base {
        errs.push(("index_base".into(), format!("{what}: index {x} is below the shell's array base {base}")));
        0
    } else {
        x - base
    }
}

// ---------------------------------------------------------------------------------------------
// generic "[k]=v [k]="a b"" parser (bash / zsh)

fn parse_assoc(s: &str) -> Option<BTreeMap<u32, String>> {
    let cs: Vec<char> = s.chars().collect();
    let mut i = 0;
    let mut out = BTreeMap::new();
    while i < cs.len() {
        while i < cs.len() && cs[i] == ' ' {
            i += 1;
        }
        if i >= cs.len() {
            break;
        }
        if cs[i] != '[' {
            return None;
        }
        let mut j = i + 1;
        while j < cs.len() && cs[j] != ']' {
            j += 1;
        }
        let key: u32 = cs[i + 1..j].iter().collect::<String>().parse().ok()?;
        if j + 1 >= cs.len() || cs[j + 1] != '=' {
            return None;
        }
        let mut k = j + 2;
        let val: String;
        if k < cs.len() && cs[k] == '"' {
            let mut e = k + 1;
            while e < cs.len() && cs[e] != '"' {
                e += 1;
            }
            val = cs[k + 1..e].iter().collect();
            k = e + 1;
        } else {
            let mut e = k;
            while e < cs.len() && cs[e] != ' ' {
                e += 1;
            }
            val = cs[k..e].iter().collect();
            k = e;
        }
        if out.insert(key, val).is_some() {
            return None;
        }
        i = k;
    }
    Some(out)
}

/// split a run of double-quoted tokens separated by `sep` characters
fn split_dq(s: &str, seps: &[char]) -> Option<Vec<String>> {
    let cs: Vec<char> = s.chars().collect();
    let mut out = vec![];
    let mut i = 0;
    while i < cs.len() {
        if seps.contains(&cs[i]) || cs[i] == ' ' {
            i += 1;
            continue;
        }
        if cs[i] != '"' {
            // bare token
            let mut j = i;
            while j < cs.len() && cs[j] != ' ' && !seps.contains(&cs[j]) {
                j += 1;
            }
            out.push(cs[i..j].iter().collect());
            i = j;
            continue;
        }
        let mut j = i + 1;
        while j < cs.len() {
            if (cs[j] == '\\' || cs[j] == '`') && j + 1 < cs.len() {
                j += 2;
                continue;
            }
            if cs[j] == '"' {
                break;
            }
            j += 1;
        }
        if j >= cs.len() {
            return None;
        }
        out.push(cs[i..=j].iter().collect());
        i = j + 1;
    }
    Some(out)
}

fn dq(shell: &str, tok: &str, errs: &mut Errs, what: &str) -> String {
    if tok.starts_with('"') {
        match decode(shell, tok) {
            Some(s) => s,
            None => {
                errs.push(("quoting".into(), format!("{what}: {tok} is not an inert {shell} double-quoted string")));
                String::new()
            }
        }
    } else {
        tok.to_string()
    }
}

// ---------------------------------------------------------------------------------------------
// zsh

pub fn parse_zsh(script: &str, errs: &mut Errs) -> Decoded {
    let mut d = Decoded::default();
    let lines: Vec<&str> = script.lines().collect();
    let mut cur: Option<(String, DTab)> = None;
    let mut descr_text: BTreeMap<u32, String> = BTreeMap::new();
    let mut i = 0;
    while i < lines.len() {
        let line = lines[i];
        i += 1;
        if cur.is_none() {
            if let Some(name) = line.strip_suffix(" () {") {
                if !name.contains(' ') {
                    cur = Some((name.to_string(), DTab::default()));
                    descr_text.clear();
                    continue;
                }
            }
            if line.trim() == "compdef _cmd cmd" || line.trim() == "#compdef cmd" {
                d.registered = true;
            }
            continue;
        }
        if line == "}" {
            let (n, t) = cur.take().unwrap();
            d.fns.insert(n, t);
            continue;
        }
        let (_, t) = cur.as_mut().unwrap();
        t.body.push(line.to_string());
        let raw = line.trim_start();
        let decl = raw.strip_prefix("declare -A ").or_else(|| raw.strip_prefix("declare -a ")).or_else(|| raw.strip_prefix("declare "));
        let is_array = raw.starts_with("declare -a ");
        let strip = |n: &str| n.strip_prefix("subword_").unwrap_or(n).to_string();
        if let Some(rest) = decl {
            let Some((name0, init)) = rest.split_once('=') else { continue };
            // `subword_transitions*` of the main function are tables of their own, not prefixed ones
            let name = if name0.starts_with("subword_transitions") { name0.to_string() } else { strip(name0) };
            let is_table = ["literals", "descriptions", "descr_id_from_literal_id", "literal_transitions", "command_transitions", "compadd_transitions", "star_transitions", "subword_transitions", "max_fallback_level", "state"].contains(&name.as_str())
                || ["literal_transitions_level_", "commands_level_", "compadd_commands_level_", "subword_transitions_level_"].iter().any(|p| name.starts_with(p));
            if !is_table {
                continue; // run-time variables of the emitted script
            }
            if is_array && name == "literals" {
                let mut acc = init.to_string();
                while !acc.ends_with(')') && i < lines.len() {
                    acc.push('\n');
                    acc.push_str(lines[i]);
                    i += 1;
                }
                let inner = acc.strip_prefix('(').and_then(|x| x.strip_suffix(')')).unwrap_or("");
                match split_dq(inner, &[]) {
                    Some(toks) => t.literals = Some(toks.iter().map(|k| dq("zsh", k, errs, "literals")).collect()),
                    None => errs.push(("literals_syntax".into(), format!("cannot split literals array: {inner}"))),
                }
                continue;
            }
            if !init.starts_with('(') {
                if name == "max_fallback_level" {
                    t.max_level = init.parse().ok();
                } else if name == "state" && t.start.is_none() {
                    t.start = num(init).map(|s| sub1(s, 1, errs, "start state"));
                }
                continue;
            }
            let Some(m) = init.strip_prefix('(').and_then(|x| x.strip_suffix(')')).and_then(parse_assoc) else {
                errs.push(("assoc_syntax".into(), format!("cannot read initialiser of {name}: {init}")));
                continue;
            };
            if name == "star_transitions" {
                for (k, v) in m {
                    if let Some(to) = num(&v) {
                        t.star.insert((sub1(k, 1, errs, "star from"), sub1(to, 1, errs, "star to")));
                    }
                }
            } else if name == "descr_id_from_literal_id" {
                for (lit, did) in m {
                    if let Some(did) = num(&did) {
                        match descr_text.get(&did) {
                            Some(txt) => {
                                t.descr_of.insert(lit, txt.clone());
                            }
                            None => errs.push(("descriptions".into(), format!("literal {lit} refers to description {did}, which is not defined"))),
                        }
                    }
                }
            } else if let Some(l) = name.strip_prefix("literal_transitions_level_") {
                let lvl: usize = l.parse().unwrap_or(0);
                t.compl_literal.insert(lvl, m.iter().map(|(k, v)| (sub1(*k, 1, errs, "completion state"), nums(v))).collect());
            } else if let Some(l) = name.strip_prefix("compadd_commands_level_") {
                let lvl: usize = l.parse().unwrap_or(0);
                t.compl_compadd.insert(lvl, m.iter().map(|(k, v)| (sub1(*k, 1, errs, "completion state"), nums(v))).collect());
            } else if let Some(l) = name.strip_prefix("commands_level_") {
                let lvl: usize = l.parse().unwrap_or(0);
                t.compl_command.insert(lvl, m.iter().map(|(k, v)| (sub1(*k, 1, errs, "completion state"), nums(v))).collect());
            } else if let Some(l) = name.strip_prefix("subword_transitions_level_") {
                let lvl: usize = l.parse().unwrap_or(0);
                t.sub_compl.insert(lvl, m.iter().map(|(k, v)| (sub1(*k, 1, errs, "completion state"), nums(v))).collect());
            }
            continue;
        }
        // name[k]="([a]=b ..)"   or   descriptions[k]="text"
        if let Some(br) = raw.find('[') {
            let name0 = &raw[..br];
            if name0.chars().all(|c| c.is_alphanumeric() || c == '_') && !name0.is_empty() {
                if let Some(close) = raw[br..].find("]=") {
                    let key = num(&raw[br + 1..br + close]);
                    let val = &raw[br + close + 2..];
                    let name = if name0.starts_with("subword_transitions") { name0.to_string() } else { strip(name0) };
                    if let Some(key) = key {
                        if name == "descriptions" {
                            let mut acc = val.to_string();
                            while split_dq(&acc, &[]).is_none() && i < lines.len() {
                                acc.push('\n');
                                acc.push_str(lines[i]);
                                i += 1;
                            }
                            descr_text.insert(key, dq("zsh", &acc, errs, "description"));
                        } else if let Some(inner) = val.strip_prefix("\"(").and_then(|x| x.strip_suffix(")\"")) {
                            match parse_assoc(inner) {
                                Some(m) => {
                                    let mm: BTreeMap<u32, u32> = m.iter().filter_map(|(k, v)| num(v).map(|x| (*k, sub1(x, 1, errs, "target state")))).collect();
                                    let st = sub1(key, 1, errs, "state");
                                    let tgt = match name.as_str() {
                                        "literal_transitions" => Some(&mut t.match_literal),
                                        "command_transitions" => Some(&mut t.match_command),
                                        "compadd_transitions" => Some(&mut t.match_compadd),
                                        "subword_transitions" => Some(&mut t.sub_trans),
                                        _ => None,
                                    };
                                    if let Some(tgt) = tgt {
                                        if tgt.insert(st, mm).is_some() {
                                            errs.push(("duplicate_state".into(), format!("{name}[{key}] assigned twice")));
                                        }
                                    }
                                }
                                None => errs.push(("assoc_syntax".into(), format!("cannot read {raw}"))),
                            }
                        }
                    }
                }
            }
        }
        if raw.contains("_subword_shape_") && raw.ends_with("\"$@\"") {
            t.calls_shape = Some(raw.split(' ').next().unwrap_or("").to_string());
        }
    }
    d.main = d.fns.get("_cmd").cloned();
    d
}

// ---------------------------------------------------------------------------------------------
// fish

pub fn parse_fish(script: &str, errs: &mut Errs) -> Decoded {
    let mut d = Decoded::default();
    let lines: Vec<&str> = script.lines().collect();
    let mut cur: Option<(String, DTab)> = None;
    // raw `set` assignments of the current function: name -> values ; name[idx] -> value
    let mut lists: BTreeMap<String, Vec<String>> = BTreeMap::new();
    let mut indexed: BTreeMap<String, BTreeMap<u32, String>> = BTreeMap::new();
    let mut i = 0;
    let finish = |t: &mut DTab, lists: &BTreeMap<String, Vec<String>>, indexed: &BTreeMap<String, BTreeMap<u32, String>>, errs: &mut Errs| {
        let get = |n: &str| lists.get(n).cloned().unwrap_or_default();
        if let Some(l) = lists.get("literals") {
            t.literals = Some(l.clone());
        }
        // descriptions
        let dl = get("descr_literal_ids");
        let di = get("descr_ids");
        if dl.len() != di.len() {
            errs.push(("descriptions".into(), format!("descr_literal_ids has {} entries, descr_ids {}", dl.len(), di.len())));
        }
        for (l, k) in dl.iter().zip(di.iter()) {
            if let (Some(l), Some(k)) = (num(l), num(k)) {
                match indexed.get("descrs").and_then(|m| m.get(&k)) {
                    Some(txt) => {
                        t.descr_of.insert(l, txt.clone());
                    }
                    None => errs.push(("descriptions".into(), format!("literal {l} refers to descrs[{k}], which is not set"))),
                }
            }
        }
        // match tables: parallel positional lists, position p = state p-1
        let ins = get("literal_transitions_inputs");
        let tos = get("literal_transitions_tos");
        if ins.len() != tos.len() {
            errs.push(("match.literal".into(), format!("literal_transitions_inputs has {} cells, literal_transitions_tos {}", ins.len(), tos.len())));
        }
        for (p, (a, b)) in ins.iter().zip(tos.iter()).enumerate() {
            let (ids, ts) = (nums(a), nums(b));
            if ids.len() != ts.len() {
                errs.push(("match.literal".into(), format!("state {p}: {} inputs but {} targets", ids.len(), ts.len())));
            }
            if !ids.is_empty() {
                t.match_literal.insert(p as u32, ids.iter().zip(ts.iter()).map(|(i, to)| (*i, sub1(*to, 1, errs, "target state"))).collect());
            }
        }
        if let Some(m) = indexed.get("command_transitions") {
            for (k, v) in m {
                let mut mm = BTreeMap::new();
                for pair in v.split_whitespace() {
                    if let Some((c, to)) = pair.split_once(',') {
                        if let (Some(c), Some(to)) = (num(c), num(to)) {
                            mm.insert(c, sub1(to, 1, errs, "target state"));
                        }
                    }
                }
                t.match_command.insert(sub1(*k, 1, errs, "state"), mm);
            }
        }
        let sf = get("star_transitions_from");
        let st = get("star_transitions_to");
        for (a, b) in sf.iter().zip(st.iter()) {
            if let (Some(a), Some(b)) = (num(a), num(b)) {
                t.star.insert((sub1(a, 1, errs, "star from"), sub1(b, 1, errs, "star to")));
            }
        }
        if sf.len() != st.len() {
            errs.push(("match.star".into(), "star_transitions_from / _to differ in length".into()));
        }
        // completion tables: parallel lists froms / values per level
        for (name, vals) in lists {
            for (kind, froms_prefix, vals_prefix) in [("lit", "literal_froms_level_", "literal_inputs_level_"), ("cmd", "command_froms_level_", "commands_level_"), ("sub", "subword_froms_level_", "subwords_level_")] {
                if let Some(l) = name.strip_prefix(froms_prefix) {
                    let lvl: usize = l.parse().unwrap_or(0);
                    let cells = get(&format!("{vals_prefix}{lvl}"));
                    if cells.len() != vals.len() {
                        errs.push((format!("completion.{kind}"), format!("level {lvl}: {} states but {} cells", vals.len(), cells.len())));
                    }
                    let m: BTreeMap<u32, Vec<u32>> = vals.iter().zip(cells.iter()).filter_map(|(f, c)| num(f).map(|f| (sub1(f, 1, errs, "completion state"), nums(c)))).collect();
                    match kind {
                        "lit" => t.compl_literal.insert(lvl, m),
                        "cmd" => t.compl_command.insert(lvl, m),
                        _ => t.sub_compl.insert(lvl, m),
                    };
                }
            }
        }
        if let Some(v) = lists.get("subword_max_fallback_level").or(lists.get("max_fallback_level")) {
            t.max_level = v.first().and_then(|x| x.parse().ok());
        }
        if let Some(ids) = indexed.get("subword_transitions_ids") {
            for (k, v) in ids {
                let tos = indexed.get("subword_transitions_tos").and_then(|m| m.get(k)).cloned().unwrap_or_default();
                let (a, b) = (nums(v), nums(&tos));
                if a.len() != b.len() {
                    errs.push(("subword_transitions".into(), format!("state {k}: {} ids but {} targets", a.len(), b.len())));
                }
                t.sub_trans.insert(sub1(*k, 1, errs, "state"), a.iter().zip(b.iter()).map(|(i, to)| (*i, sub1(*to, 1, errs, "target state"))).collect());
            }
        }
        if let Some(v) = lists.get("state") {
            t.start = v.first().and_then(|x| num(x)).map(|s| sub1(s, 1, errs, "start state"));
        }
    };
    while i < lines.len() {
        let line = lines[i];
        i += 1;
        if cur.is_none() {
            if let Some(name) = line.strip_prefix("function ") {
                if !name.contains(' ') {
                    cur = Some((name.to_string(), DTab::default()));
                    lists.clear();
                    indexed.clear();
                    continue;
                }
            }
            if line.trim() == "complete --command cmd --no-files --arguments \"(_cmd)\"" {
                d.registered = true;
            }
            continue;
        }
        if line == "end" {
            let (n, mut t) = cur.take().unwrap();
            finish(&mut t, &lists, &indexed, errs);
            d.fns.insert(n, t);
            continue;
        }
        let (_, t) = cur.as_mut().unwrap();
        t.body.push(line.to_string());
        // only the table section: 4-space indented `set` lines (run-time code is indented deeper
        // or assigns from command substitutions)
        let Some(rest) = line.strip_prefix("    set ") else {
            if line.contains("_subword_shape_") && line.trim_end().ends_with("\"$argv[2]\"") {
                t.calls_shape = Some(line.trim().split(' ').next().unwrap_or("").to_string());
            }
            if let Some(p) = line.find("while test $fallback_level -le ") {
                if let Ok(n) = line[p + 31..].trim().parse::<usize>() {
                    if !lists.contains_key("max_fallback_level") {
                        lists.insert("max_fallback_level".into(), vec![n.to_string()]);
                    }
                }
            }
            continue;
        };
        let rest = rest.strip_prefix("--global ").unwrap_or(rest);
        let rest = rest.strip_prefix("-- ").unwrap_or(rest);
        if rest.contains('(') && !rest.contains('"') {
            continue; // command substitution: run-time code
        }
        let (name0, vals) = match rest.split_once(' ') {
            Some((n, v)) => (n, v),
            None => (rest, ""),
        };
        {
            let base = name0.split('[').next().unwrap_or(name0);
            let base = base.strip_prefix("subword_").filter(|_| !(base.starts_with("subword_transitions_") || base.starts_with("subword_froms_level_") || base.starts_with("subwords_level_") || base.starts_with("subword_max_fallback_level"))).unwrap_or(base);
            let is_table = ["literals", "descrs", "descr_literal_ids", "descr_ids", "literal_transitions_inputs", "literal_transitions_tos", "command_transitions", "star_transitions_from", "star_transitions_to", "subword_transitions_ids", "subword_transitions_tos", "subword_max_fallback_level", "max_fallback_level", "state"].contains(&base)
                || ["literal_froms_level_", "literal_inputs_level_", "command_froms_level_", "commands_level_", "subword_froms_level_", "subwords_level_"].iter().any(|p| base.starts_with(p));
            if !is_table {
                continue; // run-time variables of the emitted script
            }
        }
        let mut acc = vals.to_string();
        while split_dq(&acc, &[]).is_none() && i < lines.len() {
            acc.push('\n');
            acc.push_str(lines[i]);
            i += 1;
        }
        let toks = split_dq(&acc, &[]).unwrap_or_default();
        let vals: Vec<String> = toks.iter().map(|k| dq("fish", k, errs, name0)).collect();
        let keep_prefix = name0.starts_with("subword_transitions_") || name0.starts_with("subword_froms_level_") || name0.starts_with("subwords_level_") || name0.starts_with("subword_max_fallback_level");
        let name1 = if keep_prefix { name0 } else { name0.strip_prefix("subword_").unwrap_or(name0) };
        if let Some(br) = name1.find('[') {
            let idx = num(name1[br + 1..].trim_end_matches(']'));
            if let Some(idx) = idx {
                indexed.entry(name1[..br].to_string()).or_default().insert(idx, vals.join(" "));
            }
        } else if name1 == "state" {
            if !lists.contains_key("state") {
                lists.insert("state".into(), vals);
            }
        } else if !vals.is_empty() || !lists.contains_key(name1) {
            lists.insert(name1.to_string(), vals);
        }
    }
    d.main = d.fns.get("_cmd").cloned();
    d
}

// ---------------------------------------------------------------------------------------------
// pwsh

fn parse_ps_hash(s: &str) -> Option<BTreeMap<u32, String>> {
    // k=v;k=@(a,b); ...
    let mut out = BTreeMap::new();
    let cs: Vec<char> = s.chars().collect();
    let mut i = 0;
    while i < cs.len() {
        while i < cs.len() && (cs[i] == ' ' || cs[i] == ';') {
            i += 1;
        }
        if i >= cs.len() {
            break;
        }
        let mut j = i;
        while j < cs.len() && cs[j] != '=' {
            j += 1;
        }
        let key: u32 = cs[i..j].iter().collect::<String>().trim().parse().ok()?;
        let mut k = j + 1;
        let val: String;
        if k + 1 < cs.len() && cs[k] == '@' && cs[k + 1] == '(' {
            let mut e = k + 2;
            while e < cs.len() && cs[e] != ')' {
                e += 1;
            }
            val = cs[k + 2..e].iter().collect();
            k = e + 1;
        } else {
            let mut e = k;
            while e < cs.len() && cs[e] != ';' {
                e += 1;
            }
            val = cs[k..e].iter().collect::<String>().trim().to_string();
            k = e;
        }
        if out.insert(key, val).is_some() {
            return None;
        }
        i = k;
    }
    Some(out)
}

pub fn parse_pwsh(script: &str, errs: &mut Errs) -> Decoded {
    let mut d = Decoded::default();
    let lines: Vec<&str> = script.lines().collect();
    let mut cur: Option<(String, DTab)> = None;
    let mut i = 0;
    while i < lines.len() {
        let line = lines[i];
        i += 1;
        if cur.is_none() {
            if let Some(name) = line.strip_prefix("function ").and_then(|x| x.strip_suffix(" {")) {
                cur = Some((name.to_string(), DTab::default()));
                continue;
            }
            if line.starts_with("Register-ArgumentCompleter -Native -CommandName 'cmd' -ScriptBlock {") {
                d.registered = true;
                cur = Some(("_cmd".to_string(), DTab::default()));
            }
            continue;
        }
        if line == "}" {
            let (n, t) = cur.take().unwrap();
            d.fns.insert(n, t);
            continue;
        }
        let (_, t) = cur.as_mut().unwrap();
        t.body.push(line.to_string());
        let Some(rest) = line.strip_prefix("    $") else {
            if line.contains("_subword_shape_") && line.trim_end().ends_with("$args[1]") {
                t.calls_shape = Some(line.trim().split(' ').next().unwrap_or("").to_string());
            }
            continue;
        };
        let Some((lhs, rhs)) = rest.split_once(" = ") else { continue };
        if lhs == "literals" {
            let mut acc = rhs.to_string();
            while !acc.trim_end().ends_with(')') && i < lines.len() {
                acc.push('\n');
                acc.push_str(lines[i]);
                i += 1;
            }
            let inner = acc.trim().strip_prefix("@(").and_then(|x| x.strip_suffix(')')).unwrap_or("");
            match split_dq(inner, &[',']) {
                Some(toks) => t.literals = Some(toks.iter().map(|k| dq("pwsh", k, errs, "literals")).collect()),
                None => errs.push(("literals_syntax".into(), format!("cannot split literals array: {inner}"))),
            }
            continue;
        }
        if lhs == "descriptions" {
            // @{} or a multi-line hashtable   N = "text"
            if rhs.trim() == "@{}" {
                continue;
            }
            while i < lines.len() && lines[i].trim() != "}" {
                let l = lines[i].trim().to_string();
                i += 1;
                if let Some((k, v)) = l.split_once(" = ") {
                    if let Some(k) = num(k) {
                        let mut acc = v.to_string();
                        while split_dq(acc.trim().trim_end_matches(';'), &[]).is_none() && i < lines.len() {
                            acc.push('\n');
                            acc.push_str(lines[i]);
                            i += 1;
                        }
                        t.descr_of.insert(k, dq("pwsh", acc.trim().trim_end_matches(';').trim(), errs, "description"));
                    }
                }
            }
            i += 1;
            continue;
        }
        if lhs == "max_fallback_level" {
            if t.max_level.is_none() {
                t.max_level = rhs.trim().parse().ok();
            }
            continue;
        }
        if lhs == "state" {
            if t.start.is_none() {
                t.start = num(rhs);
            }
            continue;
        }
        let hash = rhs.trim().strip_prefix("@{").and_then(|x| x.strip_suffix('}'));
        let Some(inner) = hash else { continue };
        let Some(m) = parse_ps_hash(inner) else {
            errs.push(("hash_syntax".into(), format!("cannot read ${lhs} = {rhs}")));
            continue;
        };
        if let Some(br) = lhs.find('[') {
            let name = &lhs[..br];
            let Some(key) = num(lhs[br + 1..].trim_end_matches(']')) else { continue };
            let mm: BTreeMap<u32, u32> = m.iter().filter_map(|(k, v)| num(v).map(|x| (*k, x))).collect();
            let tgt = match name {
                "literal_transitions" => Some(&mut t.match_literal),
                "command_transitions" => Some(&mut t.match_command),
                "subword_transitions" => Some(&mut t.sub_trans),
                _ => None,
            };
            if let Some(tgt) = tgt {
                if tgt.insert(key, mm).is_some() {
                    errs.push(("duplicate_state".into(), format!("{name}[{key}] assigned twice")));
                }
            }
        } else if lhs == "star_transitions" {
            for (k, v) in m {
                if let Some(to) = num(&v) {
                    t.star.insert((k, to));
                }
            }
        } else if let Some(l) = lhs.strip_prefix("literal_transitions_level_") {
            t.compl_literal.insert(l.parse().unwrap_or(0), m.iter().map(|(k, v)| (*k, nums(v))).collect());
        } else if let Some(l) = lhs.strip_prefix("subword_transitions_level_") {
            t.sub_compl.insert(l.parse().unwrap_or(0), m.iter().map(|(k, v)| (*k, nums(v))).collect());
        } else if let Some(l) = lhs.strip_prefix("commands_level_") {
            t.compl_command.insert(l.parse().unwrap_or(0), m.iter().map(|(k, v)| (*k, nums(v))).collect());
        }
    }
    d.main = d.fns.get("_cmd").cloned();
    d
}

// ---------------------------------------------------------------------------------------------
// comparison with the tables

fn drop_empty(m: &BTreeMap<u32, Vec<u32>>) -> BTreeMap<u32, BTreeSet<u32>> {
    m.iter().filter(|(_, v)| !v.is_empty()).map(|(k, v)| (*k, v.iter().cloned().collect())).collect()
}

fn cmp_tab(what: &str, t: &DTab, lits: &DTab, dump: &th::Dump, zsh: bool, errs: &mut Errs) {
    let exp_lits: Vec<String> = dump.all_literals.iter().map(|(_, l, _)| l.clone()).collect();
    if lits.literals.as_ref() != Some(&exp_lits) {
        errs.push(("literals".into(), format!("{what}: literal list in the script = {:?}, literal table = {exp_lits:?}", lits.literals)));
    }
    let exp_descr: BTreeMap<u32, String> = dump.all_literals.iter().filter(|(_, _, d)| !d.is_empty()).map(|(i, _, d)| (*i, d.clone())).collect();
    if lits.descr_of != exp_descr {
        errs.push(("descriptions".into(), format!("{what}: descriptions by literal id in the script = {:?}, literal table = {exp_descr:?}", lits.descr_of)));
    }
    if t.match_literal != dump.match_literal {
        errs.push(("match.literal".into(), format!("{what}: literal transitions in the script = {:?}, tables = {:?}", t.match_literal, dump.match_literal)));
    }
    if let Some(c) = &dump.match_command {
        if &t.match_command != c {
            errs.push(("match.command".into(), format!("{what}: command transitions in the script = {:?}, tables = {c:?}", t.match_command)));
        }
    }
    if let (Some(c), true) = (&dump.match_compadd, zsh) {
        if &t.match_compadd != c {
            errs.push(("match.compadd".into(), format!("{what}: compadd transitions in the script = {:?}, tables = {c:?}", t.match_compadd)));
        }
    }
    if let Some(s) = &dump.match_star {
        let exp: BTreeSet<(u32, u32)> = s.iter().cloned().collect();
        if t.star != exp {
            errs.push(("match.star".into(), format!("{what}: any-word transitions in the script = {:?}, tables = {exp:?}", t.star)));
        }
    }
    if t.max_level != Some(dump.max_fallback_level) {
        errs.push(("max_fallback_level".into(), format!("{what}: max fallback level in the script = {:?}, tables = {}", t.max_level, dump.max_fallback_level)));
    }
    let empty = BTreeMap::new();
    for (lvl, exp) in dump.compl_literal.iter().enumerate() {
        let got = t.compl_literal.get(&lvl).unwrap_or(&empty);
        if drop_empty(got) != drop_empty(exp) {
            errs.push(("completion.literal".into(), format!("{what}: literal candidates of level {lvl} in the script = {got:?}, tables = {exp:?}")));
        }
    }
    if let Some(cc) = &dump.compl_command {
        for (lvl, exp) in cc.iter().enumerate() {
            let got = t.compl_command.get(&lvl).unwrap_or(&empty);
            if drop_empty(got) != drop_empty(exp) {
                errs.push(("completion.command".into(), format!("{what}: command candidates of level {lvl} in the script = {got:?}, tables = {exp:?}")));
            }
        }
    }
    if let (Some(cc), true) = (&dump.compl_compadd, zsh) {
        for (lvl, exp) in cc.iter().enumerate() {
            let got = t.compl_compadd.get(&lvl).unwrap_or(&empty);
            let exp2: BTreeMap<u32, Vec<u32>> = exp.iter().map(|(k, v)| (*k, v.iter().map(|x| *x as u32).collect())).collect();
            if drop_empty(got) != drop_empty(&exp2) {
                errs.push(("completion.compadd".into(), format!("{what}: compadd candidates of level {lvl} in the script = {got:?}, tables = {exp2:?}")));
            }
        }
    }
}

pub fn check_text(dfa: &DFA, view: &ShellView, shell: &str, errs: &mut Errs) {
    let mut buf: Vec<u8> = vec![];
    let r = match shell {
        "zsh" => complgen::zsh::write_completion_script(&mut buf, "cmd", dfa),
        "fish" => complgen::fish::write_completion_script(&mut buf, "cmd", dfa),
        _ => complgen::pwsh::write_completion_script(&mut buf, "cmd", dfa),
    };
    if let Err(e) = r {
        errs.push(("emit".into(), format!("write_completion_script failed: {e:?}")));
        return;
    }
    let script = String::from_utf8_lossy(&buf).into_owned();
    let d = match shell {
        "zsh" => parse_zsh(&script, errs),
        "fish" => parse_fish(&script, errs),
        _ => parse_pwsh(&script, errs),
    };
    if !d.registered {
        errs.push(("registration".into(), format!("the {shell} script does not register its completion function for `cmd`")));
    }
    for (id, c) in view.cmds.iter().enumerate() {
        match d.fns.get(&format!("_cmd_cmd_{id}")) {
            Some(b) => {
                let got = b.body.join("\n");
                if got.trim() != c.trim() {
                    errs.push(("command_function".into(), format!("_cmd_cmd_{id} runs {:?}, the automaton's command {id} is {:?}", got.trim(), c.trim())));
                }
            }
            None => errs.push(("command_function".into(), format!("no function _cmd_cmd_{id} for command {:?}", c.trim()))),
        }
    }
    let Some(main) = &d.main else {
        errs.push(("main_function".into(), "no main completion function".into()));
        return;
    };
    cmp_tab("main", main, main, &view.main, shell == "zsh", errs);
    if main.start != Some(dfa.starting_state) {
        errs.push(("start_state".into(), format!("start state in the script = {:?}, the automaton starts in {}", main.start, dfa.starting_state)));
    }
    let base = array_start(shell);
    let ids: BTreeMap<usize, usize> = th::subwords(dfa, base).into_iter().map(|(d, i)| (dh::dfa_id_raw(d), i)).collect();
    let mut exp_sub: M2 = BTreeMap::new();
    let mut exp_sub_lvl: BTreeMap<usize, BTreeMap<u32, BTreeSet<u32>>> = BTreeMap::new();
    for (from, tos) in &dfa.transitions {
        for (inp_id, to) in tos {
            if let Inp::Subword { subdfa, fallback_level } = dh::inp_of(dfa, *inp_id) {
                let id = ids[&dh::dfa_id_raw(*subdfa)] as u32;
                exp_sub.entry(*from).or_default().insert(id, *to);
                exp_sub_lvl.entry(*fallback_level).or_default().entry(*from).or_default().insert(id);
            }
        }
    }
    if main.sub_trans != exp_sub {
        errs.push(("subword_transitions".into(), format!("within-word transitions in the script = {:?}, automaton = {exp_sub:?}", main.sub_trans)));
    }
    for (lvl, exp) in &exp_sub_lvl {
        let got = main.sub_compl.get(lvl).map(drop_empty).unwrap_or_default();
        if &got != exp {
            errs.push(("subword_completions".into(), format!("within-word candidates of level {lvl} in the script = {got:?}, automaton = {exp:?}")));
        }
    }
    for (id, dump) in &view.subs {
        let name = format!("_cmd_subword_{id}");
        let Some(b) = d.fns.get(&name) else {
            errs.push(("subword_function".into(), format!("no function {name}")));
            continue;
        };
        let tabs = match &b.calls_shape {
            Some(shape) => match d.fns.get(shape) {
                Some(s) => s,
                None => {
                    errs.push(("subword_function".into(), format!("{name} calls the undefined {shape}")));
                    continue;
                }
            },
            None => b,
        };
        let mut sub_errs = vec![];
        cmp_tab(&name, tabs, b, dump, shell == "zsh", &mut sub_errs);
        for (f, m) in sub_errs {
            errs.push((format!("subword.{f}"), m));
        }
    }
}
