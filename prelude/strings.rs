// Trusted shims for std string operations that Verus cannot specify directly
// (`str::replace<P: Pattern>` is generic in P; `format!` expands to fmt::Arguments machinery).
// Each is an ASSUMED contract, differentially tested against std in harness/src/shim_tests.rs.
verus! {

/// `s.replace(c, r)` for a `char` pattern: every occurrence of `c`, left to right, becomes `r`.
pub open spec fn replace_char(s: Seq<char>, c: char, r: Seq<char>) -> Seq<char>
    decreases s.len()
{
    if s.len() == 0 {
        Seq::empty()
    } else if s[0] == c {
        r + replace_char(s.subrange(1, s.len() as int), c, r)
    } else {
        seq![s[0]] + replace_char(s.subrange(1, s.len() as int), c, r)
    }
}

#[verifier::external_body]
pub fn __str_replace_char(s: &str, c: char, r: &str) -> (out: String)
    ensures out@ == replace_char(s@, c, r@)
{
    s.replace(c, r)
}

/// Display of the types that occur in `{}` holes of the rewritten format! calls.
pub trait VDisp {
    spec fn disp_view(&self) -> Seq<char>;
    fn vdisp(&self) -> (r: String)
        ensures r@ == self.disp_view();
}

impl VDisp for String {
    open spec fn disp_view(&self) -> Seq<char> { self@ }
    #[verifier::external_body]
    fn vdisp(&self) -> (r: String) { format!("{}", self) }
}

impl VDisp for &str {
    open spec fn disp_view(&self) -> Seq<char> { self@ }
    #[verifier::external_body]
    fn vdisp(&self) -> (r: String) { format!("{}", self) }
}

pub fn __disp<T: VDisp>(x: &T) -> (r: String)
    ensures r@ == x.disp_view()
{
    x.vdisp()
}

/// `format!("{}{}", a, b)`
#[verifier::external_body]
pub fn __fmt_cat2(a: &str, b: &str) -> (out: String)
    ensures out@ == a@ + b@
{
    let mut s = String::with_capacity(a.len() + b.len());
    s.push_str(a);
    s.push_str(b);
    s
}

pub proof fn lemma_replace_char_concat(a: Seq<char>, b: Seq<char>, c: char, r: Seq<char>)
    ensures replace_char(a + b, c, r) == replace_char(a, c, r) + replace_char(b, c, r)
    decreases a.len()
{
    if a.len() == 0 {
        assert(a + b =~= b);
        assert(replace_char(a, c, r) =~= Seq::<char>::empty());
        assert(replace_char(a, c, r) + replace_char(b, c, r) =~= replace_char(b, c, r));
    } else {
        let a1 = a.subrange(1, a.len() as int);
        assert((a + b).subrange(1, (a + b).len() as int) =~= a1 + b);
        lemma_replace_char_concat(a1, b, c, r);
        assert((a + b)[0] == a[0]);
        if a[0] == c {
            assert(replace_char(a + b, c, r) =~= r + (replace_char(a1, c, r) + replace_char(b, c, r)));
            assert(replace_char(a, c, r) + replace_char(b, c, r) =~= r + (replace_char(a1, c, r) + replace_char(b, c, r)));
        } else {
            assert(replace_char(a + b, c, r) =~= seq![a[0]] + (replace_char(a1, c, r) + replace_char(b, c, r)));
            assert(replace_char(a, c, r) + replace_char(b, c, r) =~= seq![a[0]] + (replace_char(a1, c, r) + replace_char(b, c, r)));
        }
    }
}

pub proof fn lemma_replace_char_single(x: char, c: char, r: Seq<char>)
    ensures replace_char(seq![x], c, r) == (if x == c { r } else { seq![x] })
{
    let s = seq![x];
    assert(s.subrange(1, 1) =~= Seq::<char>::empty());
    assert(replace_char(s.subrange(1, 1), c, r) =~= Seq::<char>::empty());
    if x == c {
        assert(replace_char(s, c, r) =~= r);
    } else {
        assert(replace_char(s, c, r) =~= seq![x]);
    }
}

/// Replacing in a string none of whose characters is `c` changes nothing.
pub open spec fn no_char(s: Seq<char>, c: char) -> bool {
    forall|i: int| 0 <= i < s.len() ==> s[i] != c
}

pub proof fn lemma_replace_char_absent(s: Seq<char>, c: char, r: Seq<char>)
    requires no_char(s, c)
    ensures replace_char(s, c, r) == s
    decreases s.len()
{
    if s.len() == 0 {
        assert(replace_char(s, c, r) =~= s);
    } else {
        let s1 = s.subrange(1, s.len() as int);
        assert(no_char(s1, c)) by {
            assert forall|i: int| 0 <= i < s1.len() implies s1[i] != c by { assert(s1[i] == s[i + 1]); }
        }
        lemma_replace_char_absent(s1, c, r);
        assert(seq![s[0]] + s1 =~= s);
    }
}

} // verus!
