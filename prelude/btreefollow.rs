// Trusted shim: BTreeMap<Position, RoaringBitmap> (the followpos table) read as the relation
// "h may follow t"; `m.entry(k).or_default().insert(v)` adds exactly the pair (k, v).
verus! {

pub open spec fn fmap(m: Map<u32, RoaringBitmap>, t: u32, h: u32) -> bool {
    m.contains_key(t) && m[t]@.contains(h)
}

#[verifier::external_body]
pub fn __entry_or_default_insert(m: &mut std::collections::BTreeMap<u32, RoaringBitmap>, k: u32, v: u32)
    ensures forall|t: u32, h: u32| #[trigger] fmap(final(m)@, t, h) <==> fmap(old(m)@, t, h) || (t == k && h == v)
{ unimplemented!() }

} // verus!
