// Trusted shim: roaring::RoaringBitmap as a finite set of u32 (ASSUMED contracts; differentially
// tested against the real crate in harness/src/shims.rs).
verus! {

#[verifier::external_body]
#[verifier::ext_equal]
pub struct RoaringBitmap { _p: u8 }

impl View for RoaringBitmap {
    type V = ISet<u32>;
    uninterp spec fn view(&self) -> ISet<u32>;
}

pub open spec fn strictly_increasing(s: Seq<u32>) -> bool {
    forall|i: int, j: int| 0 <= i < j < s.len() ==> s[i] < s[j]
}

impl RoaringBitmap {
    #[verifier::external_body]
    pub fn new() -> (r: RoaringBitmap)
        ensures r@ == ISet::<u32>::empty()
    { unimplemented!() }

    #[verifier::external_body]
    pub fn insert(&mut self, value: u32) -> (r: bool)
        ensures final(self)@ == old(self)@.insert(value), r == !old(self)@.contains(value)
    { unimplemented!() }

    #[verifier::external_body]
    pub fn remove(&mut self, value: u32) -> (r: bool)
        ensures final(self)@ == old(self)@.remove(value), r == old(self)@.contains(value)
    { unimplemented!() }

    #[verifier::external_body]
    pub fn contains(&self, value: u32) -> (r: bool)
        ensures r == self@.contains(value)
    { unimplemented!() }

    #[verifier::external_body]
    pub fn is_empty(&self) -> (r: bool)
        ensures r == (self@ == ISet::<u32>::empty())
    { unimplemented!() }

    #[verifier::external_body]
    pub fn len(&self) -> (r: u64)
        ensures self@.finite(), r as nat == self@.len()
    { unimplemented!() }

    #[verifier::external_body]
    pub fn min(&self) -> (r: Option<u32>)
        ensures
            r is None <==> self@ == ISet::<u32>::empty(),
            r is Some ==> self@.contains(r->0) && forall|x: u32| self@.contains(x) ==> r->0 <= x,
    { unimplemented!() }

    #[verifier::external_body]
    pub fn max(&self) -> (r: Option<u32>)
        ensures
            r is None <==> self@ == ISet::<u32>::empty(),
            r is Some ==> self@.contains(r->0) && forall|x: u32| self@.contains(x) ==> r->0 >= x,
    { unimplemented!() }

    #[verifier::external_body]
    pub fn is_disjoint(&self, other: &RoaringBitmap) -> (r: bool)
        ensures r == self@.disjoint(other@)
    { unimplemented!() }
}

impl Clone for RoaringBitmap {
    #[verifier::external_body]
    fn clone(&self) -> (r: RoaringBitmap)
        ensures r@ == self@
    { unimplemented!() }
}

impl Default for RoaringBitmap {
    #[verifier::external_body]
    fn default() -> (r: RoaringBitmap)
        ensures r@ == ISet::<u32>::empty()
    { unimplemented!() }
}

/// `a |= b` / `a |= &b`
#[verifier::external_body]
pub fn __rb_or_assign(a: &mut RoaringBitmap, b: &RoaringBitmap)
    ensures final(a)@ == old(a)@.union(b@)
{ unimplemented!() }

/// iteration order of a bitmap (by value or by reference): ascending, each element once
#[verifier::external_body]
pub fn __rb_vec(b: &RoaringBitmap) -> (r: Vec<u32>)
    ensures
        strictly_increasing(r@),
        forall|x: u32| r@.contains(x) <==> b@.contains(x),
{ unimplemented!() }

} // verus!
