// Trusted: std::cell::OnceCell<T> as an opaque type whose Default is an (empty) cell. The cell
// only caches followpos(); nothing is assumed about its content.
verus! {

#[verifier::external_type_specification]
#[verifier::external_body]
#[verifier::reject_recursive_types(T)]
pub struct ExOnceCell<T>(std::cell::OnceCell<T>);

pub assume_specification<T>[ <std::cell::OnceCell<T> as Default>::default ]() -> (r: std::cell::OnceCell<T>);

} // verus!
