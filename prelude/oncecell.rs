// Trusted: std::cell::OnceCell<T>. Default is an empty cell. `get_or_init(f)` returns the content,
// which -- for a cell that was empty when the value holding it was built -- was produced by a
// closure with f's contract: vx rule R32 checks that the source file has exactly one
// `get_or_init` and never sets / takes the cell elsewhere, so every closure that can have
// initialised it is an instance of the one at that call site. `cell_preset` stands for "already
// initialised when this value was built" (false for Default; unknown for anything else).
verus! {

#[verifier::external_type_specification]
#[verifier::external_body]
#[verifier::reject_recursive_types(T)]
pub struct ExOnceCell<T>(std::cell::OnceCell<T>);

pub uninterp spec fn cell_preset<T>(c: std::cell::OnceCell<T>) -> bool;

pub assume_specification<T>[ <std::cell::OnceCell<T> as Default>::default ]() -> (r: std::cell::OnceCell<T>)
    ensures !cell_preset(r);

pub assume_specification<T, F: FnOnce() -> T>[ std::cell::OnceCell::<T>::get_or_init ](c: &std::cell::OnceCell<T>, f: F) -> (r: &T)
    requires f.requires(()),
    ensures !cell_preset(*c) ==> f.ensures((), *r);

} // verus!
