// Trusted stand-ins for get_nonterminals_resolution_order (check.rs):
//  * `m.retain(|k, _| other.contains_key(k))` keeps exactly the entries whose key `other` has (R25);
//  * `m.keys()`: every key once, in the hash map's own order (R33);
//  * `v.retain(|x| g.get(x).map(|c| !c.is_empty()).unwrap_or(true))`: Vec::retain keeps, in order,
//    the elements the predicate accepts (R34, closure matched literally);
//  * a UstrSet iterated by value yields every member once;
//  * `m.into_iter()` on a UstrMap taken by value yields every (key, value) pair once (R70);
//  * get_not_depended_on_nonterminals is NOT a stand-in any more: it is extracted and proved in
//    unit c08 (rules R69, R70).
verus! {

#[verifier::external_body]
pub fn __map_retain_in<V, W>(m: &mut UstrMap<V>, other: &UstrMap<W>)
    ensures
        forall|k: Ustr| #[trigger] final(m)@.contains_key(k) <==> old(m)@.contains_key(k) && other@.contains_key(k),
        forall|k: Ustr| #[trigger] final(m)@.contains_key(k) ==> final(m)@[k] == old(m)@[k],
{ unimplemented!() }

#[verifier::external_body]
pub fn __map_key_refs<'a, V>(m: &'a UstrMap<V>) -> (r: Vec<&'a Ustr>)
    ensures
        forall|i: int| 0 <= i < r@.len() ==> m@.contains_key(*(#[trigger] r@[i])),
        forall|k: Ustr| m@.contains_key(k) ==> exists|i: int| 0 <= i < r@.len() && *(#[trigger] r@[i]) == k,
        forall|i: int, j: int| 0 <= i < j < r@.len() ==> *(#[trigger] r@[i]) != *(#[trigger] r@[j]),
{ unimplemented!() }

/// x has dependencies, or is not a vertex at all
pub open spec fn nonleaf(g: Map<Ustr, UstrMap<HumanSpan>>, x: Ustr) -> bool {
    g.contains_key(x) ==> exists|k: Ustr| g[x]@.contains_key(k)
}

#[verifier::external_body]
pub fn __vec_retain_nonleaf(v: &mut Vec<Ustr>, g: &UstrMap<UstrMap<HumanSpan>>)
    ensures
        final(v)@ == old(v)@.filter(|x: Ustr| nonleaf(g@, x)),
        forall|i: int| 0 <= i < final(v)@.len() ==> old(v)@.contains(#[trigger] final(v)@[i]),
{ unimplemented!() }

#[verifier::external_body]
pub fn __ustrset_vec(s: &UstrSet) -> (r: Vec<Ustr>)
    ensures
        forall|i: int| 0 <= i < r@.len() ==> s@.contains(#[trigger] r@[i]),
        forall|x: Ustr| s@.contains(x) ==> r@.contains(x),
        forall|i: int, j: int| 0 <= i < j < r@.len() ==> r@[i] != r@[j],
{ unimplemented!() }

/// a UstrMap consumed by `into_iter()`: its (key, value) pairs, each key once, in the map's own order (R70)
#[verifier::external_body]
pub fn __map_into_entries<V>(m: UstrMap<V>) -> (r: Vec<(Ustr, V)>)
    ensures
        forall|i: int| 0 <= i < r@.len() ==> m@.contains_key((#[trigger] r@[i]).0) && m@[r@[i].0] == r@[i].1,
        forall|k: Ustr| m@.contains_key(k) ==> exists|i: int| 0 <= i < r@.len() && (#[trigger] r@[i]).0 == k,
        forall|i: int, j: int| 0 <= i < j < r@.len() ==> (#[trigger] r@[i]).0 != (#[trigger] r@[j]).0,
{ unimplemented!() }

} // verus!
