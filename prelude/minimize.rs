// Trusted stand-ins for what dfa::do_minimize is written with (unit min). Each is an opaque type or
// function with a mathematical view, specified as the documented behaviour of the real one:
//  * SetInternPool (dfa.rs's own pool of state sets: a Vec<Rc<RoaringBitmap>> plus a HashMap keyed by
//    the set's elements): `intern` returns the index under which a set with the same elements is
//    stored, appending exactly when there was none; stored sets never move; `lookup` returns the
//    stored set or None out of range. ASSUMED (the real `intern` goes through the entry API with a
//    closure that borrows `self.pool` mutably, and a hand-written Hash / PartialEq pair on
//    HashableRoaringBitmap that compares the ascending element sequences);
//  * hashbrown HashSet<SetId> (insert / remove / contains / clone / from_iter(Vec) / an arbitrary
//    element (`iter().next()`) / the elements in an unspecified order);
//  * hashbrown HashMap<InpId, RoaringBitmap> (entry(k).or_default().insert(x), values()) and
//    HashMap<u32, u32>::insert;
//  * roaring::MultiOps on arrays of bitmap references: `[a, b, ..].difference()` is a minus all the
//    others, `[a, b].intersection()` the common elements;
//  * RoaringBitmap::from_iter([x]) on a one-element array; u32::try_from(u32) (reflexive, infallible);
//  * slice::sort_unstable_by_key / Vec::dedup, InpInternPool::ids and the key set of an inner map for
//    make_transitions_image (rules R52 - R54).
verus! {

#[verifier::external_body]
pub struct SetInternPool { _p: u8 }

impl View for SetInternPool {
    type V = Seq<ISet<u32>>;
    uninterp spec fn view(&self) -> Seq<ISet<u32>>;
}

/// no set is stored twice
pub open spec fn setpool_wf(p: Seq<ISet<u32>>) -> bool {
    forall|i: int, j: int| 0 <= i < j < p.len() ==> p[i] != p[j]
}

pub open spec fn setpool_has(p: Seq<ISet<u32>>, s: ISet<u32>) -> bool {
    exists|i: int| 0 <= i < p.len() && #[trigger] p[i] == s
}

impl SetInternPool {
    #[verifier::external_body]
    fn intern(&mut self, set: RoaringBitmap) -> (r: SetId)
        requires setpool_wf(old(self)@)
        ensures
            setpool_wf(final(self)@),
            r.0 < final(self)@.len() && final(self)@[r.0 as int] == set@,
            setpool_has(old(self)@, set@) ==> final(self)@ == old(self)@,
            !setpool_has(old(self)@, set@) ==> final(self)@ == old(self)@.push(set@),
    { unimplemented!() }

    #[verifier::external_body]
    fn lookup(&self, id: SetId) -> (r: Option<Rc<RoaringBitmap>>)
        ensures
            id.0 < self@.len() ==> r is Some && (*(r->0))@ == self@[id.0 as int],
            id.0 >= self@.len() ==> r is None,
    { unimplemented!() }
}

impl Default for SetInternPool {
    #[verifier::external_body]
    fn default() -> (r: SetInternPool)
        ensures r@ == Seq::<ISet<u32>>::empty()
    { unimplemented!() }
}

// ---- HashSet<SetId> ---------------------------------------------------------------------------
impl View for HashSet<SetId> {
    type V = ISet<SetId>;
    uninterp spec fn view(&self) -> ISet<SetId>;
}

impl HashSet<SetId> {
    #[verifier::external_body]
    pub fn insert(&mut self, k: SetId) -> (r: bool)
        ensures final(self)@ == old(self)@.insert(k)
    { unimplemented!() }

    #[verifier::external_body]
    pub fn remove(&mut self, k: &SetId) -> (r: bool)
        ensures final(self)@ == old(self)@.remove(*k)
    { unimplemented!() }

    #[verifier::external_body]
    pub fn contains(&self, k: &SetId) -> (r: bool)
        ensures r == self@.contains(*k)
    { unimplemented!() }

    /// `HashSet::from_iter(vec)`
    #[verifier::external_body]
    pub fn from_iter(v: Vec<SetId>) -> (r: HashSet<SetId>)
        ensures forall|k: SetId| r@.contains(k) <==> v@.contains(k)
    { unimplemented!() }
}

impl Clone for HashSet<SetId> {
    #[verifier::external_body]
    fn clone(&self) -> (r: HashSet<SetId>)
        ensures r@ == self@
    { unimplemented!() }
}

/// `s.iter().next()`: some element, None exactly when the set is empty
#[verifier::external_body]
pub fn __idset_first<'a>(s: &'a HashSet<SetId>) -> (r: Option<&'a SetId>)
    ensures
        r is Some ==> s@.contains(*(r->0)),
        r is None ==> forall|k: SetId| !s@.contains(k),
{ unimplemented!() }

/// `s.iter()` / `for k in &s`: every element once, in an unspecified order
#[verifier::external_body]
pub fn __idset_refs<'a>(s: &'a HashSet<SetId>) -> (r: Vec<&'a SetId>)
    ensures
        forall|k: SetId| s@.contains(k) <==> exists|i: int| 0 <= i < r@.len() && *(#[trigger] r@[i]) == k,
        forall|i: int, j: int| 0 <= i < j < r@.len() ==> *(#[trigger] r@[i]) != *(#[trigger] r@[j]),
{ unimplemented!() }

// ---- HashMap<InpId, RoaringBitmap>, HashMap<u32, u32> --------------------------------------------
// (the view of HashMap<K, V> is Map<K, V>, prelude/hashmap.rs: the value of a key is a bitmap, its
// elements are `m@[k]@`)
/// `m.entry(k).or_default().insert(x)`: the bitmap of k (created empty when k is new) gains x;
/// no other entry changes
#[verifier::external_body]
pub fn __entry_or_default_insert_set(m: &mut HashMap<InpId, RoaringBitmap>, k: InpId, x: u32) -> (r: bool)
    ensures
        final(m)@.dom() == old(m)@.dom().insert(k),
        old(m)@.contains_key(k) ==> final(m)@[k]@ == old(m)@[k]@.insert(x),
        !old(m)@.contains_key(k) ==> final(m)@[k]@ == ISet::<u32>::empty().insert(x),
        forall|j: InpId| j != k && old(m)@.contains_key(j) ==> #[trigger] final(m)@[j] == old(m)@[j],
{ unimplemented!() }

impl HashMap<InpId, RoaringBitmap> {
    /// `m.values()`: the bitmap of every key once, in an unspecified order
    #[verifier::external_body]
    pub fn values(&self) -> (r: Vec<&RoaringBitmap>)
        ensures
            forall|i: int| 0 <= i < r@.len() ==> exists|k: InpId| self@.contains_key(k) && #[trigger] self@[k] == *(#[trigger] r@[i]),
            forall|k: InpId| self@.contains_key(k) ==> exists|i: int| 0 <= i < r@.len() && *(#[trigger] r@[i]) == self@[k],
    { unimplemented!() }
}

// ---- roaring ------------------------------------------------------------------------------------
#[verifier::external_body]
pub fn __rb_difference2(a: &RoaringBitmap, b: &RoaringBitmap) -> (r: RoaringBitmap)
    ensures forall|x: u32| r@.contains(x) <==> a@.contains(x) && !b@.contains(x)
{ unimplemented!() }

#[verifier::external_body]
pub fn __rb_difference3(a: &RoaringBitmap, b: &RoaringBitmap, c: &RoaringBitmap) -> (r: RoaringBitmap)
    ensures forall|x: u32| r@.contains(x) <==> a@.contains(x) && !b@.contains(x) && !c@.contains(x)
{ unimplemented!() }

#[verifier::external_body]
pub fn __rb_intersection2(a: &RoaringBitmap, b: &RoaringBitmap) -> (r: RoaringBitmap)
    ensures forall|x: u32| r@.contains(x) <==> a@.contains(x) && b@.contains(x)
{ unimplemented!() }

impl RoaringBitmap {
    /// `RoaringBitmap::from_iter([x])`
    #[verifier::external_body]
    pub fn from_iter(a: [u32; 1]) -> (r: RoaringBitmap)
        ensures forall|x: u32| r@.contains(x) <==> x == a@[0]
    { unimplemented!() }
}

/// `StateId::try_from(x).unwrap()` on a u32 (the reflexive conversion cannot fail)
#[verifier::external_body]
pub fn __stateid_from_u32(x: u32) -> (r: u32)
    ensures r == x
{ unimplemented!() }

/// `tos.keys().cloned().collect::<IndexSet<InpId>>()`: the keys of an inner map of the table
#[verifier::external_body]
pub fn __imap_key_set(m: &IndexMap<InpId, u32>) -> (r: IndexSet<InpId>)
    ensures forall|k: InpId| has_key(r@, k) <==> m@.contains_key(k)
{ unimplemented!() }

impl IndexSet<InpId> {
    #[verifier::external_body]
    pub fn contains(&self, k: &InpId) -> (r: bool)
        ensures r == has_key(self@, *k)
    { unimplemented!() }
}

impl InpInternPool {
    /// `ids()` (`(0..len).map(|i| InpId(i as _))`): the ids of the pool in order
    #[verifier::external_body]
    fn ids(&self) -> (r: Vec<InpId>)
        ensures r@.len() == self@.len(), forall|i: int| 0 <= i < r@.len() ==> #[trigger] r@[i] == id_of(i)
    { unimplemented!() }
}

/// `v.sort_unstable_by_key(|transition| transition.to)`: the same elements, ascending by target
#[verifier::external_body]
fn __sort_by_to(v: &mut Vec<Transition>)
    ensures
        sorted_by_to(final(v)@),
        forall|t: Transition| final(v)@.contains(t) <==> old(v)@.contains(t),
{ unimplemented!() }

/// `v.dedup()` (derived PartialEq of Transition: all three fields): consecutive repetitions removed;
/// the same elements, order kept
#[verifier::external_body]
fn __dedup_transitions(v: &mut Vec<Transition>)
    ensures
        sorted_by_to(old(v)@) ==> sorted_by_to(final(v)@),
        forall|t: Transition| final(v)@.contains(t) <==> old(v)@.contains(t),
{ unimplemented!() }

} // verus!
