// Trusted shims: std types/traits that Verus needs declared, `ustr::Ustr`, Display of integers.
verus! {

// target assumption: 64-bit usize (the released complgen binaries are x86_64/aarch64)
global size_of usize == 8;

#[verifier::external_type_specification]
#[verifier::external_body]
pub struct ExIoError(std::io::Error);

#[verifier::external_type_specification]
#[verifier::external_body]
pub struct ExFromUtf8Error(std::string::FromUtf8Error);

#[verifier::external_trait_specification]
pub trait ExFmtWrite {
    type ExternalTraitSpecificationFor: core::fmt::Write;
}

/// `ustr::Ustr`: an interned string. Modelled as an opaque id whose text is an uninterpreted
/// function of the id; interning = the text function is injective, so `a == b <==> a@ == b@`.
#[derive(Clone, Copy, PartialEq, Eq, Hash, Debug, PartialOrd, Ord, Default)]
pub struct Ustr { pub id: u64 }

pub uninterp spec fn ustr_text(id: u64) -> Seq<char>;

impl View for Ustr {
    type V = Seq<char>;
    open spec fn view(&self) -> Seq<char> { ustr_text(self.id) }
}

/// interning axiom
#[verifier::external_body]
pub broadcast proof fn axiom_ustr_interned(a: u64, b: u64)
    ensures #[trigger] ustr_text(a) == #[trigger] ustr_text(b) ==> a == b
{}

impl vstd::std_specs::cmp::PartialEqSpecImpl for Ustr {
    open spec fn obeys_eq_spec() -> bool { true }
    open spec fn eq_spec(&self, other: &Ustr) -> bool { self.id == other.id }
}

#[verifier::external_body]
pub fn ustr(s: &str) -> (r: Ustr)
    ensures r@ == s@
{ unimplemented!() }

impl Ustr {
    #[verifier::external_body]
    pub fn as_str(&self) -> (r: &str)
        ensures r@ == self@
    { unimplemented!() }
}

pub uninterp spec fn dec_digits(n: int) -> Seq<char>;
pub uninterp spec fn dbg_text<T>(x: T) -> Seq<char>;

impl VDisp for Ustr {
    open spec fn disp_view(&self) -> Seq<char> { self@ }
    #[verifier::external_body]
    fn vdisp(&self) -> (r: String) { unimplemented!() }
}
impl VDisp for usize {
    open spec fn disp_view(&self) -> Seq<char> { dec_digits(*self as int) }
    #[verifier::external_body]
    fn vdisp(&self) -> (r: String) { unimplemented!() }
}
impl VDisp for u32 {
    open spec fn disp_view(&self) -> Seq<char> { dec_digits(*self as int) }
    #[verifier::external_body]
    fn vdisp(&self) -> (r: String) { unimplemented!() }
}
impl<T: VDisp> VDisp for &T {
    open spec fn disp_view(&self) -> Seq<char> { (**self).disp_view() }
    fn vdisp(&self) -> (r: String) { (**self).vdisp() }
}

/// `{:?}` holes: text unspecified (only used where the exact text is irrelevant to the contract)
#[verifier::external_body]
pub fn __dbg<T>(x: &T) -> (r: String)
{ unimplemented!() }

} // verus!
