// Stand-ins for what DFA::do_check_ambiguity_best_effort is written with (unit dck):
//  * `row.clone().into_iter()` (DFA::iter_transitions_from, itself proved in unit dck) as the vector of the row's entries;
//  * `V.sort_by_key(|(literal, _)| *literal)` (stable sort by the literal: equal literals end up next to
//    each other; same elements), `V.dedup_by_key(|(literal, description)| (*literal, *description))`
//    (consecutive repetitions of a (literal, description) pair removed; order kept), `V.windows(2)`
//    (the adjacent pairs, in order) -- rules R57, R58, R59;
//  * the payload of the two error values: `path.to_owned().into_boxed_slice()`,
//    `v.into_iter().map(|(input, _)| input).collect()` (rule R56; nothing is specified about them:
//    no property clause depends on the path printed with these errors);
//  * Vec<Inp>::pop after push; `Option<Ustr>::unwrap_or`, `==` on Ustr / Option<Ustr> (identity of
//    the interned string).
verus! {

/// `row.clone().into_iter()` on a row of the table: its entries, each key once
#[verifier::external_body]
pub fn __imap_owned_entries(m: &IndexMap<InpId, u32>) -> (r: Vec<(InpId, u32)>)
    ensures
        forall|i: int| 0 <= i < r@.len() ==> m@.contains_key((#[trigger] r@[i]).0) && m@[r@[i].0] == r@[i].1,
        forall|k: InpId| m@.contains_key(k) ==> exists|i: int| 0 <= i < r@.len() && (#[trigger] r@[i]).0 == k,
{ unimplemented!() }

#[verifier::external_body]
pub fn __boxed_copy(v: &Vec<Inp>) -> (r: Box<[Inp]>)
{ unimplemented!() }

#[verifier::external_body]
pub fn __boxed_firsts(v: Vec<(Inp, StateId)>) -> (r: Box<[Inp]>)
{ unimplemented!() }

/// the order `sort_by_key` sorts interned strings by (an arbitrary total preorder: only grouping is used)
pub uninterp spec fn lit_le(a: Ustr, b: Ustr) -> bool;

pub open spec fn grouped(s: Seq<(Ustr, Option<Ustr>)>) -> bool {
    forall|i: int, j: int, k: int| 0 <= i < j < k < s.len() && (#[trigger] s[i]).0 == (#[trigger] s[k]).0 ==> (#[trigger] s[j]).0 == s[i].0
}

#[verifier::external_body]
pub fn __sort_by_literal(v: &mut Vec<(Ustr, Option<Ustr>)>)
    ensures
        grouped(final(v)@),
        forall|t: (Ustr, Option<Ustr>)| final(v)@.contains(t) <==> old(v)@.contains(t),
{ unimplemented!() }

/// out is a subsequence of s (order kept)
pub open spec fn subseq_of(out: Seq<(Ustr, Option<Ustr>)>, s: Seq<(Ustr, Option<Ustr>)>) -> bool {
    exists|f: Seq<int>| f.len() == out.len()
        && (forall|i: int| 0 <= i < f.len() ==> 0 <= #[trigger] f[i] < s.len() && s[f[i]] == out[i])
        && (forall|i: int, j: int| 0 <= i < j < f.len() ==> #[trigger] f[i] < #[trigger] f[j])
}

#[verifier::external_body]
pub fn __dedup_by_pair(v: &mut Vec<(Ustr, Option<Ustr>)>)
    ensures
        subseq_of(final(v)@, old(v)@),
        forall|t: (Ustr, Option<Ustr>)| final(v)@.contains(t) <==> old(v)@.contains(t),
{ unimplemented!() }

#[verifier::external_body]
pub fn __windows2<'a>(v: &'a Vec<(Ustr, Option<Ustr>)>) -> (r: Vec<(&'a (Ustr, Option<Ustr>), &'a (Ustr, Option<Ustr>))>)
    ensures
        r@.len() == (if v@.len() == 0 { 0 } else { v@.len() - 1 }),
        forall|i: int| 0 <= i < r@.len() ==> *(#[trigger] r@[i]).0 == v@[i] && *r@[i].1 == v@[i + 1],
{ unimplemented!() }

} // verus!
