// The three interning pools of dfa.rs / regex.rs are extracted as real items (struct + intern +
// lookup, under contract in unit c02e); this file adds what the extraction cannot carry:
//  * the view of InpInternPool (its IndexSet read as a sequence),
//  * InpInternPool::pairs() (returns `impl Iterator`, an adapter chain) as a stand-in: the elements
//    in order, numbered InpId(i as u32),
//  * derived Default of InpInternPool (an empty IndexSet),
//  * ASSUMPTION axiom_inp_key_eq: `==` on dfa::Inp (derived PartialEq, consistent derived Hash) is
//    structural -- proved for the full domain of the extracted enum by the Kani harness
//    C09.inp_eq.structural,
//  * ASSUMPTION axiom_indexset_distinct: the keys of an IndexSet are pairwise different.
verus! {

impl View for InpInternPool {
    type V = Seq<Inp>;
    closed spec fn view(&self) -> Seq<Inp> { self.store@ }
}

pub open spec fn pool_wf(p: Seq<Inp>) -> bool {
    forall|i: int, j: int| 0 <= i < j < p.len() ==> p[i] != p[j]
}

#[verifier::external_body]
pub proof fn axiom_inp_key_eq(a: Inp, b: Inp)
    ensures key_eq(a, b) == (a == b)
{ }

#[verifier::external_body]
pub proof fn axiom_indexset_distinct<T>(s: &IndexSet<T>)
    ensures forall|i: int, j: int| 0 <= i < j < s@.len() ==> !key_eq(s@[i], s@[j])
{ }

impl InpInternPool {
    #[verifier::external_body]
    pub fn pairs(&self) -> (r: Vec<(InpId, &Inp)>)
        ensures
            r@.len() == self@.len(),
            forall|i: int| 0 <= i < r@.len() ==> *(#[trigger] r@[i]).1 == self@[i] && r@[i].0 == id_of(i),
    { unimplemented!() }
}

impl Default for InpInternPool {
    #[verifier::external_body]
    fn default() -> (r: InpInternPool)
        ensures r@ == Seq::<Inp>::empty()
    { unimplemented!() }
}

/// the i-th symbol id (dfa.rs numbers the symbols of the pool 0, 1, .. and stores them as u32)
pub closed spec fn id_of(i: int) -> InpId { InpId(i as u32) }

/// the index an id stands for
pub closed spec fn ix_of(id: InpId) -> int { id.0 as int }

pub proof fn lemma_ix_of_id_of(i: int)
    requires 0 <= i <= u32::MAX
    ensures ix_of(id_of(i)) == i
{
}

/// the index an automaton id stands for
pub closed spec fn dfa_ix(id: DFAId) -> int { id.0 as int }

proof fn lemma_dfa_ix(id: DFAId)
    ensures dfa_ix(id) == id.0 as int
{
}

/// distinct indices below 2^32 are distinct ids
pub proof fn lemma_id_of_inj(i: int, j: int)
    requires 0 <= i <= u32::MAX, 0 <= j <= u32::MAX, id_of(i) == id_of(j)
    ensures i == j
{
}

} // verus!
verus! {

pub closed spec fn dfa_pool_view(p: DFAInternPool) -> Seq<DFA> { p.store@ }

/// derived Default of DFAInternPool: an empty IndexSet
impl Default for DFAInternPool {
    #[verifier::external_body]
    fn default() -> (r: DFAInternPool)
        ensures dfa_pool_view(r) == Seq::<DFA>::empty()
    { unimplemented!() }
}

} // verus!
