// Trusted shims: ustr::UstrSet as a mathematical set; iteration over a &UstrMap<V> as the vector
// of its (key, value) pairs in the map's (unspecified) iteration order, each key once.
verus! {

#[verifier::external_body]
pub struct UstrSet { _p: core::marker::PhantomData<()> }

impl View for UstrSet {
    type V = ISet<Ustr>;
    uninterp spec fn view(&self) -> ISet<Ustr>;
}

impl UstrSet {
    #[verifier::external_body]
    pub fn insert(&mut self, k: Ustr) -> (r: bool)
        ensures final(self)@ == old(self)@.insert(k), r == !old(self)@.contains(k)
    { unimplemented!() }

    #[verifier::external_body]
    pub fn contains(&self, k: &Ustr) -> (r: bool)
        ensures r == self@.contains(*k)
    { unimplemented!() }
}

impl Default for UstrSet {
    #[verifier::external_body]
    fn default() -> (r: UstrSet)
        ensures r@ == ISet::<Ustr>::empty()
    { unimplemented!() }
}

/// `for (k, v) in &map`
#[verifier::external_body]
pub fn __map_entries<'a, V>(m: &'a UstrMap<V>) -> (r: Vec<(&'a Ustr, &'a V)>)
    ensures
        forall|i: int| 0 <= i < r@.len() ==> m@.contains_key(*(#[trigger] r@[i]).0) && m@[*r@[i].0] == *r@[i].1,
        forall|k: Ustr| m@.contains_key(k) ==> exists|i: int| 0 <= i < r@.len() && *(#[trigger] r@[i]).0 == k,
        forall|i: int, j: int| 0 <= i < j < r@.len() ==> *(#[trigger] r@[i]).0 != *(#[trigger] r@[j]).0,
{ unimplemented!() }

/// `ITER.collect()` into a boxed slice (error payloads): the elements in order
#[verifier::external_body]
pub fn __collect_boxed<T>(v: Vec<T>) -> (r: Box<[T]>)
{ unimplemented!() }

} // verus!
