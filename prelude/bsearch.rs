// Trusted shim: <[T]>::binary_search_by as documented by std ("If the value is found then Ok is
// returned, containing the index of the matching element ... If the value is not found then Err
// is returned"), for a slice on which the comparator is deterministic and ordered: everything
// after a Greater element is Greater, everything before a Less element is Less (`bs_consistent`).
// Verus only gives `f.ensures(args, ret) ==> <declared ensures>` for a closure, so the contract
// is phrased to be usable in that direction: on Err every element compares Less or Greater.
verus! {

pub open spec fn bs_consistent<T, F: Fn(&T) -> std::cmp::Ordering>(s: Seq<T>, f: F) -> bool {
    (forall|i: int, o1: std::cmp::Ordering, o2: std::cmp::Ordering| 0 <= i < s.len() && #[trigger] f.ensures((&s[i],), o1) && #[trigger] f.ensures((&s[i],), o2) ==> o1 == o2)
    && (forall|i: int, j: int, o: std::cmp::Ordering| 0 <= i < j < s.len() && #[trigger] f.ensures((&s[i],), std::cmp::Ordering::Greater) && #[trigger] f.ensures((&s[j],), o) ==> o == std::cmp::Ordering::Greater)
    && (forall|i: int, j: int, o: std::cmp::Ordering| 0 <= i < j < s.len() && #[trigger] f.ensures((&s[j],), std::cmp::Ordering::Less) && #[trigger] f.ensures((&s[i],), o) ==> o == std::cmp::Ordering::Less)
}

#[verifier::external_body]
pub fn __binary_search_by<T, F: Fn(&T) -> std::cmp::Ordering>(s: &[T], f: F) -> (r: Result<usize, usize>)
    requires forall|i: int| 0 <= i < s@.len() ==> f.requires((&#[trigger] s@[i],)),
    ensures
        r is Ok ==> r->Ok_0 < s@.len() && f.ensures((&s@[r->Ok_0 as int],), std::cmp::Ordering::Equal),
        r is Err ==> (bs_consistent(s@, f) ==> forall|i: int| 0 <= i < s@.len() ==>
            f.ensures((&#[trigger] s@[i],), std::cmp::Ordering::Less) || f.ensures((&s@[i],), std::cmp::Ordering::Greater)),
{ unimplemented!() }

} // verus!
