// Stand-ins for reading the transition table (IndexMap<StateId, IndexMap<InpId, StateId>>): `get`,
// iteration over the table and over an inner map (units c04g and min).
verus! {

impl View for IndexMap<InpId, u32> {
    type V = Map<InpId, u32>;
    uninterp spec fn view(&self) -> Map<InpId, u32>;
}

/// the inner maps of the table are what the table's view shows
pub uninterp spec fn inner_of(m: IndexMap<u32, IndexMap<InpId, u32>>, k: u32) -> IndexMap<InpId, u32>;

impl IndexMap<u32, IndexMap<InpId, u32>> {
    #[verifier::external_body]
    pub fn get(&self, k: &u32) -> (r: Option<&IndexMap<InpId, u32>>)
        ensures
            r is Some <==> self@.contains_key(*k),
            r is Some ==> (r->0)@ == self@[*k],
    { unimplemented!() }
}

/// `for (k, v) in &inner_map` / `inner_map.iter()`: every entry once
#[verifier::external_body]
pub fn __imap_entries<'a>(m: &'a IndexMap<InpId, u32>) -> (r: Vec<(&'a InpId, &'a u32)>)
    ensures
        forall|i: int| 0 <= i < r@.len() ==> m@.contains_key(*(#[trigger] r@[i]).0) && m@[*r@[i].0] == *r@[i].1,
        forall|k: InpId| m@.contains_key(k) ==> exists|i: int| 0 <= i < r@.len() && *(#[trigger] r@[i]).0 == k,
        forall|i: int, j: int| 0 <= i < j < r@.len() ==> *(#[trigger] r@[i]).0 != *(#[trigger] r@[j]).0,
{ unimplemented!() }

/// `for (k, v) in &table`: every row once
#[verifier::external_body]
pub fn __tmap_entries<'a>(m: &'a IndexMap<u32, IndexMap<InpId, u32>>) -> (r: Vec<(&'a u32, &'a IndexMap<InpId, u32>)>)
    ensures
        forall|i: int| 0 <= i < r@.len() ==> m@.contains_key(*(#[trigger] r@[i]).0) && m@[*r@[i].0] == r@[i].1@,
        forall|k: u32| m@.contains_key(k) ==> exists|i: int| 0 <= i < r@.len() && *(#[trigger] r@[i]).0 == k,
        forall|i: int, j: int| 0 <= i < j < r@.len() ==> *(#[trigger] r@[i]).0 != *(#[trigger] r@[j]).0,
{ unimplemented!() }

} // verus!
