// Stand-ins without contract for two DFA methods that unit c02e calls but does not prove (they are
// proved in units dck and min).
verus! {

/// Stand-in: DFA::check_ambiguity_best_effort (the ConflictingDescriptions / AmbiguousDFA search of
/// dfa.rs) is not under contract here; DFA::from_regex only propagates its error.
impl DFA {
    #[verifier::external_body]
    pub fn check_ambiguity_best_effort(&self) -> (r: Result<()>)
    { unimplemented!() }
}


/// Stand-in: DFA::minimize (do_minimize) is not under contract here: nothing is assumed about the
/// automaton it returns (which automaton a within-word regex gets is decided only by the bounded
/// pipeline stand-in).
impl DFA {
    #[verifier::external_body]
    pub fn minimize(self) -> (r: DFA)
    { unimplemented!() }
}

} // verus!
