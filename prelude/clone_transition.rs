// Trusted: `#[derive(Clone)]` on dfa::Transition (three integer ids) returns an equal value.
verus! {

impl Clone for Transition {
    #[verifier::external_body]
    fn clone(&self) -> (r: Transition)
        ensures r == *self
    { unimplemented!() }
}

} // verus!
