// Trusted stand-ins for the containers dfa_from_regex is written with. Each is an opaque type with
// a mathematical view and only the operations that function uses, specified as the documented
// behaviour of the real type (std BTreeSet; indexmap IndexMap: insertion-ordered map; hashbrown
// HashSet / HashMap) and of the project's own interning pools (an IndexSet: `intern` returns the
// index of the value, first occurrence wins; `pairs` lists (id, value) in id order).
verus! {

// ---- BTreeSet<u32> ------------------------------------------------------------------------
#[verifier::external_body]
#[verifier::reject_recursive_types(T)]
pub struct BTreeSet<T> { _p: core::marker::PhantomData<T> }

impl<T> View for BTreeSet<T> {
    type V = ISet<T>;
    uninterp spec fn view(&self) -> ISet<T>;
}

impl BTreeSet<u32> {
    /// `BTreeSet::from_iter(bitmap)`
    #[verifier::external_body]
    pub fn from_iter(b: RoaringBitmap) -> (r: BTreeSet<u32>)
        ensures r@ == b@
    { unimplemented!() }

    #[verifier::external_body]
    pub fn contains(&self, x: &u32) -> (r: bool)
        ensures r == self@.contains(*x)
    { unimplemented!() }
}

impl Clone for BTreeSet<u32> {
    #[verifier::external_body]
    fn clone(&self) -> (r: BTreeSet<u32>)
        ensures r@ == self@
    { unimplemented!() }
}

/// `for pos in &set`: the elements in ascending order, each once
#[verifier::external_body]
pub fn __set_vec(s: &BTreeSet<u32>) -> (r: Vec<&u32>)
    ensures forall|x: u32| s@.contains(x) <==> exists|i: int| 0 <= i < r@.len() && *(#[trigger] r@[i]) == x
{ unimplemented!() }

// ---- IndexMap<K, V> keyed by the view of K -------------------------------------------------
#[verifier::external_body]
#[verifier::reject_recursive_types(K)]
#[verifier::reject_recursive_types(V)]
pub struct IndexMap<K, V> { _p: core::marker::PhantomData<(K, V)> }

/// state id of each set of positions
impl View for IndexMap<BTreeSet<u32>, u32> {
    type V = Map<ISet<u32>, u32>;
    uninterp spec fn view(&self) -> Map<ISet<u32>, u32>;
}

impl IndexMap<BTreeSet<u32>, u32> {
    /// `IndexMap::from_iter([(k, v)])`
    #[verifier::external_body]
    pub fn from_iter(a: [(BTreeSet<u32>, u32); 1]) -> (r: IndexMap<BTreeSet<u32>, u32>)
        ensures r@ == Map::<ISet<u32>, u32>::empty().insert(a@[0].0@, a@[0].1)
    { unimplemented!() }

    #[verifier::external_body]
    pub fn get(&self, k: &BTreeSet<u32>) -> (r: Option<&u32>)
        ensures self@.contains_key(k@) <==> r is Some, r is Some ==> *r->0 == self@[k@]
    { unimplemented!() }

    #[verifier::external_body]
    pub fn contains_key(&self, k: &BTreeSet<u32>) -> (r: bool)
        ensures r == self@.contains_key(k@)
    { unimplemented!() }

    #[verifier::external_body]
    pub fn insert(&mut self, k: BTreeSet<u32>, v: u32) -> (r: Option<u32>)
        ensures final(self)@ == old(self)@.insert(k@, v)
    { unimplemented!() }
}

/// `for (set, id) in &map`
#[verifier::external_body]
pub fn __indexmap_entries<'a>(m: &'a IndexMap<BTreeSet<u32>, u32>) -> (r: Vec<(&'a BTreeSet<u32>, &'a u32)>)
    ensures
        forall|i: int| 0 <= i < r@.len() ==> m@.contains_key((#[trigger] r@[i]).0@) && m@[r@[i].0@] == *r@[i].1,
        forall|k: ISet<u32>| m@.contains_key(k) ==> exists|i: int| 0 <= i < r@.len() && (#[trigger] r@[i]).0@ == k,
{ unimplemented!() }

/// transitions: state -> (symbol id -> state)
impl View for IndexMap<u32, IndexMap<InpId, u32>> {
    type V = Map<u32, Map<InpId, u32>>;
    uninterp spec fn view(&self) -> Map<u32, Map<InpId, u32>>;
}

impl Default for IndexMap<u32, IndexMap<InpId, u32>> {
    #[verifier::external_body]
    fn default() -> (r: IndexMap<u32, IndexMap<InpId, u32>>)
        ensures r@ == Map::<u32, Map<InpId, u32>>::empty()
    { unimplemented!() }
}

/// `m.entry(k).or_default()` (creates the empty inner map when k is new)
#[verifier::external_body]
pub fn __entry_or_default(m: &mut IndexMap<u32, IndexMap<InpId, u32>>, k: u32)
    ensures
        old(m)@.contains_key(k) ==> final(m)@ == old(m)@,
        !old(m)@.contains_key(k) ==> final(m)@ == old(m)@.insert(k, Map::<InpId, u32>::empty()),
{ unimplemented!() }

/// `r.insert(a, b)` where r is the inner map of k obtained by `m.entry(k).or_default()`
#[verifier::external_body]
pub fn __entry_insert(m: &mut IndexMap<u32, IndexMap<InpId, u32>>, k: u32, a: InpId, b: u32)
    requires old(m)@.contains_key(k)
    ensures final(m)@ == old(m)@.insert(k, old(m)@[k].insert(a, b))
{ unimplemented!() }

// ---- HashSet<BTreeSet<u32>> (the unmarked states) -------------------------------------------
#[verifier::external_body]
#[verifier::reject_recursive_types(K)]
pub struct HashSet<K> { _p: core::marker::PhantomData<K> }

impl View for HashSet<BTreeSet<u32>> {
    type V = ISet<ISet<u32>>;
    uninterp spec fn view(&self) -> ISet<ISet<u32>>;
}

impl HashSet<BTreeSet<u32>> {
    #[verifier::external_body]
    pub fn insert(&mut self, k: BTreeSet<u32>) -> (r: bool)
        ensures final(self)@ == old(self)@.insert(k@)
    { unimplemented!() }

    #[verifier::external_body]
    pub fn remove(&mut self, k: &BTreeSet<u32>) -> (r: bool)
        ensures final(self)@ == old(self)@.remove(k@)
    { unimplemented!() }
}

impl Default for HashSet<BTreeSet<u32>> {
    #[verifier::external_body]
    fn default() -> (r: HashSet<BTreeSet<u32>>)
        ensures r@ == ISet::<ISet<u32>>::empty()
    { unimplemented!() }
}

/// `s.iter().next()`: some element, None exactly when the set is empty
#[verifier::external_body]
pub fn __set_first<'a>(s: &'a HashSet<BTreeSet<u32>>) -> (r: Option<&'a BTreeSet<u32>>)
    ensures
        r is Some ==> s@.contains((r->0)@),
        r is None ==> forall|k: ISet<u32>| !s@.contains(k),
{ unimplemented!() }

impl<K, V> HashMap<K, V> {
    #[verifier::external_body]
    pub fn insert(&mut self, k: K, v: V) -> (r: Option<V>)
        ensures final(self)@ == old(self)@.insert(k, v)
    { unimplemented!() }
}

/// `c += 1` on the state-id counter. ASSUMPTION (machine arithmetic treated as mathematical): the
/// subset construction allocates fewer than 2^32 - 1 states, so the counter does not overflow (in a
/// debug build an overflow panics, in a release build it wraps and state ids would repeat).
#[verifier::external_body]
pub fn __succ_u32(x: u32) -> (r: u32)
    ensures r == x + 1
{ unimplemented!() }

} // verus!
