// Trusted shim: ustr::UstrMap<V> / UstrSet (hashbrown maps keyed by interned strings) as
// mathematical maps / sets. ASSUMED contracts.
verus! {

#[verifier::external_body]
#[verifier::reject_recursive_types(V)]
pub struct UstrMap<V> { _v: core::marker::PhantomData<V> }

impl<V> View for UstrMap<V> {
    type V = Map<Ustr, V>;
    uninterp spec fn view(&self) -> Map<Ustr, V>;
}

impl<V> UstrMap<V> {
    #[verifier::external_body]
    pub fn get(&self, k: &Ustr) -> (r: Option<&V>)
        ensures
            self@.contains_key(*k) <==> r is Some,
            r is Some ==> *r->0 == self@[*k],
    { unimplemented!() }

    #[verifier::external_body]
    pub fn get_mut(&mut self, k: &Ustr) -> (r: Option<&mut V>)
        ensures
            old(self)@.contains_key(*k) <==> r is Some,
            r is None ==> final(self)@ == old(self)@,
            r is Some ==> *r->0 == old(self)@[*k] && final(self)@ == old(self)@.insert(*k, *final(r->0)),
    { unimplemented!() }

    #[verifier::external_body]
    pub fn remove(&mut self, k: &Ustr) -> (r: Option<V>)
        ensures
            final(self)@ == old(self)@.remove(*k),
            old(self)@.contains_key(*k) <==> r is Some,
            r is Some ==> r->0 == old(self)@[*k],
    { unimplemented!() }

    #[verifier::external_body]
    pub fn insert(&mut self, k: Ustr, v: V) -> (r: Option<V>)
        ensures final(self)@ == old(self)@.insert(k, v)
    { unimplemented!() }

    #[verifier::external_body]
    pub fn contains_key(&self, k: &Ustr) -> (r: bool)
        ensures r == self@.contains_key(*k)
    { unimplemented!() }
}

impl<V> Default for UstrMap<V> {
    #[verifier::external_body]
    fn default() -> (r: UstrMap<V>)
        ensures r@ == Map::<Ustr, V>::empty()
    { unimplemented!() }
}

/// `m.entry(k).insert_entry(v)` : unconditional insert
#[verifier::external_body]
pub fn __map_insert_entry<V>(m: &mut UstrMap<V>, k: Ustr, v: V)
    ensures final(m)@ == old(m)@.insert(k, v)
{ unimplemented!() }

impl<V> UstrMap<V> {
    #[verifier::external_body]
    pub fn is_empty(&self) -> (r: bool)
        ensures r == (forall|k: Ustr| !self@.contains_key(k))
    { unimplemented!() }
}

} // verus!
