// Trusted shim for `write!(w, ..)?` into a fmt::Write sink (needs the crate's Result/Error).
verus! {

/// `write!(w, ..)?` : appends to a `fmt::Write` sink; may fail; the `?` conversion into the
/// crate's Error (thiserror `#[from]`) is folded into the result type.
#[verifier::external_body]
pub fn __write_str<W: std::fmt::Write>(w: &mut W, s: &str) -> (r: Result<()>)
{ unimplemented!() }

} // verus!
