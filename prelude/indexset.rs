// Trusted stand-in: indexmap::IndexSet<T> as an insertion-ordered sequence of keys that are pairwise
// different under T's own `==` (`key_eq`; DFA and Regex compare with hand-written PartialEq impls
// that ignore some fields, so this is not structural equality). Contracts follow indexmap 2's
// documentation: `insert_full` returns (index of the equal key, false) or appends and returns
// (old length, true); existing entries never move.
verus! {

/// `a == b` as decided by the element type's PartialEq / Hash pair
pub uninterp spec fn key_eq<T>(a: T, b: T) -> bool;

pub open spec fn has_key<T>(s: Seq<T>, v: T) -> bool {
    exists|i: int| 0 <= i < s.len() && key_eq(#[trigger] s[i], v)
}

#[verifier::external_body]
#[verifier::accept_recursive_types(T)]
pub struct IndexSet<T> { _p: core::marker::PhantomData<T> }

impl<T> View for IndexSet<T> {
    type V = Seq<T>;
    uninterp spec fn view(&self) -> Seq<T>;
}

impl<T> IndexSet<T> {
    #[verifier::external_body]
    pub fn insert_full(&mut self, value: T) -> (r: (usize, bool))
        ensures
            r.1 == !has_key(old(self)@, value),
            r.1 ==> final(self)@ == old(self)@.push(value) && r.0 == old(self)@.len(),
            !r.1 ==> final(self)@ == old(self)@ && r.0 < old(self)@.len(),
            r.0 < final(self)@.len() && key_eq(final(self)@[r.0 as int], value),
    { unimplemented!() }

    #[verifier::external_body]
    pub fn insert(&mut self, value: T) -> (r: bool)
        ensures
            r == !has_key(old(self)@, value),
            r ==> final(self)@ == old(self)@.push(value),
            !r ==> final(self)@ == old(self)@,
    { unimplemented!() }

    #[verifier::external_body]
    pub fn len(&self) -> (r: usize)
        ensures r == self@.len()
    { unimplemented!() }

    #[verifier::external_body]
    pub fn get_index(&self, i: usize) -> (r: Option<&T>)
        ensures
            i < self@.len() ==> r is Some && *r->0 == self@[i as int],
            i >= self@.len() ==> r is None,
    { unimplemented!() }

    #[verifier::external_body]
    pub fn get_index_of(&self, v: &T) -> (r: Option<usize>)
        ensures
            r is Some ==> r->0 < self@.len() && key_eq(self@[r->0 as int], *v),
            r is None ==> !has_key(self@, *v),
    { unimplemented!() }
}

} // verus!
