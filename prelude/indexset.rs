// Trusted stand-in: indexmap::IndexSet<T> as an insertion-ordered sequence of keys that are pairwise
// different under T's own `==` (`key_eq`; DFA and Regex compare with hand-written PartialEq impls
// that ignore some fields, so this is not structural equality). Contracts follow indexmap 2's
// documentation: `insert_full` returns (index of the equal key, false) or appends and returns
// (old length, true); existing entries never move.
verus! {

/// `a == b` as decided by the element type's PartialEq / Hash pair
pub uninterp spec fn key_eq<T>(a: T, b: T) -> bool;

pub open spec fn has_key<T>(s: Seq<T>, v: T) -> bool {
    exists|i: int| 0 <= i < s.len() && key_eq(#[trigger] s[i], v)
}

#[verifier::external_body]
#[verifier::accept_recursive_types(T)]
pub struct IndexSet<T> { _p: core::marker::PhantomData<T> }

impl<T> View for IndexSet<T> {
    type V = Seq<T>;
    uninterp spec fn view(&self) -> Seq<T>;
}

impl<T> IndexSet<T> {
    #[verifier::external_body]
    pub fn insert_full(&mut self, value: T) -> (r: (usize, bool))
        ensures
            r.1 == !has_key(old(self)@, value),
            r.1 ==> final(self)@ == old(self)@.push(value) && r.0 == old(self)@.len(),
            !r.1 ==> final(self)@ == old(self)@ && r.0 < old(self)@.len(),
            r.0 < final(self)@.len() && key_eq(final(self)@[r.0 as int], value),
    { unimplemented!() }

    #[verifier::external_body]
    pub fn insert(&mut self, value: T) -> (r: bool)
        ensures
            r == !has_key(old(self)@, value),
            r ==> final(self)@ == old(self)@.push(value),
            !r ==> final(self)@ == old(self)@,
    { unimplemented!() }

    #[verifier::external_body]
    pub fn len(&self) -> (r: usize)
        ensures r == self@.len()
    { unimplemented!() }

    #[verifier::external_body]
    pub fn get_index(&self, i: usize) -> (r: Option<&T>)
        ensures
            i < self@.len() ==> r is Some && *r->0 == self@[i as int],
            i >= self@.len() ==> r is None,
    { unimplemented!() }

    #[verifier::external_body]
    pub fn get_index_of(&self, v: &T) -> (r: Option<usize>)
        ensures
            r is Some ==> r->0 < self@.len() && key_eq(self@[r->0 as int], *v),
            r is None ==> !has_key(self@, *v),
    { unimplemented!() }
}

} // verus!
verus! {

pub proof fn lemma_has_key_push<T>(s: Seq<T>, v: T, c: T)
    ensures has_key(s.push(v), c) == (has_key(s, c) || key_eq(v, c))
{
    let s2 = s.push(v);
    if has_key(s2, c) {
        let i = choose|i: int| 0 <= i < s2.len() && key_eq(#[trigger] s2[i], c);
        if i < s.len() { assert(key_eq(s[i], c)); }
    }
    if has_key(s, c) {
        let i = choose|i: int| 0 <= i < s.len() && key_eq(#[trigger] s[i], c);
        assert(key_eq(s2[i], c));
    }
    if key_eq(v, c) { assert(key_eq(s2[s.len() as int], c)); }
}

impl<T> Default for IndexSet<T> {
    #[verifier::external_body]
    fn default() -> (r: IndexSet<T>)
        ensures r@ == Seq::<T>::empty()
    { unimplemented!() }
}

} // verus!
