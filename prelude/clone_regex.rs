// Trusted: `#[derive(Clone)]` on regex::RegexInput and regex::RegexNode returns an equal value
// (same reason as clone_expr.rs: vx drops `Clone` from the derive list of the extracted enums).
verus! {

impl Clone for RegexInput {
    #[verifier::external_body]
    fn clone(&self) -> (r: RegexInput)
        ensures r == *self
    { unimplemented!() }
}

impl Clone for RegexNode {
    #[verifier::external_body]
    fn clone(&self) -> (r: RegexNode)
        ensures r == *self
    { unimplemented!() }
}

/// derived Clone of regex::Regex returns an equal value (the follow cache is cloned with it)
impl Clone for Regex {
    #[verifier::external_body]
    fn clone(&self) -> (r: Regex)
        ensures r == *self
    { unimplemented!() }
}

} // verus!
