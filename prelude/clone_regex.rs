// Trusted: `#[derive(Clone)]` on regex::RegexInput and regex::RegexNode returns an equal value
// (same reason as clone_expr.rs: vx drops `Clone` from the derive list of the extracted enums).
verus! {

impl Clone for RegexInput {
    #[verifier::external_body]
    fn clone(&self) -> (r: RegexInput)
        ensures r == *self
    { unimplemented!() }
}

impl Clone for RegexNode {
    #[verifier::external_body]
    fn clone(&self) -> (r: RegexNode)
        ensures r == *self
    { unimplemented!() }
}

} // verus!
