// Stand-ins (ASSUMED) for two adapter chains of dfa.rs that return `impl Iterator`.
verus! {

/// DFA::iter_inputs / iter_subwords (adapter chains over iter_transitions) as the vector of what they yield
/// (iter_transitions itself is proved in unit itr and entered through its contract)
impl DFA {
    #[verifier::external_body]
    fn iter_inputs(&self) -> (r: Vec<&Inp>)
        requires dfa_wf(*self)
        ensures
            forall|k: int| 0 <= k < r@.len() ==> on_edge(*self, *(#[trigger] r@[k])),
            forall|x: Inp| on_edge(*self, x) ==> exists|k: int| 0 <= k < r@.len() && *(#[trigger] r@[k]) == x,
    { unimplemented!() }

    #[verifier::external_body]
    fn iter_subwords(&self) -> (r: Vec<&DFA>)
        requires dfa_wf(*self), subs_wf(*self)
        ensures
            forall|k: int| 0 <= k < r@.len() ==> is_subword_of(*self, *(#[trigger] r@[k])),
            forall|s: DFA| is_subword_of(*self, s) ==> exists|k: int| 0 <= k < r@.len() && *(#[trigger] r@[k]) == s,
            r@.len() > 0 <==> exists|s: DFA| #[trigger] is_subword_of(*self, s),
    { unimplemented!() }
}

} // verus!
