// Trusted shim: nom_locate::LocatedSpan<&str> (position bookkeeping of the parser input).
verus! {

#[verifier::external_body]
#[verifier::reject_recursive_types(T)]
pub struct LocatedSpan<T> { _t: T }

impl<T> LocatedSpan<T> {
    /// 1-based line of the first byte of the span
    pub uninterp spec fn line(&self) -> nat;
    /// 1-based byte column of the first byte of the span within its line
    pub uninterp spec fn column(&self) -> nat;

    #[verifier::external_body]
    pub fn location_line(&self) -> (r: u32)
        ensures r as nat == self.line(), r >= 1
    { unimplemented!() }

    #[verifier::external_body]
    pub fn get_column(&self) -> (r: usize)
        ensures r as nat == self.column(), r >= 1, r <= u32::MAX as usize
    { unimplemented!() }
}

/// `span.fragment().lines().next().map_or(0, str::len)`: byte length of what is left of the
/// span's first line
#[verifier::external_body]
pub fn __first_line_len<T>(span: &LocatedSpan<T>) -> (r: usize)
    ensures r <= isize::MAX as usize
{ unimplemented!() }

} // verus!
