// Trusted stand-in for one thing dfa_from_regex calls:
//  * Inp::from_input: the automaton symbol of a regex item is a function of the item during one
//    run (`inp_label`): for literals, placeholders and commands this is the Kani-proved mapping
//    C02.from_input.labels_carried_over; for a within-word item the id comes from a cache that
//    only grows and an interning pool in which equal automata get equal ids.
verus! {

pub uninterp spec fn inp_label(input: RegexInput) -> Inp;

impl Inp {
    #[verifier::external_body]
    fn from_input(input: &RegexInput, subword_regexes: &RegexInternPool, subdfas: &mut DFAInternPool, subwords_cache: &mut HashMap<RegexId, DFAId>) -> (r: Result<Inp>)
        ensures r is Ok ==> r->Ok_0 == inp_label(*input)
    { unimplemented!() }
}

} // verus!
