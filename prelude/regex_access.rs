// Trusted stand-ins for three things dfa_from_regex calls:
//  * Regex::firstpos / Regex::followpos: the sets computed by RegexNode::firstpos / followpos for
//    the root (both proved in unit c02a; followpos() only adds a OnceCell cache around it);
//  * Inp::from_input: the automaton symbol of a regex item is a function of the item during one
//    run (`inp_label`): for literals, placeholders and commands this is the Kani-proved mapping
//    C02.from_input.labels_carried_over; for a within-word item the id comes from a cache that
//    only grows and an interning pool in which equal automata get equal ids.
verus! {

impl Regex {
    #[verifier::external_body]
    fn firstpos(&self) -> (r: RoaringBitmap)
        ensures r@ == s_first(self.arena@, nid(self.root_id))
    { unimplemented!() }

    #[verifier::external_body]
    fn followpos(&self) -> (r: &std::collections::BTreeMap<u32, RoaringBitmap>)
        ensures forall|t: u32, h: u32| #[trigger] fmap(r@, t, h) <==> follows_code(self.arena@, nid(self.root_id), t, h)
    { unimplemented!() }
}

pub uninterp spec fn inp_label(input: RegexInput) -> Inp;

impl Inp {
    #[verifier::external_body]
    fn from_input(input: &RegexInput, subword_regexes: &RegexInternPool, subdfas: &mut DFAInternPool, subwords_cache: &mut HashMap<RegexId, DFAId>) -> (r: Result<Inp>)
        ensures r is Ok ==> r->Ok_0 == inp_label(*input)
    { unimplemented!() }
}

} // verus!
