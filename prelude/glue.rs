// Trusted stand-ins used by ValidGrammar::from_grammar (the glue between the passes):
//  * four callees that are not under a contract of their own here and are entered with an assumed
//    one: is_valid_command_name (Kani: C08.is_valid_command_name.*), stable_dedup_by (keeps the first
//    element, drops only elements), check_subword_spaces (no effect
//    on the arena: it takes it by shared reference);
//  * Grammar::iter_call_variants (a `filter_map` returning `impl Iterator`): the call variants in order;
//  * UstrMap helpers: the vector of keys, `retain(|k, _| !other.contains_key(k))`, `is_empty`;
//  * derived Clone of NontermDefn returns an equal value;
//  * Ustr derefs to its text (`&command` passed where `&str` is expected).
verus! {

pub open spec fn call_variant_stmts(stmts: Seq<Statement>) -> Seq<(Ustr, HumanSpan, ExprId)>
    decreases stmts.len()
{
    if stmts.len() == 0 { Seq::empty() } else {
        let rest = call_variant_stmts(stmts.subrange(0, stmts.len() - 1));
        match stmts[stmts.len() - 1] {
            Statement::CallVariant { name, name_span, expr } => rest.push((name, name_span, expr)),
            _ => rest,
        }
    }
}

impl Grammar {
    #[verifier::external_body]
    pub(crate) fn iter_call_variants(&self) -> (r: Vec<(Ustr, HumanSpan, ExprId)>)
        ensures r@ == call_variant_stmts(self.statements@)
    { unimplemented!() }
}

/// keys of a map, each once (iteration order of the hash map: unspecified)
#[verifier::external_body]
pub fn __map_keys<V>(m: &UstrMap<V>) -> (r: Vec<Ustr>)
    ensures
        forall|k: Ustr| m@.contains_key(k) <==> r@.contains(k),
        forall|i: int, j: int| 0 <= i < j < r@.len() ==> r@[i] != r@[j],
{ unimplemented!() }

/// `m.retain(|k, _| !other.contains_key(k))`
#[verifier::external_body]
pub fn __map_retain_not_in<V, W>(m: &mut UstrMap<V>, other: &UstrMap<W>)
    ensures
        forall|k: Ustr| #[trigger] final(m)@.contains_key(k) <==> old(m)@.contains_key(k) && !other@.contains_key(k),
        forall|k: Ustr| #[trigger] final(m)@.contains_key(k) ==> final(m)@[k] == old(m)@[k],
{ unimplemented!() }

impl Clone for NontermDefn {
    #[verifier::external_body]
    fn clone(&self) -> (r: NontermDefn)
        ensures r == *self
    { unimplemented!() }
}

impl std::ops::Deref for Ustr {
    type Target = str;
    #[verifier::external_body]
    fn deref(&self) -> (r: &str)
        ensures r@ == self@
    { unimplemented!() }
}

#[verifier::external_body]
pub fn is_valid_command_name(command: &str) -> bool
{ unimplemented!() }

#[verifier::external_body]
pub fn stable_dedup_by<T, F: Fn(&T) -> D, D: std::hash::Hash + Eq + Copy>(f: F, v: &mut Vec<T>)
    ensures
        final(v)@.len() <= old(v)@.len(),
        old(v)@.len() >= 1 ==> final(v)@.len() >= 1 && final(v)@[0] == old(v)@[0],
        forall|i: int| 0 <= i < final(v)@.len() ==> old(v)@.contains(#[trigger] final(v)@[i]),
{ unimplemented!() }

#[verifier::external_body]
pub fn check_subword_spaces(arena: &[Expr], expr_id: ExprId, nonterms: &UstrMap<NontermDefn>) -> (r: Result<()>)
    ensures r is Err ==> r->Err_0 is SubwordSpaces
{ unimplemented!() }

} // verus!
