// Trusted stand-ins for two small pieces of parse.rs that Verus cannot take as they are:
//  * Grammar::iter_nonterm_defns (a `filter_map` over the statements returning `impl Iterator`):
//    the NonterminalDefinition statements in statement order;
//  * Shell::from_str (a `match` on string literals; proved by the Kani harnesses
//    C08.shell_from_str.* for names of up to four bytes): Ok(shell) exactly for the four names.
// The shell name reaches from_str as `&Ustr` (Deref to str in the original).
verus! {

pub open spec fn defs(stmts: Seq<Statement>) -> Seq<NontermDefn>
    decreases stmts.len()
{
    if stmts.len() == 0 { Seq::empty() } else {
        let rest = defs(stmts.subrange(0, stmts.len() - 1));
        match stmts[stmts.len() - 1] {
            Statement::NonterminalDefinition(d) => rest.push(d),
            _ => rest,
        }
    }
}

impl Grammar {
    #[verifier::external_body]
    pub(crate) fn iter_nonterm_defns(&self) -> (r: Vec<&NontermDefn>)
        ensures
            r@.len() == defs(self.statements@).len(),
            forall|i: int| 0 <= i < r@.len() ==> *(#[trigger] r@[i]) == defs(self.statements@)[i],
    { unimplemented!() }
}

/// the shell a name denotes: "bash", "fish", "zsh", "pwsh" and nothing else
pub uninterp spec fn shell_named(name: Seq<char>) -> Option<Shell>;

impl Shell {
    #[verifier::external_body]
    pub fn from_str(shell: &Ustr, span: HumanSpan) -> (r: Result<Shell>)
        ensures
            shell_named(shell@) is Some ==> r is Ok && r->Ok_0 == shell_named(shell@)->0,
            shell_named(shell@) is None ==> r is Err && r->Err_0 is UnknownShell,
    { unimplemented!() }
}

} // verus!
