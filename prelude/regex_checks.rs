// Stand-in: Regex::check_ambiguities (the UnboundedMatchable / placeholder checks of regex.rs) is
// not under contract; from_valid_grammar only propagates its error. Nothing is assumed about it.
verus! {

impl Regex {
    #[verifier::external_body]
    pub(crate) fn check_ambiguities(&self, subword_regexes: &RegexInternPool) -> (r: Result<()>)
    { unimplemented!() }
}

} // verus!
