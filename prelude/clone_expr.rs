// Trusted: `#[derive(Clone)]` on parse::Expr returns an equal value. Verus attaches no
// specification to derived Clone impls of enums that own a Vec (it warns and continues), so
// vx drops `Clone` from the derive list of the extracted enum and this assumed contract stands in.
verus! {

impl Clone for Expr {
    #[verifier::external_body]
    fn clone(&self) -> (r: Expr)
        ensures r == *self
    { unimplemented!() }
}

} // verus!
