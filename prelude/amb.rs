// Stand-in for unit amb: `RoaringBitmap::from_iter(&bitmap)` copies the members.
verus! {

impl RoaringBitmap {
    #[verifier::external_body]
    pub fn from_iter(b: &RoaringBitmap) -> (r: RoaringBitmap)
        ensures r@ == b@
    { unimplemented!() }
}

/// `a.or(b)` (std documentation): a if it is Some, otherwise b
pub assume_specification<T>[ core::option::Option::<T>::or ](a: Option<T>, b: Option<T>) -> (r: Option<T>)
    ensures r == (if a is Some { a } else { b });

} // verus!
