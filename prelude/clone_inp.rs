// Trusted: `#[derive(Clone)]` on dfa::Inp returns an equal value (vx drops `Clone` from the derive list of the extracted enum).
verus! {

/// derived Clone of dfa::Inp returns an equal value
impl Clone for Inp {
    #[verifier::external_body]
    fn clone(&self) -> (r: Inp)
        ensures r == *self
    { unimplemented!() }
}

} // verus!
