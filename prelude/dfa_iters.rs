// Stand-ins for the DFA getters (unit c04g):
//  * DFA::iter_transitions / iter_inputs / iter_subwords return `impl Iterator` adapter chains
//    (flat_map / map / filter_map over the transition table); they are replaced by the vector of
//    what the chain yields: every transition of the table once; the symbol of every transition; the
//    within-word automaton of every transition whose symbol is a Subword. The `unwrap()` the real
//    chains perform while being driven (InpInternPool::lookup / DFAInternPool::lookup) becomes the
//    precondition of the stand-in (dfa_wf / subs_wf), so callers must establish it;
//  * IndexMap<StateId, IndexMap<InpId, StateId>>::get and iteration over an inner map.
verus! {


/// `==` on Ustr (an interned pointer) is identity of the interned string
#[verifier::external_body]
pub proof fn axiom_ustr_key_eq(a: Ustr, b: Ustr)
    ensures key_eq(a, b) == (a == b)
{ }

/// `"..".into()`: interning a string slice
impl From<&str> for Ustr {
    #[verifier::external_body]
    fn from(s: &str) -> (r: Ustr)
        ensures r@ == s@
    { unimplemented!() }
}

/// x is in the set stored under k
pub open spec fn has(m: std::collections::BTreeMap<u32, RoaringBitmap>, k: u32, x: u32) -> bool {
    m@.contains_key(k) && m@[k]@.contains(x)
}

/// `V[I].entry(K).or_default().insert(X)` on a vector of per-level tables (rule R42): indexing
/// panics unless I < V.len() -- that is the precondition; the set under K of table I gains X,
/// everything else stays
#[verifier::external_body]
pub fn __level_insert(v: &mut Vec<std::collections::BTreeMap<u32, RoaringBitmap>>, i: usize, k: u32, x: u32)
    requires i < old(v)@.len()
    ensures
        final(v)@.len() == old(v)@.len(),
        forall|j: int, k2: u32, x2: u32| 0 <= j < old(v)@.len() ==> (#[trigger] has(final(v)@[j], k2, x2) <==> has(old(v)@[j], k2, x2) || (j == i && k2 == k && x2 == x)),
{ unimplemented!() }

/// x is in the list stored under k
pub open spec fn hasv(m: std::collections::BTreeMap<u32, Vec<usize>>, k: u32, x: usize) -> bool {
    m@.contains_key(k) && m@[k]@.contains(x)
}

/// `V[I].entry(K).or_default().push(X)` (rule R42, list form): the list under K of table I gains X
#[verifier::external_body]
pub fn __level_push(v: &mut Vec<std::collections::BTreeMap<u32, Vec<usize>>>, i: usize, k: u32, x: usize)
    requires i < old(v)@.len()
    ensures
        final(v)@.len() == old(v)@.len(),
        forall|j: int, k2: u32, x2: usize| 0 <= j < old(v)@.len() ==> (#[trigger] hasv(final(v)@[j], k2, x2) <==> hasv(old(v)@[j], k2, x2) || (j == i && k2 == k && x2 == x)),
{ unimplemented!() }

/// the table of within-word automaton ids (get_subwords builds it)
impl View for IndexMap<DFAId, usize> {
    type V = Map<DFAId, usize>;
    uninterp spec fn view(&self) -> Map<DFAId, usize>;
}

impl IndexMap<DFAId, usize> {
    #[verifier::external_body]
    pub fn get(&self, k: &DFAId) -> (r: Option<&usize>)
        ensures
            r is Some <==> self@.contains_key(*k),
            r is Some ==> *r->0 == self@[*k],
    { unimplemented!() }
}

/// the empty string can be interned (`ustr("")` returns such a value)
#[verifier::external_body]
pub proof fn axiom_empty_ustr_exists()
    ensures exists|e: Ustr| e@ =~= Seq::<char>::empty()
{ }

impl Default for IndexMap<DFAId, usize> {
    #[verifier::external_body]
    fn default() -> (r: IndexMap<DFAId, usize>)
        ensures r@ == Map::<DFAId, usize>::empty()
    { unimplemented!() }
}

/// `m.entry(k).or_insert_with(|| { let save = c; c += 1; save })` (rule R18): a new key gets the
/// counter's value and the counter moves on; a known key changes nothing. ASSUMPTION (machine
/// arithmetic treated as mathematical): the counter does not wrap -- it counts entries held in memory.
#[verifier::external_body]
pub fn __entry_or_insert_counter_ix(m: &mut IndexMap<DFAId, usize>, k: DFAId, counter: &mut usize)
    ensures
        old(m)@.contains_key(k) ==> final(m)@ == old(m)@ && *final(counter) == *old(counter),
        !old(m)@.contains_key(k) ==> final(m)@ == old(m)@.insert(k, *old(counter)) && *final(counter) == *old(counter) + 1,
{ unimplemented!() }

} // verus!
