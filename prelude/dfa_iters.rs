// Stand-ins for the DFA getters (unit c04g):
//  * DFA::iter_transitions / iter_inputs / iter_subwords return `impl Iterator` adapter chains
//    (flat_map / map / filter_map over the transition table); they are replaced by the vector of
//    what the chain yields: every transition of the table once; the symbol of every transition; the
//    within-word automaton of every transition whose symbol is a Subword. The `unwrap()` the real
//    chains perform while being driven (InpInternPool::lookup / DFAInternPool::lookup) becomes the
//    precondition of the stand-in (dfa_wf / subs_wf), so callers must establish it;
//  * IndexMap<StateId, IndexMap<InpId, StateId>>::get and iteration over an inner map.
verus! {

impl View for IndexMap<InpId, u32> {
    type V = Map<InpId, u32>;
    uninterp spec fn view(&self) -> Map<InpId, u32>;
}

/// the inner maps of the table are what the table's view shows
pub uninterp spec fn inner_of(m: IndexMap<u32, IndexMap<InpId, u32>>, k: u32) -> IndexMap<InpId, u32>;

impl IndexMap<u32, IndexMap<InpId, u32>> {
    #[verifier::external_body]
    pub fn get(&self, k: &u32) -> (r: Option<&IndexMap<InpId, u32>>)
        ensures
            r is Some <==> self@.contains_key(*k),
            r is Some ==> (r->0)@ == self@[*k],
    { unimplemented!() }
}

/// `for (k, v) in &inner_map` / `inner_map.iter()`: every entry once
#[verifier::external_body]
pub fn __imap_entries<'a>(m: &'a IndexMap<InpId, u32>) -> (r: Vec<(&'a InpId, &'a u32)>)
    ensures
        forall|i: int| 0 <= i < r@.len() ==> m@.contains_key(*(#[trigger] r@[i]).0) && m@[*r@[i].0] == *r@[i].1,
        forall|k: InpId| m@.contains_key(k) ==> exists|i: int| 0 <= i < r@.len() && *(#[trigger] r@[i]).0 == k,
        forall|i: int, j: int| 0 <= i < j < r@.len() ==> *(#[trigger] r@[i]).0 != *(#[trigger] r@[j]).0,
{ unimplemented!() }

impl DFA {
    #[verifier::external_body]
    fn iter_transitions(&self) -> (r: Vec<(StateId, InpId, StateId)>)
        ensures
            forall|k: int| 0 <= k < r@.len() ==> used(*self, (#[trigger] r@[k]).0, r@[k].1) && self.transitions@[r@[k].0][r@[k].1] == r@[k].2,
            forall|q: u32, id: InpId| #[trigger] used(*self, q, id) ==> exists|k: int| 0 <= k < r@.len() && #[trigger] r@[k] == (q, id, self.transitions@[q][id]),
    { unimplemented!() }

    #[verifier::external_body]
    fn iter_inputs(&self) -> (r: Vec<&Inp>)
        requires dfa_wf(*self)
        ensures
            forall|k: int| 0 <= k < r@.len() ==> on_edge(*self, *(#[trigger] r@[k])),
            forall|x: Inp| on_edge(*self, x) ==> exists|k: int| 0 <= k < r@.len() && *(#[trigger] r@[k]) == x,
    { unimplemented!() }

    #[verifier::external_body]
    fn iter_subwords(&self) -> (r: Vec<&DFA>)
        requires dfa_wf(*self), subs_wf(*self)
        ensures
            forall|k: int| 0 <= k < r@.len() ==> is_subword_of(*self, *(#[trigger] r@[k])),
            forall|s: DFA| is_subword_of(*self, s) ==> exists|k: int| 0 <= k < r@.len() && *(#[trigger] r@[k]) == s,
            r@.len() > 0 <==> exists|s: DFA| #[trigger] is_subword_of(*self, s),
    { unimplemented!() }
}

/// `==` on Ustr (an interned pointer) is identity of the interned string
#[verifier::external_body]
pub proof fn axiom_ustr_key_eq(a: Ustr, b: Ustr)
    ensures key_eq(a, b) == (a == b)
{ }

/// `"..".into()`: interning a string slice
impl From<&str> for Ustr {
    #[verifier::external_body]
    fn from(s: &str) -> (r: Ustr)
        ensures r@ == s@
    { unimplemented!() }
}

/// derived Clone of dfa::Inp returns an equal value
impl Clone for Inp {
    #[verifier::external_body]
    fn clone(&self) -> (r: Inp)
        ensures r == *self
    { unimplemented!() }
}

/// x is in the set stored under k
pub open spec fn has(m: std::collections::BTreeMap<u32, RoaringBitmap>, k: u32, x: u32) -> bool {
    m@.contains_key(k) && m@[k]@.contains(x)
}

/// `V[I].entry(K).or_default().insert(X)` on a vector of per-level tables (rule R42): indexing
/// panics unless I < V.len() -- that is the precondition; the set under K of table I gains X,
/// everything else stays
#[verifier::external_body]
pub fn __level_insert(v: &mut Vec<std::collections::BTreeMap<u32, RoaringBitmap>>, i: usize, k: u32, x: u32)
    requires i < old(v)@.len()
    ensures
        final(v)@.len() == old(v)@.len(),
        forall|j: int, k2: u32, x2: u32| 0 <= j < old(v)@.len() ==> (#[trigger] has(final(v)@[j], k2, x2) <==> has(old(v)@[j], k2, x2) || (j == i && k2 == k && x2 == x)),
{ unimplemented!() }

/// x is in the list stored under k
pub open spec fn hasv(m: std::collections::BTreeMap<u32, Vec<usize>>, k: u32, x: usize) -> bool {
    m@.contains_key(k) && m@[k]@.contains(x)
}

/// `V[I].entry(K).or_default().push(X)` (rule R42, list form): the list under K of table I gains X
#[verifier::external_body]
pub fn __level_push(v: &mut Vec<std::collections::BTreeMap<u32, Vec<usize>>>, i: usize, k: u32, x: usize)
    requires i < old(v)@.len()
    ensures
        final(v)@.len() == old(v)@.len(),
        forall|j: int, k2: u32, x2: usize| 0 <= j < old(v)@.len() ==> (#[trigger] hasv(final(v)@[j], k2, x2) <==> hasv(old(v)@[j], k2, x2) || (j == i && k2 == k && x2 == x)),
{ unimplemented!() }

/// the table of within-word automaton ids (get_subwords builds it)
impl View for IndexMap<DFAId, usize> {
    type V = Map<DFAId, usize>;
    uninterp spec fn view(&self) -> Map<DFAId, usize>;
}

impl IndexMap<DFAId, usize> {
    #[verifier::external_body]
    pub fn get(&self, k: &DFAId) -> (r: Option<&usize>)
        ensures
            r is Some <==> self@.contains_key(*k),
            r is Some ==> *r->0 == self@[*k],
    { unimplemented!() }
}

} // verus!
