// Trusted shim: regex::RegexInternPool (an indexmap::IndexSet<Regex>) as an opaque type; `intern`
// returns some id. Nothing is assumed about which id (the within-word automata are compared with
// the grammar by the bounded pipeline stand-in, not here).
verus! {

#[verifier::external_body]
pub struct RegexInternPool { _p: core::marker::PhantomData<()> }

impl RegexInternPool {
    #[verifier::external_body]
    pub fn intern(&mut self, value: Regex) -> (r: RegexId)
    { unimplemented!() }
}

} // verus!
