// Stand-ins for what DFA::get_top_level_literals_decreasing_length / get_all_literals are written with
// (unit c04g, rules R60 - R63):
//  * InpInternPool::elems (`self.store.iter()`): the stored symbols in order;
//  * IndexSet<(Ustr, Option<Ustr>)>: `sort_unstable_by(|(left, _), (right, _)| (left.len(), left).cmp(&(right.len(), right)))`
//    (same entries, ascending by byte length of the text), `reverse()`, `into_iter()` (the entries in order);
//  * `==` on (Ustr, Option<Ustr>) keys (tuples of interned strings) is identity.
verus! {

impl InpInternPool {
    #[verifier::external_body]
    fn elems(&self) -> (r: Vec<&Inp>)
        ensures r@.len() == self@.len(), forall|i: int| 0 <= i < r@.len() ==> *(#[trigger] r@[i]) == self@[i]
    { unimplemented!() }
}

/// UTF-8 byte length of an interned string (`Ustr::len`)
pub uninterp spec fn ustr_blen(u: Ustr) -> nat;

#[verifier::external_body]
pub proof fn axiom_litkey_eq(a: (Ustr, Option<Ustr>), b: (Ustr, Option<Ustr>))
    ensures key_eq(a, b) == (a == b)
{ }

#[verifier::external_body]
pub fn __indexset_sort_len_text(s: &mut IndexSet<(Ustr, Option<Ustr>)>)
    ensures
        final(s)@.len() == old(s)@.len(),
        forall|t: (Ustr, Option<Ustr>)| final(s)@.contains(t) <==> old(s)@.contains(t),
        forall|i: int, j: int| 0 <= i < j < final(s)@.len() ==> ustr_blen((#[trigger] final(s)@[i]).0) <= ustr_blen((#[trigger] final(s)@[j]).0),
{ unimplemented!() }

#[verifier::external_body]
pub fn __indexset_reverse(s: &mut IndexSet<(Ustr, Option<Ustr>)>)
    ensures final(s)@ == old(s)@.reverse()
{ unimplemented!() }

#[verifier::external_body]
pub fn __indexset_into_vec(s: IndexSet<(Ustr, Option<Ustr>)>) -> (r: Vec<(Ustr, Option<Ustr>)>)
    ensures r@ == s@
{ unimplemented!() }

} // verus!
