// Trusted shim: hashbrown::HashMap<K, V> as a mathematical map (only what renumber_states uses);
// `m.entry(k).or_insert_with(|| { let r = c; c += 1; r })` inserts the next counter value for a
// new key and leaves everything alone for a known one (rule R18).
verus! {

#[verifier::external_body]
#[verifier::reject_recursive_types(K)]
#[verifier::reject_recursive_types(V)]
pub struct HashMap<K, V> { _p: core::marker::PhantomData<(K, V)> }

impl<K, V> View for HashMap<K, V> {
    type V = Map<K, V>;
    uninterp spec fn view(&self) -> Map<K, V>;
}

impl<K, V> HashMap<K, V> {
    #[verifier::external_body]
    pub fn get(&self, k: &K) -> (r: Option<&V>)
        ensures
            self@.contains_key(*k) <==> r is Some,
            r is Some ==> *r->0 == self@[*k],
    { unimplemented!() }
}

impl<K, V> Default for HashMap<K, V> {
    #[verifier::external_body]
    fn default() -> (r: HashMap<K, V>)
        ensures r@ == Map::<K, V>::empty()
    { unimplemented!() }
}

#[verifier::external_body]
pub fn __entry_or_insert_counter(m: &mut HashMap<u32, u32>, k: u32, counter: &mut u32)
    requires *old(counter) < u32::MAX
    ensures
        old(m)@.contains_key(k) ==> final(m)@ == old(m)@ && *final(counter) == *old(counter),
        !old(m)@.contains_key(k) ==> final(m)@ == old(m)@.insert(k, *old(counter)) && *final(counter) == *old(counter) + 1,
{ unimplemented!() }

} // verus!
