#!/usr/bin/env python3
# summarise `./check unit U` output
import sys,json,subprocess
u=sys.argv[1]
t=subprocess.run(['/verif/check','unit',u],capture_output=True,text=True,cwd='/verif').stdout
i=t.find('{')
try:
    d=json.loads(t[i:])
except Exception:
    print(t[:6000]); sys.exit(1)
print('verus:', {k:d['verus_results'].get(k) for k in ('verified','errors','encountered-error')} if 'verus_results' in d else None)
print('undecided:', json.dumps(d.get('undecided'),indent=1)[:6000])
print('failed:', json.dumps(d.get('failed'),indent=1)[:6000])
print('n_obligations:', len(d.get('obligations',[])))
