#!/bin/bash
# usage: confirm_mutant.sh <worktree> <deliver-dir>
# Confirms in the scratch worktree: patch applies to HEAD, builds (with and without hooks),
# the 59 tests pass, the demo fails with the patch and passes without. Leaves the worktree clean.
set -u
WT=$1; D=$2
export CARGO_TARGET_DIR=$WT/target CARGO_NET_OFFLINE=true
cd $WT && git checkout -q -- . && git apply --check $D/patch.diff || { echo "PATCH-DOES-NOT-APPLY"; exit 1; }
run_demo() {
  if [ -f $D/demo.sh ]; then (cd $WT && cargo build --offline -q 2>/dev/null; bash $D/demo.sh $WT/target/debug/complgen >/dev/null 2>&1); echo $?
  else mkdir -p $WT/tests && cp $D/demo.rs $WT/tests/demo_confirm.rs && (cd $WT && cargo test --offline --features verif --test demo_confirm >/dev/null 2>&1); r=$?; rm -f $WT/tests/demo_confirm.rs; echo $r; fi
}
base=$(run_demo)
git apply $D/patch.diff
b1=$(cargo build --offline 2>&1 | grep -c "^error"); b2=$(cargo build --offline --features verif 2>&1 | grep -c "^error")
t=$(cargo test --workspace --no-fail-fast --offline 2>&1 | grep -E "^test result" | head -1)
mut=$(run_demo)
git checkout -q -- . ; rm -rf $WT/tests/demo_confirm.rs
echo "demo_on_HEAD=$base demo_with_patch=$mut build_errors=$b1/$b2 tests: $t"
