#!/bin/bash
# usage: keep_mutant.sh <id> <deliver-dir> <property> "<needs>" "<caught-by / ran>"
ID=$1; D=$2; PROP=$3; NEEDS=$4; RAN=$5
mkdir -p /verif/seeded/$ID
cp $D/patch.diff /verif/seeded/$ID/patch.diff
for f in demo.rs demo.sh run.txt notes.md; do [ -f $D/$f ] && cp $D/$f /verif/seeded/$ID/$f; done
python3 - "$ID" "$PROP" "$NEEDS" "$RAN" <<'PY'
import json,sys
i,p,n,r=sys.argv[1:5]
json.dump({"id":i,"breaks_property":p,"needs_to_manifest":n,"confirmed":"tools/confirm_mutant.sh in the sub-agent's scratch worktree: patch applies to HEAD, cargo build (with and without --features verif) ok, 59/59 tests pass, demo passes on HEAD and fails with the patch","what_i_ran":r,"origin":"written by an independent sub-agent that saw only the property text"},open(f"/verif/seeded/{i}/meta.json","w"),indent=1)
PY
echo kept $ID
