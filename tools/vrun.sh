#!/bin/bash
# dev helper: extract unit $1, run verus with timeout $2 (s) [optional --verify-function F]
cd /verif
U=$1; T=${2:-180}; shift; shift
tools/vx/target/release/vx units/$U/unit.ctr /repo/src /verif build/$U > /tmp/vx_$U.log 2>&1 || { tail -5 /tmp/vx_$U.log; exit 1; }
cd build
timeout $T verus $U.rs --time "$@" 2>&1 | grep -E "^error|^verification results|total-time|rlimit" -A 9 | grep -v "^--$" | grep -v "^\s*|\s*$" | head -${LINES_MAX:-80}
echo "exit: ${PIPESTATUS[0]}"
