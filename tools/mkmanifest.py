#!/usr/bin/env python3
"""Regenerates /verif/MANIFEST.json from the table below + checks.json (levels) + git log of /repo
(hook commits). Run after changing what is claimed."""
import json
import os
import subprocess

ROOT = os.path.dirname(os.path.dirname(os.path.abspath(__file__)))
checks = json.load(open(os.path.join(ROOT, "checks.json")))
props = [json.loads(l) for l in open(os.path.join(ROOT, "properties.jsonl"))]

CLAIMS = {
    "C02": dict(
        text="Verus proves, for every arena and all loop iterations, on the real code: (1) regex::do_from_expr / Regex::from_expr build a regex that is the expression leaf for leaf (translation relation `corr`: same shape, the p-th leaf is position p, input_from_position[p] carries that leaf's own text, description, `||` level and span; exactly one position per leaf; root = Cat[r, EndMarker]) -- the clause 'no description or fallback level is moved to a different literal'; (2) RegexNode::nullable / firstpos / lastpos / followpos and their do_* workers compute the Dragon-book set functions (whole-view postconditions on the &mut accumulators; followpos via a lemma that the code's omission of the descent below a Star is harmless for every regex from_expr returns); (3) Kani, full domain of the extracted enums: dfa::Inp::from_input turns a regex item into the automaton symbol with the same text, description and level (a command into a compadd symbol exactly when marked so); (4) check::do_propagate_fallback_levels gives every leaf the index of the `||` branch it sits in, distribute_descriptions leaves no DistributiveDescription node, flatten_expr / collapse_subwords leave no (nested) Subword node. The remaining links of the chain (first/last/follow sets -> accepted language, subset construction, minimisation, from_grammar glue) are decided only by a labelled bounded stand-in: complete language-equivalence (labels included) between an independent reference semantics and the real automaton, before and after minimisation, for every expression tree up to 4 (thorough: 5) nodes plus seeded random larger ones.",
        note="Proved: 20 functions of regex.rs / check.rs / parse.rs + Index impls. Assumed: shims for RoaringBitmap, the followpos BTreeMap, UstrMap, RegexInternPool, OnceCell (prelude/), derived Clone, rewrite rules R1/R2/R3/R3e/R9/R12; positions fit u32 (precondition). Not proved: the Glushkov theorem (sets -> language), dfa_from_regex, do_minimize, the from_grammar glue and the preconditions it must establish (bounded only).",
        design="§7 C02", tech="Verus contracts (spec functions and translation relations over the arenas, loop invariants, ghost snapshots, induction lemmas) on mechanically extracted regex.rs / check.rs / parse.rs functions; bounded pipeline equivalence as labelled stand-in", cat="proof"),
    "C03": dict(
        text="Verus proves the minimiser's helpers on the real code: dfa::find_bounds (binary search + two scans, termination included) returns exactly the slice of the target-sorted transition image whose targets lie in the group's id range, or None exactly when there is none; keep_only_states_with_input_transitions keeps exactly the transitions that leave the start state or join two states something leads into, and exactly the accepting states that are the start state or have an incoming transition; eliminate_nonaccepting_states_without_output_transitions keeps exactly the transitions whose target accepts or has a way out; renumber_states copies the automaton through a gap-free, injective renumbering of its states with the start state first. The property itself (language preserved, trim, minimal) is decided by a labelled bounded stand-in on the real DFA::minimize: for every automaton produced from the grammar corpus (all trees <= 4/5 nodes + random), language preserved (product search), every state reachable and live, state count equals that of the canonical minimal automaton; within-word automata likewise.",
        note="Assumed: slice::binary_search_by per its std documentation (prelude/bsearch.rs), HashMap / RoaringBitmap shims, derived Clone of Transition; closures hoisted by rules R13 / R3f / R17 and given their contracts. do_minimize's partition refinement (Hopcroft over hash sets of interned bitmaps), make_transitions_image and hashmap_transitions_from_vec are not under contract: nothing about language preservation or minimality is counted as proved.",
        design="§7 C03", tech="Verus contracts on the extracted helpers of the minimiser; bounded exhaustive comparison against an independent Moore minimisation (stand-in)", cat="exploration"),
    "C04": dict(
        text="Kani proves the per-shell index base constants (bash 0, fish 1, zsh 1, pwsh 0) on the extracted items. Everything else is a labelled bounded stand-in on the real code over the grammar corpus x 4 shells: (1) the LookupTables every emitter prints (literal list longest-first with ids from the shell's base, match tables, per-level completion tables, command ids, within-word automaton ids, feature flags) are recomputed independently from the automaton and compared; (2) isomorphic_to / shape_hash: every pair of distinct within-word table sets met in the corpus (plus level-permuted seeds) must not be reported isomorphic, isomorphic ones must hash alike; (3) the TEXT emitted by all four real emitters is read back with that shell's own table syntax and index base (bash/zsh associative-array initialisers, fish parallel `set` lists, PowerShell hashtables; string constants through the C07 decoders) and must equal those tables, with one command function per id holding the command verbatim, the start state, the description attached to each literal id, and the registration for the command name.",
        note="Not a proof beyond the constants. The emitted text is decoded by readers written for this check, not by the shells (only bash is installed); the run-time code of the scripts (matching loops) is not interpreted here.",
        design="§7 C04", tech="Kani on extracted constants; bounded recomputation of the tables from the automaton, pairwise isomorphism check, decoding of the emitted bash/zsh/fish/pwsh table text (stand-in)", cat="exploration"),
    "C06": dict(
        text="Verus proves panic-freedom (unreachable!/overflow/underflow/index obligations) of: dfa::diagnostic_display_input for every Inp; the HumanSpan accessors under span well-formedness; RegexInput::is_star_subword under its precondition; the check.rs tree passes (distribute_descriptions, specialize_nonterminals, resolve_nonterminals, collapse_subwords, propagate_fallback_levels, get_nonterm_refs), parse::flatten_expr, regex::do_from_expr / Regex::from_expr, do_followpos and dfa::find_bounds under arena well-formedness and the chain 'no DistributiveDescription after distribution' that their unreachable!() arms rely on (each pass re-establishes it for the next). Process-level behaviour is checked by labelled bounded stand-ins: the built binary on planted-mistake grammars and structure-aware mutations (exit 0+script or 1+diagnostic, destination untouched), and no panic of the library pipeline on the grammar corpus.",
        note="Termination/stack depth unverified (except find_bounds); nom parser and ValidGrammar::from_grammar glue not under contract, so the preconditions of the passes are assumed at their call sites there; CLI runs are a bounded sample, not a proof.",
        design="§7 C06", tech="Verus body-safety obligations on extracted functions; bounded CLI/pipeline runs as stand-in", cat="proof"),
    "C07": dict(
        text="Unbounded proof (Verus) that each of the four real make_string_constant functions returns a constant which an independent decoder of that shell's double-quote rules reads back as exactly the input, for every string; plus a labelled bounded replay twin on the real compiled functions.",
        note="Decoders written from the shell manuals are the oracle (shells are not executed); str::replace/format! enter through shims with assumed contracts (prelude/strings.rs), rewrite rules R4/R5/R7; pwsh typographic quotes excluded by precondition; runtime use of $literal as glob is out of reach.",
        design="§7 C07", tech="Verus contracts on mechanically extracted functions (postcondition = decoder round trip); bounded twin for replay", cat="proof"),
    "C08": dict(
        text="Verus proves the cycle clause on the real check::traverse_nonterminal_dependencies_dfs (rules R1, R14, R15): a cycle is reported only when the dependency graph it is given has a closed walk (the walk is exhibited from the search path), and a run that reports none extends `result` to an order in which every name comes after all the names it depends on; lemma_topo_acyclic: a graph all of whose names are in such an order has no closed walk (so acyclic definitions pass and cyclic ones cannot). Grammar::get_specializations (unit c11b): it fails exactly when there is a shell-specific (or, for a specialised name, plain) definition that is not an external command, a duplicate definition for the target shell, or an unknown shell name, and each error names a real mistake of its kind. Kani (on items extracted verbatim each run): is_valid_command_name rejects exactly names containing '/', Shell::from_str accepts exactly bash/fish/zsh/pwsh and returns UnknownShell with the given span otherwise (names <= 4 ASCII bytes: labelled bounded). Bounded stand-ins: a table of planted mistakes of every class in several placements (cycles behind chains / beside unrelated definitions / with tails / several name orders, duplicates per shell, specialisations, words, clashing descriptions at every offset) and clean look-alikes, x 4 shells, compared with the Error variant the real pipeline returns; and a semantic verdict oracle over the pipeline corpus.",
        note="That get_nonterminals_resolution_order builds the right dependency graph and starts the search from every name, and the other mistake classes (duplicates, call variants, word mistakes, clashing descriptions), are decided by the bounded stand-ins only. Termination of the search unverified. Two recorded known findings (conservative UnboundedMatchable; SubwordSpaces through a definition edge).",
        design="§7 C08", tech="Verus contract on the extracted dependency search (soundness of the cycle report, dependency-respecting order otherwise, acyclicity lemma); Kani harnesses on the extracted is_valid_command_name / Shell::from_str (bounded by name length, labelled); bounded classification table and verdict oracle on the real pipeline (stand-in)", cat="proof"),
    "C09": dict(
        text="Kani, full domain of the extracted enum: Inp equality is structural (merging equal symbols never moves a description or level), and the contract-level statement 'same literal text = one symbol' (fails: known finding D10). Bounded stand-in on the real compiled automata of the grammar corpus: no state with two items that read the same word and continue differently; the `||` grammar and its `|` variant match the same word sequences (exact language comparison over item readings). Known finding D10 recorded.",
        note="Not a proof; bash execution not covered.",
        design="§7 C09", tech="Kani full-domain harnesses on the extracted symbol type Inp (equality is structural; same-text literals are one symbol: fails = known finding D10); bounded exact determinism / language comparison on the real automaton (stand-in)", cat="proof"),
    "C11": dict(
        text="Verus proves on the real check.rs: specialize_nonterminals (rule R3), for the whole tree: the result is the same tree in which every reference the target shell has a command for has become that command (lookup order: target-shell definition, then built-in, then plain command fallback; zsh_compadd set only for zsh; level/span kept) and nothing else changed; resolve_nonterminals, for the whole tree: a reference to a defined name is replaced by that definition's tree, and the set of names the result still refers to is exactly the undefined names of the input plus the names referred to by the definitions used (so nothing defined survives once its definitions are closed); Grammar::get_specializations: the tables it returns hold exactly the `<X@S>` command definitions for the target shell S (and, for the names so specialised, their plain command definitions); definitions for other shells can only make it fail, never change the tables; make_builtin_specializations: the table's domain is exactly PATH and DIRECTORY and the directory command differs from the path command for every shell; every pass leaves the arena a well-formed extension of the old one. The property-level statement is decided by exhaustive enumeration of the property's own finite quantifier (3 names x 32 definition subsets x 3 reference positions x 4 shells = 1152 grammars) on the real pipeline.",
        note="Assumed: UstrMap/Ustr shims, derived Clone of Expr, rules R3/R10/R7. the resolution order and the from_grammar glue (incl. 'plain definition overrides the built-in') are bounded only; emitted script bodies not covered; termination unverified.",
        design="§7 C11", tech="Verus contracts on the extracted specialize_nonterminals / resolve_nonterminals / make_builtin_specializations; exhaustive enumeration of the property's finite quantifier on the real pipeline", cat="proof"),
    "C13": dict(
        text="Verus proves that HumanSpan::from_range / from_machine build well-formed spans (start = position of `before`; end on the same line; multi-line constructs end inside their first line) and that the *_machine accessors cannot underflow. Bounded stand-in: every span stored by the real parser for the corpus re-laid-out over several lines lies inside its source line.",
        note="nom_locate is a shim; the nom parser functions are not under contract (bounded only); diagnostic positions after escapes (D11) not yet checked.",
        design="§7 C13", tech="Verus contracts on the span constructors/accessors; bounded span stand-in on the real parser", cat="proof"),
    "C15": dict(
        text="Verus proves the bookkeeping the warnings are computed from: specialize_nonterminals for the whole tree (exactly the referenced names leave the unused-definitions map and exactly the referenced target-shell definitions are marked used, commands and spans untouched); resolve_nonterminals for the whole tree (exactly the defined names the tree refers to are struck off the unused list, values untouched); get_nonterm_refs (the reported undefined names are exactly the names the final tree still refers to). Bounded stand-in: undefined / unused-definition / unused-specialisation sets returned by the real ValidGrammar::from_grammar equal the sets the property prescribes, for all 2-name configurations (7 definition kinds x 3 reference positions each) and seeded random 3-name ones incl. `_`, PATH, DIRECTORY, x 4 shells.",
        note="The from_grammar glue (which trees the passes are applied to, `<_>` and built-in exceptions) is bounded only; warning printing in main.rs covered by the CLI stand-in only.",
        design="§7 C15", tech="Verus contracts on the extracted specialize_nonterminals / resolve_nonterminals / get_nonterm_refs; bounded set comparison on the real pipeline", cat="proof"),
    "C16": dict(
        text="Unbounded proof (Verus) that regex::make_dot_string_constant produces a DOT double-quoted ID that decodes to the input for every string (it now carries every label of both dumps). Labelled bounded stand-in: the text written by the real DFA::to_dot / Regex::to_dot for the corpus plus grammars with quotes, backslashes and braces in literals, descriptions and commands is parsed with a DOT parser (Graphviz scanner rules for quoted strings) and compared with the automaton: one node per state numbered with the shell's base, start and accepting shapes, one labelled edge per transition, entry/exit edges and one cluster per within-word automaton, every edge joining declared nodes; in the regex dump every expected item appears as a labelled node with exactly its text.",
        note="The inline formatting of to_dot is not under a Verus contract; no Graphviz is installed (the DOT parser of this check is the judge).",
        design="§7 C16", tech="Verus contract (decoder round trip) on make_dot_string_constant; bounded DOT parsing of the real dumps (stand-in)", cat="proof"),
}

NA = {
    "C01": "behaviour of the emitted bash text inside a real bash: no Rust function contract can express it without a hand-written model of bash (a different family); the Rust-side facts it relies on are C02/C04/C09",
    "C05": "the parser is a tower of nom combinators (generic closures capturing &mut arena) that Verus rejects; a print/parse round trip needs an unbounded inverse argument out of Kani's reach",
    "C10": "a 2-run statement over whole processes incl. hasher seeding; with iteration order modelled as a function it is a triviality of safe Rust, modelled as arbitrary it is unprovable although true (hashbrown 0.13 without runtime-rng)",
    "C12": "the deciding logic is the emitted shell loop executed by the shell; its Rust-side precondition (literals by decreasing length) belongs to C04",
    "C14": "relational over two inputs through the nom parser and UstrMap iteration; no single-run function contract decides it",
    "C17": "runtime behaviour of the emitted bash text (arguments passed to command functions)",
}

hook_commits = subprocess.run(["git", "-C", "/repo", "log", "--format=%h %s"], capture_output=True, text=True).stdout.split("\n")
hooks = [l.split()[0] for l in hook_commits if "verif hooks" in l]

out_checks = []
for pid in sorted(CLAIMS):
    c = CLAIMS[pid]
    assert pid in checks, pid
    out_checks.append({
        "property_id": pid,
        "quick_cmd": f"./check {pid} --tier quick",
        "thorough_cmd": f"./check {pid} --tier thorough",
        "evidence_file": f"/verif/evidence/{pid}.json",
        "replay_cmd_template": "./check replay {path}",
        "engine": "verus+kani+harness",
        "level_claimed": {"category": c["cat"], "text": c["text"], "design_ref": c["design"]},
        "level_note": c["note"],
        "technique": c["tech"],
    })
na = [{"property_id": p["id"], "reason": NA[p["id"]]} for p in props if p["id"] not in CLAIMS]
m = {
    "version": 1,
    "setup_cmd": "./check setup",
    "hooks": {"guard": "cargo feature `verif`", "enable": "harness depends on complgen with features=[\"verif\"] (cargo build --features verif)",
              "baseline_off_cmd": "cd /repo && cargo test --workspace --no-fail-fast --offline", "source_commits": hooks[::-1], "add_only": True},
    "engines": [{"name": "verus+kani+harness", "path": "/verif/check", "serves_properties": sorted(CLAIMS),
                 "kind_free_text": "contract-based deductive verification: tools/vx extracts the real functions from /repo/src on every run, inserts contracts from units/*/unit.ctr, Verus discharges them function by function; Kani for loop-free full-domain harnesses; harness/ = executable twins on the real code (feature verif) for counterexample replay and labelled bounded stand-ins"}],
    "checks": out_checks,
    "not_applicable": na,
    "notes": "exit 2 = UNDECIDED (tool limit: lost anchor, unsupported construct, rlimit), never an alarm. known_findings.json lists recorded defects and fixed: entries.",
}
json.dump(m, open(os.path.join(ROOT, "MANIFEST.json"), "w"), indent=1)
print("claimed:", sorted(CLAIMS), "n/a:", [x["property_id"] for x in na])
