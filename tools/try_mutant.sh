#!/bin/bash
# usage: try_mutant.sh <patch.diff> <PROPERTY>...   — applies the change to /repo, runs the
# registered quick checks, and undoes it straight afterwards.
P=$1; shift
rm -rf /tmp/.evidence_keep && cp -r /verif/evidence /tmp/.evidence_keep
cd /repo && git apply --check $P || { echo "patch does not apply"; exit 3; }
git apply $P
for prop in "$@"; do
  out=$(cd /verif && ./check $prop 2>&1); rc=$?
  echo "[$prop rc=$rc] $(echo "$out" | grep -E "VIOLATION|UNDECIDED|^OK" | head -3 | cut -c1-260)"
  echo "$out" | grep -E "^  obligation|failing input" | head -4 | cut -c1-300
done
cd /repo && git checkout -- . && git status --short | head -3
# evidence written while the change was applied describes the changed tree: put the files of the unchanged tree back
rm -rf /verif/evidence && mv /tmp/.evidence_keep /verif/evidence
