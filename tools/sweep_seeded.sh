#!/bin/bash
# usage: sweep_seeded.sh [prefix...]   — applies every kept seeded change (seeded/<id>/patch.diff) whose id
# starts with one of the prefixes (default: all) to /repo, runs the check of the property named in its meta.json
# (`breaks_property`), undoes it, and prints one line per change. A change counts as
# caught when the check exits 1 with a VIOLATION line. The evidence files of the unchanged tree are put back.
cd /verif
rm -rf /tmp/.evidence_sweep && cp -r /verif/evidence /tmp/.evidence_sweep
for d in seeded/*/; do
  id=$(basename $d)
  if [ $# -gt 0 ]; then ok=0; for p in "$@"; do case $id in $p*) ok=1;; esac; done; [ $ok = 1 ] || continue; fi
  prop=$(python3 -c "import json; print(json.load(open('$d/meta.json'))['breaks_property'])")
  (cd /repo && git apply --check /verif/$d/patch.diff 2>/dev/null) || { echo "$id $prop PATCH-DOES-NOT-APPLY"; continue; }
  (cd /repo && git apply /verif/$d/patch.diff)
  out=$(./check $prop 2>&1); rc=$?
  (cd /repo && git checkout -- .)
  first=$(echo "$out" | grep -E "^  obligation" | head -1 | cut -c1-110)
  echo "$id $prop rc=$rc $(echo "$out" | grep -cE '^VIOLATION') violation(s) $first"
done
rm -rf /verif/evidence && mv /tmp/.evidence_sweep /verif/evidence
cd /repo && git status --short | head -3
