#!/bin/bash
# run a unit, print error lines compactly
cd /verif; ./check unit $1 > /tmp/unit_$1.json 2>&1
python3 - "$1" <<'PY'
import sys,json,re
t=open('/tmp/unit_%s.json'%sys.argv[1]).read()
i=t.find('{')
try: d=json.loads(t[i:])
except Exception: print(t[:3000]); sys.exit()
print('verus:', {k:d.get('verus_results',{}).get(k) for k in ('verified','errors')}, 'undecided:', d.get('undecided'))
for ob,errs in d.get('failed',{}).items():
    for e in errs:
        m=re.search(r'--> /verif/build/\w+.rs:(\d+)',e)
        print(' ',ob,'|',e.split('\n')[0],'| line',m.group(1) if m else '?')
PY
