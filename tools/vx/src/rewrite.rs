//! Byte-range rewriting of function bodies: the closed rule list R1..R6 (DESIGN.md §3.3),
//! loop annotation, proof-block insertion. Everything outside a rewritten expression keeps its
//! original bytes.
use crate::ctr::*;
use crate::die;
use std::collections::BTreeSet;
use std::fmt::Write as _;
use std::ops::Range;
use syn::spanned::Spanned;
use syn::visit::{self, Visit};

#[derive(Clone, Debug)]
pub struct Edit {
    pub range: Range<usize>,
    pub text: String,
    /// among insertions at the same position: lower prio comes first in the output
    pub prio: i32,
}

pub fn apply_edits(src: &str, range: Range<usize>, mut edits: Vec<Edit>) -> String {
    edits.sort_by(|a, b| (a.range.start, a.range.end, a.prio).cmp(&(b.range.start, b.range.end, b.prio)));
    // check non-overlap
    let mut out = String::new();
    let mut pos = range.start;
    for e in &edits {
        if e.range.start < pos && !(e.range.start == e.range.end && e.range.start == pos) {
            if e.range.start < pos {
                die("unsupported", &format!("overlapping edits at byte {} (`{}`)", e.range.start, e.text.chars().take(40).collect::<String>()));
            }
        }
        if e.range.end > range.end {
            die("unsupported", "edit outside item");
        }
        out.push_str(&src[pos..e.range.start]);
        out.push_str(&e.text);
        pos = e.range.end;
    }
    out.push_str(&src[pos..range.end]);
    out
}

pub struct Rewriter<'a> {
    pub src: &'a str,
    pub rules: BTreeSet<String>,
    pub fn_path: String,
    pub loops: Vec<LoopSpec>,
    pub proofs: Vec<ProofSpec>,
    pub log: Vec<String>,
    native_loops: usize,
    gen: std::collections::BTreeMap<String, usize>,
    strlits: Vec<String>,
    /// statement-anchored proof insertions not yet placed (taken by rules that re-render a region)
    stmt_edits: Vec<Edit>,
    /// R30: name -> (map text, key text)
    aliases: std::collections::HashMap<String, (String, String)>,
}

fn rng<T: Spanned>(t: &T) -> Range<usize> {
    t.span().byte_range()
}

fn norm(s: &str) -> String {
    s.split_whitespace().collect::<Vec<_>>().join(" ")
}

/// Rust string literal for arbitrary text.
pub fn str_lit(s: &str) -> String {
    let mut out = String::from("\"");
    for c in s.chars() {
        match c {
            '"' => out.push_str("\\\""),
            '\\' => out.push_str("\\\\"),
            '\n' => out.push_str("\\n"),
            '\r' => out.push_str("\\r"),
            '\t' => out.push_str("\\t"),
            c if (c as u32) < 0x20 || (c as u32) == 0x7f => {
                let _ = write!(out, "\\u{{{:x}}}", c as u32);
            }
            c => out.push(c),
        }
    }
    out.push('"');
    out
}

fn flatten_and<'e>(e: &'e syn::Expr, out: &mut Vec<&'e syn::Expr>) {
    match e {
        syn::Expr::Binary(b) if matches!(b.op, syn::BinOp::And(_)) => {
            flatten_and(&b.left, out);
            flatten_and(&b.right, out);
        }
        syn::Expr::Paren(p) => flatten_and(&p.expr, out),
        other => out.push(other),
    }
}

fn cond_has_let_chain(e: &syn::Expr) -> bool {
    let mut parts = vec![];
    flatten_and(e, &mut parts);
    parts.len() > 1 && parts.iter().any(|p| matches!(p, syn::Expr::Let(_)))
}

fn closure_has_control_flow(e: &syn::Expr) -> bool {
    struct V(bool);
    impl<'ast> Visit<'ast> for V {
        fn visit_expr(&mut self, e: &'ast syn::Expr) {
            match e {
                syn::Expr::Return(_) | syn::Expr::Try(_) | syn::Expr::Break(_) | syn::Expr::Continue(_) => self.0 = true,
                syn::Expr::Closure(_) => {}
                _ => visit::visit_expr(self, e),
            }
        }
    }
    let mut v = V(false);
    v.visit_expr(e);
    v.0
}

impl<'a> Rewriter<'a> {
    pub fn new(src: &'a str, rules: &[String], fn_path: &str) -> Self {
        Rewriter {
            src,
            rules: rules.iter().cloned().collect(),
            fn_path: fn_path.to_string(),
            loops: vec![],
            proofs: vec![],
            log: vec![],
            native_loops: 0,
            gen: Default::default(),
            strlits: vec![],
            stmt_edits: vec![],
            aliases: Default::default(),
        }
    }
    fn on(&self, r: &str) -> bool {
        self.rules.contains(r)
    }
    fn next_key(&mut self, rule: &str) -> String {
        let n = self.gen.entry(rule.to_string()).or_insert(0);
        let k = format!("{rule}#{n}");
        *n += 1;
        k
    }

    /// (iter-name prefix, header clauses, body-start proof text, body-end proof text)
    fn loop_parts(&mut self, key: &str) -> (String, String, String, String) {
        let mut iter = String::new();
        let mut hdr = String::new();
        if let Some(lp) = self.loops.iter_mut().find(|l| l.key == key) {
            lp.used = true;
            if let Some(n) = &lp.iter_name {
                iter = format!("{n}: ");
            }
            let mut group = |kw: &str, list: &Vec<Clause>| {
                if list.is_empty() {
                    return;
                }
                let _ = write!(hdr, "\n    {kw}");
                for c in list {
                    let _ = write!(hdr, "\n        /*@OBL {} {}*/ {}, /*@END*/", c.id, kw, c.text.trim().trim_end_matches(','));
                }
            };
            group("invariant_except_break", &lp.invariants_except_break);
            group("invariant", &lp.invariants);
            group("ensures", &lp.ensures);
            if let Some(d) = &lp.decreases {
                let _ = write!(hdr, "\n    decreases {},", d.trim().trim_end_matches(','));
            }
            if !hdr.is_empty() {
                hdr.push('\n');
            }
        }
        let mut bs = String::new();
        let mut be = String::new();
        for p in self.proofs.iter_mut() {
            if p.anchor == key && p.mode == "loopstart" {
                p.used = true;
                let _ = write!(bs, "\nproof {{\n{}}}\n", p.text);
            }
            if p.anchor == key && p.mode == "rawloopstart" {
                // ghost declarations that must stay in scope for the whole loop body
                p.used = true;
                let _ = write!(bs, "\n{}\n", p.text);
            }
            if p.anchor == key && p.mode == "loopend" {
                p.used = true;
                let _ = write!(be, "\nproof {{\n{}}}\n", p.text);
            }
        }
        (iter, hdr, bs, be)
    }

    pub fn check_all_used(&self) {
        for l in &self.loops {
            if !l.used {
                die("lost-anchor", &format!("{}: loop `{}` named in the contract does not exist in the current source", self.fn_path, l.key));
            }
        }
        for p in &self.proofs {
            if !p.used {
                die("lost-anchor", &format!("{}: proof anchor {} `{}` not found in the current source", self.fn_path, p.mode, p.anchor));
            }
        }
    }

    pub fn render_expr(&mut self, e: &syn::Expr) -> String {
        let mut c = Collector { rw: self, edits: vec![] };
        c.visit_expr(e);
        let edits = std::mem::take(&mut c.edits);
        apply_edits(self.src, rng(e), edits)
    }

    fn text<T: Spanned>(&self, t: &T) -> &'a str {
        &self.src[rng(t)]
    }

    fn place_stmt_proofs(&mut self, stmts: &[(Range<usize>, String)]) {
        let mut out: Vec<Edit> = vec![];
        for p in self.proofs.iter_mut() {
            match p.mode.as_str() {
                "before" | "after" | "wrap" | "rawbefore" => {
                    let want = norm(&p.anchor);
                    let cands: Vec<&(Range<usize>, String)> = stmts.iter().filter(|(_, t)| t.starts_with(&want)).collect();
                    if cands.is_empty() {
                        continue; // reported by check_all_used as lost anchor
                    }
                    let pick = match p.nth {
                        Some(n) => match cands.get(n) {
                            Some(c) => *c,
                            None => continue,
                        },
                        None => {
                            if cands.len() > 1 {
                                die("malformed-unit", &format!("{}: proof anchor `{}` matches {} statements; add an index", self.fn_path, p.anchor, cands.len()));
                            }
                            cands[0]
                        }
                    };
                    p.used = true;
                                        match p.mode.as_str() {
                        "before" => out.push(Edit { range: pick.0.start..pick.0.start, text: format!("proof {{\n{}}}\n", p.text), prio: -5 }),
                        "rawbefore" => out.push(Edit { range: pick.0.start..pick.0.start, text: format!("{}\n", p.text), prio: -5 }),
                        "after" => out.push(Edit { range: pick.0.end..pick.0.end, text: format!("\nproof {{\n{}}}\n", p.text), prio: 5 }),
                        _ => {
                            out.push(Edit { range: pick.0.start..pick.0.start, text: format!("{{ proof {{\n{}}}\n", p.text), prio: -6 });
                            out.push(Edit { range: pick.0.end..pick.0.end, text: " }".to_string(), prio: 6 });
                        }
                    }
                }
                _ => {}
            }
        }
        self.stmt_edits = out;
    }

    /// statement-anchored insertions lying inside `r` (for rules that re-render that region)
    fn take_stmt_edits(&mut self, r: &Range<usize>) -> Vec<Edit> {
        let (inside, rest): (Vec<Edit>, Vec<Edit>) = std::mem::take(&mut self.stmt_edits).into_iter().partition(|e| e.range.start >= r.start && e.range.end <= r.end);
        self.stmt_edits = rest;
        inside
    }

    pub fn rewrite_fn_body(&mut self, block: &syn::Block) -> Vec<Edit> {
        // statement-anchored proof blocks (computed first: rules that re-render a region take
        // the insertions that fall inside it)
        let mut stmts: Vec<(Range<usize>, String)> = vec![];
        collect_stmts(block, self.src, &mut stmts);
        self.place_stmt_proofs(&stmts);
        let mut c = Collector { rw: self, edits: vec![] };
        for st in &block.stmts {
            c.visit_stmt(st);
        }
        let mut edits = std::mem::take(&mut c.edits);
        edits.append(&mut self.stmt_edits);
        let open_end = block.brace_token.span.open().byte_range().end;
        let close_start = block.brace_token.span.close().byte_range().start;
        let mut start_text = String::new();
        if self.on("RL") {
            // reveal every string literal of the function (proof text only)
            struct L<'s> {
                lits: Vec<String>,
                src: &'s str,
            }
            impl<'ast, 's> Visit<'ast> for L<'s> {
                fn visit_lit_str(&mut self, l: &'ast syn::LitStr) {
                    let _ = self.src;
                    self.lits.push(l.value());
                }
                fn visit_macro(&mut self, m: &'ast syn::Macro) {
                    if let Ok(args) = m.parse_body_with(syn::punctuated::Punctuated::<syn::Expr, syn::Token![,]>::parse_terminated) {
                        for a in args.iter() {
                            self.visit_expr(a);
                        }
                    }
                }
            }
            let mut l = L { lits: vec![], src: self.src };
            l.visit_block(block);
            let mut all: Vec<String> = l.lits;
            all.append(&mut self.strlits.clone());
            let mut seen = BTreeSet::new();
            let mut t = String::new();
            for s in all {
                if seen.insert(s.clone()) {
                    let _ = write!(t, " reveal_strlit({});", str_lit(&s));
                }
            }
            if !t.is_empty() {
                let _ = write!(start_text, "\nproof {{{t} }}\n");
            }
        }
        for p in self.proofs.iter_mut() {
            match p.mode.as_str() {
                "start" => {
                    p.used = true;
                    let _ = write!(start_text, "\nproof {{\n{}}}\n", p.text);
                }
                "rawstart" => {
                    // ghost declarations (`let ghost x = ..;`) that must stay in scope for the whole body
                    p.used = true;
                    let _ = write!(start_text, "\n{}\n", p.text);
                }
                "tail" => {
                    // R7: bind the tail expression to `__ret`, run the proof, return `__ret`
                    if !self.rules.contains("R7") {
                        die("malformed-unit", &format!("{}: @proof tail needs rule R7", self.fn_path));
                    }
                    match block.stmts.last() {
                        Some(syn::Stmt::Expr(e, None)) => {
                            p.used = true;
                            let r = rng(e);
                            edits.push(Edit { range: r.start..r.start, text: "let __ret = ".to_string(), prio: -4 });
                            edits.push(Edit { range: r.end..r.end, text: format!(";\nproof {{\n{}}}\n__ret", p.text), prio: 8 });
                            self.log.push("R7 tail expression bound to __ret".to_string());
                        }
                        _ => die("unsupported", &format!("{}: R7 side condition: function body has no tail expression", self.fn_path)),
                    }
                }
                "end" => {
                    p.used = true;
                    edits.push(Edit { range: close_start..close_start, text: format!("\nproof {{\n{}}}\n", p.text), prio: 5 });
                }
                _ => {}
            }
        }
        if !start_text.is_empty() {
            edits.push(Edit { range: open_end..open_end, text: start_text, prio: -10 });
        }
        edits
    }
}

/// All statements of all nested blocks (DFS, source order) plus match-arm bodies, with
/// whitespace-normalised text, for `@proof before/after/wrap "prefix"` anchoring.
fn collect_stmts(block: &syn::Block, src: &str, out: &mut Vec<(Range<usize>, String)>) {
    struct V<'s, 'o> {
        src: &'s str,
        out: &'o mut Vec<(Range<usize>, String)>,
    }
    impl<'ast, 's, 'o> Visit<'ast> for V<'s, 'o> {
        fn visit_stmt(&mut self, s: &'ast syn::Stmt) {
            if let syn::Stmt::Item(_) = s {
                return;
            }
            let r = rng(s);
            self.out.push((r.clone(), norm(&self.src[r])));
            visit::visit_stmt(self, s);
        }
        fn visit_arm(&mut self, a: &'ast syn::Arm) {
            let r = rng(&*a.body);
            self.out.push((r.clone(), norm(&self.src[r])));
            visit::visit_arm(self, a);
        }
    }
    let mut v = V { src, out };
    for s in &block.stmts {
        v.visit_stmt(s);
    }
    out.sort_by_key(|(r, _)| (r.start, std::cmp::Reverse(r.end)));
}

struct Collector<'r, 'a> {
    rw: &'r mut Rewriter<'a>,
    edits: Vec<Edit>,
}

fn is_method<'e>(e: &'e syn::Expr, name: &str) -> Option<&'e syn::ExprMethodCall> {
    if let syn::Expr::MethodCall(m) = e {
        if m.method == name {
            return Some(m);
        }
    }
    None
}

/// Split a format string into literal pieces and holes. Hole = None (positional `{}`) or
/// Some(name). Anything else is refused.
fn split_format(fmt: &str, ctx: &str) -> Vec<Result<String, Option<String>>> {
    let mut out: Vec<Result<String, Option<String>>> = vec![];
    let mut lit = String::new();
    let cs: Vec<char> = fmt.chars().collect();
    let mut i = 0;
    while i < cs.len() {
        match cs[i] {
            '{' if i + 1 < cs.len() && cs[i + 1] == '{' => {
                lit.push('{');
                i += 2;
            }
            '}' if i + 1 < cs.len() && cs[i + 1] == '}' => {
                lit.push('}');
                i += 2;
            }
            '{' => {
                let mut j = i + 1;
                let mut name = String::new();
                while j < cs.len() && cs[j] != '}' {
                    name.push(cs[j]);
                    j += 1;
                }
                if j >= cs.len() {
                    die("unsupported", &format!("{ctx}: unterminated format hole"));
                }
                let base = if name == ":?" { "" } else { name.strip_suffix(":?").unwrap_or(&name) };
                let name = if name == ":?" { "?".to_string() } else { name.clone() };
                if !base.chars().all(|c| c.is_alphanumeric() || c == '_') || base.chars().next().map(|c| c.is_ascii_digit()).unwrap_or(false) {
                    die("unsupported", &format!("{ctx}: R4 side condition: format hole `{{{name}}}` is not `{{}}`/`{{ident}}`"));
                }
                if !lit.is_empty() {
                    out.push(Ok(std::mem::take(&mut lit)));
                }
                out.push(Err(if name.is_empty() { None } else { Some(name) }));
                i = j + 1;
            }
            '}' => die("unsupported", &format!("{ctx}: stray }} in format string")),
            c => {
                lit.push(c);
                i += 1;
            }
        }
    }
    if !lit.is_empty() {
        out.push(Ok(lit));
    }
    out
}

impl<'r, 'a> Collector<'r, 'a> {
    fn render(&mut self, e: &syn::Expr) -> String {
        self.rw.render_expr(e)
    }

    /// R4 on `format!(LIT, args..)`: nested __fmt_cat2 over literal pieces and __disp(arg).
    fn format_macro(&mut self, mac: &syn::Macro) -> Option<String> {
        self.format_macro_ex(mac, 0, "").map(|(_, t)| t)
    }

    /// `skip` leading arguments are returned rendered (the writer of write!/writeln!); `suffix` is
    /// appended to the format string (newline of writeln!).
    fn format_macro_ex(&mut self, mac: &syn::Macro, skip: usize, suffix: &str) -> Option<(Vec<String>, String)> {
        let args = match mac.parse_body_with(syn::punctuated::Punctuated::<syn::Expr, syn::Token![,]>::parse_terminated) {
            Ok(a) => a,
            Err(_) => die("unsupported", &format!("{}: cannot parse format! arguments", self.rw.fn_path)),
        };
        let mut it = args.iter();
        let mut lead = vec![];
        for _ in 0..skip {
            let a = it.next()?;
            lead.push(self.render(a));
        }
        let first = it.next()?;
        let fmt = match first {
            syn::Expr::Lit(syn::ExprLit { lit: syn::Lit::Str(s), .. }) => format!("{}{}", s.value(), suffix),
            _ => die("unsupported", &format!("{}: R4 side condition: format string is not a literal", self.rw.fn_path)),
        };
        let rest: Vec<&syn::Expr> = it.collect();
        let pieces = split_format(&fmt, &self.rw.fn_path);
        let mut parts: Vec<String> = vec![];
        let mut pos = 0usize;
        for p in pieces {
            match p {
                Ok(l) => {
                    self.rw.strlits.push(l.clone());
                    parts.push(str_lit(&l));
                }
                Err(None) => {
                    let a = rest.get(pos).unwrap_or_else(|| die("unsupported", &format!("{}: format! has too few arguments", self.rw.fn_path)));
                    pos += 1;
                    let t = self.render(a);
                    parts.push(format!("&__disp(&({t}))"));
                }
                Err(Some(n)) if n == "?" => {
                    let a = rest.get(pos).unwrap_or_else(|| die("unsupported", &format!("{}: format! has too few arguments", self.rw.fn_path)));
                    pos += 1;
                    let t = self.render(a);
                    parts.push(format!("&__dbg(&({t}))"));
                }
                Err(Some(n)) if n.ends_with(":?") => parts.push(format!("&__dbg(&{})", n.trim_end_matches(":?"))),
                Err(Some(n)) => parts.push(format!("&__disp(&{n})")),
            }
        }
        if pos != rest.len() {
            die("unsupported", &format!("{}: format! argument count mismatch (named args?)", self.rw.fn_path));
        }
        // right-nested concatenation
        let n = parts.len();
        let mut acc: Option<String> = None;
        for p in parts.into_iter().rev() {
            acc = Some(match acc {
                None => p,
                Some(a) if a.starts_with("__fmt_cat2") => format!("__fmt_cat2({p}, &{a})"),
                Some(a) => format!("__fmt_cat2({p}, {a})"),
            });
        }
        let t = match (n, acc) {
            (0, _) => {
                self.rw.strlits.push(String::new());
                "__fmt_cat2(\"\", \"\")".to_string()
            }
            (1, Some(a)) => {
                self.rw.strlits.push(String::new());
                format!("__fmt_cat2({a}, \"\")")
            }
            (_, a) => a.unwrap(),
        };
        Some((lead, t))
    }

    fn loop_native(&mut self, iter_expr: Option<&syn::Expr>, body: &syn::Block, for_start: Option<usize>) {
        let key = format!("{}", self.rw.native_loops);
        self.rw.native_loops += 1;
        let (iter, hdr, bs, be) = self.rw.loop_parts(&key);
        let wrap = self.rw.loops.iter().find(|l| l.key == key).and_then(|l| l.wrap.clone());
        let bind = self.rw.loops.iter().find(|l| l.key == key).and_then(|l| l.bind.clone());
        if let (Some(b), Some(e), Some(fs)) = (&bind, iter_expr, for_start) {
            // R8 with a name: `let B = W(&(EXPR)); let ghost B_g = B@; for .. in B`
            // (without wrap=: `let B = EXPR;` -- EXPR evaluated once, immediately before the loop, as by `for`)
            fn var_or_field(x: &syn::Expr) -> bool {
                match x {
                    syn::Expr::Path(_) => true,
                    syn::Expr::Field(f) => matches!(&*f.base, syn::Expr::Path(_)),
                    _ => false,
                }
            }
            let plain = match e {
                syn::Expr::Reference(r) => var_or_field(&r.expr),
                syn::Expr::MethodCall(m) => m.args.iter().all(|a| matches!(a, syn::Expr::Path(_))) && var_or_field(&m.receiver),
                other => var_or_field(other),
            };
            if !plain {
                die("unsupported", &format!("{}: bind= side condition: the iterated expression of loop {key} is not a plain variable, a field of one, or a method call on one whose arguments are plain variables", self.rw.fn_path));
            }
            let r = rng(e);
            let keys_call = if wrap.as_deref() == Some("__map_key_refs") { is_method(e, "keys") } else { None };
            let et = match (&wrap, is_method(e, "iter").or(keys_call)) {
                // with wrap=: `B.iter()` -> `W(&(B))`; with wrap=__map_key_refs: `B.keys()` -> `__map_key_refs(&(B))`
                (Some(_), Some(it)) if it.args.is_empty() => self.rw.text(&*it.receiver).to_string(),
                _ => self.rw.text(e).to_string(),
            };
            let init = match &wrap { Some(w) => format!("{w}(&({et}))"), None => et.clone() };
            let w = wrap.clone().unwrap_or_else(|| "the iterated expression".to_string());
            let vlen = self.rw.loops.iter().find(|l| l.key == key).map(|l| l.vlen).unwrap_or(false);
            // vlen=1: the bound vector's length is a usize (a fact about every Vec, stated where the vector is still nameable)
            let vl = if vlen { format!(" proof {{ assert({b}_g.len() == {b}.len()); }}") } else { String::new() };
            self.edits.push(Edit { range: fs..fs, text: format!("let {b} = {init}; let ghost {b}_g = {b}@;{vl}\n"), prio: -7 });
            self.edits.push(Edit { range: r.clone(), text: b.clone(), prio: 0 });
            self.rw.log.push(format!("R8 loop {key}: iterate over {w}(..) bound to {b}"));
            if !iter.is_empty() {
                self.edits.push(Edit { range: r.start..r.start, text: iter.clone(), prio: -1 });
            }
        } else if let Some(w) = wrap {
            match iter_expr {
                Some(e) => {
                    // `for x in B.iter()` -> `for x in W(&(B))`; `for x in E` -> `for x in W(&(E))`
                    let r = match is_method(e, "iter") {
                        Some(it) if it.args.is_empty() => {
                            let rr = rng(&*it.receiver);
                            self.edits.push(Edit { range: rr.end..rng(e).end, text: String::new(), prio: 1 });
                            rr
                        }
                        _ => rng(e),
                    };
                    self.edits.push(Edit { range: r.start..r.start, text: format!("{w}(&("), prio: 0 });
                    self.edits.push(Edit { range: r.end..r.end, text: "))".to_string(), prio: 0 });
                    self.rw.log.push(format!("R8 loop {key}: iterate over {w}(..)"));
                }
                None => die("malformed-unit", &format!("{}: wrap= on a non-for loop {key}", self.rw.fn_path)),
            }
        }
        if !iter.is_empty() && !(bind.is_some() && for_start.is_some()) {
            match iter_expr {
                Some(e) => {
                    let s = rng(e).start;
                    self.edits.push(Edit { range: s..s, text: iter, prio: -1 });
                }
                None => die("malformed-unit", &format!("{}: iterator name on a non-for loop {key}", self.rw.fn_path)),
            }
        }
        let open = body.brace_token.span.open().byte_range();
        let close = body.brace_token.span.close().byte_range();
        // R15: `if C { continue; }` directly in a for-loop body -> `if !(C) { rest of the body }`
        // (Verus for-loops do not support `continue`); the loop-end proof text stays outside the
        // new block, so it is checked on both paths
        if self.rw.on("R15") && iter_expr.is_some() {
            for st in &body.stmts {
                // R15 (let-else form): `let PAT = E else { continue; };` -> `if let PAT = E { rest }`
                if let syn::Stmt::Local(l) = st {
                    if let Some(init) = &l.init {
                        if let Some((_, els)) = &init.diverge {
                            let only_continue = match &**els {
                                syn::Expr::Block(b) => b.block.stmts.len() == 1 && matches!(&b.block.stmts[0], syn::Stmt::Expr(syn::Expr::Continue(c), _) if c.label.is_none()),
                                _ => false,
                            };
                            if only_continue {
                                let pat = self.rw.text(&l.pat).to_string();
                                let val = self.render(&init.expr);
                                self.edits.push(Edit { range: rng(st), text: format!("if let {pat} = {val} {{"), prio: 0 });
                                self.edits.push(Edit { range: close.start..close.start, text: "}\n".to_string(), prio: 8 });
                                self.rw.log.push(format!("R15 `let .. else {{ continue; }}` in loop {key} -> if-let around the rest of the body"));
                            }
                        }
                    }
                }
                // R15 (match form): `let X = match E { P => V, OTHERS => { continue; } };` (two arms)
                //   -> `if let P = E { let X = V; rest }`
                if let syn::Stmt::Local(l) = st {
                    if let Some(init) = &l.init {
                        if init.diverge.is_none() {
                            if let syn::Expr::Match(mt) = &*init.expr {
                                let is_cont = |a: &syn::Arm| match &*a.body {
                                    syn::Expr::Block(b) => b.block.stmts.len() == 1 && matches!(&b.block.stmts[0], syn::Stmt::Expr(syn::Expr::Continue(c), _) if c.label.is_none()),
                                    syn::Expr::Continue(c) => c.label.is_none(),
                                    _ => false,
                                };
                                if mt.arms.len() == 2 && mt.arms[0].guard.is_none() && mt.arms[1].guard.is_none() && !is_cont(&mt.arms[0]) && is_cont(&mt.arms[1]) {
                                    let x = self.rw.text(&l.pat).to_string();
                                    let pat = self.rw.text(&mt.arms[0].pat).to_string();
                                    let scrut = self.render(&mt.expr);
                                    let val = self.render(&mt.arms[0].body);
                                    self.edits.push(Edit { range: rng(st), text: format!("if let {pat} = {scrut} {{ let {x} = {val};"), prio: 0 });
                                    self.edits.push(Edit { range: close.start..close.start, text: "}\n".to_string(), prio: 8 });
                                    self.rw.log.push(format!("R15 `let x = match e {{ p => v, _ => {{ continue; }} }}` in loop {key} -> if-let around the rest of the body"));
                                }
                            }
                        }
                    }
                }
                if let syn::Stmt::Expr(syn::Expr::If(ife), _) = st {
                    let only_continue = ife.else_branch.is_none() && ife.then_branch.stmts.len() == 1 && matches!(&ife.then_branch.stmts[0], syn::Stmt::Expr(syn::Expr::Continue(c), _) if c.label.is_none());
                    if only_continue {
                        let cond = self.render(&ife.cond);
                        self.edits.push(Edit { range: rng(st), text: format!("if !({cond}) {{"), prio: 0 });
                        self.edits.push(Edit { range: close.start..close.start, text: "}\n".to_string(), prio: 8 });
                        self.rw.log.push(format!("R15 `if {{..}} {{ continue; }}` in loop {key} -> if-not around the rest of the body"));
                    }
                }
            }
        }
        if !hdr.is_empty() {
            self.edits.push(Edit { range: open.start..open.start, text: hdr, prio: 0 });
        }
        if !bs.is_empty() {
            self.edits.push(Edit { range: open.end..open.end, text: bs, prio: -9 });
        }
        if !be.is_empty() {
            self.edits.push(Edit { range: close.start..close.start, text: be, prio: 9 });
        }
    }
}

impl<'ast, 'r, 'a> Visit<'ast> for Collector<'r, 'a> {
    fn visit_stmt(&mut self, s: &'ast syn::Stmt) {
        match s {
            syn::Stmt::Item(_) => {} // nested items are extracted on their own
            syn::Stmt::Local(l)
                if self.rw.on("R30")
                    && l.init.as_ref().map_or(false, |i| i.diverge.is_none() && is_method(&i.expr, "or_default").map_or(false, |od| od.args.is_empty() && is_method(&od.receiver, "entry").map_or(false, |en| en.args.len() == 1))) =>
            {
                // R30: `let r = M.entry(K).or_default();` whose later uses are `r.insert(A, B)`:
                //   -> `__entry_or_default(&mut M, K);` ... `__entry_insert(&mut M, K, A, B)`
                // (the alias to the inner map is replaced by going through M each time; K must be a
                // plain variable so that re-evaluating it is harmless)
                let init = l.init.as_ref().unwrap();
                let od = is_method(&init.expr, "or_default").unwrap();
                let en = is_method(&od.receiver, "entry").unwrap();
                let name = match &l.pat {
                    syn::Pat::Ident(pi) => pi.ident.to_string(),
                    _ => die("unsupported", &format!("{}: R30 side condition: binding is not a plain name", self.rw.fn_path)),
                };
                if !matches!(&en.args[0], syn::Expr::Path(_)) {
                    die("unsupported", &format!("{}: R30 side condition: the entry key is not a plain variable", self.rw.fn_path));
                }
                let m = self.render(&en.receiver);
                let k = self.render(&en.args[0]);
                self.rw.aliases.insert(name.clone(), (m.clone(), k.clone()));
                self.rw.log.push(format!("R30 let {name} = {m}.entry({k}).or_default() -> __entry_or_default; {name}.insert(..) -> __entry_insert"));
                self.edits.push(Edit { range: rng(s), text: format!("__entry_or_default(&mut {m}, {k});"), prio: 0 });
            }
            syn::Stmt::Local(l) if self.rw.on("R3") || self.rw.on("R69") || self.rw.on("R70") || self.rw.on("R16") || self.rw.on("R3f") || self.rw.on("R17") || self.rw.on("R26") || self.rw.on("R33") || self.rw.on("R3m") || self.rw.on("R44") || self.rw.on("R48") || self.rw.on("R48v") || self.rw.on("R60") => {
                if self.rw.on("R69") {
                    if let Some(t) = self.try_r69(l) {
                        self.edits.push(Edit { range: rng(s), text: t, prio: 0 });
                        return;
                    }
                }
                if self.rw.on("R70") {
                    if let Some(t) = self.try_r70(l) {
                        self.edits.push(Edit { range: rng(s), text: t, prio: 0 });
                        return;
                    }
                }
                if self.rw.on("R16") {
                    if let Some(t) = self.try_r16(l) {
                        self.edits.push(Edit { range: rng(s), text: t, prio: 0 });
                        return;
                    }
                }
                if self.rw.on("R17") {
                    if let Some(t) = self.try_r17(l) {
                        self.edits.push(Edit { range: rng(s), text: t, prio: 0 });
                        return;
                    }
                }
                if self.rw.on("R26") {
                    if let Some(t) = self.try_r26(l) {
                        self.edits.push(Edit { range: rng(s), text: t, prio: 0 });
                        return;
                    }
                }
                if self.rw.on("R48") || self.rw.on("R48v") {
                    if let Some(t) = self.try_r48(l) {
                        self.edits.push(Edit { range: rng(s), text: t, prio: 0 });
                        return;
                    }
                }
                if self.rw.on("R60") {
                    if let Some(t) = self.try_r60(l) {
                        self.edits.push(Edit { range: rng(s), text: t, prio: 0 });
                        return;
                    }
                }
                if self.rw.on("R44") {
                    if let Some(t) = self.try_r44(l) {
                        self.edits.push(Edit { range: rng(s), text: t, prio: 0 });
                        return;
                    }
                }
                if self.rw.on("R3m") {
                    if let Some(t) = self.try_r3m(l) {
                        self.edits.push(Edit { range: rng(s), text: t, prio: 0 });
                        return;
                    }
                }
                if self.rw.on("R33") {
                    if let Some(t) = self.try_r33(l) {
                        self.edits.push(Edit { range: rng(s), text: t, prio: 0 });
                        return;
                    }
                }
                if self.rw.on("R3f") {
                    if let Some(t) = self.try_r3f(l) {
                        self.edits.push(Edit { range: rng(s), text: t, prio: 0 });
                        return;
                    }
                }
                if self.rw.on("R3") {
                    if let Some(t) = self.try_r3(l) {
                        self.edits.push(Edit { range: rng(s), text: t, prio: 0 });
                        return;
                    }
                }
                visit::visit_stmt(self, s);
            }
            _ => visit::visit_stmt(self, s),
        }
    }

    fn visit_expr(&mut self, e: &'ast syn::Expr) {
        match e {
            // R1 / R2: ITER.any(|p| B) / ITER.all(|p| B)
            syn::Expr::MethodCall(m)
                if (m.method == "any" && self.rw.on("R1") || m.method == "all" && self.rw.on("R2")) && m.args.len() == 1 =>
            {
                let is_any = m.method == "any";
                let rule = if is_any { "R1" } else { "R2" };
                let cl = match &m.args[0] {
                    syn::Expr::Closure(c) => c,
                    _ => die("unsupported", &format!("{}: {rule} side condition: argument of any/all is not a closure", self.rw.fn_path)),
                };
                if cl.capture.is_some() || cl.inputs.len() != 1 || closure_has_control_flow(&cl.body) {
                    die("unsupported", &format!("{}: {rule} side condition violated (move closure / several params / control flow in body)", self.rw.fn_path));
                }
                let key = self.rw.next_key(rule);
                let (iter, hdr, bs, be) = self.rw.loop_parts(&key);
                let pat = self.rw.text(&cl.inputs[0]).to_string();
                let recv = self.render(&m.receiver);
                let body = self.render(&cl.body);
                let var = format!("__{}_{}", rule.to_lowercase(), key.split('#').nth(1).unwrap());
                let t = if is_any {
                    format!("{{ let mut {var} = false; for {pat} in {iter}{recv} {hdr}{{ {bs}if ({body}) {{ {var} = true; break; }} {be}}} {var} }}")
                } else {
                    format!("{{ let mut {var} = true; for {pat} in {iter}{recv} {hdr}{{ {bs}if !({body}) {{ {var} = false; break; }} {be}}} {var} }}")
                };
                self.rw.log.push(format!("{rule} at {} -> loop {key}", norm(&self.rw.src[rng(e)]).chars().take(50).collect::<String>()));
                self.edits.push(Edit { range: rng(e), text: t, prio: 0 });
            }
            // R11: E.fragment().lines().next().map_or(0, str::len)  (length of the rest of E's first line)
            syn::Expr::MethodCall(m) if m.method == "map_or" && self.rw.on("R11") && m.args.len() == 2 => {
                let inner = (|| {
                    let next = is_method(&m.receiver, "next")?;
                    let lines = is_method(&next.receiver, "lines")?;
                    let frag = is_method(&lines.receiver, "fragment")?;
                    Some(&frag.receiver)
                })();
                let args_ok = norm(self.rw.text(&m.args[0])) == "0" && norm(self.rw.text(&m.args[1])) == "str::len";
                match inner {
                    Some(recv) if args_ok => {
                        let r = self.render(recv);
                        self.rw.log.push("R11 .fragment().lines().next().map_or(0, str::len) -> __first_line_len".to_string());
                        self.edits.push(Edit { range: rng(e), text: format!("__first_line_len(&{r})"), prio: 0 });
                    }
                    _ => visit::visit_expr(self, e),
                }
            }
            // R10: M.entry(K).insert_entry(V)  ->  __map_insert_entry(&mut M, K, V)
            syn::Expr::MethodCall(m) if m.method == "insert_entry" && self.rw.on("R10") && m.args.len() == 1 && is_method(&m.receiver, "entry").map_or(false, |en| en.args.len() == 1) => {
                let en = is_method(&m.receiver, "entry").unwrap();
                let map = self.render(&en.receiver);
                let k = self.render(&en.args[0]);
                let v = self.render(&m.args[0]);
                self.rw.log.push("R10 .entry(k).insert_entry(v) -> __map_insert_entry".to_string());
                self.edits.push(Edit { range: rng(e), text: format!("__map_insert_entry(&mut {map}, {k}, {v})"), prio: 0 });
            }
            // R13: S.binary_search_by(|p| B)  ->  { let __bs_f = |p: T| -> (o: Ordering) ensures .. B; proof {..} __binary_search_by(S, __bs_f) }
            // the closure is hoisted into a let (evaluated once, immediately before the call, as in
            // the original) so that a proof block can talk about it; its typed header and its
            // ensures clause come from the unit (`@loop R13#k`, `@closure_sig`, `@loop_ensures`)
            syn::Expr::MethodCall(m) if m.method == "binary_search_by" && self.rw.on("R13") && m.args.len() == 1 => {
                let cl = match &m.args[0] {
                    syn::Expr::Closure(c) => c,
                    _ => die("unsupported", &format!("{}: R13 side condition: argument of binary_search_by is not a closure", self.rw.fn_path)),
                };
                if cl.capture.is_some() || cl.inputs.len() != 1 {
                    die("unsupported", &format!("{}: R13 side condition violated (move closure / several params)", self.rw.fn_path));
                }
                let key = self.rw.next_key("R13");
                let sig = match self.rw.loops.iter().find(|l| l.key == key).and_then(|l| l.closure_sig.clone()) {
                    Some(s) => s,
                    None => die("malformed-unit", &format!("{}: R13 needs `@loop {key}` with a @closure_sig", self.rw.fn_path)),
                };
                let (_iter, hdr, bs, _be) = self.rw.loop_parts(&key);
                let recv = self.render(&m.receiver);
                let body = self.render(&cl.body);
                self.rw.log.push(format!("R13 binary_search_by closure hoisted as {key}"));
                self.edits.push(Edit { range: rng(e), text: format!("{{ let __bs_f = {sig}{hdr} {body}; {bs} __binary_search_by({recv}, __bs_f) }}"), prio: 0 });
            }
            // R32: CELL.get_or_init(|| E)  ->  CELL.get_or_init(|| -> (r: T) ensures .. { E })
            // the parameterless closure gets the typed header and ensures clause given in the unit
            // (`@loop R32#k`, `@closure_sig`, `@loop_ensures`); its body is unchanged
            syn::Expr::MethodCall(m) if m.method == "get_or_init" && self.rw.on("R32") && m.args.len() == 1 => {
                let cl = match &m.args[0] {
                    syn::Expr::Closure(c) if c.inputs.is_empty() && c.capture.is_none() => c,
                    _ => die("unsupported", &format!("{}: R32 side condition: argument of get_or_init is not a parameterless non-move closure", self.rw.fn_path)),
                };
                // side condition (whole source file): this is the only place that initialises a cell
                // -- one `get_or_init`, no `.set(` / `.take(` / `.get_mut(` / `.into_inner(` on a OnceCell --
                // so every value the cell can hold was produced by this closure
                let whole = self.rw.src;
                if whole.matches("get_or_init").count() != 1 || [".set(", ".take(", ".get_mut(", ".into_inner("].iter().any(|m| whole.contains(&format!("_cache{m}"))) {
                    die("unsupported", &format!("{}: R32 side condition: the cell is initialised or reset at more than one place", self.rw.fn_path));
                }
                let key = self.rw.next_key("R32");
                let sig = match self.rw.loops.iter().find(|l| l.key == key).and_then(|l| l.closure_sig.clone()) {
                    Some(s) => s,
                    None => die("malformed-unit", &format!("{}: R32 needs `@loop {key}` with a @closure_sig", self.rw.fn_path)),
                };
                let (_iter, hdr, _bs, _be) = self.rw.loop_parts(&key);
                let recv = self.render(&m.receiver);
                let body = self.render(&cl.body);
                self.rw.log.push(format!("R32 get_or_init closure annotated as {key}"));
                self.edits.push(Edit { range: rng(e), text: format!("{recv}.get_or_init({sig}{hdr} {{ {body} }})"), prio: 0 });
            }
            // R42: V[I].entry(K).or_default().insert(X)  ->  __level_insert(&mut V, I, K, X)
            // (Verus has no IndexMut; the index check of `V[I]` becomes the stand-in's precondition)
            syn::Expr::MethodCall(m)
                if (m.method == "insert" || m.method == "push") && self.rw.on("R42") && m.args.len() == 1
                    && is_method(&m.receiver, "or_default").map_or(false, |od| od.args.is_empty() && is_method(&od.receiver, "entry").map_or(false, |en| en.args.len() == 1 && matches!(&*en.receiver, syn::Expr::Index(_)))) =>
            {
                let od = is_method(&m.receiver, "or_default").unwrap();
                let en = is_method(&od.receiver, "entry").unwrap();
                let ix = match &*en.receiver {
                    syn::Expr::Index(ix) => ix,
                    _ => unreachable!(),
                };
                if !matches!(&*ix.expr, syn::Expr::Path(_)) {
                    die("unsupported", &format!("{}: R42 side condition: the indexed vector is not a plain variable", self.rw.fn_path));
                }
                let v = self.render(&ix.expr);
                let i = self.render(&ix.index);
                let k = self.render(&en.args[0]);
                let x = self.render(&m.args[0]);
                let f = if m.method == "insert" { "__level_insert" } else { "__level_push" };
                self.rw.log.push(format!("R42 V[I].entry(K).or_default().{}(X) -> {f}", m.method));
                self.edits.push(Edit { range: rng(e), text: format!("{f}(&mut {v}, {i}, {k}, {x})"), prio: 0 });
            }
            // R43: ITER.filter_map(|p| B).max()  ->  { let mut __m = None; for p in ITER { if let Some(__v) = B { __m = keep the greater } } __m }
            // (Iterator::max keeps the last of equal maxima; for the integers it is applied to that is the same value)
            syn::Expr::MethodCall(m)
                if m.method == "max" && self.rw.on("R43") && m.args.is_empty()
                    && is_method(&m.receiver, "filter_map").map_or(false, |f| f.args.len() == 1 && matches!(&f.args[0], syn::Expr::Closure(_))) =>
            {
                let fm = is_method(&m.receiver, "filter_map").unwrap();
                let cl = match &fm.args[0] {
                    syn::Expr::Closure(c) => c,
                    _ => unreachable!(),
                };
                if cl.capture.is_some() || cl.inputs.len() != 1 || closure_has_control_flow(&cl.body) {
                    die("unsupported", &format!("{}: R43 side condition violated (move closure / several params / control flow in body)", self.rw.fn_path));
                }
                let key = self.rw.next_key("R43");
                let (iter, hdr, bs, be) = self.rw.loop_parts(&key);
                let var = format!("__r43_{}", key.split('#').nth(1).unwrap());
                let pat = self.rw.text(&cl.inputs[0]).to_string();
                let recv = self.render(&fm.receiver);
                let body = self.render(&cl.body);
                self.rw.log.push(format!("R43 ITER.filter_map(..).max() -> loop {key}"));
                let bind = self.rw.loops.iter().find(|l| l.key == key).and_then(|l| l.bind.clone());
                let (pre, recv) = match bind {
                    Some(b) => (format!("let {b} = {recv}; let ghost {b}_g = {b}@; "), b),
                    None => (String::new(), recv),
                };
                self.edits.push(Edit { range: rng(e), text: format!("{{ {pre}let mut {var} = None; for {pat} in {iter}{recv} {hdr}{{ {bs}if let Some(__v) = {body} {{ {var} = match {var} {{ None => Some(__v), Some(__o) => Some(if __v >= __o {{ __v }} else {{ __o }}) }}; }} {be}}} {var} }}"), prio: 0 });
            }
            // R45: 'L: { if !C { break 'L None; } Some(E) }  ->  if !(C) { None } else { Some(E) }
            syn::Expr::Block(b) if self.rw.on("R45") && b.label.is_some() && b.block.stmts.len() == 2 => {
                let lbl = b.label.as_ref().unwrap().name.ident.to_string();
                let cond = match &b.block.stmts[0] {
                    syn::Stmt::Expr(syn::Expr::If(i), _) if i.else_branch.is_none() && i.then_branch.stmts.len() == 1 => {
                        let ok = match &i.then_branch.stmts[0] {
                            syn::Stmt::Expr(syn::Expr::Break(br), _) => br.label.as_ref().map_or(false, |l| l.ident == lbl) && br.expr.as_ref().map_or(false, |x| norm(self.rw.text(&**x)) == "None"),
                            _ => false,
                        };
                        if !ok {
                            die("unsupported", &format!("{}: R45 side condition: the labelled block is not `if C {{ break 'L None; }} Some(E)`", self.rw.fn_path));
                        }
                        self.render(&i.cond)
                    }
                    _ => die("unsupported", &format!("{}: R45 side condition: the labelled block is not `if C {{ break 'L None; }} Some(E)`", self.rw.fn_path)),
                };
                let tail = match &b.block.stmts[1] {
                    syn::Stmt::Expr(x, None) => self.render(x),
                    _ => die("unsupported", &format!("{}: R45 side condition: the labelled block has no tail expression", self.rw.fn_path)),
                };
                self.rw.log.push(format!("R45 labelled block '{lbl} -> if/else"));
                self.edits.push(Edit { range: rng(e), text: format!("if {cond} {{ None }} else {{ {tail} }}"), prio: 0 });
            }
            // R46: X.iter_top_level_star_transitions().collect()  ->  X.iter_top_level_star_transitions()
            // (the adapter chain is a stand-in that already returns the vector of what it yields)
            syn::Expr::MethodCall(m)
                if m.method == "collect" && self.rw.on("R46") && m.args.is_empty()
                    && matches!(&*m.receiver, syn::Expr::MethodCall(inner) if ["iter_top_level_star_transitions"].contains(&inner.method.to_string().as_str()) && inner.args.is_empty()) =>
            {
                let recv = self.render(&m.receiver);
                self.rw.log.push("R46 stand-in iterator .collect() -> the vector itself".to_string());
                self.edits.push(Edit { range: rng(e), text: recv, prio: 0 });
            }
            // R56: `V.to_owned().into_boxed_slice()` -> `__boxed_copy(&V)`;
            //      `X.into_iter().map(|(input, _)| input).collect()` -> `__boxed_firsts(X)`   (payload of an error value)
            syn::Expr::MethodCall(m)
                if self.rw.on("R56") && m.method == "into_boxed_slice" && m.args.is_empty()
                    && is_method(&m.receiver, "to_owned").map_or(false, |t| t.args.is_empty()) =>
            {
                let t = is_method(&m.receiver, "to_owned").unwrap();
                let recv = self.render(&t.receiver);
                self.rw.log.push("R56 V.to_owned().into_boxed_slice() -> __boxed_copy(&V)".to_string());
                self.edits.push(Edit { range: rng(e), text: format!("__boxed_copy(&{recv})"), prio: 0 });
            }
            syn::Expr::MethodCall(m)
                if self.rw.on("R56") && m.method == "collect" && m.args.is_empty()
                    && is_method(&m.receiver, "map").map_or(false, |mp| mp.args.len() == 1 && norm(self.rw.text(&mp.args[0])).replace(' ', "") == "|(input,_)|input"
                        && is_method(&mp.receiver, "into_iter").map_or(false, |ii| ii.args.is_empty())) =>
            {
                let mp = is_method(&m.receiver, "map").unwrap();
                let ii = is_method(&mp.receiver, "into_iter").unwrap();
                let recv = self.render(&ii.receiver);
                self.rw.log.push("R56 X.into_iter().map(|(input, _)| input).collect() -> __boxed_firsts(X)".to_string());
                self.edits.push(Edit { range: rng(e), text: format!("__boxed_firsts({recv})"), prio: 0 });
            }
            // R57: V.sort_by_key(|(literal, _)| *literal) -> __sort_by_literal(&mut V); R58: V.dedup_by_key(|(literal, description)| (*literal, *description)) -> __dedup_by_pair(&mut V)
            syn::Expr::MethodCall(m) if self.rw.on("R57") && m.method == "sort_by_key" && m.args.len() == 1 => {
                if norm(self.rw.text(&m.args[0])).replace(' ', "") != "|(literal,_)|*literal" {
                    die("unsupported", &format!("{}: R57 side condition: the sort key is not `|(literal, _)| *literal`", self.rw.fn_path));
                }
                let recv = self.render(&m.receiver);
                self.rw.log.push("R57 V.sort_by_key(|(literal, _)| *literal) -> __sort_by_literal(&mut V)".to_string());
                self.edits.push(Edit { range: rng(e), text: format!("__sort_by_literal(&mut {recv})"), prio: 0 });
            }
            syn::Expr::MethodCall(m) if self.rw.on("R58") && m.method == "dedup_by_key" && m.args.len() == 1 => {
                if norm(self.rw.text(&m.args[0])).replace(' ', "") != "|(literal,description)|(*literal,*description)" {
                    die("unsupported", &format!("{}: R58 side condition: the dedup key is not `|(literal, description)| (*literal, *description)`", self.rw.fn_path));
                }
                let recv = self.render(&m.receiver);
                self.rw.log.push("R58 V.dedup_by_key(|(literal, description)| (*literal, *description)) -> __dedup_by_pair(&mut V)".to_string());
                self.edits.push(Edit { range: rng(e), text: format!("__dedup_by_pair(&mut {recv})"), prio: 0 });
            }
            // R61: X.sort_unstable_by(|(left, _), (right, _)| { (left.len(), left).cmp(&(right.len(), right)) }) -> __indexset_sort_len_text(&mut X)
            syn::Expr::MethodCall(m) if self.rw.on("R61") && m.method == "sort_unstable_by" && m.args.len() == 1 => {
                if norm(self.rw.text(&m.args[0])).replace(' ', "") != "|(left,_),(right,_)|{(left.len(),left).cmp(&(right.len(),right))}" {
                    die("unsupported", &format!("{}: R61 side condition: the comparator is not `|(left, _), (right, _)| {{ (left.len(), left).cmp(&(right.len(), right)) }}`", self.rw.fn_path));
                }
                let recv = self.render(&m.receiver);
                self.rw.log.push("R61 X.sort_unstable_by(by length, then text) -> __indexset_sort_len_text(&mut X)".to_string());
                self.edits.push(Edit { range: rng(e), text: format!("__indexset_sort_len_text(&mut {recv})"), prio: 0 });
            }
            // R62: X.reverse() -> __indexset_reverse(&mut X)   (typed stand-in: compiles only for the literal IndexSet)
            syn::Expr::MethodCall(m) if self.rw.on("R62") && m.method == "reverse" && m.args.is_empty() => {
                let recv = self.render(&m.receiver);
                self.rw.log.push("R62 X.reverse() -> __indexset_reverse(&mut X)".to_string());
                self.edits.push(Edit { range: rng(e), text: format!("__indexset_reverse(&mut {recv})"), prio: 0 });
            }
            // R63: E.into_iter().enumerate().map(|(I, PAT)| B).collect()   (E an IndexSet of Copy items)
            //   -> { let __src = __indexset_into_vec(E); let mut __out = Vec::new(); for I in 0..__src.len() { let PAT = __src[I]; __out.push(B); } __out }
            syn::Expr::MethodCall(m)
                if self.rw.on("R63") && m.method == "collect" && m.args.is_empty()
                    && is_method(&m.receiver, "map").map_or(false, |mp| mp.args.len() == 1
                        && is_method(&mp.receiver, "enumerate").map_or(false, |en| en.args.is_empty() && is_method(&en.receiver, "into_iter").map_or(false, |ii| ii.args.is_empty()))) =>
            {
                let mp = is_method(&m.receiver, "map").unwrap();
                let en = is_method(&mp.receiver, "enumerate").unwrap();
                let ii = is_method(&en.receiver, "into_iter").unwrap();
                let cl = match &mp.args[0] {
                    syn::Expr::Closure(c) if c.capture.is_none() && c.inputs.len() == 1 && !closure_has_control_flow(&c.body) => c,
                    _ => die("unsupported", &format!("{}: R63 side condition violated (not a plain one-parameter closure)", self.rw.fn_path)),
                };
                let (ipat, epat) = match &cl.inputs[0] {
                    syn::Pat::Tuple(t) if t.elems.len() == 2 && matches!(&t.elems[0], syn::Pat::Ident(_)) => (self.rw.text(&t.elems[0]).to_string(), self.rw.text(&t.elems[1]).to_string()),
                    _ => die("unsupported", &format!("{}: R63 side condition: the closure parameter is not `(index, pattern)`", self.rw.fn_path)),
                };
                let key = self.rw.next_key("R63");
                let (iter, hdr, bs, be) = self.rw.loop_parts(&key);
                let src = self.render(&ii.receiver);
                let body = self.render(&cl.body);
                // the element type of the collected vector: `@loop R63#Nc` with `@closure_sig Vec<..>` (rustc cannot infer it
                // before the invariant mentions the elements)
                let ckey = format!("{key}c");
                let out_ty = self.rw.loops.iter().find(|l| l.key == ckey).and_then(|l| l.closure_sig.clone()).map(|t| format!(": {}", t.trim())).unwrap_or_default();
                for l in self.rw.loops.iter_mut() { if l.key == ckey { l.used = true; } }
                // `@proof loopafter R63#N`: proof text placed after the loop, inside the block (where the source vector is in scope)
                let mut after = String::new();
                for p in self.rw.proofs.iter_mut() {
                    if p.anchor == key && p.mode == "loopafter" {
                        p.used = true;
                        after.push_str(&format!("\nproof {{\n{}}}\n", p.text));
                    }
                }
                self.rw.log.push(format!("R63 E.into_iter().enumerate().map(..).collect() -> loop {key} over the vector of E's items"));
                self.edits.push(Edit { range: rng(e), text: format!("{{ let __src = __indexset_into_vec({src}); let ghost __src_g = __src@; let mut __out{out_ty} = Vec::new(); for {ipat} in {iter}0..__src.len() {hdr}{{ {bs}let {epat} = __src[{ipat}]; __out.push({body}); {be}}} {after} __out }}"), prio: 0 });
            }
            // R65: `self.iter_transitions().filter_map(move |PAT| B)` (or `.map(|PAT| E)`, or on `self.iter_inputs()`) as the value of a function extracted by R64
            //   -> `{ let __src = self.iter_transitions(); let ghost __src_g = __src@; let mut __out = Vec::new();
            //         for PAT in __src { if let Some(__v) = B { __out.push(__v); } } __out }`
            syn::Expr::MethodCall(m)
                if self.rw.on("R65") && (m.method == "filter_map" || m.method == "map") && m.args.len() == 1
                    && (is_method(&m.receiver, "iter_transitions").map_or(false, |it| it.args.is_empty()) || is_method(&m.receiver, "iter_inputs").map_or(false, |it| it.args.is_empty())) =>
            {
                let is_map = m.method == "map";
                let cl = match &m.args[0] {
                    syn::Expr::Closure(c) if c.inputs.len() == 1 && !closure_has_control_flow(&c.body) => c,
                    _ => die("unsupported", &format!("{}: R65 side condition violated (not a one-parameter closure without control flow)", self.rw.fn_path)),
                };
                let key = self.rw.next_key("R65");
                let (iter, hdr, bs, be) = self.rw.loop_parts(&key);
                let pat = self.rw.text(&cl.inputs[0]).to_string();
                let src = self.render(&m.receiver);
                let body = self.render(&cl.body);
                let ckey = format!("{key}c");
                let out_ty = self.rw.loops.iter().find(|l| l.key == ckey).and_then(|l| l.closure_sig.clone()).map(|t| format!(": {}", t.trim())).unwrap_or_default();
                for l in self.rw.loops.iter_mut() { if l.key == ckey { l.used = true; } }
                let mut after = String::new();
                for p in self.rw.proofs.iter_mut() {
                    if p.anchor == key && p.mode == "loopafter" {
                        p.used = true;
                        after.push_str(&format!("\nproof {{\n{}}}\n", p.text));
                    }
                }
                let push = if is_map { format!("__out.push({body});") } else { format!("if let Some(__v) = {body} {{ __out.push(__v); }}") };
                self.rw.log.push(format!("R65 self.iter_transitions() / iter_inputs() .filter_map(..) / .map(..) -> loop {key} collecting into a vector"));
                self.edits.push(Edit { range: rng(e), text: format!("{{ let __src = {src}; let ghost __src_g = __src@; let mut __out{out_ty} = Vec::new(); for {pat} in {iter}__src {hdr}{{ {bs}{push} {be}}} {after} __out }}"), prio: 0 });
            }
            // R66: `M.iter().flat_map(|(A, B)| B.iter().map(|(C, D)| E))` as the value of a function extracted by R64
            //   (M the transition table) -> `{ let mut __out = Vec::new(); for (A, B) in __tmap_entries(&M) { for (C, D) in __imap_entries(&(B)) { __out.push(E); } } __out }`
            syn::Expr::MethodCall(m)
                if self.rw.on("R66") && m.method == "flat_map" && m.args.len() == 1
                    && is_method(&m.receiver, "iter").map_or(false, |it| it.args.is_empty()) =>
            {
                let it0 = is_method(&m.receiver, "iter").unwrap();
                let ocl = match &m.args[0] {
                    syn::Expr::Closure(c) if c.capture.is_none() && c.inputs.len() == 1 => c,
                    _ => die("unsupported", &format!("{}: R66 side condition violated (outer closure)", self.rw.fn_path)),
                };
                let imap = match is_method(&ocl.body, "map") { Some(x) if x.args.len() == 1 => x, _ => die("unsupported", &format!("{}: R66 side condition: the outer closure is not `B.iter().map(..)`", self.rw.fn_path)) };
                let iit = match is_method(&imap.receiver, "iter") { Some(x) if x.args.is_empty() => x, _ => die("unsupported", &format!("{}: R66 side condition: the outer closure is not `B.iter().map(..)`", self.rw.fn_path)) };
                let icl = match &imap.args[0] {
                    syn::Expr::Closure(c) if c.capture.is_none() && c.inputs.len() == 1 && !closure_has_control_flow(&c.body) => c,
                    _ => die("unsupported", &format!("{}: R66 side condition violated (inner closure)", self.rw.fn_path)),
                };
                let k0 = self.rw.next_key("R66");
                let (iter0, hdr0, bs0, be0) = self.rw.loop_parts(&k0);
                let k1 = self.rw.next_key("R66");
                let (iter1, hdr1, bs1, be1) = self.rw.loop_parts(&k1);
                let opat = self.rw.text(&ocl.inputs[0]).to_string();
                let ipat = self.rw.text(&icl.inputs[0]).to_string();
                let table = self.render(&it0.receiver);
                let row = self.render(&iit.receiver);
                let body = self.render(&icl.body);
                let ckey = format!("{k0}c");
                let out_ty = self.rw.loops.iter().find(|l| l.key == ckey).and_then(|l| l.closure_sig.clone()).map(|t| format!(": {}", t.trim())).unwrap_or_default();
                for l in self.rw.loops.iter_mut() { if l.key == ckey { l.used = true; } }
                let mut after = String::new();
                let mut after_inner = String::new();
                for p in self.rw.proofs.iter_mut() {
                    if p.anchor == k0 && p.mode == "loopafter" { p.used = true; after.push_str(&format!("\nproof {{\n{}}}\n", p.text)); }
                    if p.anchor == k1 && p.mode == "loopafter" { p.used = true; after_inner.push_str(&format!("\nproof {{\n{}}}\n", p.text)); }
                }
                self.rw.log.push(format!("R66 M.iter().flat_map(|..| B.iter().map(..)) -> loops {k0} / {k1} collecting into a vector"));
                self.edits.push(Edit { range: rng(e), text: format!("{{ let mut __out{out_ty} = Vec::new(); let __rows = __tmap_entries(&{table}); let ghost __rows_g = __rows@; for {opat} in {iter0}__rows {hdr0}{{ {bs0}let __cells = __imap_entries(&({row})); let ghost __cells_g = __cells@; for {ipat} in {iter1}__cells {hdr1}{{ {bs1}__out.push({body}); {be1}}} {after_inner} {be0}}} {after} __out }}"), prio: 0 });
            }
            // R68 (in a function extracted by R64): `X.clone().into_iter()` on an inner map of the table -> `__imap_owned_entries(X)`;
            //      `IndexMap::<InpId, StateId>::default().into_iter()` -> `Vec::new()`   (an empty map yields nothing)
            syn::Expr::MethodCall(m)
                if self.rw.on("R68") && m.method == "into_iter" && m.args.is_empty()
                    && is_method(&m.receiver, "clone").map_or(false, |c| c.args.is_empty()) =>
            {
                let c = is_method(&m.receiver, "clone").unwrap();
                let recv = self.render(&c.receiver);
                self.rw.log.push("R68 X.clone().into_iter() -> __imap_owned_entries(X)".to_string());
                self.edits.push(Edit { range: rng(e), text: format!("__imap_owned_entries({recv})"), prio: 0 });
            }
            syn::Expr::MethodCall(m)
                if self.rw.on("R68") && m.method == "into_iter" && m.args.is_empty()
                    && is_method(&m.receiver, "default").is_none()
                    && norm(self.rw.text(&*m.receiver)).replace(' ', "") == "IndexMap::<InpId,StateId>::default()" =>
            {
                self.rw.log.push("R68 IndexMap::<InpId, StateId>::default().into_iter() -> Vec::new()".to_string());
                self.edits.push(Edit { range: rng(e), text: "Vec::new()".to_string(), prio: 0 });
            }
            // R52: M.keys().cloned().collect()  ->  __imap_key_set(&M)   (the key set of an inner map of the table; the
            // stand-in returns IndexSet<InpId>, so the rewritten text only compiles at that type)
            syn::Expr::MethodCall(m)
                if self.rw.on("R52") && m.method == "collect" && m.args.is_empty()
                    && is_method(&m.receiver, "cloned").map_or(false, |c| c.args.is_empty() && is_method(&c.receiver, "keys").map_or(false, |k| k.args.is_empty())) =>
            {
                let c = is_method(&m.receiver, "cloned").unwrap();
                let k = is_method(&c.receiver, "keys").unwrap();
                let recv = self.render(&k.receiver);
                self.rw.log.push("R52 M.keys().cloned().collect() -> __imap_key_set(&M)".to_string());
                self.edits.push(Edit { range: rng(e), text: format!("__imap_key_set(&{recv})"), prio: 0 });
            }
            // R53: V.sort_unstable_by_key(|transition| transition.to)  ->  __sort_by_to(&mut V)   (closure matched literally)
            syn::Expr::MethodCall(m) if self.rw.on("R53") && m.method == "sort_unstable_by_key" && m.args.len() == 1 => {
                let cl = norm(self.rw.text(&m.args[0])).replace(' ', "");
                if cl != "|transition|transition.to" {
                    die("unsupported", &format!("{}: R53 side condition: the sort key is not `|transition| transition.to`", self.rw.fn_path));
                }
                let recv = self.render(&m.receiver);
                self.rw.log.push("R53 V.sort_unstable_by_key(|transition| transition.to) -> __sort_by_to(&mut V)".to_string());
                self.edits.push(Edit { range: rng(e), text: format!("__sort_by_to(&mut {recv})"), prio: 0 });
            }
            // R54: V.dedup()  ->  __dedup_transitions(&mut V)   (typed stand-in: compiles only for Vec<Transition>)
            syn::Expr::MethodCall(m) if self.rw.on("R54") && m.method == "dedup" && m.args.is_empty() => {
                let recv = self.render(&m.receiver);
                self.rw.log.push("R54 V.dedup() -> __dedup_transitions(&mut V)".to_string());
                self.edits.push(Edit { range: rng(e), text: format!("__dedup_transitions(&mut {recv})"), prio: 0 });
            }
            // R51: `StateId::try_from(X).unwrap()` -> `__stateid_from_u32(X)` (the stand-in takes a u32, so the
            // rewritten text only compiles when X is a u32: the reflexive, infallible conversion)
            syn::Expr::MethodCall(m)
                if self.rw.on("R51") && m.method == "unwrap" && m.args.is_empty()
                    && matches!(&*m.receiver, syn::Expr::Call(c) if c.args.len() == 1 && norm(self.rw.text(&*c.func)) == "StateId::try_from") =>
            {
                let c = match &*m.receiver { syn::Expr::Call(c) => c, _ => unreachable!() };
                let x = self.render(&c.args[0]);
                self.rw.log.push("R51 StateId::try_from(X).unwrap() -> __stateid_from_u32(X)".to_string());
                self.edits.push(Edit { range: rng(e), text: format!("__stateid_from_u32({x})"), prio: 0 });
            }
            // R47s: M.entry(K).or_default().insert(A)  ->  __entry_or_default_insert_set(&mut M, K, A)
            // (a map of bitmaps; M a plain variable; K a variable or a field of one)
            syn::Expr::MethodCall(m)
                if m.method == "insert" && self.rw.on("R47s") && m.args.len() == 1
                    && is_method(&m.receiver, "or_default").map_or(false, |od| od.args.is_empty() && is_method(&od.receiver, "entry").map_or(false, |en| en.args.len() == 1 && matches!(&*en.receiver, syn::Expr::Path(_)))) =>
            {
                let od = is_method(&m.receiver, "or_default").unwrap();
                let en = is_method(&od.receiver, "entry").unwrap();
                let pure = match &en.args[0] {
                    syn::Expr::Path(_) => true,
                    syn::Expr::Field(f) => matches!(&*f.base, syn::Expr::Path(_)),
                    _ => false,
                };
                if !pure {
                    die("unsupported", &format!("{}: R47s side condition: the entry key is not a variable or a field of one", self.rw.fn_path));
                }
                let mp = self.render(&en.receiver);
                let k = self.render(&en.args[0]);
                let a = self.render(&m.args[0]);
                self.rw.log.push("R47s M.entry(K).or_default().insert(A) -> __entry_or_default_insert_set".to_string());
                self.edits.push(Edit { range: rng(e), text: format!("__entry_or_default_insert_set(&mut {mp}, {k}, {a})"), prio: 0 });
            }
            // R49: [A, B(, C)].difference() / .intersection() (roaring::MultiOps on an array of bitmap references)
            //   -> __rb_difference2(A, B) / __rb_difference3(A, B, C) / __rb_intersection2(A, B)
            syn::Expr::MethodCall(m)
                if self.rw.on("R49") && (m.method == "difference" || m.method == "intersection") && m.args.is_empty()
                    && matches!(&*m.receiver, syn::Expr::Array(a) if a.elems.len() == 2 || a.elems.len() == 3) =>
            {
                let arr = match &*m.receiver { syn::Expr::Array(a) => a, _ => unreachable!() };
                let parts: Vec<String> = arr.elems.iter().map(|x| self.render(x)).collect();
                let f = format!("__rb_{}{}", m.method, parts.len());
                self.rw.log.push(format!("R49 [..; {}].{}() -> {f}", parts.len(), m.method));
                self.edits.push(Edit { range: rng(e), text: format!("{f}({})", parts.join(", ")), prio: 0 });
            }
            // R47: M.entry(K).or_default().insert(A, B)  ->  { __entry_or_default(&mut M, K); __entry_insert(&mut M, K, A, B) }
            // (M a plain variable; K a variable or a field of one, so that evaluating it twice is harmless)
            syn::Expr::MethodCall(m)
                if m.method == "insert" && self.rw.on("R47") && m.args.len() == 2
                    && is_method(&m.receiver, "or_default").map_or(false, |od| od.args.is_empty() && is_method(&od.receiver, "entry").map_or(false, |en| en.args.len() == 1 && matches!(&*en.receiver, syn::Expr::Path(_)))) =>
            {
                let od = is_method(&m.receiver, "or_default").unwrap();
                let en = is_method(&od.receiver, "entry").unwrap();
                let pure = match &en.args[0] {
                    syn::Expr::Path(_) => true,
                    syn::Expr::Field(f) => matches!(&*f.base, syn::Expr::Path(_)),
                    _ => false,
                };
                if !pure {
                    die("unsupported", &format!("{}: R47 side condition: the entry key is not a variable or a field of one", self.rw.fn_path));
                }
                let mp = self.render(&en.receiver);
                let k = self.render(&en.args[0]);
                let a = self.render(&m.args[0]);
                let b = self.render(&m.args[1]);
                self.rw.log.push("R47 M.entry(K).or_default().insert(A, B) -> __entry_or_default; __entry_insert".to_string());
                self.edits.push(Edit { range: rng(e), text: format!("{{ __entry_or_default(&mut {mp}, {k}); __entry_insert(&mut {mp}, {k}, {a}, {b}) }}"), prio: 0 });
            }
            // R38: ITER.next().is_some()  ->  ITER.len() > 0   (ITER is a stand-in returning the vector of what the adapter chain yields)
            syn::Expr::MethodCall(m) if m.method == "is_some" && self.rw.on("R38") && m.args.is_empty() && is_method(&m.receiver, "next").map_or(false, |n| n.args.is_empty()) => {
                let nx = is_method(&m.receiver, "next").unwrap();
                let recv = self.render(&nx.receiver);
                self.rw.log.push("R38 ITER.next().is_some() -> ITER.len() > 0".to_string());
                self.edits.push(Edit { range: rng(e), text: format!("{recv}.len() > 0"), prio: 0 });
            }
            // R39: ITER.for_each(|PAT| BODY)  ->  for PAT in ITER BODY   (statement position; BODY is a block)
            syn::Expr::MethodCall(m) if m.method == "for_each" && self.rw.on("R39") && m.args.len() == 1 && matches!(&m.args[0], syn::Expr::Closure(c) if c.inputs.len() == 1 && matches!(&*c.body, syn::Expr::Block(_))) => {
                let cl = match &m.args[0] {
                    syn::Expr::Closure(c) => c,
                    _ => unreachable!(),
                };
                if closure_has_control_flow(&cl.body) {
                    die("unsupported", &format!("{}: R39 side condition: control flow in the for_each body", self.rw.fn_path));
                }
                let key = self.rw.next_key("R39");
                let (iter, hdr, bs, be) = self.rw.loop_parts(&key);
                let pat = self.rw.text(&cl.inputs[0]).to_string();
                let recv = self.render(&m.receiver);
                let body = match &*cl.body {
                    syn::Expr::Block(b) => {
                        let mut c = Collector { rw: self.rw, edits: vec![] };
                        for st in &b.block.stmts {
                            c.visit_stmt(st);
                        }
                        let edits = std::mem::take(&mut c.edits);
                        let r = b.block.brace_token.span.open().byte_range().end..b.block.brace_token.span.close().byte_range().start;
                        apply_edits(self.rw.src, r, edits)
                    }
                    _ => unreachable!(),
                };
                self.rw.log.push(format!("R39 ITER.for_each(|{pat}| ..) -> for loop {key}"));
                self.edits.push(Edit { range: rng(e), text: format!("for {pat} in {iter}{recv} {hdr}{{ {bs}{body}{be} }}"), prio: 0 });
            }
            // R14: expression-level `ITER.map(|p| B).collect()` into a boxed slice (error payloads)
            //   -> __collect_boxed({ let mut __v = Vec::new(); for p in ITER { __v.push(B); } __v })
            syn::Expr::MethodCall(m)
                if m.method == "collect" && self.rw.on("R14") && m.args.is_empty() && m.turbofish.is_none() && is_method(&m.receiver, "map").map_or(false, |mp| mp.args.len() == 1 && matches!(mp.args[0], syn::Expr::Closure(_))) =>
            {
                let mp = is_method(&m.receiver, "map").unwrap();
                let cl = match &mp.args[0] {
                    syn::Expr::Closure(c) => c,
                    _ => unreachable!(),
                };
                if cl.capture.is_some() || cl.inputs.len() != 1 || closure_has_control_flow(&cl.body) {
                    die("unsupported", &format!("{}: R14 side condition violated (move closure / several params / control flow in body)", self.rw.fn_path));
                }
                let key = self.rw.next_key("R14");
                let (iter, hdr, bs, be) = self.rw.loop_parts(&key);
                let pat = self.rw.text(&cl.inputs[0]).to_string();
                let recv = self.render(&mp.receiver);
                let body = self.render(&cl.body);
                self.rw.log.push(format!("R14 ..map(..).collect() into a boxed slice -> loop {key} + __collect_boxed"));
                self.edits.push(Edit { range: rng(e), text: format!("__collect_boxed({{ let mut __v = Vec::new(); for {pat} in {iter}{recv} {hdr}{{ {bs}__v.push({body}); {be}}} __v }})"), prio: 0 });
            }
            // R18: M.entry(K).or_insert_with(|| { let r = C; C += 1; r })  ->  __entry_or_insert_counter(&mut M, K, &mut C)
            // side condition: the closure is exactly "take the counter's value, increment the counter"
            syn::Expr::MethodCall(m)
                if m.method == "or_insert_with" && self.rw.on("R18") && m.args.len() == 1 && is_method(&m.receiver, "entry").map_or(false, |en| en.args.len() == 1) =>
            {
                let en = is_method(&m.receiver, "entry").unwrap();
                let cl = match &m.args[0] {
                    syn::Expr::Closure(c) if c.inputs.is_empty() => c,
                    _ => die("unsupported", &format!("{}: R18 side condition: or_insert_with argument is not a parameterless closure", self.rw.fn_path)),
                };
                let body = norm(self.rw.text(&*cl.body));
                // { let R = C; C += 1; R }
                let inner = body.trim().trim_start_matches('{').trim_end_matches('}').trim().to_string();
                let parts: Vec<String> = inner.split(';').map(|p| p.trim().to_string()).filter(|p| !p.is_empty()).collect();
                let ok = parts.len() == 3 && parts[0].starts_with("let ") && parts[0].contains(" = ");
                if !ok {
                    die("unsupported", &format!("{}: R18 side condition: closure body is not `let r = c; c += 1; r`", self.rw.fn_path));
                }
                let (r_name, c_name) = {
                    let rest = parts[0].trim_start_matches("let ").to_string();
                    let mut it = rest.splitn(2, " = ");
                    (it.next().unwrap().trim().to_string(), it.next().unwrap().trim().to_string())
                };
                if parts[1] != format!("{c_name} += 1") || parts[2] != r_name {
                    die("unsupported", &format!("{}: R18 side condition: closure body is not `let r = c; c += 1; r`", self.rw.fn_path));
                }
                let map = self.render(&en.receiver);
                let k = self.render(&en.args[0]);
                self.rw.log.push(format!("R18 .entry(k).or_insert_with(counter closure) -> __entry_or_insert_counter (counter `{c_name}`)"));
                let f = if self.rw.on("R18i") { "__entry_or_insert_counter_ix" } else { "__entry_or_insert_counter" };
                self.edits.push(Edit { range: rng(e), text: format!("{f}(&mut {map}, {k}, &mut {c_name})"), prio: 0 });
            }
            // R25: M.retain(|k, _| !N.contains_key(k))  ->  __map_retain_not_in(&mut M, &N)   (closure matched literally)
            syn::Expr::MethodCall(m) if m.method == "retain" && (self.rw.on("R25") || self.rw.on("R34")) && m.args.len() == 1 && matches!(m.args[0], syn::Expr::Closure(_)) => {
                let cl = match &m.args[0] {
                    syn::Expr::Closure(c) => c,
                    _ => unreachable!(),
                };
                let body = norm(self.rw.text(&*cl.body));
                let params: Vec<String> = cl.inputs.iter().map(|p| norm(self.rw.text(p))).collect();
                // R34: V.retain(|x| G.get(x).map(|c| !c.is_empty()).unwrap_or(true))  ->  __vec_retain_nonleaf(&mut V, &G)
                if params.len() == 1 && self.rw.on("R34") {
                    let tail = ".map(|children|!children.is_empty()).unwrap_or(true)";
                    let head_end = format!(".get({})", params[0]);
                    let mut body = body.replace(' ', "");
                    if body.starts_with('{') && body.ends_with('}') {
                        body = body[1..body.len() - 1].to_string();
                    }
                    if body.ends_with(tail) && body[..body.len() - tail.len()].ends_with(&head_end) {
                        let g = body[..body.len() - tail.len() - head_end.len()].to_string();
                        let v = self.render(&m.receiver);
                        self.rw.log.push("R34 .retain(|x| G.get(x).map(|c| !c.is_empty()).unwrap_or(true)) -> __vec_retain_nonleaf".to_string());
                        self.edits.push(Edit { range: rng(e), text: format!("__vec_retain_nonleaf(&mut {v}, &{g})"), prio: 0 });
                        return;
                    }
                    die("unsupported", &format!("{}: R34 side condition: retain closure is not `|x| G.get(x).map(|children| !children.is_empty()).unwrap_or(true)`", self.rw.fn_path));
                }
                // positive form: M.retain(|k, _| N.contains_key(k))  ->  __map_retain_in(&mut M, &N)
                if params.len() == 2 && params[1] == "_" && !body.starts_with('!') && body.ends_with(&format!(".contains_key({})", params[0])) {
                    let n = body[..body.len() - format!(".contains_key({})", params[0]).len()].to_string();
                    let map = self.render(&m.receiver);
                    self.rw.log.push("R25 .retain(|k, _| N.contains_key(k)) -> __map_retain_in".to_string());
                    self.edits.push(Edit { range: rng(e), text: format!("__map_retain_in(&mut {map}, &{n})"), prio: 0 });
                    return;
                }
                let ok = params.len() == 2 && params[1] == "_" && body.starts_with('!') && body.ends_with(&format!(".contains_key({})", params[0]));
                if !ok {
                    die("unsupported", &format!("{}: R25 side condition: retain closure is not `|k, _| !N.contains_key(k)`", self.rw.fn_path));
                }
                let n = body[1..body.len() - format!(".contains_key({})", params[0]).len()].to_string();
                let map = self.render(&m.receiver);
                self.rw.log.push("R25 .retain(|k, _| !N.contains_key(k)) -> __map_retain_not_in".to_string());
                self.edits.push(Edit { range: rng(e), text: format!("__map_retain_not_in(&mut {map}, &{n})"), prio: 0 });
            }
            // R28: a closure whose single parameter is a tuple pattern, passed as an argument:
            //   |(a, _)| B  ->  |__p| { let (a, _) = __p; B }     (Verus only takes plain names as closure parameters)
            syn::Expr::Closure(cl) if self.rw.on("R28") && cl.inputs.len() == 1 && matches!(cl.inputs[0], syn::Pat::Tuple(_)) && cl.capture.is_none() => {
                let pat = self.rw.text(&cl.inputs[0]).to_string();
                let body = self.render(&cl.body);
                self.rw.log.push(format!("R28 closure parameter pattern {pat} -> let inside the body"));
                self.edits.push(Edit { range: rng(e), text: format!("|__p| {{ let {pat} = __p; {body} }}"), prio: 0 });
            }
            // R22: `if A && B && C { BODY }` where some operand is a `let` (let-chain), no else branch
            //   -> `if A { if B { if C { BODY } } }`
            syn::Expr::If(ife) if self.rw.on("R22") && ife.else_branch.is_none() && cond_has_let_chain(&ife.cond) => {
                let mut parts: Vec<&syn::Expr> = vec![];
                flatten_and(&ife.cond, &mut parts);
                let body = {
                    let mut c = Collector { rw: self.rw, edits: vec![] };
                    for st in &ife.then_branch.stmts {
                        c.visit_stmt(st);
                    }
                    let mut edits = std::mem::take(&mut c.edits);
                    let r = ife.then_branch.brace_token.span.open().byte_range().end..ife.then_branch.brace_token.span.close().byte_range().start;
                    edits.append(&mut self.rw.take_stmt_edits(&r));
                    apply_edits(self.rw.src, r, edits)
                };
                let mut text = String::new();
                for pexp in &parts {
                    let t = self.render(pexp);
                    text.push_str(&format!("if {t} {{ "));
                }
                text.push_str(&body);
                for _ in &parts {
                    text.push_str(" }");
                }
                self.rw.log.push(format!("R22 let-chain of {} conditions -> nested ifs", parts.len()));
                self.edits.push(Edit { range: rng(e), text, prio: 0 });
            }
            // R29: `while let Some(P) = S.iter().next() { BODY }`  ->  `loop { match __set_first(&S) { Some(P) => { BODY } None => { break; } } }`
            syn::Expr::While(w) if self.rw.on("R29") && matches!(&*w.cond, syn::Expr::Let(_)) => {
                let l = match &*w.cond {
                    syn::Expr::Let(l) => l,
                    _ => unreachable!(),
                };
                let nx = match is_method(&l.expr, "next") {
                    Some(n) => n,
                    None => die("unsupported", &format!("{}: R29 side condition: while-let scrutinee is not `S.iter().next()`", self.rw.fn_path)),
                };
                let it = match is_method(&nx.receiver, "iter") {
                    Some(i) => i,
                    None => die("unsupported", &format!("{}: R29 side condition: while-let scrutinee is not `S.iter().next()`", self.rw.fn_path)),
                };
                let key = format!("{}", self.rw.native_loops);
                self.rw.native_loops += 1;
                let (_iter, hdr, bs, be) = self.rw.loop_parts(&key);
                let pat = self.rw.text(&*l.pat).to_string();
                let set = self.render(&it.receiver);
                let body = {
                    let mut c = Collector { rw: self.rw, edits: vec![] };
                    for st in &w.body.stmts {
                        c.visit_stmt(st);
                    }
                    let mut edits = std::mem::take(&mut c.edits);
                    let r = w.body.brace_token.span.open().byte_range().end..w.body.brace_token.span.close().byte_range().start;
                    edits.append(&mut self.rw.take_stmt_edits(&r));
                    apply_edits(self.rw.src, r, edits)
                };
                let first = if self.rw.on("R29i") { "__idset_first" } else { "__set_first" };
                self.rw.log.push(format!("R29 loop {key}: while let {pat} = {set}.iter().next() -> loop + {first}"));
                self.edits.push(Edit { range: rng(e), text: format!("loop {hdr}{{ match {first}(&{set}) {{ {pat} => {{ {bs}{body}{be} }} None => {{ break; }} }} }}"), prio: 0 });
            }
            // R30 (use site): `r.insert(A, B)` for an alias r recorded above
            syn::Expr::MethodCall(m)
                if self.rw.on("R30") && m.method == "insert" && m.args.len() == 2 && matches!(&*m.receiver, syn::Expr::Path(p) if p.path.get_ident().map_or(false, |i| self.rw.aliases.contains_key(&i.to_string()))) =>
            {
                let name = match &*m.receiver {
                    syn::Expr::Path(p) => p.path.get_ident().unwrap().to_string(),
                    _ => unreachable!(),
                };
                let (mp, k) = self.rw.aliases.get(&name).cloned().unwrap();
                let a = self.render(&m.args[0]);
                let b = self.render(&m.args[1]);
                self.edits.push(Edit { range: rng(e), text: format!("__entry_insert(&mut {mp}, {k}, {a}, {b})"), prio: 0 });
            }
            // R31: `C += 1` on a plain variable  ->  `C = __succ_u32(C)`  (machine arithmetic of an id
            // counter treated as mathematical: the shim assumes the counter does not overflow)
            syn::Expr::Binary(b)
                if self.rw.on("R31") && matches!(b.op, syn::BinOp::AddAssign(_)) && matches!(&*b.left, syn::Expr::Path(_)) && norm(self.rw.text(&*b.right)) == "1" =>
            {
                let c = self.render(&b.left);
                self.rw.log.push(format!("R31 `{c} += 1` -> {c} = __succ_u32({c}) (no-overflow assumption)"));
                self.edits.push(Edit { range: rng(e), text: format!("{c} = __succ_u32({c})"), prio: 0 });
            }
            // R12: M.entry(K).or_default().insert(V)  ->  __entry_or_default_insert(M, K, V)
            // side condition: M is a `&mut` binding (implicit reborrow; rustc rejects anything else)
            syn::Expr::MethodCall(m)
                if m.method == "insert"
                    && self.rw.on("R12")
                    && m.args.len() == 1
                    && is_method(&m.receiver, "or_default").map_or(false, |od| od.args.is_empty() && is_method(&od.receiver, "entry").map_or(false, |en| en.args.len() == 1)) =>
            {
                let od = is_method(&m.receiver, "or_default").unwrap();
                let en = is_method(&od.receiver, "entry").unwrap();
                let map = self.render(&en.receiver);
                let k = self.render(&en.args[0]);
                let v = self.render(&m.args[0]);
                self.rw.log.push("R12 .entry(k).or_default().insert(v) -> __entry_or_default_insert".to_string());
                self.edits.push(Edit { range: rng(e), text: format!("__entry_or_default_insert({map}, {k}, {v})"), prio: 0 });
            }
            // R5: E.replace('c', S)
            syn::Expr::MethodCall(m) if m.method == "replace" && self.rw.on("R5") && m.args.len() == 2 => {
                let is_char = matches!(&m.args[0], syn::Expr::Lit(syn::ExprLit { lit: syn::Lit::Char(_), .. }));
                if !is_char {
                    die("unsupported", &format!("{}: R5 side condition: first argument of replace is not a char literal", self.rw.fn_path));
                }
                let recv = self.render(&m.receiver);
                let c = self.rw.text(&m.args[0]).to_string();
                let s = self.render(&m.args[1]);
                self.rw.log.push(format!("R5 replace({c}, {s})"));
                self.edits.push(Edit { range: rng(e), text: format!("__str_replace_char(&{recv}, {c}, {s})"), prio: 0 });
            }
            syn::Expr::Macro(em) if self.rw.on("R4") && em.mac.path.is_ident("format") => {
                if let Some(t) = self.format_macro(&em.mac) {
                    self.rw.log.push("R4 format!".to_string());
                    self.edits.push(Edit { range: rng(e), text: t, prio: 0 });
                }
            }
            syn::Expr::Macro(em) if self.rw.on("R4w") && (em.mac.path.is_ident("write") || em.mac.path.is_ident("writeln")) => {
                let suffix = if em.mac.path.is_ident("writeln") { "\n" } else { "" };
                if let Some((lead, t)) = self.format_macro_ex(&em.mac, 1, suffix) {
                    self.rw.log.push("R4w write!/writeln! -> __write_str".to_string());
                    self.edits.push(Edit { range: rng(e), text: format!("__write_str({}, &{t})", lead[0]), prio: 0 });
                }
            }
            syn::Expr::Macro(em) => {
                // look inside other macros' arguments when they parse as expressions (e.g. assert!, vec!)
                if let Ok(args) = em.mac.parse_body_with(syn::punctuated::Punctuated::<syn::Expr, syn::Token![,]>::parse_terminated) {
                    for a in args.iter() {
                        self.visit_expr(a);
                    }
                }
            }
            syn::Expr::Binary(b) if self.rw.on("R9") && matches!(b.op, syn::BinOp::BitOrAssign(_)) => {
                let l = self.render(&b.left);
                let r = self.render(&b.right);
                self.rw.log.push("R9 `a |= b` -> __rb_or_assign".to_string());
                self.edits.push(Edit { range: rng(e), text: format!("__rb_or_assign(&mut {l}, &{r})"), prio: 0 });
            }
            syn::Expr::ForLoop(f) => {
                // R24: `for (_, V) in M.iter_mut() { BODY }` -> `for __k in __map_keys(&M) { if let Some(V) = M.get_mut(&__k) { BODY } }`
                if self.rw.on("R24") {
                    if let Some(im) = is_method(&f.expr, "iter_mut") {
                        if let syn::Pat::Tuple(t) = &*f.pat {
                            if t.elems.len() == 2 && matches!(&t.elems[0], syn::Pat::Wild(_)) {
                                if let syn::Pat::Ident(v) = &t.elems[1] {
                                    let m = self.render(&im.receiver);
                                    let vname = v.ident.to_string();
                                    let pr = rng(&*f.pat);
                                    let er = rng(&*f.expr);
                                    let key = format!("{}", self.rw.native_loops);
                                    self.rw.native_loops += 1;
                                    let (iter, hdr, bs, be) = self.rw.loop_parts(&key);
                                    self.edits.push(Edit { range: pr.clone(), text: "__k".to_string(), prio: 0 });
                                    self.edits.push(Edit { range: er.clone(), text: format!("{iter}__map_keys(&{m})"), prio: 0 });
                                    let open = f.body.brace_token.span.open().byte_range();
                                    let close = f.body.brace_token.span.close().byte_range();
                                    if !hdr.is_empty() {
                                        self.edits.push(Edit { range: open.start..open.start, text: hdr, prio: 0 });
                                    }
                                    self.edits.push(Edit { range: open.end..open.end, text: format!(" {bs} if let Some({vname}) = {m}.get_mut(&__k) {{"), prio: -8 });
                                    self.edits.push(Edit { range: close.start..close.start, text: format!("}} {be}\n"), prio: 8 });
                                    self.rw.log.push(format!("R24 loop {key}: for (_, {vname}) in {m}.iter_mut() -> loop over __map_keys + get_mut"));
                                    for st in &f.body.stmts {
                                        self.visit_stmt(st);
                                    }
                                    return;
                                }
                            }
                        }
                    }
                }
                // R59: `for X in V.windows(2) { let [A, B] = X else { unreachable!() }; REST }`
                //   -> `for __pr in __windows2(&V) { let (A, B) = __pr; REST }`  (windows(2) yields exactly the adjacent pairs)
                if self.rw.on("R59") {
                    if let Some(wn) = is_method(&f.expr, "windows") {
                        let two = wn.args.len() == 1 && norm(self.rw.text(&wn.args[0])) == "2";
                        let first = f.body.stmts.first();
                        let pat_ok = match (first, &*f.pat) {
                            (Some(syn::Stmt::Local(l)), syn::Pat::Ident(x)) => {
                                let els_ok = l.init.as_ref().and_then(|i| i.diverge.as_ref()).map_or(false, |(_, els)| norm(self.rw.text(&**els)).replace(' ', "") == "{unreachable!()}");
                                let src_ok = l.init.as_ref().map_or(false, |i| norm(self.rw.text(&*i.expr)) == x.ident.to_string());
                                matches!(&l.pat, syn::Pat::Slice(sl) if sl.elems.len() == 2) && els_ok && src_ok
                            }
                            _ => false,
                        };
                        if !two || !pat_ok {
                            die("unsupported", &format!("{}: R59 side condition: not `for X in V.windows(2) {{ let [A, B] = X else {{ unreachable!() }}; .. }}`", self.rw.fn_path));
                        }
                        let l = match first { Some(syn::Stmt::Local(l)) => l, _ => unreachable!() };
                        let sl = match &l.pat { syn::Pat::Slice(sl) => sl, _ => unreachable!() };
                        let a = self.rw.text(&sl.elems[0]).to_string();
                        let b = self.rw.text(&sl.elems[1]).to_string();
                        let v = self.render(&wn.receiver);
                        self.edits.push(Edit { range: rng(&*f.pat), text: "__pr".to_string(), prio: 0 });
                        self.edits.push(Edit { range: rng(first.unwrap()), text: format!("let ({a}, {b}) = __pr;"), prio: 0 });
                        self.rw.log.push("R59 for X in V.windows(2) { let [A, B] = X else { unreachable!() }; .. } -> loop over __windows2(&V)".to_string());
                        // the iterated expression is replaced below through the ordinary loop handling: V.windows(2) -> __windows2(&V)
                        let er = rng(&*f.expr);
                        let key = format!("{}", self.rw.native_loops);
                        self.rw.native_loops += 1;
                        let (iter, hdr, bs, be) = self.rw.loop_parts(&key);
                        self.edits.push(Edit { range: er, text: format!("{iter}__windows2(&{v})"), prio: 0 });
                        let open = f.body.brace_token.span.open().byte_range();
                        let close = f.body.brace_token.span.close().byte_range();
                        if !hdr.is_empty() { self.edits.push(Edit { range: open.start..open.start, text: hdr, prio: 0 }); }
                        if !bs.is_empty() { self.edits.push(Edit { range: open.end..open.end, text: bs, prio: -9 }); }
                        if !be.is_empty() { self.edits.push(Edit { range: close.start..close.start, text: be, prio: 9 }); }
                        // R15 on the rest of the body: `if C { continue; }` -> nested if-not
                        for st in f.body.stmts.iter().skip(1) {
                            if let syn::Stmt::Expr(syn::Expr::If(ife), _) = st {
                                let only_continue = ife.else_branch.is_none() && ife.then_branch.stmts.len() == 1 && matches!(&ife.then_branch.stmts[0], syn::Stmt::Expr(syn::Expr::Continue(c), _) if c.label.is_none());
                                if only_continue {
                                    let cond = self.render(&ife.cond);
                                    self.edits.push(Edit { range: rng(st), text: format!("if !({cond}) {{"), prio: 0 });
                                    self.edits.push(Edit { range: close.start..close.start, text: "}\n".to_string(), prio: 8 });
                                    continue;
                                }
                            }
                            self.visit_stmt(st);
                        }
                        return;
                    }
                }
                // R50: `for X in [A, B, ..] { BODY }` (array literal, X a plain name, no break / continue in BODY)
                //   -> `{ let X = A; BODY } { let X = B; BODY } ..`
                if self.rw.on("R50") {
                    if let (syn::Expr::Array(arr), syn::Pat::Ident(pi)) = (&*f.expr, &*f.pat) {
                        if closure_has_control_flow(&syn::Expr::Block(syn::ExprBlock { attrs: vec![], label: None, block: f.body.clone() })) {
                            die("unsupported", &format!("{}: R50 side condition: control flow in the body of a loop over an array literal", self.rw.fn_path));
                        }
                        let x = pi.ident.to_string();
                        let body = {
                            let mut c = Collector { rw: self.rw, edits: vec![] };
                            for st in &f.body.stmts {
                                c.visit_stmt(st);
                            }
                            let edits = std::mem::take(&mut c.edits);
                            let r = f.body.brace_token.span.open().byte_range().end..f.body.brace_token.span.close().byte_range().start;
                            apply_edits(self.rw.src, r, edits)
                        };
                        let mut t = String::new();
                        for el in &arr.elems {
                            let v = self.render(el);
                            t.push_str(&format!("{{ let {x} = {v}; {body} }}\n"));
                        }
                        self.rw.log.push(format!("R50 for {x} in [{} elements] -> unrolled", arr.elems.len()));
                        self.edits.push(Edit { range: rng(e), text: t, prio: 0 });
                        return;
                    }
                }
                self.loop_native(Some(&f.expr), &f.body, Some(rng(e).start));
                visit::visit_expr(self, e);
            }
            syn::Expr::While(w) => {
                self.loop_native(None, &w.body, None);
                visit::visit_expr(self, e);
            }
            syn::Expr::Loop(l) => {
                self.loop_native(None, &l.body, None);
                visit::visit_expr(self, e);
            }
            _ => visit::visit_expr(self, e),
        }
    }
}

impl<'r, 'a> Collector<'r, 'a> {
    fn local_name_ty(&self, l: &syn::Local) -> Option<(String, Option<String>)> {
        match &l.pat {
            syn::Pat::Type(pt) => match &*pt.pat {
                syn::Pat::Ident(pi) if pi.by_ref.is_none() => Some((pi.ident.to_string(), Some(self.rw.text(&*pt.ty).to_string()))),
                _ => None,
            },
            syn::Pat::Ident(pi) if pi.by_ref.is_none() => Some((pi.ident.to_string(), None)),
            _ => None,
        }
    }

    /// closure spec of a hoisted closure: `@loop KEY` with `@closure_sig` and `@loop_ensures`
    fn hoisted_closure(&mut self, key: &str, cl: &syn::ExprClosure, rule: &str) -> String {
        if cl.capture.is_some() || cl.inputs.len() != 1 {
            die("unsupported", &format!("{}: {rule} side condition violated (move closure / several params)", self.rw.fn_path));
        }
        let ckey = format!("{key}c");
        let sig = match self.rw.loops.iter().find(|l| l.key == ckey).and_then(|l| l.closure_sig.clone()) {
            Some(s) => s,
            None => die("malformed-unit", &format!("{}: {rule} needs `@loop {ckey}` with a @closure_sig for the hoisted closure", self.rw.fn_path)),
        };
        let (_i, hdr, _bs, _be) = self.rw.loop_parts(&ckey);
        let body = self.render(&cl.body);
        format!("{sig}{hdr} {body}")
    }

    /// R16: `let x[: RoaringBitmap] = RoaringBitmap::from_iter(ITER.map(|p| B));`
    ///  -> `let mut x: RoaringBitmap = RoaringBitmap::default(); for p in ITER { x.insert(B); }`
    fn try_r16(&mut self, l: &syn::Local) -> Option<String> {
        let init = l.init.as_ref()?;
        if init.diverge.is_some() {
            return None;
        }
        let (name, _ty) = self.local_name_ty(l)?;
        let call = match &*init.expr {
            syn::Expr::Call(c) => c,
            _ => return None,
        };
        if norm(self.rw.text(&*call.func)) != "RoaringBitmap::from_iter" || call.args.len() != 1 {
            return None;
        }
        let mp = is_method(&call.args[0], "map")?;
        if mp.args.len() != 1 {
            return None;
        }
        let cl = match &mp.args[0] {
            syn::Expr::Closure(c) => c,
            _ => return None,
        };
        if cl.capture.is_some() || cl.inputs.len() != 1 || closure_has_control_flow(&cl.body) {
            die("unsupported", &format!("{}: R16 side condition violated (move closure / several params / control flow in body)", self.rw.fn_path));
        }
        let key = self.rw.next_key("R16");
        let (iter, hdr, bs, be) = self.rw.loop_parts(&key);
        let wrap = self.rw.loops.iter().find(|l| l.key == key).and_then(|l| l.wrap.clone());
        let pat = self.rw.text(&cl.inputs[0]).to_string();
        let mut recv = self.render(&mp.receiver);
        if let Some(w) = wrap {
            // iteration over a bitmap: `B.iter()` -> `W(&B)`
            if let Some(it) = is_method(&mp.receiver, "iter") {
                recv = format!("{w}(&({}))", self.render(&it.receiver));
            } else {
                recv = format!("{w}(&({recv}))");
            }
        }
        let body = self.render(&cl.body);
        self.rw.log.push(format!("R16 let {name} = RoaringBitmap::from_iter(..map(..)) -> loop {key}"));
        Some(format!("let mut {name}: RoaringBitmap = RoaringBitmap::default(); for {pat} in {iter}{recv} {hdr}{{ {bs}{name}.insert({body}); {be}}}"))
    }

    /// R17: `let x = RoaringBitmap::from_sorted_iter(B.iter().filter(CL)).unwrap();`
    ///  -> `let __flt = CL; let mut x = RoaringBitmap::default(); for e in __rb_vec(&B) { if __flt(&e) { x.insert(e); } }`
    /// (a bitmap iterates in ascending order, so from_sorted_iter cannot fail and yields the set)
    fn try_r17(&mut self, l: &syn::Local) -> Option<String> {
        let init = l.init.as_ref()?;
        if init.diverge.is_some() {
            return None;
        }
        let (name, _ty) = self.local_name_ty(l)?;
        let unw = is_method(&init.expr, "unwrap")?;
        let call = match &*unw.receiver {
            syn::Expr::Call(c) => c,
            _ => return None,
        };
        if norm(self.rw.text(&*call.func)) != "RoaringBitmap::from_sorted_iter" || call.args.len() != 1 {
            return None;
        }
        let flt = is_method(&call.args[0], "filter")?;
        let it = match is_method(&flt.receiver, "iter") {
            Some(i) => i,
            None => die("unsupported", &format!("{}: R17 side condition: the filtered iterator is not `BITMAP.iter()`", self.rw.fn_path)),
        };
        let cl = match flt.args.get(0) {
            Some(syn::Expr::Closure(c)) => c,
            _ => return None,
        };
        let key = self.rw.next_key("R17");
        let (iter, hdr, bs, be) = self.rw.loop_parts(&key);
        let clos = self.hoisted_closure(&key, cl, "R17");
        let bm = self.render(&it.receiver);
        self.rw.log.push(format!("R17 let {name} = RoaringBitmap::from_sorted_iter(B.iter().filter(..)).unwrap() -> loop {key}"));
        Some(format!("let __flt_{name} = {clos}; let mut {name}: RoaringBitmap = RoaringBitmap::default(); for __e in {iter}__rb_vec(&({bm})) {hdr}{{ {bs}if __flt_{name}(&__e) {{ {name}.insert(__e); }} {be}}}"))
    }

    /// R26: `let x[: UstrMap<T>] = M.iter()[.filter(|P1| C)].map(|(a, b)| (K, V)).collect();`  (M a UstrMap)
    ///  -> `let mut x: UstrMap<_> = UstrMap::default(); for __e in __map_entries(&M) { [let __keep = { let P1 = &__e; C }; if __keep] { let (a, b) = __e; x.insert(K, V); } }`
    fn try_r26(&mut self, l: &syn::Local) -> Option<String> {
        let init = l.init.as_ref()?;
        if init.diverge.is_some() {
            return None;
        }
        let (name, ty) = self.local_name_ty(l)?;
        let coll = is_method(&init.expr, "collect")?;
        let mp = is_method(&coll.receiver, "map")?;
        let cl = match mp.args.get(0) {
            Some(syn::Expr::Closure(c)) if c.inputs.len() == 1 => c,
            _ => return None,
        };
        // the mapped value must be a pair: (K, V)
        let (k, v) = match &*cl.body {
            syn::Expr::Tuple(t) if t.elems.len() == 2 => (self.render(&t.elems[0]), self.render(&t.elems[1])),
            _ => return None,
        };
        let (recv, filt) = match is_method(&mp.receiver, "filter") {
            Some(f) => match f.args.get(0) {
                Some(syn::Expr::Closure(c)) if c.inputs.len() == 1 && c.capture.is_none() && !closure_has_control_flow(&c.body) => (&*f.receiver, Some(c)),
                _ => return None,
            },
            None => (&*mp.receiver, None),
        };
        let it = is_method(recv, "iter")?;
        if let Some(t) = &ty {
            if !t.replace(' ', "").starts_with("UstrMap<") {
                return None;
            }
        }
        let key = self.rw.next_key("R26");
        let (iter, hdr, bs, be) = self.rw.loop_parts(&key);
        let m = self.render(&it.receiver);
        let pat = self.rw.text(&cl.inputs[0]).to_string();
        let guard = match filt {
            Some(c) => format!("let __keep = {{ let {} = &__e; {} }}; if __keep ", self.rw.text(&c.inputs[0]), self.render(&c.body)),
            None => String::new(),
        };
        let vec_ty = ty.unwrap_or_else(|| "UstrMap<_>".to_string());
        self.rw.log.push(format!("R26 let {name} = M.iter()[.filter(..)].map(..).collect() into a UstrMap -> loop {key}"));
        Some(format!("let mut {name}: {vec_ty} = UstrMap::default(); for __e in {iter}__map_entries(&{m}) {hdr}{{ {bs}{guard}{{ let {pat} = __e; {name}.insert({k}, {v}); }} {be}}}"))
    }

    /// R48: `let x: Vec<T> = B.iter().ADAPTER*.collect();` where B is a roaring bitmap and every ADAPTER is
    /// `filter(|p| C)`, `map(|p| E)` or `filter_map(|p| E)`
    ///  -> `let mut x: Vec<T> = Vec::new(); let __bs_x = __rb_vec(&B); let ghost __bs_x_g = __bs_x@;
    ///      for __p0 in __bs_x { adapters as nested `if` / `let` / `if let Some(..)`; x.push(last) }`
    /// (an element runs through the adapters in order, as the lazy chain drives it; a bitmap iterates
    /// its members in ascending order by value; `filter` sees a reference, `map` / `filter_map` the value)
    fn try_r48(&mut self, l: &syn::Local) -> Option<String> {
        let init = l.init.as_ref()?;
        if init.diverge.is_some() {
            return None;
        }
        let (name, ty) = self.local_name_ty(l)?;
        let coll = is_method(&init.expr, "collect")?;
        // walk the adapters back to `.iter()`
        let mut adapters: Vec<&syn::ExprMethodCall> = vec![];
        let mut cur: &syn::Expr = &coll.receiver;
        let mut standin = false;
        let base = loop {
            match cur {
                syn::Expr::MethodCall(m) if (m.method == "filter" || m.method == "map" || m.method == "filter_map") && m.args.len() == 1 => {
                    adapters.push(m);
                    cur = &m.receiver;
                }
                syn::Expr::MethodCall(m) if m.method == "iter" && m.args.is_empty() => break &*m.receiver,
                // R48v: the chain starts at a stand-in that already returns the vector of what the real iterator yields
                syn::Expr::MethodCall(m) if self.rw.on("R48v") && m.method == "iter_transitions_from" => { standin = true; break cur; }
                _ => return None,
            }
        };
        adapters.reverse();
        if adapters.is_empty() {
            return None;
        }
        let vec_ty = ty.unwrap_or_else(|| "Vec<_>".to_string());
        if !vec_ty.replace(' ', "").starts_with("Vec<") {
            die("unsupported", &format!("{}: R48 side condition: declared type `{vec_ty}` is not Vec<_>", self.rw.fn_path));
        }
        let key = self.rw.next_key("R48");
        let (iter, hdr, bs, be) = self.rw.loop_parts(&key);
        let src = self.render(base);
        let mut open = String::new();
        let mut close = String::new();
        let mut cur_var = "__p0".to_string();
        for (n, a) in adapters.iter().enumerate() {
            let cl = match &a.args[0] {
                syn::Expr::Closure(c) if c.capture.is_none() && c.inputs.len() == 1 && !closure_has_control_flow(&c.body) => c,
                _ => die("unsupported", &format!("{}: R48 side condition violated (adapter argument is not a plain one-parameter closure)", self.rw.fn_path)),
            };
            let pat = self.rw.text(&cl.inputs[0]).to_string();
            let body = self.render(&cl.body);
            let next = format!("__p{}", n + 1);
            if a.method == "filter" {
                open.push_str(&format!("if {{ let {pat} = &{cur_var}; {body} }} {{ "));
                close.push_str(" }");
            } else if a.method == "map" {
                open.push_str(&format!("let {next} = {{ let {pat} = {cur_var}; {body} }}; "));
                cur_var = next;
            } else {
                open.push_str(&format!("if let Some({next}) = {{ let {pat} = {cur_var}; {body} }} {{ "));
                close.push_str(" }");
                cur_var = next;
            }
        }
        let mutk = match &l.pat { syn::Pat::Type(pt) => matches!(&*pt.pat, syn::Pat::Ident(pi) if pi.mutability.is_some()), syn::Pat::Ident(pi) => pi.mutability.is_some(), _ => false };
        let _ = mutk;
        if standin {
            self.rw.log.push(format!("R48v let {name} = STANDIN(..)..{} adapters...collect() -> loop {key} over the stand-in's vector", adapters.len()));
            return Some(format!("let mut {name}: {vec_ty} = Vec::new(); let __bs_{name} = {src}; let ghost __bs_{name}_g = __bs_{name}@; for __p0 in {iter}__bs_{name} {hdr}{{ {bs}{open}{name}.push({cur_var});{close} {be}}}"));
        }
        self.rw.log.push(format!("R48 let {name} = B.iter()..{} adapters...collect() -> loop {key} over __rb_vec", adapters.len()));
        Some(format!("let mut {name}: {vec_ty} = Vec::new(); let __bs_{name} = __rb_vec(&{src}); let ghost __bs_{name}_g = __bs_{name}@; for __p0 in {iter}__bs_{name} {hdr}{{ {bs}{open}{name}.push({cur_var});{close} {be}}}"))
    }

    /// R60: `let mut x: IndexSet<T> = P.elems().filter_map(|p| B).collect();`  (P an intern pool; `elems()` is a
    /// stand-in returning the vector of the stored elements in order)
    ///  -> `let mut x: IndexSet<T> = IndexSet::default(); let __es_x = P.elems(); let ghost __es_x_g = __es_x@;
    ///      for p in __es_x { if let Some(__v) = B { x.insert(__v); } }`
    /// (collect() into an IndexSet inserts the items in order; an item equal to a stored one is dropped)
    fn try_r60(&mut self, l: &syn::Local) -> Option<String> {
        let init = l.init.as_ref()?;
        if init.diverge.is_some() {
            return None;
        }
        let (name, ty) = self.local_name_ty(l)?;
        let ty = ty?;
        if !ty.replace(' ', "").starts_with("IndexSet<") {
            return None;
        }
        let coll = is_method(&init.expr, "collect")?;
        let fm = is_method(&coll.receiver, "filter_map")?;
        let el = is_method(&fm.receiver, "elems")?;
        let cl = match fm.args.get(0) {
            Some(syn::Expr::Closure(c)) => c,
            _ => return None,
        };
        if cl.capture.is_some() || cl.inputs.len() != 1 || closure_has_control_flow(&cl.body) {
            die("unsupported", &format!("{}: R60 side condition violated (move closure / several params / control flow in body)", self.rw.fn_path));
        }
        let key = self.rw.next_key("R60");
        let (iter, hdr, bs, be) = self.rw.loop_parts(&key);
        let pat = self.rw.text(&cl.inputs[0]).to_string();
        let pool = self.render(&el.receiver);
        let body = self.render(&cl.body);
        self.rw.log.push(format!("R60 let {name}: IndexSet = P.elems().filter_map(..).collect() -> loop {key} with insert"));
        Some(format!("let mut {name}: {ty} = IndexSet::default(); let __es_{name} = {pool}.elems(); let ghost __es_{name}_g = __es_{name}@; for {pat} in {iter}__es_{name} {hdr}{{ {bs}if let Some(__v) = {body} {{ {name}.insert(__v); }} {be}}}"))
    }

    /// R44: `let x: BTreeMap<K, V> = SRC.iter().map(|PAT| (A, B)).collect();`  (SRC evaluates to a Vec)
    ///  -> `let __src_x = SRC; let ghost __src_x_g = __src_x@; let mut x: BTreeMap<K, V> = BTreeMap::new(); for PAT in __src_x.iter() { x.insert(A, B); }`
    /// (collect() into a map inserts the pairs in order, later pairs replacing earlier ones with the same key)
    fn try_r44(&mut self, l: &syn::Local) -> Option<String> {
        let init = l.init.as_ref()?;
        if init.diverge.is_some() {
            return None;
        }
        let (name, ty) = self.local_name_ty(l)?;
        let ty = ty?;
        let is_hash = ty.replace(' ', "").starts_with("HashMap<");
        if !ty.replace(' ', "").starts_with("BTreeMap<") && !is_hash {
            return None;
        }
        let coll = is_method(&init.expr, "collect")?;
        let mp = is_method(&coll.receiver, "map")?;
        let it = is_method(&mp.receiver, "iter")?;
        let cl = match mp.args.get(0) {
            Some(syn::Expr::Closure(c)) => c,
            _ => return None,
        };
        if cl.capture.is_some() || cl.inputs.len() != 1 || closure_has_control_flow(&cl.body) {
            die("unsupported", &format!("{}: R44 side condition violated (move closure / several params / control flow in body)", self.rw.fn_path));
        }
        let tup = match &*cl.body {
            syn::Expr::Tuple(t) if t.elems.len() == 2 => t,
            syn::Expr::Block(b) if b.block.stmts.len() == 1 => match &b.block.stmts[0] {
                syn::Stmt::Expr(syn::Expr::Tuple(t), None) if t.elems.len() == 2 => t,
                _ => die("unsupported", &format!("{}: R44 side condition: the closure body is not a pair", self.rw.fn_path)),
            },
            _ => die("unsupported", &format!("{}: R44 side condition: the closure body is not a pair", self.rw.fn_path)),
        };
        let key = self.rw.next_key("R44");
        let (iter, hdr, bs, be) = self.rw.loop_parts(&key);
        let pat = self.rw.text(&cl.inputs[0]).to_string();
        let src = self.render(&it.receiver);
        let a = self.render(&tup.elems[0]);
        let b = self.render(&tup.elems[1]);
        self.rw.log.push(format!("R44 let {name}: BTreeMap = SRC.iter().map(..).collect() -> loop {key} with insert"));
        let ctor = if is_hash { "Default::default()" } else { "BTreeMap::new()" };
        Some(format!("let __src_{name} = &({src}); let ghost __src_{name}_g = __src_{name}@; let mut {name}: {ty} = {ctor}; for {pat} in {iter}__src_{name}.iter() {hdr}{{ {bs}{name}.insert({a}, {b}); {be}}}"))
    }

    /// R3m: `let x: Vec<T> = M.iter().filter_map(|PAT| B).collect();` (M an index map)
    ///  -> `let mut x: Vec<T> = Vec::new(); let __es_x = __imap_entries(&M); let ghost __es_x_g = __es_x@; for PAT in __es_x { if let Some(__v) = B { x.push(__v); } }`
    /// (entries in the map's own order; B is evaluated once per entry, as by the adapter)
    fn try_r3m(&mut self, l: &syn::Local) -> Option<String> {
        let init = l.init.as_ref()?;
        if init.diverge.is_some() {
            return None;
        }
        let (name, ty) = self.local_name_ty(l)?;
        let coll = is_method(&init.expr, "collect")?;
        let fm = is_method(&coll.receiver, "filter_map")?;
        let it = is_method(&fm.receiver, "iter")?;
        let cl = match fm.args.get(0) {
            Some(syn::Expr::Closure(c)) => c,
            _ => return None,
        };
        if cl.capture.is_some() || cl.inputs.len() != 1 || closure_has_control_flow(&cl.body) {
            die("unsupported", &format!("{}: R3m side condition violated (move closure / several params / control flow in body)", self.rw.fn_path));
        }
        let vec_ty = ty.unwrap_or_else(|| "Vec<_>".to_string());
        if !vec_ty.replace(' ', "").starts_with("Vec<") {
            die("unsupported", &format!("{}: R3m side condition: declared type `{vec_ty}` is not Vec<_>", self.rw.fn_path));
        }
        let key = self.rw.next_key("R3m");
        let (iter, hdr, bs, be) = self.rw.loop_parts(&key);
        let pat = self.rw.text(&cl.inputs[0]).to_string();
        let map = self.render(&it.receiver);
        let body = self.render(&cl.body);
        self.rw.log.push(format!("R3m let {name} = M.iter().filter_map(..).collect() -> loop {key} over __imap_entries"));
        Some(format!("let mut {name}: {vec_ty} = Vec::new(); let __es_{name} = __imap_entries(&{map}); let ghost __es_{name}_g = __es_{name}@; for {pat} in {iter}__es_{name} {hdr}{{ {bs}if let Some(__v) = {body} {{ {name}.push(__v); }} {be}}}"))
    }

    /// R33: `let x: Vec<Ustr> = M.keys().filter(|p| B).copied().collect();`
    ///  -> `let __keys_x = __map_key_refs(&M); let mut x: Vec<Ustr> = Vec::new(); for p in __keys_x.iter() { if B { x.push(**p); } }`
    /// (p has the type `&&Ustr` in both forms; the keys come in the map's own, unspecified, order)
    fn try_r33(&mut self, l: &syn::Local) -> Option<String> {
        let init = l.init.as_ref()?;
        if init.diverge.is_some() {
            return None;
        }
        let (name, ty) = self.local_name_ty(l)?;
        let coll = is_method(&init.expr, "collect")?;
        let copied = is_method(&coll.receiver, "copied")?;
        let flt = is_method(&copied.receiver, "filter")?;
        let (keys, refs_fn) = match is_method(&flt.receiver, "keys") {
            Some(k) => (k, "__map_key_refs"),
            None => (is_method(&flt.receiver, "iter")?, "__idset_refs"),
        };
        let cl = match flt.args.get(0) {
            Some(syn::Expr::Closure(c)) => c,
            _ => return None,
        };
        if cl.capture.is_some() || cl.inputs.len() != 1 || !matches!(cl.inputs[0], syn::Pat::Ident(_)) || closure_has_control_flow(&cl.body) {
            die("unsupported", &format!("{}: R33 side condition violated (move closure / pattern parameter / control flow in body)", self.rw.fn_path));
        }
        let vec_ty = ty.unwrap_or_else(|| "Vec<_>".to_string());
        if !vec_ty.replace(' ', "").starts_with("Vec<") {
            die("unsupported", &format!("{}: R33 side condition: declared type `{vec_ty}` is not Vec<_>", self.rw.fn_path));
        }
        let key = self.rw.next_key("R33");
        let (iter, hdr, bs, be) = self.rw.loop_parts(&key);
        let pat = self.rw.text(&cl.inputs[0]).to_string();
        let map = self.render(&keys.receiver);
        let body = self.render(&cl.body);
        self.rw.log.push(format!("R33 let {name} = M.keys() / S.iter() .filter(..).copied().collect() -> loop {key} over {refs_fn}"));
        Some(format!("let __keys_{name} = {refs_fn}(&{map}); let mut {name}: {vec_ty} = Vec::new(); for {pat} in {iter}__keys_{name}.iter() {hdr}{{ {bs}if {body} {{ {name}.push(**{pat}); }} {be}}}"))
    }

    fn loop_after_text(&mut self, key: &str) -> String {
        let mut after = String::new();
        for p in self.rw.proofs.iter_mut() {
            if p.anchor == key && p.mode == "loopafter" {
                p.used = true;
                after.push_str(&format!("\nproof {{\n{}}}\n", p.text));
            }
        }
        after
    }

    /// R69: `let [mut] x: UstrMap<T> = M.keys().map(|p| E).collect();`  (E a pair)
    ///  -> `let __keys_x = __map_key_refs(&M); let ghost __keys_x_g = __keys_x@; let mut x: UstrMap<T> = UstrMap::default();
    ///      for p in __keys_x { let __kv = E; x.insert(__kv.0, __kv.1); }`
    /// (`FromIterator` of a hash map inserts the pairs one after the other; p has the type `&Ustr` in both forms)
    fn try_r69(&mut self, l: &syn::Local) -> Option<String> {
        let init = l.init.as_ref()?;
        if init.diverge.is_some() {
            return None;
        }
        let (name, ty) = self.local_name_ty(l)?;
        let coll = is_method(&init.expr, "collect")?;
        let mp = is_method(&coll.receiver, "map")?;
        let keys = is_method(&mp.receiver, "keys")?;
        let cl = match mp.args.get(0) {
            Some(syn::Expr::Closure(c)) => c,
            _ => return None,
        };
        let map_ty = ty?;
        if !map_ty.replace(' ', "").starts_with("UstrMap<") {
            return None;
        }
        if cl.capture.is_some() || cl.inputs.len() != 1 || !matches!(cl.inputs[0], syn::Pat::Ident(_)) || closure_has_control_flow(&cl.body) {
            die("unsupported", &format!("{}: R69 side condition violated (move closure / pattern parameter / control flow in body)", self.rw.fn_path));
        }
        let key = self.rw.next_key("R69");
        let (iter, hdr, bs, be) = self.rw.loop_parts(&key);
        let after = self.loop_after_text(&key);
        let pat = self.rw.text(&cl.inputs[0]).to_string();
        let map = self.render(&keys.receiver);
        let body = self.render(&cl.body);
        self.rw.log.push(format!("R69 let {name}: UstrMap<_> = M.keys().map(..).collect() -> loop {key} over __map_key_refs, one insert per key"));
        Some(format!("let __keys_{name} = __map_key_refs(&{map}); let ghost __keys_{name}_g = __keys_{name}@; let mut {name}: {map_ty} = UstrMap::default(); for {pat} in {iter}__keys_{name} {hdr}{{ {bs}let __kv = {body}; {name}.insert(__kv.0, __kv.1); {be}}}{after}"))
    }

    /// R70: `let x: UstrSet = M.into_iter().filter(|P1| B1).map(|P2| E2).collect();`  (M a UstrMap taken by value)
    ///  -> `let __es_x = __map_into_entries(M); let ghost __es_x_g = __es_x@; let mut x: UstrSet = UstrSet::default();
    ///      for __e in __es_x { if { let P1 = &__e; B1 } { let P2 = __e; x.insert(E2); } }`
    /// (`filter` hands its closure a reference to the item, `map` the item itself)
    fn try_r70(&mut self, l: &syn::Local) -> Option<String> {
        let init = l.init.as_ref()?;
        if init.diverge.is_some() {
            return None;
        }
        let (name, ty) = self.local_name_ty(l)?;
        let coll = is_method(&init.expr, "collect")?;
        let mp = is_method(&coll.receiver, "map")?;
        let flt = is_method(&mp.receiver, "filter")?;
        let ii = is_method(&flt.receiver, "into_iter")?;
        let (c1, c2) = match (flt.args.get(0), mp.args.get(0)) {
            (Some(syn::Expr::Closure(a)), Some(syn::Expr::Closure(b))) => (a, b),
            _ => return None,
        };
        let set_ty = ty?;
        if set_ty.replace(' ', "") != "UstrSet" {
            return None;
        }
        if !matches!(&*ii.receiver, syn::Expr::Path(_)) {
            die("unsupported", &format!("{}: R70 side condition: the map consumed by into_iter() is not a plain variable", self.rw.fn_path));
        }
        for cl in [c1, c2] {
            if cl.capture.is_some() || cl.inputs.len() != 1 || closure_has_control_flow(&cl.body) {
                die("unsupported", &format!("{}: R70 side condition violated (move closure / several params / control flow in body)", self.rw.fn_path));
            }
        }
        let key = self.rw.next_key("R70");
        let (iter, hdr, bs, be) = self.rw.loop_parts(&key);
        let after = self.loop_after_text(&key);
        let p1 = self.rw.text(&c1.inputs[0]).to_string();
        let p2 = self.rw.text(&c2.inputs[0]).to_string();
        let map = self.render(&ii.receiver);
        let b1 = self.render(&c1.body);
        let e2 = self.render(&c2.body);
        self.rw.log.push(format!("R70 let {name}: UstrSet = M.into_iter().filter(..).map(..).collect() -> loop {key} over __map_into_entries, one insert per kept entry"));
        Some(format!("let __es_{name} = __map_into_entries({map}); let ghost __es_{name}_g = __es_{name}@; let mut {name}: {set_ty} = UstrSet::default(); for __e in {iter}__es_{name} {hdr}{{ {bs}if {{ let {p1} = &__e; {b1} }} {{ let {p2} = __e; {name}.insert({e2}); }} {be}}}{after}"))
    }

    /// R3f: `let x: Vec<T> = ITER.filter(CL).cloned().collect();`
    ///  -> `let __flt = CL; let mut x: Vec<T> = Vec::new(); for e in ITER { if __flt(&e) { x.push(e.clone()); } }`
    fn try_r3f(&mut self, l: &syn::Local) -> Option<String> {
        let init = l.init.as_ref()?;
        if init.diverge.is_some() {
            return None;
        }
        let (name, ty) = self.local_name_ty(l)?;
        let coll = is_method(&init.expr, "collect")?;
        let cloned = is_method(&coll.receiver, "cloned")?;
        let flt = is_method(&cloned.receiver, "filter")?;
        let cl = match flt.args.get(0) {
            Some(syn::Expr::Closure(c)) => c,
            _ => return None,
        };
        let vec_ty = ty.unwrap_or_else(|| "Vec<_>".to_string());
        if !vec_ty.replace(' ', "").starts_with("Vec<") {
            die("unsupported", &format!("{}: R3f side condition: declared type `{vec_ty}` is not Vec<_>", self.rw.fn_path));
        }
        let key = self.rw.next_key("R3f");
        let (iter, hdr, bs, be) = self.rw.loop_parts(&key);
        let clos = self.hoisted_closure(&key, cl, "R3f");
        let recv = self.render(&flt.receiver);
        self.rw.log.push(format!("R3f let {name} = ..filter(..).cloned().collect() -> loop {key}"));
        Some(format!("let __flt_{name} = {clos}; let mut {name}: {vec_ty} = Vec::new(); for __e in {iter}{recv} {hdr}{{ {bs}if __flt_{name}(&__e) {{ {name}.push(__e.clone()); }} {be}}}"))
    }

    /// R3: `let x: Vec<T> = ITER.map(|p| B).collect();`  (optionally `.collect::<..>()`)
    ///  -> `let mut x: Vec<T> = Vec::new(); for p in ITER { x.push(B); }`
    /// R3r: `... .collect::<Result<..>>()?;` / `.collect::<Result<_>>()?` with B containing `?` allowed
    fn try_r3(&mut self, l: &syn::Local) -> Option<String> {
        let init = l.init.as_ref()?;
        if init.diverge.is_some() {
            return None;
        }
        let (pat_ident, ty) = match &l.pat {
            syn::Pat::Type(pt) => match &*pt.pat {
                syn::Pat::Ident(pi) if pi.by_ref.is_none() => (pi.ident.to_string(), Some(self.rw.text(&*pt.ty).to_string())),
                _ => return None,
            },
            syn::Pat::Ident(pi) if pi.by_ref.is_none() => (pi.ident.to_string(), None),
            _ => return None,
        };
        let mut e: &syn::Expr = &init.expr;
        let mut try_q = false;
        if let syn::Expr::Try(t) = e {
            try_q = true;
            e = &t.expr;
        }
        let coll = is_method(e, "collect")?;
        if !coll.args.is_empty() {
            return None;
        }
        let map = is_method(&coll.receiver, "map")?;
        if map.args.len() != 1 {
            return None;
        }
        let cl = match &map.args[0] {
            syn::Expr::Closure(c) => c,
            _ => return None,
        };
        if cl.capture.is_some() || cl.inputs.len() != 1 {
            die("unsupported", &format!("{}: R3 side condition violated (move closure / several params)", self.rw.fn_path));
        }
        let turbofish = coll.turbofish.as_ref().map(|t| self.rw.text(t).to_string());
        let is_result = try_q;
        if is_result {
            let tf = turbofish.clone().unwrap_or_default();
            if !tf.contains("Result") {
                die("unsupported", &format!("{}: R3r side condition: `?` after collect without Result turbofish", self.rw.fn_path));
            }
        }
        let vec_ty = match (&ty, is_result) {
            (Some(t), _) => t.clone(),
            (None, _) => "Vec<_>".to_string(),
        };
        if !vec_ty.replace(' ', "").starts_with("Vec<") {
            die("unsupported", &format!("{}: R3 side condition: declared type `{vec_ty}` is not Vec<_>", self.rw.fn_path));
        }
        let key = self.rw.next_key("R3");
        let (iter, hdr, bs, be) = self.rw.loop_parts(&key);
        let mut pat = self.rw.text(&cl.inputs[0]).to_string();
        let mut recv = self.render(&map.receiver);
        let body = self.render(&cl.body);
        let mut push = if is_result { format!("{pat_ident}.push(({body})?);") } else { format!("{pat_ident}.push({body});") };
        // R3e: `ITER.enumerate().map(|(i, p)| B)`: the index becomes an explicit usize counter
        // declared before the loop and incremented after the push (what Enumerate::next does)
        if let Some(en) = is_method(&map.receiver, "enumerate") {
            let (i_name, p_name) = match &cl.inputs[0] {
                syn::Pat::Tuple(t) if t.elems.len() == 2 => match (&t.elems[0], &t.elems[1]) {
                    (syn::Pat::Ident(a), syn::Pat::Ident(b)) if a.by_ref.is_none() && b.by_ref.is_none() => (a.ident.to_string(), b.ident.to_string()),
                    _ => die("unsupported", &format!("{}: R3e side condition: closure pattern is not `(i, x)`", self.rw.fn_path)),
                },
                _ => die("unsupported", &format!("{}: R3e side condition: closure pattern is not `(i, x)`", self.rw.fn_path)),
            };
            if !en.args.is_empty() {
                return None;
            }
            recv = self.render(&en.receiver);
            pat = p_name;
            push = format!("{push} {i_name} += 1;");
            self.rw.log.push(format!("R3e enumerate() index `{i_name}` -> explicit counter in loop {key}"));
            return Some(format!("let mut {pat_ident}: {vec_ty} = Vec::new(); let mut {i_name}: usize = 0; for {pat} in {iter}{recv} {hdr}{{ {bs}{push} {be}}}"));
        }
        self.rw.log.push(format!("R3{} let {pat_ident} = ..map(..).collect() -> loop {key}", if is_result { "r" } else { "" }));
        Some(format!("let mut {pat_ident}: {vec_ty} = Vec::new(); for {pat} in {iter}{recv} {hdr}{{ {bs}{push} {be}}}"))
    }
}
