//! Parser for unit description files (`*.ctr`).
//!
//! Line oriented. Every directive starts with `@` in column 0 (after optional spaces); the
//! lines that follow, up to the next directive, are the directive's text block.
//! Lines starting with `##` are comments.
//!
//!   @unit NAME
//!   @property C07 [C06 ...]        properties this unit serves (default owner of obligations)
//!   @use path::to::thing            extra `use` line for the generated file
//!   @prelude file.rs ...            files under /verif/prelude
//!   @spec file.rs ...               files next to the .ctr
//!
//!   @item module::name | module::Type::method | module::outer_fn::nested_fn
//!   @impl module                    whole trait impl; text block = header after `impl`, e.g.
//!        std::ops::Index<RegexNodeId> for [RegexNode]
//!   @method NAME                    (inside @impl) contracts for one method of the impl
//!   @mod NAME                       wrap the emitted item in `pub mod NAME { use super::*; .. }`
//!   @rules R1 R2 R4 R5 RL ...
//!   @ret NAME                       name the return value
//!   @attr                           text block = attribute line(s) put before the item
//!   @dropderive Clone ...
//!   @sig                            text block = recorded signature (lost-anchor check)
//!   @requires ID / @ensures ID      text block = one clause
//!   @decreases                      text block
//!   @loop KEY [ITERNAME]            KEY = ordinal of a native loop (0,1,..) or R1#0, R3#1 ..
//!   @invariant ID / @invariant_except_break ID / @loop_ensures ID / @loop_decreases
//!   @proof before|after "stmt text prefix" [nth]  | @proof start | @proof loopstart KEY | loopend KEY
//!   @canary NAME expect ID          text block: from-text, a line `=>`, to-text
use crate::die;

#[derive(Clone, Debug, Default)]
pub struct Clause {
    pub id: String,
    pub text: String,
}

#[derive(Clone, Debug, Default)]
pub struct LoopSpec {
    pub key: String,
    pub iter_name: Option<String>,
    /// R8: iterate over `WRAP(&(EXPR))` instead of `EXPR` (dependency container -> Vec of its elements in iteration order)
    pub wrap: Option<String>,
    /// with wrap=: bind the wrapped vector to this name first (`let NAME = WRAP(&(EXPR)); let ghost NAME_g = NAME@;`)
    /// so that invariants and later proof text can name the sequence iterated over
    pub bind: Option<String>,
    /// with bind=: `vlen=1` adds `proof { assert(NAME_g.len() == NAME.len()); }` after the binding
    pub vlen: bool,
    pub invariants: Vec<Clause>,
    pub invariants_except_break: Vec<Clause>,
    pub ensures: Vec<Clause>,
    pub decreases: Option<String>,
    /// R13: typed header of a hoisted closure, e.g. `|t: &T| -> (o: Ordering)`
    pub closure_sig: Option<String>,
    pub used: bool,
}

#[derive(Clone, Debug, Default)]
pub struct ProofSpec {
    pub mode: String, // before | after | start | loopstart | loopend | wrap
    pub anchor: String,
    pub nth: Option<usize>,
    pub text: String,
    pub used: bool,
}

#[derive(Clone, Debug, Default)]
pub struct ItemSpec {
    pub kind: String, // item | impl | method
    pub path: String,
    pub impl_header: String,
    pub in_mod: Option<String>,
    pub rules: Vec<String>,
    pub ret: Option<String>,
    pub attrs: Vec<String>,
    pub drop_derives: Vec<String>,
    pub drop_attrs: Vec<String>,
    /// drop `pub` / `pub(crate)` from the extracted fn (its contract names private spec functions)
    pub private: bool,
    /// the function is not verified here: it is emitted without body, with the contract the named
    /// unit proves for it (copied mechanically from that unit's .ctr)
    pub contract_of: Option<String>,
    pub sig: Option<String>,
    pub requires: Vec<Clause>,
    pub ensures: Vec<Clause>,
    pub decreases: Option<String>,
    pub loops: Vec<LoopSpec>,
    pub proofs: Vec<ProofSpec>,
    pub methods: Vec<ItemSpec>,
    pub property: Option<String>,
}

#[derive(Clone, Debug, Default)]
pub struct Canary {
    /// which occurrence of `from` (0-based) is replaced
    pub nth: usize,
    pub name: String,
    pub expect: String,
    pub from: String,
    pub to: String,
}

#[derive(Clone, Debug, Default)]
pub struct Unit {
    pub name: String,
    pub properties: Vec<String>,
    pub uses: Vec<String>,
    pub prelude: Vec<String>,
    pub spec: Vec<String>,
    pub items: Vec<ItemSpec>,
    pub canaries: Vec<Canary>,
}

fn parse_quoted(rest: &str) -> (String, String) {
    // returns (quoted content, remainder)
    let rest = rest.trim_start();
    if !rest.starts_with('"') {
        die("malformed-unit", &format!("expected quoted string in `{rest}`"));
    }
    let mut out = String::new();
    let mut chars = rest[1..].char_indices();
    while let Some((i, c)) = chars.next() {
        match c {
            '\\' => {
                if let Some((_, n)) = chars.next() {
                    out.push(n);
                }
            }
            '"' => return (out, rest[1 + i + 1..].to_string()),
            c => out.push(c),
        }
    }
    die("malformed-unit", &format!("unterminated quoted string in `{rest}`"));
}

pub fn parse_unit(text: &str) -> Unit {
    let mut unit = Unit::default();
    // split into (directive line, block)
    let mut dirs: Vec<(usize, String, String)> = vec![];
    for (ln, line) in text.lines().enumerate() {
        let t = line.trim_start();
        if t.starts_with("##") {
            continue;
        }
        if t.starts_with('@') && !t.starts_with("@OBL") {
            dirs.push((ln + 1, t.to_string(), String::new()));
        } else if let Some(last) = dirs.last_mut() {
            last.2.push_str(line);
            last.2.push('\n');
        } else if !t.is_empty() {
            die("malformed-unit", &format!("line {}: text before first directive", ln + 1));
        }
    }
    enum Ctx {
        None,
        Loop,
    }
    let mut ctx = Ctx::None;
    let mut in_method = false;
    macro_rules! cur_item {
        () => {{
            let it = unit.items.last_mut().unwrap_or_else(|| die("malformed-unit", "directive before @item"));
            if in_method {
                it.methods.last_mut().unwrap()
            } else {
                it
            }
        }};
    }
    for (ln, d, block) in dirs {
        let mut parts = d.splitn(2, char::is_whitespace);
        let kw = parts.next().unwrap();
        let rest = parts.next().unwrap_or("").trim().to_string();
        let words: Vec<String> = rest.split_whitespace().map(|s| s.to_string()).collect();
        let block_t = block.trim().to_string();
        match kw {
            "@unit" => unit.name = rest.clone(),
            "@property" => unit.properties = words.clone(),
            "@use" => unit.uses.push(rest.clone()),
            "@prelude" => unit.prelude.extend(words.clone()),
            "@spec" => unit.spec.extend(words.clone()),
            // `@lemmas_of UNIT file..`: the lemmas of these spec files are proved in UNIT; here only their statements are used
            "@lemmas_of" => {
                for f in words.iter().skip(1) {
                    unit.spec.push(format!("{}::{}", words[0], f));
                }
            }
            "@item" => {
                in_method = false;
                ctx = Ctx::None;
                unit.items.push(ItemSpec { kind: "item".into(), path: words[0].clone(), ..Default::default() });
            }
            "@impl" => {
                in_method = false;
                ctx = Ctx::None;
                unit.items.push(ItemSpec { kind: "impl".into(), path: words[0].clone(), impl_header: block_t.clone(), ..Default::default() });
            }
            "@method" => {
                ctx = Ctx::None;
                let it = unit.items.last_mut().unwrap_or_else(|| die("malformed-unit", "@method before @impl"));
                it.methods.push(ItemSpec { kind: "method".into(), path: words[0].clone(), ..Default::default() });
                in_method = true;
            }
            "@mod" => cur_item!().in_mod = Some(words[0].clone()),
            "@rules" => cur_item!().rules.extend(words.clone()),
            "@ret" => cur_item!().ret = Some(words[0].clone()),
            "@attr" => cur_item!().attrs.push(if block_t.is_empty() { rest.clone() } else { block_t.clone() }),
            "@dropderive" => cur_item!().drop_derives.extend(words.clone()),
            "@dropattr" => cur_item!().drop_attrs.extend(words.clone()),
            "@private" => cur_item!().private = true,
            "@contract_of" => cur_item!().contract_of = Some(words[0].clone()),
            "@sig" => cur_item!().sig = Some(if block_t.is_empty() { rest.clone() } else { block_t.clone() }),
            "@prop" => cur_item!().property = Some(words[0].clone()),
            "@requires" => {
                ctx = Ctx::None;
                cur_item!().requires.push(Clause { id: words[0].clone(), text: block_t.clone() })
            }
            "@ensures" => {
                ctx = Ctx::None;
                cur_item!().ensures.push(Clause { id: words[0].clone(), text: block_t.clone() })
            }
            "@decreases" => {
                ctx = Ctx::None;
                cur_item!().decreases = Some(block_t.clone())
            }
            "@loop" => {
                ctx = Ctx::Loop;
                let wrap = words.iter().find_map(|w| w.strip_prefix("wrap=").map(|x| x.to_string()));
                let bind = words.iter().find_map(|w| w.strip_prefix("bind=").map(|x| x.to_string()));
                let iter_name = words.get(1).filter(|w| !w.contains('=')).cloned();
                let vlen = words.iter().any(|w| w == "vlen=1");
                cur_item!().loops.push(LoopSpec { key: words[0].clone(), iter_name, wrap, bind, vlen, ..Default::default() });
            }
            "@closure_sig" => {
                if !matches!(ctx, Ctx::Loop) {
                    die("malformed-unit", &format!("line {ln}: {kw} outside @loop"));
                }
                cur_item!().loops.last_mut().unwrap().closure_sig = Some(rest.trim().to_string());
            }
            "@invariant" | "@invariant_except_break" | "@loop_ensures" | "@loop_decreases" => {
                if !matches!(ctx, Ctx::Loop) {
                    die("malformed-unit", &format!("line {ln}: {kw} outside @loop"));
                }
                let it = cur_item!();
                let lp = it.loops.last_mut().unwrap();
                let c = Clause { id: words.get(0).cloned().unwrap_or_default(), text: block_t.clone() };
                match kw {
                    "@invariant" => lp.invariants.push(c),
                    "@invariant_except_break" => lp.invariants_except_break.push(c),
                    "@loop_ensures" => lp.ensures.push(c),
                    _ => lp.decreases = Some(block_t.clone()),
                }
            }
            "@proof" => {
                ctx = Ctx::None;
                let mode = words.get(0).cloned().unwrap_or_default();
                let mut p = ProofSpec { mode: mode.clone(), text: block.clone(), ..Default::default() };
                match mode.as_str() {
                    "start" | "end" | "tail" | "rawstart" => {}
                    "loopstart" | "loopend" | "rawloopstart" | "loopafter" => p.anchor = words.get(1).cloned().unwrap_or_default(),
                    "before" | "after" | "wrap" | "rawbefore" => {
                        let after_mode = rest[mode.len()..].to_string();
                        let (q, rem) = parse_quoted(&after_mode);
                        p.anchor = q;
                        p.nth = rem.trim().parse::<usize>().ok();
                    }
                    _ => die("malformed-unit", &format!("line {ln}: bad @proof mode `{mode}`")),
                }
                cur_item!().proofs.push(p);
            }
            "@canary" => {
                ctx = Ctx::None;
                if words.len() < 3 || words[1] != "expect" {
                    die("malformed-unit", &format!("line {ln}: @canary NAME expect ID"));
                }
                let mut from = String::new();
                let mut to = String::new();
                let mut second = false;
                for l in block.lines() {
                    if l.trim() == "=>" {
                        second = true;
                        continue;
                    }
                    let tgt = if second { &mut to } else { &mut from };
                    if !tgt.is_empty() {
                        tgt.push('\n');
                    }
                    tgt.push_str(l);
                }
                let nth = words.get(3).and_then(|w| w.strip_prefix("nth=")).and_then(|n| n.parse::<usize>().ok()).unwrap_or(0);
                unit.canaries.push(Canary { nth, name: words[0].clone(), expect: words[2].clone(), from: from.trim().to_string(), to: to.trim().to_string() });
            }
            _ => die("malformed-unit", &format!("line {ln}: unknown directive {kw}")),
        }
    }
    unit
}
