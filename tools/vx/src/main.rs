//! vx — mechanical extractor/annotator.
//!
//! Reads a unit description (`*.ctr`), locates the named items in /repo/src/<module>.rs by *path*
//! in the syn AST of the current working tree, copies their source text byte for byte, applies
//! the closed list of rewrite rules enabled per item (DESIGN.md §3.3) as byte-range edits,
//! inserts contract clauses / loop invariants / proof blocks at AST-derived positions, and writes
//!   <out>.rs        the Verus input (prelude + spec + annotated extracted items)
//!   <out>.map.json  obligation markers -> line ranges, function line ranges, source hashes,
//!                   rewrite applications, everything that was dropped.
//!
//! Exit codes: 0 ok; 2 = lost anchor / unsupported construct / malformed unit (never an alarm).
mod ctr;
mod rewrite;

use ctr::*;
use rewrite::*;
use serde_json::json;
use std::collections::BTreeMap;
use std::fmt::Write as _;
use syn::spanned::Spanned;

pub fn die(kind: &str, msg: &str) -> ! {
    eprintln!("vx: {kind}: {msg}");
    println!("{}", json!({"status": kind, "message": msg}));
    std::process::exit(2);
}

fn sha256_hex(data: &[u8]) -> String {
    // small self-contained SHA-256 (no crate available offline that is lighter)
    const K: [u32; 64] = [
        0x428a2f98, 0x71374491, 0xb5c0fbcf, 0xe9b5dba5, 0x3956c25b, 0x59f111f1, 0x923f82a4,
        0xab1c5ed5, 0xd807aa98, 0x12835b01, 0x243185be, 0x550c7dc3, 0x72be5d74, 0x80deb1fe,
        0x9bdc06a7, 0xc19bf174, 0xe49b69c1, 0xefbe4786, 0x0fc19dc6, 0x240ca1cc, 0x2de92c6f,
        0x4a7484aa, 0x5cb0a9dc, 0x76f988da, 0x983e5152, 0xa831c66d, 0xb00327c8, 0xbf597fc7,
        0xc6e00bf3, 0xd5a79147, 0x06ca6351, 0x14292967, 0x27b70a85, 0x2e1b2138, 0x4d2c6dfc,
        0x53380d13, 0x650a7354, 0x766a0abb, 0x81c2c92e, 0x92722c85, 0xa2bfe8a1, 0xa81a664b,
        0xc24b8b70, 0xc76c51a3, 0xd192e819, 0xd6990624, 0xf40e3585, 0x106aa070, 0x19a4c116,
        0x1e376c08, 0x2748774c, 0x34b0bcb5, 0x391c0cb3, 0x4ed8aa4a, 0x5b9cca4f, 0x682e6ff3,
        0x748f82ee, 0x78a5636f, 0x84c87814, 0x8cc70208, 0x90befffa, 0xa4506ceb, 0xbef9a3f7,
        0xc67178f2,
    ];
    let mut h: [u32; 8] = [
        0x6a09e667, 0xbb67ae85, 0x3c6ef372, 0xa54ff53a, 0x510e527f, 0x9b05688c, 0x1f83d9ab,
        0x5be0cd19,
    ];
    let mut msg = data.to_vec();
    let bitlen = (data.len() as u64) * 8;
    msg.push(0x80);
    while msg.len() % 64 != 56 {
        msg.push(0);
    }
    msg.extend_from_slice(&bitlen.to_be_bytes());
    for chunk in msg.chunks(64) {
        let mut w = [0u32; 64];
        for i in 0..16 {
            w[i] = u32::from_be_bytes([chunk[4 * i], chunk[4 * i + 1], chunk[4 * i + 2], chunk[4 * i + 3]]);
        }
        for i in 16..64 {
            let s0 = w[i - 15].rotate_right(7) ^ w[i - 15].rotate_right(18) ^ (w[i - 15] >> 3);
            let s1 = w[i - 2].rotate_right(17) ^ w[i - 2].rotate_right(19) ^ (w[i - 2] >> 10);
            w[i] = w[i - 16].wrapping_add(s0).wrapping_add(w[i - 7]).wrapping_add(s1);
        }
        let (mut a, mut b, mut c, mut d, mut e, mut f, mut g, mut hh) =
            (h[0], h[1], h[2], h[3], h[4], h[5], h[6], h[7]);
        for i in 0..64 {
            let s1 = e.rotate_right(6) ^ e.rotate_right(11) ^ e.rotate_right(25);
            let ch = (e & f) ^ ((!e) & g);
            let t1 = hh.wrapping_add(s1).wrapping_add(ch).wrapping_add(K[i]).wrapping_add(w[i]);
            let s0 = a.rotate_right(2) ^ a.rotate_right(13) ^ a.rotate_right(22);
            let maj = (a & b) ^ (a & c) ^ (b & c);
            let t2 = s0.wrapping_add(maj);
            hh = g;
            g = f;
            f = e;
            e = d.wrapping_add(t1);
            d = c;
            c = b;
            b = a;
            a = t1.wrapping_add(t2);
        }
        h[0] = h[0].wrapping_add(a);
        h[1] = h[1].wrapping_add(b);
        h[2] = h[2].wrapping_add(c);
        h[3] = h[3].wrapping_add(d);
        h[4] = h[4].wrapping_add(e);
        h[5] = h[5].wrapping_add(f);
        h[6] = h[6].wrapping_add(g);
        h[7] = h[7].wrapping_add(hh);
    }
    h.iter().map(|x| format!("{:08x}", x)).collect()
}

struct SrcFile {
    text: String,
    ast: syn::File,
    line_starts: Vec<usize>,
}

impl SrcFile {
    fn load(path: &str) -> SrcFile {
        let text = std::fs::read_to_string(path).unwrap_or_else(|e| die("lost-anchor", &format!("cannot read {path}: {e}")));
        let ast = syn::parse_file(&text).unwrap_or_else(|e| die("unsupported", &format!("cannot parse {path}: {e}")));
        let mut line_starts = vec![0usize];
        for (i, b) in text.bytes().enumerate() {
            if b == b'\n' {
                line_starts.push(i + 1);
            }
        }
        SrcFile { text, ast, line_starts }
    }
    fn line_of(&self, byte: usize) -> usize {
        match self.line_starts.binary_search(&byte) {
            Ok(i) => i + 1,
            Err(i) => i,
        }
    }
}

/// What was located for an item.
enum Found<'a> {
    Fn { f: &'a syn::ItemFn },
    Method { imp: &'a syn::ItemImpl, m: &'a syn::ImplItemFn },
    Other { item: &'a syn::Item },
    Impl { imp: &'a syn::ItemImpl },
}

fn type_name(ty: &syn::Type) -> String {
    match ty {
        syn::Type::Path(p) => p.path.segments.last().map(|s| s.ident.to_string()).unwrap_or_default(),
        _ => String::new(),
    }
}

fn norm_ws(s: &str) -> String {
    s.split_whitespace().collect::<Vec<_>>().join(" ")
}
fn norm_nows(s: &str) -> String {
    s.split_whitespace().collect::<Vec<_>>().join("")
}

fn item_ident(item: &syn::Item) -> Option<String> {
    Some(match item {
        syn::Item::Fn(f) => f.sig.ident.to_string(),
        syn::Item::Struct(s) => s.ident.to_string(),
        syn::Item::Enum(s) => s.ident.to_string(),
        syn::Item::Type(s) => s.ident.to_string(),
        syn::Item::Const(s) => s.ident.to_string(),
        syn::Item::Static(s) => s.ident.to_string(),
        _ => return None,
    })
}

fn find_nested_fn<'a>(block: &'a syn::Block, name: &str) -> Option<&'a syn::ItemFn> {
    for st in &block.stmts {
        if let syn::Stmt::Item(syn::Item::Fn(f)) = st {
            if f.sig.ident == name {
                return Some(f);
            }
        }
    }
    None
}

fn locate<'a>(file: &'a SrcFile, it: &ItemSpec) -> Found<'a> {
    let segs: Vec<&str> = it.path.split("::").collect();
    if it.kind == "impl" {
        // path = module, header = normalized "Trait for Type"
        let want = norm_nows(&it.impl_header);
        for item in &file.ast.items {
            if let syn::Item::Impl(imp) = item {
                let hdr_start = imp.impl_token.span().byte_range().start;
                let hdr_end = imp.brace_token.span.open().byte_range().start;
                let hdr = &file.text[hdr_start..hdr_end];
                let hdr = hdr.trim_start_matches("impl").trim();
                if norm_nows(hdr) == want {
                    return Found::Impl { imp };
                }
            }
        }
        die("lost-anchor", &format!("impl `{}` not found in {}", it.impl_header, segs[0]));
    }
    match segs.len() {
        2 => {
            for item in &file.ast.items {
                if item_ident(item).as_deref() == Some(segs[1]) {
                    if let syn::Item::Fn(f) = item {
                        return Found::Fn { f };
                    }
                    return Found::Other { item };
                }
            }
            die("lost-anchor", &format!("item `{}` not found", it.path));
        }
        3 => {
            // Type::method, or fn::nested_fn
            for item in &file.ast.items {
                match item {
                    syn::Item::Impl(imp) if imp.trait_.is_none() && type_name(&imp.self_ty) == segs[1] => {
                        for ii in &imp.items {
                            if let syn::ImplItem::Fn(m) = ii {
                                if m.sig.ident == segs[2] {
                                    return Found::Method { imp, m };
                                }
                            }
                        }
                    }
                    syn::Item::Fn(f) if f.sig.ident == segs[1] => {
                        if let Some(n) = find_nested_fn(&f.block, segs[2]) {
                            return Found::Fn { f: n };
                        }
                    }
                    _ => {}
                }
            }
            die("lost-anchor", &format!("item `{}` not found", it.path));
        }
        _ => die("malformed-unit", &format!("bad item path `{}`", it.path)),
    }
}

/// Strip outer attributes we drop (doc comments) and compute the byte range of the item text
/// starting at its first kept attribute / visibility / keyword.
fn attrs_start(attrs: &[syn::Attribute], fallback: usize, dropped: &mut Vec<String>, src: &str) -> usize {
    // keep non-doc attributes verbatim; drop doc comments. Attributes precede the item in order.
    let mut start = fallback;
    let mut first_kept: Option<usize> = None;
    for a in attrs {
        let r = a.span().byte_range();
        if a.path().is_ident("doc") {
            dropped.push(format!("doc comment: {}", norm_ws(&src[r.clone()]).chars().take(60).collect::<String>()));
        } else if first_kept.is_none() {
            first_kept = Some(r.start);
        }
    }
    if let Some(k) = first_kept {
        // any doc attrs after the first kept attribute stay inside the range; acceptable (comments)
        start = k;
    }
    start
}

struct Emitted {
    text: String,
    src_line: usize,
    src_text_sha: String,
    sig: String,
    rule_log: Vec<String>,
    dropped: Vec<String>,
}

fn sig_string(src: &str, sig: &syn::Signature) -> String {
    let r = sig.span().byte_range();
    norm_ws(&src[r])
}

fn build_fn_edits(
    file: &SrcFile,
    it: &ItemSpec,
    attrs: &[syn::Attribute],
    sig: &syn::Signature,
    block: &syn::Block,
    item_start: usize,
    item_end: usize,
    vis_start: usize,
) -> Emitted {
    let src = &file.text;
    let mut dropped = vec![];
    let _ = item_start;
    let start = attrs_start(attrs, vis_start, &mut dropped, src).min(vis_start);
    let sigs = sig_string(src, sig);
    if let Some(want) = &it.sig {
        if norm_nows(want) != norm_nows(&sigs) {
            die("lost-anchor", &format!("signature of `{}` changed: recorded `{}`, found `{}`", it.path, want, sigs));
        }
    }
    let mut rw = Rewriter::new(src, &it.rules, &it.path);
    let mut edits: Vec<Edit> = vec![];
    // R64: a function returning `impl Iterator<Item = T> [+ '_]` whose body is an adapter chain is extracted as
    // returning the vector of what the chain yields (`Vec<T>`); the body is rewritten by R65
    if it.rules.iter().any(|r| r == "R64") {
        match &sig.output {
            syn::ReturnType::Type(_, ty) => {
                let r = ty.span().byte_range();
                let t: String = src[r.clone()].split_whitespace().collect::<Vec<_>>().join(" ");
                let inner = t.strip_prefix("impl Iterator<Item = ").and_then(|x| x.rfind('>').map(|k| x[..k].to_string()));
                match inner {
                    Some(item) if t[t.rfind('>').unwrap() + 1..].trim().is_empty() || t[t.rfind('>').unwrap() + 1..].trim() == "+ '_" => {
                        edits.push(Edit { range: r.clone(), text: format!("Vec<{item}>"), prio: 1 });
                    }
                    _ => die("unsupported", &format!("{}: R64 side condition: the return type `{t}` is not `impl Iterator<Item = T> [+ '_]`", it.path)),
                }
            }
            syn::ReturnType::Default => die("unsupported", &format!("{}: R64 on a function returning ()", it.path)),
        }
    }
    // named return value
    if let Some(name) = &it.ret {
        match &sig.output {
            syn::ReturnType::Type(_, ty) => {
                let r = ty.span().byte_range();
                edits.push(Edit { range: r.start..r.start, text: format!("({name}: "), prio: 0 });
                edits.push(Edit { range: r.end..r.end, text: ")".to_string(), prio: 0 });
            }
            syn::ReturnType::Default => die("malformed-unit", &format!("@ret on `{}` which returns ()", it.path)),
        }
    }
    // contract clauses before the body's `{`
    let body_open = block.brace_token.span.open().byte_range().start;
    let mut clauses = String::new();
    let mut group = |kw: &str, list: &Vec<Clause>, out: &mut String| {
        if list.is_empty() {
            return;
        }
        let _ = write!(out, "\n    {kw}");
        for c in list {
            if let Some(u) = &it.contract_of {
                let _ = write!(out, "\n        /*@ASSUMED {} {} (proved in unit {})*/ {},", c.id, kw, u, c.text.trim().trim_end_matches(','));
            } else {
                let _ = write!(out, "\n        /*@OBL {} {}*/ {},", c.id, kw, c.text.trim().trim_end_matches(','));
                let _ = write!(out, " /*@END*/");
            }
        }
    };
    group("requires", &it.requires, &mut clauses);
    group("ensures", &it.ensures, &mut clauses);
    if let Some(d) = &it.decreases {
        let _ = write!(clauses, "\n    decreases {},", d.trim().trim_end_matches(','));
    }
    if !clauses.is_empty() {
        clauses.push('\n');
        edits.push(Edit { range: body_open..body_open, text: clauses, prio: 0 });
    }
    if it.contract_of.is_some() {
        // callee known by contract only: no body
        let br = block.span().byte_range();
        edits.push(Edit { range: br, text: "{ unimplemented!() }".to_string(), prio: 0 });
    } else {
        // body: rewrites, loop annotations, proof insertions
        rw.loops = it.loops.clone();
        rw.proofs = it.proofs.clone();
        let mut body_edits = rw.rewrite_fn_body(block);
        edits.append(&mut body_edits);
        rw.check_all_used();
    }
    let mut text = apply_edits(src, start..item_end, edits);
    for a in &it.attrs {
        text = format!("{a}\n{text}");
    }
    if it.contract_of.is_some() {
        text = format!("#[verifier::external_body]\n{text}");
    }
    // canary / text substitutions are applied by the driver on the generated file.
    Emitted {
        text,
        src_line: file.line_of(start),
        src_text_sha: sha256_hex(src[start..item_end].as_bytes()),
        sig: sigs,
        rule_log: rw.log,
        dropped,
    }
}

/// `@private`: the visibility keyword is dropped from the extracted fn (single-file extraction:
/// visibility has no effect on behaviour; Verus forbids private spec functions in the contract of
/// a pub fn)
fn strip_vis(e: &mut Emitted, path: &str) {
    for v in ["pub(crate) fn ", "pub fn "] {
        if let Some(p) = e.text.find(v) {
            // only a visibility in front of the signature, not somewhere in the body
            let before_sig = e.text.find("fn ").map_or(false, |f| f == p + v.len() - 3);
            if before_sig {
                e.text.replace_range(p..p + v.len(), "fn ");
                e.dropped.push(format!("visibility of {path}"));
                return;
            }
        }
    }
}

fn emit_item(file: &SrcFile, it: &ItemSpec) -> Emitted {
    let src = &file.text;
    match locate(file, it) {
        Found::Fn { f } => {
            let r = f.span().byte_range();
            let vis_start = match &f.vis {
                syn::Visibility::Inherited => f.sig.span().byte_range().start,
                v => v.span().byte_range().start,
            };
            let mut e = build_fn_edits(file, it, &f.attrs, &f.sig, &f.block, r.start, r.end, vis_start);
            if it.private {
                strip_vis(&mut e, &it.path);
            }
            e
        }
        Found::Method { imp, m } => {
            let r = m.span().byte_range();
            let vis_start = match &m.vis {
                syn::Visibility::Inherited => m.sig.span().byte_range().start,
                v => v.span().byte_range().start,
            };
            let mut e = build_fn_edits(file, it, &m.attrs, &m.sig, &m.block, r.start, r.end, vis_start);
            if it.private {
                strip_vis(&mut e, &it.path);
            }
            let hdr_start = imp.impl_token.span().byte_range().start;
            let hdr_end = imp.brace_token.span.open().byte_range().end;
            let hdr = &src[hdr_start..hdr_end];
            e.text = format!("{hdr}\n{}\n}}", indent(&e.text, 4));
            e
        }
        Found::Other { item } => {
            let r = item.span().byte_range();
            let attrs: &[syn::Attribute] = match item {
                syn::Item::Struct(s) => &s.attrs,
                syn::Item::Enum(s) => &s.attrs,
                syn::Item::Type(s) => &s.attrs,
                syn::Item::Const(s) => &s.attrs,
                syn::Item::Static(s) => &s.attrs,
                _ => &[],
            };
            let mut dropped = vec![];
            let mut edits = vec![];
            let mut start = r.end;
            // keep non-doc attrs; handle derive edits
            for a in attrs {
                let ar = a.span().byte_range();
                if a.path().is_ident("doc") {
                    dropped.push("doc comment".to_string());
                    continue;
                }
                start = start.min(ar.start);
                if a.path().is_ident("derive") && !it.drop_derives.is_empty() {
                    // rebuild the derive list without the dropped names
                    let mut kept = vec![];
                    let _ = a.parse_nested_meta(|m| {
                        let n = m.path.segments.last().unwrap().ident.to_string();
                        if it.drop_derives.contains(&n) {
                            dropped.push(format!("derive({n}) on {}", it.path));
                        } else {
                            kept.push(n);
                        }
                        Ok(())
                    });
                    edits.push(Edit { range: ar.clone(), text: format!("#[derive({})]", kept.join(", ")), prio: 0 });
                }
            }
            if !it.drop_attrs.is_empty() {
                // attributes on variants / fields (e.g. thiserror's #[error(..)], #[from])
                struct AV<'x> {
                    names: &'x [String],
                    out: Vec<std::ops::Range<usize>>,
                }
                impl<'ast, 'x> syn::visit::Visit<'ast> for AV<'x> {
                    fn visit_attribute(&mut self, a: &'ast syn::Attribute) {
                        let n = a.path().segments.last().map(|s| s.ident.to_string()).unwrap_or_default();
                        if self.names.contains(&n) {
                            self.out.push(a.span().byte_range());
                        }
                    }
                }
                let mut av = AV { names: &it.drop_attrs, out: vec![] };
                syn::visit::Visit::visit_item(&mut av, item);
                for rr in av.out {
                    dropped.push(format!("attribute `{}` in {}", norm_ws(&src[rr.clone()]).chars().take(50).collect::<String>(), it.path));
                    edits.push(Edit { range: rr, text: String::new(), prio: 0 });
                }
            }
            // start of the item proper (vis or keyword): first token after attributes
            let after_attrs = attrs.iter().map(|a| a.span().byte_range().end).max().unwrap_or(r.start);
            let body_start = if attrs.is_empty() { r.start } else { after_attrs };
            let start = start.min(body_start);
            let text0 = apply_edits(src, start..r.end, edits);
            // drop doc comments inside (fields) — they are comments to rustc anyway; keep verbatim.
            let mut text = text0;
            for a in &it.attrs {
                text = format!("{a}\n{text}");
            }
            Emitted {
                text,
                src_line: file.line_of(start),
                src_text_sha: sha256_hex(src[start..r.end].as_bytes()),
                sig: String::new(),
                rule_log: vec![],
                dropped,
            }
        }
        Found::Impl { imp } => {
            // whole trait impl, with optional per-method contracts given as sub-items
            let r = imp.span().byte_range();
            let mut edits: Vec<Edit> = vec![];
            let mut log = vec![];
            for ii in &imp.items {
                if let syn::ImplItem::Fn(m) = ii {
                    let name = m.sig.ident.to_string();
                    if let Some(sub) = it.methods.iter().find(|s| s.path == name) {
                        let mut rw = Rewriter::new(src, &sub.rules, &format!("{}::{}", it.path, name));
                        if let Some(rn) = &sub.ret {
                            if let syn::ReturnType::Type(_, ty) = &m.sig.output {
                                let tr = ty.span().byte_range();
                                edits.push(Edit { range: tr.start..tr.start, text: format!("({rn}: "), prio: 0 });
                                edits.push(Edit { range: tr.end..tr.end, text: ")".into(), prio: 0 });
                            }
                        }
                        let body_open = m.block.brace_token.span.open().byte_range().start;
                        let mut clauses = String::new();
                        if !sub.requires.is_empty() {
                            clauses.push_str("\n    requires");
                            for c in &sub.requires {
                                let _ = write!(clauses, "\n        /*@OBL {} requires*/ {}, /*@END*/", c.id, c.text.trim().trim_end_matches(','));
                            }
                        }
                        if !sub.ensures.is_empty() {
                            clauses.push_str("\n    ensures");
                            for c in &sub.ensures {
                                let _ = write!(clauses, "\n        /*@OBL {} ensures*/ {}, /*@END*/", c.id, c.text.trim().trim_end_matches(','));
                            }
                        }
                        if !clauses.is_empty() {
                            clauses.push('\n');
                            edits.push(Edit { range: body_open..body_open, text: clauses, prio: 0 });
                        }
                        rw.loops = sub.loops.clone();
                        rw.proofs = sub.proofs.clone();
                        let mut be = rw.rewrite_fn_body(&m.block);
                        edits.append(&mut be);
                        rw.check_all_used();
                        log.append(&mut rw.log);
                    }
                }
            }
            let text = apply_edits(src, r.clone(), edits);
            let mut text = text;
            for a in &it.attrs {
                text = format!("{a}\n{text}");
            }
            Emitted {
                text,
                src_line: file.line_of(r.start),
                src_text_sha: sha256_hex(src[r].as_bytes()),
                sig: String::new(),
                rule_log: log,
                dropped: vec![],
            }
        }
    }
}

fn indent(s: &str, n: usize) -> String {
    let pad = " ".repeat(n);
    s.lines().map(|l| if l.is_empty() { String::new() } else { format!("{pad}{l}") }).collect::<Vec<_>>().join("\n")
}

fn main() {
    let args: Vec<String> = std::env::args().collect();
    if args.len() != 5 {
        eprintln!("usage: vx <unit.ctr> <repo-src-dir> <verif-root> <out-prefix>");
        std::process::exit(2);
    }
    let unit_path = &args[1];
    let src_dir = &args[2];
    let verif_root = &args[3];
    let out_prefix = &args[4];
    let unit_text = std::fs::read_to_string(unit_path).unwrap_or_else(|e| die("malformed-unit", &format!("{unit_path}: {e}")));
    let unit = parse_unit(&unit_text);
    let unit_dir = std::path::Path::new(unit_path).parent().unwrap().to_path_buf();

    let mut files: BTreeMap<String, SrcFile> = BTreeMap::new();
    let mut out = String::new();
    out.push_str("// GENERATED on every run by /verif/tools/vx from the current /repo/src — do not edit.\n");
    if !std::env::var("VX_PLAIN").is_ok() {
    out.push_str("#![allow(unused_imports, unused_variables, unused_mut, dead_code, unused_parens, non_snake_case, unreachable_code, unused_assignments, unreachable_patterns, unused_braces)]\n");
    }
    let plain = std::env::var("VX_PLAIN").is_ok(); // items only, as ordinary Rust (for Kani harness crates)
    if !plain {
        out.push_str("use vstd::prelude::*;\n");
    }
    for u in &unit.uses {
        let _ = writeln!(out, "use {u};");
    }
    let mut sections: Vec<serde_json::Value> = vec![];
    let mut lemma_refs: Vec<String> = vec![];
    for p in unit.prelude.iter().filter(|_| !plain) {
        let path = format!("{verif_root}/prelude/{p}");
        let t = std::fs::read_to_string(&path).unwrap_or_else(|e| die("malformed-unit", &format!("{path}: {e}")));
        let l0 = out.lines().count() + 1;
        let _ = writeln!(out, "// ---- prelude/{p} (trusted shims) ----");
        out.push_str(&t);
        if !t.ends_with('\n') {
            out.push('\n');
        }
        sections.push(json!({"kind":"prelude","file":p,"line_start":l0,"line_end":out.lines().count()}));
    }
    for s in unit.spec.iter().filter(|_| !plain) {
        // `UNIT::file`: lemmas proved in UNIT -- their bodies are not re-checked here
        let (proved_in, s) = match s.split_once("::") {
            Some((u, f)) => (Some(u.to_string()), f.to_string()),
            None => (None, s.clone()),
        };
        let s = &s;
        let path = unit_dir.join(s);
        let mut t = std::fs::read_to_string(&path).unwrap_or_else(|e| die("malformed-unit", &format!("{}: {e}", path.display())));
        if let Some(u) = &proved_in {
            let mut t2 = String::new();
            for line in t.lines() {
                if line.starts_with("proof fn ") || line.starts_with("pub proof fn ") {
                    t2.push_str(&format!("#[verifier::external_body] /*@LEMMA-OF {u}*/\n"));
                }
                t2.push_str(line);
                t2.push('\n');
            }
            t = t2;
            lemma_refs.push(u.clone());
        }
        let l0 = out.lines().count() + 1;
        let _ = writeln!(out, "// ---- spec {s} (spec functions and lemmas; no complgen code) ----");
        out.push_str(&t);
        if !t.ends_with('\n') {
            out.push('\n');
        }
        sections.push(json!({"kind":"spec","file":s,"line_start":l0,"line_end":out.lines().count(),"lemmas_of":proved_in}));
    }
    if !plain {
        out.push_str("verus! {\n");
    }
    let mut items_json = vec![];
    let mut resolved: Vec<ItemSpec> = vec![];
    for it in &unit.items {
        let mut it = it.clone();
        if let Some(u) = it.contract_of.clone() {
            let p = format!("{verif_root}/units/{u}/unit.ctr");
            let t = std::fs::read_to_string(&p).unwrap_or_else(|e| die("malformed-unit", &format!("{p}: {e}")));
            let other = parse_unit(&t);
            let o = match other.items.iter().find(|o| o.path == it.path && o.contract_of.is_none()) {
                Some(o) => o,
                None => die("malformed-unit", &format!("@contract_of {u}: unit {u} has no contract for `{}`", it.path)),
            };
            it.sig = o.sig.clone();
            it.ret = o.ret.clone();
            it.requires = o.requires.clone();
            it.ensures = o.ensures.clone();
            it.private = o.private;
            it.property = o.property.clone();
            // a rule that changes the signature (R64: `impl Iterator<Item = T>` -> `Vec<T>`) belongs to the contract
            if o.rules.iter().any(|r| r == "R64") && !it.rules.iter().any(|r| r == "R64") {
                it.rules.push("R64".to_string());
            }
        }
        resolved.push(it);
    }
    for it in &resolved {
        let module = it.path.split("::").next().unwrap().to_string();
        if !files.contains_key(&module) {
            files.insert(module.clone(), SrcFile::load(&format!("{src_dir}/{module}.rs")));
        }
        let file = &files[&module];
        let e = emit_item(file, it);
        let l0 = out.lines().count() + 1;
        let _ = writeln!(out, "// ---- {} ({}.rs:{}) ----", it.path, module, e.src_line);
        let mut text = e.text.clone();
        if let Some(m) = &it.in_mod {
            text = format!("pub mod {m} {{\nuse super::*;\n{text}\n}}");
        }
        out.push_str(&text);
        out.push_str("\n\n");
        let l1 = out.lines().count();
        items_json.push(json!({
            "path": it.path, "kind": it.kind, "impl_header": it.impl_header,
            "src_file": format!("src/{module}.rs"), "src_line": e.src_line,
            "sha256": e.src_text_sha, "signature": e.sig,
            "line_start": l0, "line_end": l1,
            "rules_applied": e.rule_log, "dropped": e.dropped,
            "termination_unverified": it.attrs.iter().any(|a| a.contains("exec_allows_no_decreases_clause")),
            "property": it.property,
            "contract_of": it.contract_of,
        }));
    }
    if !plain {
        out.push_str("} // verus!\nfn main() {}\n");
    }

    // obligation marker map
    let mut obls = vec![];
    let mut cur: Option<(String, String, usize)> = None;
    for (i, line) in out.lines().enumerate() {
        let ln = i + 1;
        if let Some(p) = line.find("/*@OBL ") {
            let rest = &line[p + 7..];
            let endc = rest.find("*/").unwrap_or(rest.len());
            let mut parts = rest[..endc].split_whitespace();
            let id = parts.next().unwrap_or("").to_string();
            let kind = parts.next().unwrap_or("").to_string();
            cur = Some((id, kind, ln));
        }
        if line.contains("/*@END*/") {
            if let Some((id, kind, l0)) = cur.take() {
                obls.push(json!({"id": id, "kind": kind, "line_start": l0, "line_end": ln}));
            }
        }
    }
    let map = json!({
        "status": "ok",
        "unit": unit.name,
        "sections": sections,
        "items": items_json,
        "obligations": obls,
        "canaries": unit.canaries.iter().map(|c| json!({"name": c.name, "expect": c.expect, "from": c.from, "to": c.to, "nth": c.nth})).collect::<Vec<_>>(),
        "properties": unit.properties,
        "lemma_refs": lemma_refs,
    });
    std::fs::write(format!("{out_prefix}.rs"), &out).unwrap();
    std::fs::write(format!("{out_prefix}.map.json"), serde_json::to_string_pretty(&map).unwrap()).unwrap();
    println!("{}", json!({"status":"ok","items":unit.items.len(),"obligations":map["obligations"].as_array().unwrap().len()}));
}
