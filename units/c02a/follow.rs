// followpos (Dragon Book 2nd ed. fig. 3.60): position h may follow position t
//  - in a concatenation c_0 .. c_n: t in lastpos(c_l), h in firstpos(c_r), l < r, everything
//    strictly between nullable (the n-ary form of the binary rule);
//  - in a star node n: t in lastpos(n), h in firstpos(n);
//  - plus whatever follows inside the children.
// `follows_code` is what regex::do_followpos computes: it does not descend into the child of a
// Star node. do_from_expr only builds `Cat[c, Star(c)]` (the star shares its child with its left
// sibling), and for such arenas both relations coincide: lemma_follow_shared.
verus! {

spec fn cat_link(a: Seq<RegexNode>, ch: Seq<RegexNodeId>, i: int, t: u32, h: u32) -> bool {
    exists|l: int, r: int| 0 <= l < r < ch.len() && (#[trigger] ch[l]).0 < i && (#[trigger] ch[r]).0 < i
        && s_last(a, ch[l].0 as int).contains(t) && s_first(a, ch[r].0 as int).contains(h)
        && (forall|m: int| l < m < r ==> s_nullable(a, (#[trigger] ch[m]).0 as int))
}

spec fn follows(a: Seq<RegexNode>, i: int, t: u32, h: u32) -> bool
    decreases i
{
    if i < 0 || i >= a.len() { false } else {
        match a[i] {
            RegexNode::Or(ch) => exists|k: int| 0 <= k < ch@.len() && (#[trigger] ch@[k]).0 < i && follows(a, ch@[k].0 as int, t, h),
            RegexNode::Cat(ch) => (exists|k: int| 0 <= k < ch@.len() && (#[trigger] ch@[k]).0 < i && follows(a, ch@[k].0 as int, t, h)) || cat_link(a, ch@, i, t, h),
            RegexNode::Star(c) => c.0 < i && ((s_last(a, c.0 as int).contains(t) && s_first(a, c.0 as int).contains(h)) || follows(a, c.0 as int, t, h)),
            _ => false,
        }
    }
}

spec fn follows_code(a: Seq<RegexNode>, i: int, t: u32, h: u32) -> bool
    decreases i
{
    if i < 0 || i >= a.len() { false } else {
        match a[i] {
            RegexNode::Or(ch) => exists|k: int| 0 <= k < ch@.len() && (#[trigger] ch@[k]).0 < i && follows_code(a, ch@[k].0 as int, t, h),
            RegexNode::Cat(ch) => (exists|k: int| 0 <= k < ch@.len() && (#[trigger] ch@[k]).0 < i && follows_code(a, ch@[k].0 as int, t, h)) || cat_link(a, ch@, i, t, h),
            RegexNode::Star(c) => c.0 < i && s_last(a, c.0 as int).contains(t) && s_first(a, c.0 as int).contains(h),
            _ => false,
        }
    }
}

/// children before index n contribute (t, h)
spec fn children_follow_code(a: Seq<RegexNode>, ch: Seq<RegexNodeId>, i: int, n: int, t: u32, h: u32) -> bool {
    exists|k: int| 0 <= k < n && k < ch.len() && (#[trigger] ch[k]).0 < i && follows_code(a, ch[k].0 as int, t, h)
}

/// links whose left end is a child before index n
spec fn cat_link_upto(a: Seq<RegexNode>, ch: Seq<RegexNodeId>, i: int, n: int, t: u32, h: u32) -> bool {
    exists|l: int, r: int| 0 <= l < r < ch.len() && l < n && (#[trigger] ch[l]).0 < i && (#[trigger] ch[r]).0 < i
        && s_last(a, ch[l].0 as int).contains(t) && s_first(a, ch[r].0 as int).contains(h)
        && (forall|m: int| l < m < r ==> s_nullable(a, (#[trigger] ch[m]).0 as int))
}

/// firstpos of the children l+1 .. j-1 reachable from l through nullable children only
spec fn heads_upto(a: Seq<RegexNode>, ch: Seq<RegexNodeId>, i: int, l: int, j: int, h: u32) -> bool {
    exists|r: int| l < r < j && r < ch.len() && (#[trigger] ch[r]).0 < i && s_first(a, ch[r].0 as int).contains(h)
        && (forall|m: int| l < m < r ==> s_nullable(a, (#[trigger] ch[m]).0 as int))
}

/// x is among the first n elements of s
spec fn seen(s: Seq<u32>, n: int, x: u32) -> bool {
    exists|q: int| 0 <= q < n && q < s.len() && #[trigger] s[q] == x
}

/// every Star below i is the second child of a `Cat[c, Star(c)]`
spec fn star_shared(a: Seq<RegexNode>, i: int, parent_ok: bool) -> bool
    decreases i
{
    if i < 0 || i >= a.len() { false } else {
        match a[i] {
            RegexNode::Or(ch) => forall|k: int| 0 <= k < ch@.len() ==> (#[trigger] ch@[k]).0 < i && star_shared(a, ch@[k].0 as int, false),
            RegexNode::Cat(ch) => forall|k: int| 0 <= k < ch@.len() ==> (#[trigger] ch@[k]).0 < i
                && star_shared(a, ch@[k].0 as int, k == 1 && ch@.len() == 2 && a[ch@[1].0 as int] == RegexNode::Star(ch@[0])),
            RegexNode::Star(c) => parent_ok && c.0 < i,
            _ => true,
        }
    }
}

/// for arenas as do_from_expr builds them, skipping the star's child loses nothing
proof fn lemma_follow_shared(a: Seq<RegexNode>, i: int, p: bool, t: u32, h: u32)
    requires arena_wf(a), star_shared(a, i, p), !(a[i] is Star)
    ensures follows_code(a, i, t, h) == follows(a, i, t, h)
    decreases i
{
    match a[i] {
        RegexNode::Or(ch) => {
            assert forall|k: int| 0 <= k < ch@.len() implies follows_code(a, (#[trigger] ch@[k]).0 as int, t, h) == follows(a, ch@[k].0 as int, t, h) by {
                // a Star directly below an Or would violate star_shared (parent_ok == false)
                assert(star_shared(a, ch@[k].0 as int, false));
                lemma_follow_shared(a, ch@[k].0 as int, false, t, h);
            }
        }
        RegexNode::Cat(ch) => {
            assert forall|k: int| 0 <= k < ch@.len() implies follows_code(a, (#[trigger] ch@[k]).0 as int, t, h) || (exists|k2: int| 0 <= k2 < ch@.len() && (#[trigger] ch@[k2]).0 < i && follows_code(a, ch@[k2].0 as int, t, h)) == (follows(a, ch@[k].0 as int, t, h) || (exists|k2: int| 0 <= k2 < ch@.len() && (#[trigger] ch@[k2]).0 < i && follows_code(a, ch@[k2].0 as int, t, h))) by {
                let c = ch@[k].0 as int;
                let pk = k == 1 && ch@.len() == 2 && a[ch@[1].0 as int] == RegexNode::Star(ch@[0]);
                assert(star_shared(a, c, pk));
                if a[c] is Star {
                    assert(pk);
                    // then ch == [c0, Star(c0)]: follows(star) = link(c0) || follows(c0), and follows(c0) is child 0
                    assert(k == 1 && ch@.len() == 2 && a[c] == RegexNode::Star(ch@[0]));
                    let c0 = ch@[0].0 as int;
                    assert(star_shared(a, c0, false));
                    lemma_follow_shared(a, c0, false, t, h);
                    assert(follows(a, c, t, h) == ((s_last(a, c0).contains(t) && s_first(a, c0).contains(h)) || follows(a, c0, t, h)));
                    assert(follows_code(a, c, t, h) == (s_last(a, c0).contains(t) && s_first(a, c0).contains(h)));
                    if follows(a, c0, t, h) { assert(ch@[0].0 < i && follows_code(a, ch@[0].0 as int, t, h)); }
                } else {
                    lemma_follow_shared(a, c, k == 1 && ch@.len() == 2 && a[ch@[1].0 as int] == RegexNode::Star(ch@[0]), t, h);
                }
            }
            if follows(a, i, t, h) && !cat_link(a, ch@, i, t, h) {
                let k = choose|k: int| 0 <= k < ch@.len() && (#[trigger] ch@[k]).0 < i && follows(a, ch@[k].0 as int, t, h);
                assert(follows_code(a, ch@[k].0 as int, t, h) || (exists|k2: int| 0 <= k2 < ch@.len() && (#[trigger] ch@[k2]).0 < i && follows_code(a, ch@[k2].0 as int, t, h)));
            }
            if follows_code(a, i, t, h) && !cat_link(a, ch@, i, t, h) {
                let k = choose|k: int| 0 <= k < ch@.len() && (#[trigger] ch@[k]).0 < i && follows_code(a, ch@[k].0 as int, t, h);
                let c = ch@[k].0 as int;
                if a[c] is Star {
                    assert(follows(a, c, t, h));
                } else {
                    lemma_follow_shared(a, c, k == 1 && ch@.len() == 2 && a[ch@[1].0 as int] == RegexNode::Star(ch@[0]), t, h);
                }
            }
        }
        _ => {}
    }
}

} // verus!
