// C02.a specification: nullable / firstpos / lastpos / followpos of a regex arena, written from
// the Dragon Book (2nd ed.) section 3.9.3-3.9.4, fig. 3.58 / 3.59 -- the reference the code cites.
// Convention of the augmented regex: the end marker `#` is a position-carrying leaf which this
// code base treats as nullable (it only ever occurs as the last child of the root Cat).
verus! {

/// numeric value of a node id (the struct field is private in regex.rs)
pub closed spec fn nid(x: RegexNodeId) -> int { x.0 as int }

impl vstd::std_specs::core::IndexSpecImpl<RegexNodeId> for [RegexNode] {
    open spec fn index_req(&self, index: &RegexNodeId) -> bool { nid(*index) < self@.len() }
}
impl vstd::std_specs::core::IndexSpecImpl<RegexNodeId> for Vec<RegexNode> {
    open spec fn index_req(&self, index: &RegexNodeId) -> bool { nid(*index) < self@.len() }
}

/// children of node i have smaller ids (the arena is built bottom-up)
spec fn node_wf(n: RegexNode, i: int) -> bool {
    match n {
        RegexNode::Cat(ch) => forall|k: int| 0 <= k < ch@.len() ==> (#[trigger] ch@[k]).0 < i,
        RegexNode::Or(ch) => forall|k: int| 0 <= k < ch@.len() ==> (#[trigger] ch@[k]).0 < i,
        RegexNode::Star(c) => c.0 < i,
        _ => true,
    }
}
spec fn arena_wf(a: Seq<RegexNode>) -> bool {
    forall|i: int| 0 <= i < a.len() ==> node_wf(#[trigger] a[i], i)
}

spec fn s_nullable(a: Seq<RegexNode>, i: int) -> bool
    decreases i
{
    if i < 0 || i >= a.len() { false } else {
        match a[i] {
            RegexNode::Epsilon => true,
            RegexNode::Terminal(_) | RegexNode::Nonterminal(_) | RegexNode::Command(_) | RegexNode::Subword(_) => false,
            RegexNode::EndMarker(_) => true,
            RegexNode::Star(_) => true,
            RegexNode::Or(ch) => exists|k: int| 0 <= k < ch@.len() && (#[trigger] ch@[k]).0 < i && s_nullable(a, ch@[k].0 as int),
            RegexNode::Cat(ch) => forall|k: int| 0 <= k < ch@.len() ==> (#[trigger] ch@[k]).0 < i && s_nullable(a, ch@[k].0 as int),
        }
    }
}

spec fn leaf_pos(n: RegexNode) -> Option<u32> {
    match n {
        RegexNode::Terminal(p) | RegexNode::Nonterminal(p) | RegexNode::Command(p) | RegexNode::Subword(p) | RegexNode::EndMarker(p) => Some(p),
        _ => None,
    }
}

/// all children before index k of a Cat are nullable
spec fn prefix_nullable(a: Seq<RegexNode>, ch: Seq<RegexNodeId>, k: int) -> bool {
    forall|m: int| 0 <= m < k ==> s_nullable(a, (#[trigger] ch[m]).0 as int)
}
/// all children after index k of a Cat are nullable
spec fn suffix_nullable(a: Seq<RegexNode>, ch: Seq<RegexNodeId>, k: int) -> bool {
    forall|m: int| k < m < ch.len() ==> s_nullable(a, (#[trigger] ch[m]).0 as int)
}

spec fn s_first(a: Seq<RegexNode>, i: int) -> ISet<u32>
    decreases i
{
    if i < 0 || i >= a.len() { ISet::empty() } else {
        match a[i] {
            RegexNode::Epsilon => ISet::empty(),
            RegexNode::Terminal(p) | RegexNode::Nonterminal(p) | RegexNode::Command(p) | RegexNode::Subword(p) | RegexNode::EndMarker(p) => iset![p],
            RegexNode::Star(c) => if c.0 < i { s_first(a, c.0 as int) } else { ISet::empty() },
            RegexNode::Or(ch) => ISet::new(|p: u32| exists|k: int| 0 <= k < ch@.len() && (#[trigger] ch@[k]).0 < i && s_first(a, ch@[k].0 as int).contains(p)),
            RegexNode::Cat(ch) => ISet::new(|p: u32| exists|k: int| 0 <= k < ch@.len() && (#[trigger] ch@[k]).0 < i && prefix_nullable(a, ch@, k) && s_first(a, ch@[k].0 as int).contains(p)),
        }
    }
}

spec fn s_last(a: Seq<RegexNode>, i: int) -> ISet<u32>
    decreases i
{
    if i < 0 || i >= a.len() { ISet::empty() } else {
        match a[i] {
            RegexNode::Epsilon => ISet::empty(),
            RegexNode::Terminal(p) | RegexNode::Nonterminal(p) | RegexNode::Command(p) | RegexNode::Subword(p) | RegexNode::EndMarker(p) => iset![p],
            RegexNode::Star(c) => if c.0 < i { s_last(a, c.0 as int) } else { ISet::empty() },
            RegexNode::Or(ch) => ISet::new(|p: u32| exists|k: int| 0 <= k < ch@.len() && (#[trigger] ch@[k]).0 < i && s_last(a, ch@[k].0 as int).contains(p)),
            RegexNode::Cat(ch) => ISet::new(|p: u32| exists|k: int| 0 <= k < ch@.len() && (#[trigger] ch@[k]).0 < i && suffix_nullable(a, ch@, k) && s_last(a, ch@[k].0 as int).contains(p)),
        }
    }
}

} // verus!
verus! {
/// union of first() over the first n children (Or)
spec fn or_first_upto(a: Seq<RegexNode>, ch: Seq<RegexNodeId>, i: int, n: int) -> ISet<u32> {
    ISet::new(|p: u32| exists|k: int| 0 <= k < n && k < ch.len() && (#[trigger] ch[k]).0 < i && s_first(a, ch[k].0 as int).contains(p))
}
/// first() of the first n children of a Cat, each counted only if everything before it is nullable
spec fn cat_first_upto(a: Seq<RegexNode>, ch: Seq<RegexNodeId>, i: int, n: int) -> ISet<u32> {
    ISet::new(|p: u32| exists|k: int| 0 <= k < n && k < ch.len() && (#[trigger] ch[k]).0 < i && prefix_nullable(a, ch, k) && s_first(a, ch[k].0 as int).contains(p))
}
spec fn or_last_upto(a: Seq<RegexNode>, ch: Seq<RegexNodeId>, i: int, n: int) -> ISet<u32> {
    ISet::new(|p: u32| exists|k: int| 0 <= k < n && k < ch.len() && (#[trigger] ch[k]).0 < i && s_last(a, ch[k].0 as int).contains(p))
}
/// last() of the children with index >= n of a Cat, each counted only if everything after it is nullable
spec fn cat_last_from(a: Seq<RegexNode>, ch: Seq<RegexNodeId>, i: int, n: int) -> ISet<u32> {
    ISet::new(|p: u32| exists|k: int| n <= k < ch.len() && 0 <= k && (#[trigger] ch[k]).0 < i && suffix_nullable(a, ch, k) && s_last(a, ch[k].0 as int).contains(p))
}

proof fn lemma_first_or(a: Seq<RegexNode>, i: int, ch: Vec<RegexNodeId>)
    requires 0 <= i < a.len(), a[i] == RegexNode::Or(ch)
    ensures s_first(a, i) == or_first_upto(a, ch@, i, ch@.len() as int)
{
    assert(s_first(a, i) =~= or_first_upto(a, ch@, i, ch@.len() as int));
}
proof fn lemma_first_cat(a: Seq<RegexNode>, i: int, ch: Vec<RegexNodeId>)
    requires 0 <= i < a.len(), a[i] == RegexNode::Cat(ch)
    ensures s_first(a, i) == cat_first_upto(a, ch@, i, ch@.len() as int)
{
    assert(s_first(a, i) =~= cat_first_upto(a, ch@, i, ch@.len() as int));
}
proof fn lemma_last_or(a: Seq<RegexNode>, i: int, ch: Vec<RegexNodeId>)
    requires 0 <= i < a.len(), a[i] == RegexNode::Or(ch)
    ensures s_last(a, i) == or_last_upto(a, ch@, i, ch@.len() as int)
{
    assert(s_last(a, i) =~= or_last_upto(a, ch@, i, ch@.len() as int));
}
proof fn lemma_last_cat(a: Seq<RegexNode>, i: int, ch: Vec<RegexNodeId>)
    requires 0 <= i < a.len(), a[i] == RegexNode::Cat(ch)
    ensures s_last(a, i) == cat_last_from(a, ch@, i, 0)
{
    assert(s_last(a, i) =~= cat_last_from(a, ch@, i, 0));
}
} // verus!
