// C06 / C08: the UnboundedMatchable search of regex.rs walks first / follow sets and reads the item
// of every position it meets; positions stay inside the regex (bound.rs), and inside a word no item
// is a word again, so is_star_subword's `unreachable!()` is never entered.
verus! {

spec fn n_items(re: Regex) -> int { re.input_from_position@.len() as int }

/// every member of the set is a position of the regex or its end marker
spec fn set_ok(re: Regex, s: ISet<u32>) -> bool {
    forall|p: u32| #[trigger] s.contains(p) ==> p <= n_items(re)
}

spec fn fol_ok(re: Regex, f: Map<u32, RoaringBitmap>) -> bool {
    forall|k: u32, p: u32| #[trigger] fmap(f, k, p) ==> p <= n_items(re)
}

/// what the walk needs of the regex it walks
spec fn walk_ok(re: Regex, first: ISet<u32>, f: Map<u32, RoaringBitmap>) -> bool {
    re.endmarker_position == n_items(re) && n_items(re) <= u32::MAX && set_ok(re, first) && fol_ok(re, f)
}

proof fn lemma_sets_ok(re: Regex, first: ISet<u32>, f: Map<u32, RoaringBitmap>)
    requires
        regex_wf(re), leaves_bounded(re.arena@, nid(re.root_id), n_items(re)),
        first == s_first(re.arena@, nid(re.root_id)),
        forall|t: u32, h: u32| #[trigger] fmap(f, t, h) <==> follows_code(re.arena@, nid(re.root_id), t, h),
    ensures set_ok(re, first), fol_ok(re, f)
{
    assert forall|p: u32| #[trigger] first.contains(p) implies p <= n_items(re) by {
        lemma_first_bounded(re.arena@, nid(re.root_id), n_items(re), p);
    }
    assert forall|k: u32, p: u32| #[trigger] fmap(f, k, p) implies p <= n_items(re) by {
        lemma_follow_bounded(re.arena@, nid(re.root_id), n_items(re), k, p);
    }
}

} // verus!
verus! {

spec fn item_span(x: RegexInput) -> HumanSpan {
    match x {
        RegexInput::Literal { literal, description, fallback_level, span } => span,
        RegexInput::Subword { subword_regex_id, fallback_level, span } => span,
        RegexInput::Nonterminal { nonterm, fallback_level, span } => span,
        RegexInput::Command { cmd, zsh_compadd, fallback_level, span } => span,
    }
}

} // verus!
