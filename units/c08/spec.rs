// C08: "nonterminal definitions that depend on each other cyclically" are rejected, acyclic ones
// pass. The dependency graph maps a defined name to the defined names its right-hand side refers
// to; traverse_nonterminal_dependencies_dfs reports a cycle only when there is one (a closed walk
// is exhibited) and otherwise extends `result` to an order in which every name comes after all
// the names it depends on; lemma_topo_acyclic: a graph with such an order has no closed walk.
verus! {

spec fn edge(g: Map<Ustr, UstrMap<HumanSpan>>, u: Ustr, v: Ustr) -> bool {
    g.contains_key(u) && g[u]@.contains_key(v)
}

spec fn in_seq(s: Seq<Ustr>, x: Ustr) -> bool {
    exists|i: int| 0 <= i < s.len() && #[trigger] s[i] == x
}

spec fn on_path(p: Seq<(Ustr, HumanSpan)>, n: int, x: Ustr) -> bool {
    exists|i: int| 0 <= i < n && i < p.len() && (#[trigger] p[i]).0 == x
}

/// consecutive path entries are joined by edges
spec fn chain(g: Map<Ustr, UstrMap<HumanSpan>>, p: Seq<(Ustr, HumanSpan)>) -> bool {
    forall|i: int| 0 <= i < p.len() - 1 ==> edge(g, (#[trigger] p[i]).0, p[i + 1].0)
}

/// every element comes after everything it depends on
spec fn topo(g: Map<Ustr, UstrMap<HumanSpan>>, res: Seq<Ustr>) -> bool {
    forall|i: int, v: Ustr| 0 <= i < res.len() && edge(g, #[trigger] res[i], v) ==> #[trigger] in_seq(res.subrange(0, i), v)
}

/// a closed walk of at least one edge
spec fn closed_walk(g: Map<Ustr, UstrMap<HumanSpan>>, c: Seq<Ustr>) -> bool {
    c.len() >= 2 && c[0] == c[c.len() - 1] && forall|i: int| 0 <= i < c.len() - 1 ==> edge(g, #[trigger] c[i], c[i + 1])
}

spec fn cyclic(g: Map<Ustr, UstrMap<HumanSpan>>) -> bool {
    exists|c: Seq<Ustr>| closed_walk(g, c)
}

/// something depends on x
spec fn has_pred(g: Map<Ustr, UstrMap<HumanSpan>>, x: Ustr) -> bool {
    exists|u: Ustr| edge(g, u, x)
}

/// k is one of the first n keys of a key list
spec fn key_among(ks: Seq<&Ustr>, n: int, k: Ustr) -> bool {
    exists|m: int| 0 <= m < n && m < ks.len() && *(#[trigger] ks[m]) == k
}

/// get_not_depended_on_nonterminals: every dependency of the first n vertices has been counted at least once
spec fn counted_upto(es: Seq<(&Ustr, &UstrMap<HumanSpan>)>, n: int, cnt: Map<Ustr, usize>) -> bool {
    forall|m: int, k: Ustr| 0 <= m < n && m < es.len() && #[trigger] (#[trigger] es[m]).1@.contains_key(k) ==> cnt.contains_key(k) && cnt[k] >= 1
}

/// every dependency is itself a vertex (what `refs.retain(..)` establishes)
spec fn closed_graph(g: Map<Ustr, UstrMap<HumanSpan>>) -> bool {
    forall|u: Ustr, v: Ustr| #[trigger] edge(g, u, v) ==> g.contains_key(v)
}

/// whatever the search added to the order was reached along an edge
spec fn new_have_pred(g: Map<Ustr, UstrMap<HumanSpan>>, before: Seq<Ustr>, after: Seq<Ustr>) -> bool {
    forall|x: Ustr| #[trigger] in_seq(after, x) ==> in_seq(before, x) || has_pred(g, x)
}

spec fn is_prefix_u(a: Seq<Ustr>, b: Seq<Ustr>) -> bool {
    a.len() <= b.len() && forall|i: int| 0 <= i < a.len() ==> b[i] == a[i]
}

/// vertices of path entries j.. followed by x
spec fn walk_from(p: Seq<(Ustr, HumanSpan)>, j: int, x: Ustr) -> Seq<Ustr> {
    Seq::new((p.len() - j + 1) as nat, |k: int| if k < p.len() - j { p[j + k].0 } else { x })
}

/// path[j].0 == x and an edge from the last path entry back to x: a closed walk
proof fn lemma_back_edge_is_cycle(g: Map<Ustr, UstrMap<HumanSpan>>, p: Seq<(Ustr, HumanSpan)>, j: int, x: Ustr)
    requires chain(g, p), 0 <= j < p.len(), p[j].0 == x, edge(g, p[p.len() - 1].0, x)
    ensures cyclic(g)
{
    let c = walk_from(p, j, x);
    assert forall|i: int| 0 <= i < c.len() - 1 implies edge(g, #[trigger] c[i], c[i + 1]) by {
        if i < p.len() - j - 1 {
            assert(edge(g, p[j + i].0, p[j + i + 1].0));
        }
    }
    assert(closed_walk(g, c));
}

proof fn lemma_topo_push(g: Map<Ustr, UstrMap<HumanSpan>>, res: Seq<Ustr>, x: Ustr)
    requires topo(g, res), forall|v: Ustr| edge(g, x, v) ==> in_seq(res, v)
    ensures topo(g, res.push(x))
{
    let r2 = res.push(x);
    assert forall|i: int, v: Ustr| 0 <= i < r2.len() && edge(g, #[trigger] r2[i], v) implies #[trigger] in_seq(r2.subrange(0, i), v) by {
        if i < res.len() {
            assert(r2.subrange(0, i) =~= res.subrange(0, i));
            assert(r2[i] == res[i]);
        } else {
            assert(r2.subrange(0, i) =~= res);
        }
    }
}

proof fn lemma_in_seq_push(s: Seq<Ustr>, y: Ustr, x: Ustr)
    ensures in_seq(s.push(y), x) == (in_seq(s, x) || x == y)
{
    if in_seq(s.push(y), x) {
        let i = choose|i: int| 0 <= i < s.push(y).len() && s.push(y)[i] == x;
        if i < s.len() { assert(s[i] == x); }
    }
    if in_seq(s, x) {
        let i = choose|i: int| 0 <= i < s.len() && s[i] == x;
        assert(s.push(y)[i] == x);
    }
    if x == y { assert(s.push(y)[s.len() as int] == x); }
}

proof fn lemma_on_path_push(p: Seq<(Ustr, HumanSpan)>, e: (Ustr, HumanSpan), x: Ustr)
    ensures
        on_path(p.push(e), p.len() as int, x) == on_path(p, p.len() as int, x),
        on_path(p.push(e), p.len() as int + 1, x) == (on_path(p, p.len() as int, x) || x == e.0),
{
    let q = p.push(e);
    if on_path(q, p.len() as int, x) {
        let i = choose|i: int| 0 <= i < p.len() && i < q.len() && (#[trigger] q[i]).0 == x;
        assert(p[i].0 == x);
    }
    if on_path(p, p.len() as int, x) {
        let i = choose|i: int| 0 <= i < p.len() && i < p.len() && (#[trigger] p[i]).0 == x;
        assert(q[i].0 == x);
    }
    if on_path(q, p.len() as int + 1, x) {
        let i = choose|i: int| 0 <= i < p.len() + 1 && i < q.len() && (#[trigger] q[i]).0 == x;
        if i < p.len() { assert(p[i].0 == x); }
    }
    if x == e.0 { assert(q[p.len() as int].0 == x); }
}

proof fn lemma_in_seq_prefix(a: Seq<Ustr>, b: Seq<Ustr>, x: Ustr)
    requires is_prefix_u(a, b), in_seq(a, x)
    ensures in_seq(b, x)
{
    let i = choose|i: int| 0 <= i < a.len() && a[i] == x;
    assert(b[i] == x);
}

/// first position of x in s (s.len() when absent)
spec fn first_idx(s: Seq<Ustr>, x: Ustr) -> int
    decreases s.len()
{
    if s.len() == 0 { 0 } else if s[0] == x { 0 } else { 1 + first_idx(s.subrange(1, s.len() as int), x) }
}

proof fn lemma_first_idx(s: Seq<Ustr>, x: Ustr)
    ensures
        0 <= first_idx(s, x) <= s.len(),
        first_idx(s, x) < s.len() ==> s[first_idx(s, x)] == x,
        forall|i: int| 0 <= i < first_idx(s, x) ==> s[i] != x,
    decreases s.len()
{
    if s.len() > 0 && s[0] != x {
        let t = s.subrange(1, s.len() as int);
        lemma_first_idx(t, x);
        assert forall|i: int| 0 <= i < first_idx(s, x) implies s[i] != x by {
            if i > 0 { assert(t[i - 1] == s[i]); }
        }
    }
}

/// along an edge the first position strictly decreases
proof fn lemma_edge_decreases(g: Map<Ustr, UstrMap<HumanSpan>>, res: Seq<Ustr>, u: Ustr, v: Ustr)
    requires topo(g, res), edge(g, u, v), in_seq(res, u)
    ensures first_idx(res, v) < first_idx(res, u), in_seq(res, v)
{
    lemma_first_idx(res, u);
    lemma_first_idx(res, v);
    let i = first_idx(res, u);
    assert(i < res.len()) by {
        let w = choose|w: int| 0 <= w < res.len() && res[w] == u;
        if i >= res.len() { assert(res[w] != u); }
    }
    assert(res[i] == u);
    assert(in_seq(res.subrange(0, i), v));
    let j = choose|j: int| 0 <= j < res.subrange(0, i).len() && res.subrange(0, i)[j] == v;
    assert(res[j] == v);
    if first_idx(res, v) > j { assert(res[j] != v); }
}

proof fn lemma_walk_decreases(g: Map<Ustr, UstrMap<HumanSpan>>, res: Seq<Ustr>, c: Seq<Ustr>, k: int)
    requires topo(g, res), c.len() >= 1, in_seq(res, c[0]), 0 <= k < c.len(), forall|i: int| 0 <= i < c.len() - 1 ==> edge(g, #[trigger] c[i], c[i + 1])
    ensures first_idx(res, c[k]) <= first_idx(res, c[0]) - k, in_seq(res, c[k])
    decreases k
{
    if k > 0 {
        lemma_walk_decreases(g, res, c, k - 1);
        assert(edge(g, c[k - 1], c[k]));
        lemma_edge_decreases(g, res, c[k - 1], c[k]);
    }
}

/// C08 (the converse clause): if every defined name is in an order in which each comes after
/// what it depends on, the definitions are not cyclic
proof fn lemma_topo_acyclic(g: Map<Ustr, UstrMap<HumanSpan>>, res: Seq<Ustr>)
    requires topo(g, res), forall|u: Ustr| g.contains_key(u) ==> in_seq(res, u)
    ensures !cyclic(g)
{
    if cyclic(g) {
        let c = choose|c: Seq<Ustr>| closed_walk(g, c);
        assert(edge(g, c[0], c[1]));
        lemma_walk_decreases(g, res, c, c.len() - 1);
    }
}

} // verus!
verus! {

/// the definition of u refers to the defined name v
spec fn dep(arena: Seq<Expr>, defs: Map<Ustr, NontermDefn>, u: Ustr, v: Ustr) -> bool {
    defs.contains_key(u) && defs.contains_key(v) && has_ref(arena, eid(defs[u].rhs_expr_id), v)
}

/// the definitions depend on each other cyclically: a closed walk along `dep`
spec fn cyclic_defs(arena: Seq<Expr>, defs: Map<Ustr, NontermDefn>) -> bool {
    exists|c: Seq<Ustr>| dep_walk(arena, defs, c)
}

spec fn dep_walk(arena: Seq<Expr>, defs: Map<Ustr, NontermDefn>, c: Seq<Ustr>) -> bool {
    c.len() >= 2 && c[0] == c[c.len() - 1] && forall|i: int| 0 <= i < c.len() - 1 ==> dep(arena, defs, #[trigger] c[i], c[i + 1])
}

/// g is the dependency graph of the definitions
spec fn graph_of(arena: Seq<Expr>, defs: Map<Ustr, NontermDefn>, g: Map<Ustr, UstrMap<HumanSpan>>) -> bool {
    (forall|k: Ustr| g.contains_key(k) <==> defs.contains_key(k))
    && (forall|u: Ustr, v: Ustr| #[trigger] edge(g, u, v) <==> dep(arena, defs, u, v))
}

proof fn lemma_cyclic_transfer(arena: Seq<Expr>, defs: Map<Ustr, NontermDefn>, g: Map<Ustr, UstrMap<HumanSpan>>)
    requires graph_of(arena, defs, g)
    ensures cyclic(g) == cyclic_defs(arena, defs)
{
    if cyclic(g) {
        let c = choose|c: Seq<Ustr>| closed_walk(g, c);
        assert forall|i: int| 0 <= i < c.len() - 1 implies dep(arena, defs, #[trigger] c[i], c[i + 1]) by {
            assert(edge(g, c[i], c[i + 1]));
        }
        assert(dep_walk(arena, defs, c));
    }
    if cyclic_defs(arena, defs) {
        let c = choose|c: Seq<Ustr>| dep_walk(arena, defs, c);
        assert forall|i: int| 0 <= i < c.len() - 1 implies edge(g, #[trigger] c[i], c[i + 1]) by {
            assert(dep(arena, defs, c[i], c[i + 1]));
        }
        assert(closed_walk(g, c));
    }
}

/// the definitions' right-hand sides are expressions of the arena
spec fn defs_in_arena(arena: Seq<Expr>, defs: Map<Ustr, NontermDefn>) -> bool {
    earena_wf(arena)
    && forall|k: Ustr| #[trigger] defs.contains_key(k) ==> 0 <= eid(defs[k].rhs_expr_id) < arena.len() && no_dd(arena, eid(defs[k].rhs_expr_id))
}

} // verus!
verus! {

/// the graph built from the first n definitions (in iteration order)
spec fn graph_upto(arena: Seq<Expr>, defs: Map<Ustr, NontermDefn>, g: Map<Ustr, UstrMap<HumanSpan>>, es: Seq<(&Ustr, &NontermDefn)>, n: int) -> bool {
    (forall|k: Ustr| #[trigger] g.contains_key(k) <==> among(es, n, k))
    && (forall|u: Ustr, v: Ustr| #[trigger] edge(g, u, v) <==> g.contains_key(u) && dep(arena, defs, u, v))
}

spec fn among(es: Seq<(&Ustr, &NontermDefn)>, n: int, k: Ustr) -> bool {
    exists|m: int| 0 <= m < n && m < es.len() && *(#[trigger] es[m]).0 == k
}


/// between two searches: nothing on the path, the order is consistent and holds exactly the
/// visited vertices, all of them vertices of the graph
spec fn search_state(g: Map<Ustr, UstrMap<HumanSpan>>, path: Seq<(Ustr, HumanSpan)>, visited: ISet<Ustr>, result: Seq<Ustr>) -> bool {
    path.len() == 0 && topo(g, result)
    && (forall|x: Ustr| visited.contains(x) <==> in_seq(result, x))
    && (forall|x: Ustr| #[trigger] in_seq(result, x) ==> g.contains_key(x))
}

/// one root handled: search from v (path == [v]) finished, then v itself recorded
proof fn lemma_root_done(arena: Seq<Expr>, defs: Map<Ustr, NontermDefn>, g: Map<Ustr, UstrMap<HumanSpan>>, v: Ustr, sp: HumanSpan,
                         res1: Seq<Ustr>, res2: Seq<Ustr>, vis2: ISet<Ustr>)
    requires
        graph_of(arena, defs, g), g.contains_key(v),
        topo(g, res2), is_prefix_u(res1, res2), new_have_pred(g, res1, res2),
        forall|x: Ustr| #[trigger] in_seq(res1, x) ==> g.contains_key(x),
        forall|x: Ustr| vis2.contains(x) <==> in_seq(res2, x) || on_path(seq![(v, sp)], 1, x),
        forall|w: Ustr| edge(g, v, w) ==> in_seq(res2, w),
    ensures
        search_state(g, Seq::<(Ustr, HumanSpan)>::empty(), vis2, res2.push(v)),
        forall|x: Ustr| in_seq(res2.push(v), x) ==> in_seq(res1, x) || has_pred(g, x) || x == v,
        forall|x: Ustr| in_seq(res1, x) ==> in_seq(res2.push(v), x),
{
    lemma_topo_push(g, res2, v);
    let p = seq![(v, sp)];
    assert forall|x: Ustr| vis2.contains(x) <==> in_seq(res2.push(v), x) by {
        lemma_in_seq_push(res2, v, x);
        if on_path(p, 1, x) { let i = choose|i: int| 0 <= i < 1 && i < p.len() && (#[trigger] p[i]).0 == x; assert(p[0].0 == v); }
        if x == v { assert(p[0].0 == x); assert(on_path(p, 1, x)); }
    }
    assert forall|x: Ustr| #[trigger] in_seq(res2.push(v), x) implies g.contains_key(x) && (in_seq(res1, x) || has_pred(g, x) || x == v) by {
        lemma_in_seq_push(res2, v, x);
        if x != v {
            assert(in_seq(res2, x));
            if !in_seq(res1, x) {
                assert(has_pred(g, x));
                let u = choose|u: Ustr| edge(g, u, x);
                assert(dep(arena, defs, u, x));
            }
        }
    }
    assert forall|x: Ustr| in_seq(res1, x) implies in_seq(res2.push(v), x) by {
        lemma_in_seq_prefix(res1, res2, x);
        lemma_in_seq_push(res2, v, x);
    }
}

} // verus!
