// C08: "nonterminal definitions that depend on each other cyclically" are rejected, acyclic ones
// pass. The dependency graph maps a defined name to the defined names its right-hand side refers
// to; traverse_nonterminal_dependencies_dfs reports a cycle only when there is one (a closed walk
// is exhibited) and otherwise extends `result` to an order in which every name comes after all
// the names it depends on; lemma_topo_acyclic: a graph with such an order has no closed walk.
verus! {

spec fn edge(g: Map<Ustr, UstrMap<HumanSpan>>, u: Ustr, v: Ustr) -> bool {
    g.contains_key(u) && g[u]@.contains_key(v)
}

spec fn in_seq(s: Seq<Ustr>, x: Ustr) -> bool {
    exists|i: int| 0 <= i < s.len() && #[trigger] s[i] == x
}

spec fn on_path(p: Seq<(Ustr, HumanSpan)>, n: int, x: Ustr) -> bool {
    exists|i: int| 0 <= i < n && i < p.len() && (#[trigger] p[i]).0 == x
}

/// consecutive path entries are joined by edges
spec fn chain(g: Map<Ustr, UstrMap<HumanSpan>>, p: Seq<(Ustr, HumanSpan)>) -> bool {
    forall|i: int| 0 <= i < p.len() - 1 ==> edge(g, (#[trigger] p[i]).0, p[i + 1].0)
}

/// every element comes after everything it depends on
spec fn topo(g: Map<Ustr, UstrMap<HumanSpan>>, res: Seq<Ustr>) -> bool {
    forall|i: int, v: Ustr| 0 <= i < res.len() && edge(g, #[trigger] res[i], v) ==> #[trigger] in_seq(res.subrange(0, i), v)
}

/// a closed walk of at least one edge
spec fn closed_walk(g: Map<Ustr, UstrMap<HumanSpan>>, c: Seq<Ustr>) -> bool {
    c.len() >= 2 && c[0] == c[c.len() - 1] && forall|i: int| 0 <= i < c.len() - 1 ==> edge(g, #[trigger] c[i], c[i + 1])
}

spec fn cyclic(g: Map<Ustr, UstrMap<HumanSpan>>) -> bool {
    exists|c: Seq<Ustr>| closed_walk(g, c)
}

spec fn is_prefix_u(a: Seq<Ustr>, b: Seq<Ustr>) -> bool {
    a.len() <= b.len() && forall|i: int| 0 <= i < a.len() ==> b[i] == a[i]
}

/// vertices of path entries j.. followed by x
spec fn walk_from(p: Seq<(Ustr, HumanSpan)>, j: int, x: Ustr) -> Seq<Ustr> {
    Seq::new((p.len() - j + 1) as nat, |k: int| if k < p.len() - j { p[j + k].0 } else { x })
}

/// path[j].0 == x and an edge from the last path entry back to x: a closed walk
proof fn lemma_back_edge_is_cycle(g: Map<Ustr, UstrMap<HumanSpan>>, p: Seq<(Ustr, HumanSpan)>, j: int, x: Ustr)
    requires chain(g, p), 0 <= j < p.len(), p[j].0 == x, edge(g, p[p.len() - 1].0, x)
    ensures cyclic(g)
{
    let c = walk_from(p, j, x);
    assert forall|i: int| 0 <= i < c.len() - 1 implies edge(g, #[trigger] c[i], c[i + 1]) by {
        if i < p.len() - j - 1 {
            assert(edge(g, p[j + i].0, p[j + i + 1].0));
        }
    }
    assert(closed_walk(g, c));
}

proof fn lemma_topo_push(g: Map<Ustr, UstrMap<HumanSpan>>, res: Seq<Ustr>, x: Ustr)
    requires topo(g, res), forall|v: Ustr| edge(g, x, v) ==> in_seq(res, v)
    ensures topo(g, res.push(x))
{
    let r2 = res.push(x);
    assert forall|i: int, v: Ustr| 0 <= i < r2.len() && edge(g, #[trigger] r2[i], v) implies #[trigger] in_seq(r2.subrange(0, i), v) by {
        if i < res.len() {
            assert(r2.subrange(0, i) =~= res.subrange(0, i));
            assert(r2[i] == res[i]);
        } else {
            assert(r2.subrange(0, i) =~= res);
        }
    }
}

proof fn lemma_in_seq_push(s: Seq<Ustr>, y: Ustr, x: Ustr)
    ensures in_seq(s.push(y), x) == (in_seq(s, x) || x == y)
{
    if in_seq(s.push(y), x) {
        let i = choose|i: int| 0 <= i < s.push(y).len() && s.push(y)[i] == x;
        if i < s.len() { assert(s[i] == x); }
    }
    if in_seq(s, x) {
        let i = choose|i: int| 0 <= i < s.len() && s[i] == x;
        assert(s.push(y)[i] == x);
    }
    if x == y { assert(s.push(y)[s.len() as int] == x); }
}

proof fn lemma_on_path_push(p: Seq<(Ustr, HumanSpan)>, e: (Ustr, HumanSpan), x: Ustr)
    ensures
        on_path(p.push(e), p.len() as int, x) == on_path(p, p.len() as int, x),
        on_path(p.push(e), p.len() as int + 1, x) == (on_path(p, p.len() as int, x) || x == e.0),
{
    let q = p.push(e);
    if on_path(q, p.len() as int, x) {
        let i = choose|i: int| 0 <= i < p.len() && i < q.len() && (#[trigger] q[i]).0 == x;
        assert(p[i].0 == x);
    }
    if on_path(p, p.len() as int, x) {
        let i = choose|i: int| 0 <= i < p.len() && i < p.len() && (#[trigger] p[i]).0 == x;
        assert(q[i].0 == x);
    }
    if on_path(q, p.len() as int + 1, x) {
        let i = choose|i: int| 0 <= i < p.len() + 1 && i < q.len() && (#[trigger] q[i]).0 == x;
        if i < p.len() { assert(p[i].0 == x); }
    }
    if x == e.0 { assert(q[p.len() as int].0 == x); }
}

proof fn lemma_in_seq_prefix(a: Seq<Ustr>, b: Seq<Ustr>, x: Ustr)
    requires is_prefix_u(a, b), in_seq(a, x)
    ensures in_seq(b, x)
{
    let i = choose|i: int| 0 <= i < a.len() && a[i] == x;
    assert(b[i] == x);
}

/// first position of x in s (s.len() when absent)
spec fn first_idx(s: Seq<Ustr>, x: Ustr) -> int
    decreases s.len()
{
    if s.len() == 0 { 0 } else if s[0] == x { 0 } else { 1 + first_idx(s.subrange(1, s.len() as int), x) }
}

proof fn lemma_first_idx(s: Seq<Ustr>, x: Ustr)
    ensures
        0 <= first_idx(s, x) <= s.len(),
        first_idx(s, x) < s.len() ==> s[first_idx(s, x)] == x,
        forall|i: int| 0 <= i < first_idx(s, x) ==> s[i] != x,
    decreases s.len()
{
    if s.len() > 0 && s[0] != x {
        let t = s.subrange(1, s.len() as int);
        lemma_first_idx(t, x);
        assert forall|i: int| 0 <= i < first_idx(s, x) implies s[i] != x by {
            if i > 0 { assert(t[i - 1] == s[i]); }
        }
    }
}

/// along an edge the first position strictly decreases
proof fn lemma_edge_decreases(g: Map<Ustr, UstrMap<HumanSpan>>, res: Seq<Ustr>, u: Ustr, v: Ustr)
    requires topo(g, res), edge(g, u, v), in_seq(res, u)
    ensures first_idx(res, v) < first_idx(res, u), in_seq(res, v)
{
    lemma_first_idx(res, u);
    lemma_first_idx(res, v);
    let i = first_idx(res, u);
    assert(i < res.len()) by {
        let w = choose|w: int| 0 <= w < res.len() && res[w] == u;
        if i >= res.len() { assert(res[w] != u); }
    }
    assert(res[i] == u);
    assert(in_seq(res.subrange(0, i), v));
    let j = choose|j: int| 0 <= j < res.subrange(0, i).len() && res.subrange(0, i)[j] == v;
    assert(res[j] == v);
    if first_idx(res, v) > j { assert(res[j] != v); }
}

proof fn lemma_walk_decreases(g: Map<Ustr, UstrMap<HumanSpan>>, res: Seq<Ustr>, c: Seq<Ustr>, k: int)
    requires topo(g, res), c.len() >= 1, in_seq(res, c[0]), 0 <= k < c.len(), forall|i: int| 0 <= i < c.len() - 1 ==> edge(g, #[trigger] c[i], c[i + 1])
    ensures first_idx(res, c[k]) <= first_idx(res, c[0]) - k, in_seq(res, c[k])
    decreases k
{
    if k > 0 {
        lemma_walk_decreases(g, res, c, k - 1);
        assert(edge(g, c[k - 1], c[k]));
        lemma_edge_decreases(g, res, c[k - 1], c[k]);
    }
}

/// C08 (the converse clause): if every defined name is in an order in which each comes after
/// what it depends on, the definitions are not cyclic
proof fn lemma_topo_acyclic(g: Map<Ustr, UstrMap<HumanSpan>>, res: Seq<Ustr>)
    requires topo(g, res), forall|u: Ustr| g.contains_key(u) ==> in_seq(res, u)
    ensures !cyclic(g)
{
    if cyclic(g) {
        let c = choose|c: Seq<Ustr>| closed_walk(g, c);
        assert(edge(g, c[0], c[1]));
        lemma_walk_decreases(g, res, c, c.len() - 1);
    }
}

} // verus!
