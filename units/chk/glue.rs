// The glue (ValidGrammar::from_grammar): what the parser must hand over, and helper lemmas for
// carrying "every definition is a well-formed, DistributiveDescription-free tree" across passes
// that only append to the arena.
verus! {

/// what Grammar::parse hands over: children before parents, statements pointing into the arena
spec fn grammar_wf(g: Grammar) -> bool {
    earena_wf(g.arena@)
    && (forall|i: int| 0 <= i < call_variant_stmts(g.statements@).len() ==> 0 <= (#[trigger] call_variant_stmts(g.statements@)[i]).2.0 < g.arena@.len())
    && (forall|i: int| 0 <= i < defs(g.statements@).len() ==> 0 <= (#[trigger] defs(g.statements@)[i]).rhs_expr_id.0 < g.arena@.len())
}

/// every definition's right-hand side lies in the arena
spec fn defs_in(a: Seq<Expr>, m: Map<Ustr, NontermDefn>) -> bool {
    forall|k: Ustr| m.contains_key(k) ==> 0 <= (#[trigger] m[k]).rhs_expr_id.0 < a.len()
}

spec fn seen_key(s: Seq<Ustr>, n: int, x: Ustr) -> bool {
    exists|q: int| 0 <= q < n && q < s.len() && #[trigger] s[q] == x
}

proof fn lemma_seen_key_step(s: Seq<Ustr>, n: int, x: Ustr)
    requires 0 <= n < s.len()
    ensures seen_key(s, n + 1, x) == (seen_key(s, n, x) || s[n] == x)
{
    if seen_key(s, n + 1, x) {
        let q = choose|q: int| 0 <= q < n + 1 && q < s.len() && #[trigger] s[q] == x;
        if q < n { assert(seen_key(s, n, x)); }
    }
    if seen_key(s, n, x) {
        let q = choose|q: int| 0 <= q < n && q < s.len() && #[trigger] s[q] == x;
        assert(seen_key(s, n + 1, x));
    }
    if s[n] == x { assert(seen_key(s, n + 1, x)); }
}

proof fn lemma_prefix_trans(a: Seq<Expr>, b: Seq<Expr>, c: Seq<Expr>)
    requires is_prefix(a, b), is_prefix(b, c)
    ensures is_prefix(a, c)
{
    assert forall|i: int| 0 <= i < a.len() implies c[i] == a[i] by { assert(b[i] == a[i]); assert(c[i] == b[i]); }
}

proof fn lemma_vars_wf_prefix(a1: Seq<Expr>, a2: Seq<Expr>, m: Map<Ustr, NontermDefn>)
    requires is_prefix(a1, a2), vars_wf(a1, m)
    ensures vars_wf(a2, m)
{
    assert forall|d: Ustr| m.contains_key(d) implies 0 <= (#[trigger] m[d]).rhs_expr_id.0 < a2.len() && no_dd(a2, m[d].rhs_expr_id.0 as int) by {
        lemma_no_dd_prefix(a1, a2, m[d].rhs_expr_id.0 as int);
    }
}


/// definition k refers to n
spec fn key_refs(a: Seq<Expr>, m: Map<Ustr, NontermDefn>, k: Ustr, n: Ustr) -> bool {
    m.contains_key(k) && has_ref(a, m[k].rhs_expr_id.0 as int, n)
}
/// some definition refers to n
spec fn defs_ref(a: Seq<Expr>, m: Map<Ustr, NontermDefn>, n: Ustr) -> bool {
    exists|k: Ustr| #[trigger] key_refs(a, m, k, n)
}
spec fn defs_ref_upto(a: Seq<Expr>, m: Map<Ustr, NontermDefn>, keys: Seq<Ustr>, idx: int, n: Ustr) -> bool {
    exists|q: int| 0 <= q < idx && q < keys.len() && key_refs(a, m, #[trigger] keys[q], n)
}

spec fn seen_entry(s: Seq<(&Ustr, &NontermDefn)>, idx: int, n: Ustr) -> bool {
    exists|q: int| 0 <= q < idx && q < s.len() && *(#[trigger] s[q]).0 == n
}

proof fn lemma_seen_entry_step(s: Seq<(&Ustr, &NontermDefn)>, idx: int, n: Ustr)
    requires 0 <= idx < s.len()
    ensures seen_entry(s, idx + 1, n) == (seen_entry(s, idx, n) || *s[idx].0 == n)
{
    if seen_entry(s, idx + 1, n) {
        let q = choose|q: int| 0 <= q < idx + 1 && q < s.len() && *(#[trigger] s[q]).0 == n;
        if q < idx { assert(seen_entry(s, idx, n)); }
    }
    if seen_entry(s, idx, n) {
        let q = choose|q: int| 0 <= q < idx && q < s.len() && *(#[trigger] s[q]).0 == n;
        assert(seen_entry(s, idx + 1, n));
    }
    if *s[idx].0 == n { assert(seen_entry(s, idx + 1, n)); }
}

proof fn lemma_defs_ref_upto_step(a: Seq<Expr>, m: Map<Ustr, NontermDefn>, keys: Seq<Ustr>, idx: int, n: Ustr)
    requires 0 <= idx < keys.len()
    ensures defs_ref_upto(a, m, keys, idx + 1, n) == (defs_ref_upto(a, m, keys, idx, n) || key_refs(a, m, keys[idx], n))
{
    if defs_ref_upto(a, m, keys, idx + 1, n) {
        let q = choose|q: int| 0 <= q < idx + 1 && q < keys.len() && key_refs(a, m, #[trigger] keys[q], n);
        if q < idx { assert(defs_ref_upto(a, m, keys, idx, n)); }
    }
    if defs_ref_upto(a, m, keys, idx, n) {
        let q = choose|q: int| 0 <= q < idx && q < keys.len() && key_refs(a, m, #[trigger] keys[q], n);
        assert(defs_ref_upto(a, m, keys, idx + 1, n));
    }
    if key_refs(a, m, keys[idx], n) { assert(defs_ref_upto(a, m, keys, idx + 1, n)); }
}

spec fn seen_unused_spec(s: Seq<(&Ustr, &UserSpec)>, idx: int, n: Ustr) -> bool {
    exists|q: int| 0 <= q < idx && q < s.len() && *(#[trigger] s[q]).0 == n && !s[q].1.used
}

proof fn lemma_seen_unused_spec_step(s: Seq<(&Ustr, &UserSpec)>, idx: int, n: Ustr)
    requires 0 <= idx < s.len()
    ensures seen_unused_spec(s, idx + 1, n) == (seen_unused_spec(s, idx, n) || (*s[idx].0 == n && !s[idx].1.used))
{
    if seen_unused_spec(s, idx + 1, n) {
        let q = choose|q: int| 0 <= q < idx + 1 && q < s.len() && *(#[trigger] s[q]).0 == n && !s[q].1.used;
        if q < idx { assert(seen_unused_spec(s, idx, n)); }
    }
    if seen_unused_spec(s, idx, n) {
        let q = choose|q: int| 0 <= q < idx && q < s.len() && *(#[trigger] s[q]).0 == n && !s[q].1.used;
        assert(seen_unused_spec(s, idx + 1, n));
    }
    if *s[idx].0 == n && !s[idx].1.used { assert(seen_unused_spec(s, idx + 1, n)); }
}

/// two plain definitions of one name
spec fn duplicate_plain(ds: Seq<NontermDefn>) -> bool {
    exists|i: int, j: int| 0 <= i < j < ds.len() && (#[trigger] ds[i]).shell is None && (#[trigger] ds[j]).shell is None && ds[i].lhs_name == ds[j].lhs_name
}

/// C15, in terms of the input: a statement (call variant or plain definition) refers to n
spec fn call_variant_refs(g: Grammar, upto: int, n: Ustr) -> bool {
    exists|i: int| 0 <= i < upto && i < call_variant_stmts(g.statements@).len() && has_ref(g.arena@, (#[trigger] call_variant_stmts(g.statements@)[i]).2.0 as int, n)
}
spec fn plain_def_refs(g: Grammar, n: Ustr) -> bool {
    exists|i: int| 0 <= i < defs(g.statements@).len() && (#[trigger] defs(g.statements@)[i]).shell is None && has_ref(g.arena@, defs(g.statements@)[i].rhs_expr_id.0 as int, n)
}
spec fn stmt_refs(g: Grammar, n: Ustr) -> bool {
    call_variant_refs(g, call_variant_stmts(g.statements@).len() as int, n) || plain_def_refs(g, n)
}
spec fn plain_defined(g: Grammar, n: Ustr) -> bool {
    has_plain_def(defs(g.statements@), defs(g.statements@).len() as int, n)
}

} // verus!
