// C03 (helpers of the minimiser): find_bounds returns exactly the transitions whose target lies
// in [group_min, group_max] from the image sorted by target.
verus! {

spec fn sorted_by_to(s: Seq<Transition>) -> bool {
    forall|i: int, j: int| 0 <= i <= j < s.len() ==> s[i].to <= s[j].to
}

spec fn cmp_range(x: u32, lo: u32, hi: u32) -> Ordering {
    if x < lo { Ordering::Less } else if x > hi { Ordering::Greater } else { Ordering::Equal }
}

spec fn in_group(t: Transition, lo: u32, hi: u32) -> bool { lo <= t.to <= hi }

/// out is the slice ts[lo..=hi] and that index range is exactly where the group's targets sit
spec fn is_exact_range(ts: Seq<Transition>, out: Seq<Transition>, lo: int, hi: int, gmin: u32, gmax: u32) -> bool {
    0 <= lo <= hi < ts.len() && out == ts.subrange(lo, hi + 1)
    && (forall|i: int| 0 <= i < ts.len() ==> (lo <= i <= hi <==> in_group(#[trigger] ts[i], gmin, gmax)))
}

} // verus!
