// C03 (helpers of the minimiser): find_bounds returns exactly the transitions whose target lies
// in [group_min, group_max] from the image sorted by target.
verus! {

#[verifier::opaque]
spec fn sorted_by_to(s: Seq<Transition>) -> bool {
    forall|i: int, j: int| 0 <= i <= j < s.len() ==> s[i].to <= s[j].to
}

spec fn cmp_range(x: u32, lo: u32, hi: u32) -> Ordering {
    if x < lo { Ordering::Less } else if x > hi { Ordering::Greater } else { Ordering::Equal }
}

spec fn in_group(t: Transition, lo: u32, hi: u32) -> bool { lo <= t.to <= hi }

/// out is the slice ts[lo..=hi] and that index range is exactly where the group's targets sit
#[verifier::opaque]
spec fn is_exact_range(ts: Seq<Transition>, out: Seq<Transition>, lo: int, hi: int, gmin: u32, gmax: u32) -> bool {
    0 <= lo <= hi < ts.len() && out == ts.subrange(lo, hi + 1)
    && (forall|i: int| 0 <= i < ts.len() ==> (lo <= i <= hi <==> in_group(#[trigger] ts[i], gmin, gmax)))
}

/// some transition leads into s
spec fn has_in(ts: Seq<Transition>, s: u32) -> bool {
    exists|i: int| 0 <= i < ts.len() && (#[trigger] ts[i]).to == s
}
spec fn has_in_upto(ts: Seq<Transition>, n: int, s: u32) -> bool {
    exists|i: int| 0 <= i < n && i < ts.len() && (#[trigger] ts[i]).to == s
}
/// some transition leaves s
spec fn has_out(ts: Seq<Transition>, s: u32) -> bool {
    exists|i: int| 0 <= i < ts.len() && (#[trigger] ts[i]).from == s
}
spec fn has_out_upto(ts: Seq<Transition>, n: int, s: u32) -> bool {
    exists|i: int| 0 <= i < n && i < ts.len() && (#[trigger] ts[i]).from == s
}

/// keep_only_states_with_input_transitions keeps a transition iff it leaves the start state or
/// joins two states that something leads into
spec fn keep_in(ts: Seq<Transition>, start: u32, t: Transition) -> bool {
    t.from == start || (has_in(ts, t.from) && has_in(ts, t.to))
}
spec fn kept_in_upto(ts: Seq<Transition>, start: u32, n: int) -> Seq<Transition>
    decreases n
{
    if n <= 0 || n > ts.len() { Seq::empty() } else {
        let p = kept_in_upto(ts, start, n - 1);
        if keep_in(ts, start, ts[n - 1]) { p.push(ts[n - 1]) } else { p }
    }
}

/// eliminate_nonaccepting_states_without_output_transitions keeps a transition iff its target
/// accepts or has a way out
spec fn keep_out(ts: Seq<Transition>, acc: ISet<u32>, t: Transition) -> bool {
    acc.contains(t.to) || has_out(ts, t.to)
}
spec fn kept_out_upto(ts: Seq<Transition>, acc: ISet<u32>, n: int) -> Seq<Transition>
    decreases n
{
    if n <= 0 || n > ts.len() { Seq::empty() } else {
        let p = kept_out_upto(ts, acc, n - 1);
        if keep_out(ts, acc, ts[n - 1]) { p.push(ts[n - 1]) } else { p }
    }
}

/// s occurs in the automaton: the start state or an end of some transition
spec fn state_upto(ts: Seq<Transition>, start: u32, n: int, s: u32) -> bool {
    s == start || has_in_upto(ts, n, s) || has_out_upto(ts, n, s)
}
spec fn state_of(ts: Seq<Transition>, start: u32, s: u32) -> bool {
    s == start || has_in(ts, s) || has_out(ts, s)
}

/// some key has number v
spec fn hit(f: Map<u32, u32>, v: u32) -> bool {
    exists|k: u32| f.contains_key(k) && #[trigger] f[k] == v
}

/// f numbers its keys 0 .. c-1 without gaps or repetitions
spec fn numbering(f: Map<u32, u32>, c: int) -> bool {
    (forall|k: u32| f.contains_key(k) ==> 0 <= #[trigger] f[k] < c)
    && (forall|k1: u32, k2: u32| f.contains_key(k1) && f.contains_key(k2) && #[trigger] f[k1] == #[trigger] f[k2] ==> k1 == k2)
    && (forall|v: u32| 0 <= v < c ==> #[trigger] hit(f, v))
}

/// renumber_states: the automaton is copied through a gap-free renumbering f of its states, the
/// start state becoming 0
spec fn renumbering_ok(f: Map<u32, u32>, c: int, start: u32, ts: Seq<Transition>, acc: ISet<u32>, r0: u32, r1: Seq<Transition>, r2: ISet<u32>) -> bool {
    numbering(f, c)
    && (forall|s: u32| f.contains_key(s) <==> state_of(ts, start, s))
    && f[start] == 0 && r0 == 0
    && r1.len() == ts.len()
    && (forall|i: int| 0 <= i < ts.len() ==> #[trigger] r1[i] == (Transition { from: f[ts[i].from], to: f[ts[i].to], input: ts[i].input }))
    && (forall|v: u32| r2.contains(v) <==> acc_image(f, acc, v))
}

/// v is the number of one of the first n elements of vec
spec fn img_upto(f: Map<u32, u32>, vec: Seq<u32>, n: int, v: u32) -> bool {
    exists|q: int| 0 <= q < n && q < vec.len() && #[trigger] f[vec[q]] == v
}
/// v is the number of an accepting state
spec fn acc_image(f: Map<u32, u32>, acc: ISet<u32>, v: u32) -> bool {
    exists|s: u32| acc.contains(s) && f.contains_key(s) && #[trigger] f[s] == v
}

proof fn lemma_img_step(f: Map<u32, u32>, vec: Seq<u32>, n: int, v: u32)
    requires 0 <= n < vec.len()
    ensures img_upto(f, vec, n + 1, v) == (img_upto(f, vec, n, v) || f[vec[n]] == v)
{
    if img_upto(f, vec, n + 1, v) {
        let q = choose|q: int| 0 <= q < n + 1 && q < vec.len() && #[trigger] f[vec[q]] == v;
        if q < n { assert(img_upto(f, vec, n, v)); }
    }
    if img_upto(f, vec, n, v) {
        let q = choose|q: int| 0 <= q < n && q < vec.len() && #[trigger] f[vec[q]] == v;
        assert(img_upto(f, vec, n + 1, v));
    }
    if f[vec[n]] == v { assert(img_upto(f, vec, n + 1, v)); }
}

proof fn lemma_img_all(f: Map<u32, u32>, vec: Seq<u32>, acc: ISet<u32>)
    requires
        forall|x: u32| vec.contains(x) <==> acc.contains(x),
        forall|s: u32| acc.contains(s) ==> f.contains_key(s),
    ensures forall|v: u32| img_upto(f, vec, vec.len() as int, v) <==> acc_image(f, acc, v)
{
    assert forall|v: u32| img_upto(f, vec, vec.len() as int, v) <==> acc_image(f, acc, v) by {
        if img_upto(f, vec, vec.len() as int, v) {
            let q = choose|q: int| 0 <= q < vec.len() && q < vec.len() && #[trigger] f[vec[q]] == v;
            assert(vec.contains(vec[q]));
            assert(acc.contains(vec[q]) && f.contains_key(vec[q]) && f[vec[q]] == v);
        }
        if acc_image(f, acc, v) {
            let s = choose|s: u32| acc.contains(s) && f.contains_key(s) && #[trigger] f[s] == v;
            assert(vec.contains(s));
            let q = choose|q: int| 0 <= q < vec.len() && vec[q] == s;
            assert(f[vec[q]] == v);
        }
    }
}

proof fn lemma_numbering_insert(f: Map<u32, u32>, c: int, k: u32)
    requires numbering(f, c), !f.contains_key(k), 0 <= c < u32::MAX
    ensures numbering(f.insert(k, c as u32), c + 1)
{
    let g = f.insert(k, c as u32);
    assert forall|v: u32| 0 <= v < c + 1 implies #[trigger] hit(g, v) by {
        if v < c {
            assert(hit(f, v));
            let k2 = choose|k2: u32| f.contains_key(k2) && #[trigger] f[k2] == v;
            assert(g.contains_key(k2) && g[k2] == v);
        } else {
            assert(g.contains_key(k) && g[k] == v);
        }
    }
    assert forall|k1: u32, k2: u32| g.contains_key(k1) && g.contains_key(k2) && #[trigger] g[k1] == #[trigger] g[k2] implies k1 == k2 by {
        if k1 != k && k2 != k { assert(f[k1] == f[k2]); }
    }
}

spec fn seen32(s: Seq<u32>, n: int, x: u32) -> bool {
    exists|q: int| 0 <= q < n && q < s.len() && #[trigger] s[q] == x
}

proof fn lemma_has_in_step(ts: Seq<Transition>, n: int, s: u32)
    requires 0 <= n < ts.len()
    ensures has_in_upto(ts, n + 1, s) == (has_in_upto(ts, n, s) || ts[n].to == s)
{
    if has_in_upto(ts, n + 1, s) {
        let i = choose|i: int| 0 <= i < n + 1 && i < ts.len() && (#[trigger] ts[i]).to == s;
        if i < n { assert(has_in_upto(ts, n, s)); }
    }
    if has_in_upto(ts, n, s) {
        let i = choose|i: int| 0 <= i < n && i < ts.len() && (#[trigger] ts[i]).to == s;
        assert(has_in_upto(ts, n + 1, s));
    }
    if ts[n].to == s { assert(has_in_upto(ts, n + 1, s)); }
}

proof fn lemma_has_out_step(ts: Seq<Transition>, n: int, s: u32)
    requires 0 <= n < ts.len()
    ensures has_out_upto(ts, n + 1, s) == (has_out_upto(ts, n, s) || ts[n].from == s)
{
    if has_out_upto(ts, n + 1, s) {
        let i = choose|i: int| 0 <= i < n + 1 && i < ts.len() && (#[trigger] ts[i]).from == s;
        if i < n { assert(has_out_upto(ts, n, s)); }
    }
    if has_out_upto(ts, n, s) {
        let i = choose|i: int| 0 <= i < n && i < ts.len() && (#[trigger] ts[i]).from == s;
        assert(has_out_upto(ts, n + 1, s));
    }
    if ts[n].from == s { assert(has_out_upto(ts, n + 1, s)); }
}

proof fn lemma_seen32_step(s: Seq<u32>, n: int, x: u32)
    requires 0 <= n < s.len()
    ensures seen32(s, n + 1, x) == (seen32(s, n, x) || s[n] == x)
{
    if seen32(s, n + 1, x) {
        let q = choose|q: int| 0 <= q < n + 1 && q < s.len() && #[trigger] s[q] == x;
        if q < n { assert(seen32(s, n, x)); }
    }
    if seen32(s, n, x) {
        let q = choose|q: int| 0 <= q < n && q < s.len() && #[trigger] s[q] == x;
        assert(seen32(s, n + 1, x));
    }
    if s[n] == x { assert(seen32(s, n + 1, x)); }
}

} // verus!
verus! {

/// the table built from the first n transitions: (q, i) present iff one of them has that source
/// and symbol; the value is the target of the last such one
spec fn table_of(ts: Seq<Transition>, n: int, tab: Map<u32, Map<InpId, u32>>) -> bool {
    (forall|q: u32, i: InpId| #[trigger] cell_in(tab, q, i) ==> exists|m: int| 0 <= m < n && m < ts.len() && #[trigger] tr_is(ts[m], q, i, tab[q][i]))
    && (forall|m: int| 0 <= m < n && m < ts.len() ==> cell_in(tab, (#[trigger] ts[m]).from, ts[m].input))
    && (forall|q: u32| #[trigger] tab.contains_key(q) ==> exists|m: int| 0 <= m < n && m < ts.len() && (#[trigger] ts[m]).from == q)
}


spec fn tr_is(t: Transition, q: u32, i: InpId, to: u32) -> bool { t.from == q && t.input == i && t.to == to }

} // verus!
