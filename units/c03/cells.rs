// shared by units c03, min and c02e: a cell of a transition table
verus! {

spec fn cell_in(tab: Map<u32, Map<InpId, u32>>, q: u32, i: InpId) -> bool { tab.contains_key(q) && tab[q].contains_key(i) }

} // verus!
