// C08 (helpers of the SubwordSpaces check) / C06: the first / last item of an expression as it is
// read inside a word: through sequences (first / last child) and through Subword nodes.
verus! {

spec fn head_of(a: Seq<Expr>, e: int) -> int
    decreases e
{
    if e < 0 || e >= a.len() { e } else {
        match a[e] {
            Expr::Sequence { children, .. } => if children@.len() >= 1 && 0 <= children@[0].0 < e { head_of(a, children@[0].0 as int) } else { e },
            Expr::Subword { root_id, .. } => if 0 <= root_id.0 < e { head_of(a, root_id.0 as int) } else { e },
            _ => e,
        }
    }
}

spec fn tail_of(a: Seq<Expr>, e: int) -> int
    decreases e
{
    if e < 0 || e >= a.len() { e } else {
        match a[e] {
            Expr::Sequence { children, .. } => if children@.len() >= 1 && 0 <= children@[children@.len() - 1].0 < e { tail_of(a, children@[children@.len() - 1].0 as int) } else { e },
            Expr::Subword { root_id, .. } => if 0 <= root_id.0 < e { tail_of(a, root_id.0 as int) } else { e },
            _ => e,
        }
    }
}

/// every Sequence below e has at least one child (the parser only builds sequences of two or
/// more items; `first().unwrap()` / `last().unwrap()` rely on it)
spec fn seqs_nonempty(a: Seq<Expr>, e: int) -> bool
    decreases e
{
    if e < 0 || e >= a.len() { false } else {
        match a[e] {
            Expr::Sequence { children, .. } => children@.len() >= 1 && forall|k: int| 0 <= k < children@.len() ==> 0 <= (#[trigger] children@[k]).0 < e && seqs_nonempty(a, children@[k].0 as int),
            Expr::Alternative { children, .. } => forall|k: int| 0 <= k < children@.len() ==> 0 <= (#[trigger] children@[k]).0 < e && seqs_nonempty(a, children@[k].0 as int),
            Expr::Fallback { children, .. } => forall|k: int| 0 <= k < children@.len() ==> 0 <= (#[trigger] children@[k]).0 < e && seqs_nonempty(a, children@[k].0 as int),
            Expr::Optional { child, .. } => 0 <= child.0 < e && seqs_nonempty(a, child.0 as int),
            Expr::Many1 { child, .. } => 0 <= child.0 < e && seqs_nonempty(a, child.0 as int),
            Expr::DistributiveDescription { child, .. } => 0 <= child.0 < e && seqs_nonempty(a, child.0 as int),
            Expr::Subword { root_id, .. } => 0 <= root_id.0 < e && seqs_nonempty(a, root_id.0 as int),
            _ => true,
        }
    }
}

} // verus!
