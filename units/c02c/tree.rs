// Subword structure of expression trees: flatten_expr leaves no Subword node, collapse_subwords
// leaves no Subword below a Subword (regex construction builds one flat automaton per word and
// has an `unreachable!()` for anything else); plus the push lemmas for no_dd / fresh that the
// rebuilding passes need.
verus! {

/// no Subword node below i (nested_ok == false), or Subword nodes whose inside has none (true)
spec fn sub_ok(a: Seq<Expr>, i: int, nested_ok: bool) -> bool
    decreases i
{
    if i < 0 || i >= a.len() { false } else {
        match a[i] {
            Expr::Terminal { .. } => true,
            Expr::NontermRef { .. } => true,
            Expr::Command { .. } => true,
            Expr::Sequence { children, .. } => forall|k: int| 0 <= k < children@.len() ==> 0 <= (#[trigger] children@[k]).0 < i && sub_ok(a, children@[k].0 as int, nested_ok),
            Expr::Alternative { children, .. } => forall|k: int| 0 <= k < children@.len() ==> 0 <= (#[trigger] children@[k]).0 < i && sub_ok(a, children@[k].0 as int, nested_ok),
            Expr::Fallback { children, .. } => forall|k: int| 0 <= k < children@.len() ==> 0 <= (#[trigger] children@[k]).0 < i && sub_ok(a, children@[k].0 as int, nested_ok),
            Expr::Optional { child, .. } => 0 <= child.0 < i && sub_ok(a, child.0 as int, nested_ok),
            Expr::Many1 { child, .. } => 0 <= child.0 < i && sub_ok(a, child.0 as int, nested_ok),
            Expr::DistributiveDescription { child, .. } => 0 <= child.0 < i && sub_ok(a, child.0 as int, nested_ok),
            Expr::Subword { root_id, .. } => nested_ok && 0 <= root_id.0 < i && sub_ok(a, root_id.0 as int, false),
        }
    }
}

proof fn lemma_sub_ok_prefix(old: Seq<Expr>, new: Seq<Expr>, i: int, n: bool)
    requires is_prefix(old, new), sub_ok(old, i, n)
    ensures sub_ok(new, i, n)
    decreases i
{
    if 0 <= i < old.len() {
        assert(new[i] == old[i]);
        match old[i] {
            Expr::Sequence { children, .. } => {
                assert forall|k: int| 0 <= k < children@.len() implies 0 <= (#[trigger] children@[k]).0 < i && sub_ok(new, children@[k].0 as int, n) by {
                    lemma_sub_ok_prefix(old, new, children@[k].0 as int, n);
                }
            }
            Expr::Alternative { children, .. } => {
                assert forall|k: int| 0 <= k < children@.len() implies 0 <= (#[trigger] children@[k]).0 < i && sub_ok(new, children@[k].0 as int, n) by {
                    lemma_sub_ok_prefix(old, new, children@[k].0 as int, n);
                }
            }
            Expr::Fallback { children, .. } => {
                assert forall|k: int| 0 <= k < children@.len() implies 0 <= (#[trigger] children@[k]).0 < i && sub_ok(new, children@[k].0 as int, n) by {
                    lemma_sub_ok_prefix(old, new, children@[k].0 as int, n);
                }
            }
            Expr::Optional { child, .. } => { lemma_sub_ok_prefix(old, new, child.0 as int, n); }
            Expr::Many1 { child, .. } => { lemma_sub_ok_prefix(old, new, child.0 as int, n); }
            Expr::DistributiveDescription { child, .. } => { lemma_sub_ok_prefix(old, new, child.0 as int, n); }
            Expr::Subword { root_id, .. } => { lemma_sub_ok_prefix(old, new, root_id.0 as int, false); }
            _ => {}
        }
    }
}

/// whatever has no Subword at all has no nested one
proof fn lemma_sub_ok_weaken(a: Seq<Expr>, i: int)
    requires sub_ok(a, i, false)
    ensures sub_ok(a, i, true)
    decreases i
{
    match a[i] {
        Expr::Sequence { children, .. } => {
            assert forall|k: int| 0 <= k < children@.len() implies 0 <= (#[trigger] children@[k]).0 < i && sub_ok(a, children@[k].0 as int, true) by {
                lemma_sub_ok_weaken(a, children@[k].0 as int);
            }
        }
        Expr::Alternative { children, .. } => {
            assert forall|k: int| 0 <= k < children@.len() implies 0 <= (#[trigger] children@[k]).0 < i && sub_ok(a, children@[k].0 as int, true) by {
                lemma_sub_ok_weaken(a, children@[k].0 as int);
            }
        }
        Expr::Fallback { children, .. } => {
            assert forall|k: int| 0 <= k < children@.len() implies 0 <= (#[trigger] children@[k]).0 < i && sub_ok(a, children@[k].0 as int, true) by {
                lemma_sub_ok_weaken(a, children@[k].0 as int);
            }
        }
        Expr::Optional { child, .. } => { lemma_sub_ok_weaken(a, child.0 as int); }
        Expr::Many1 { child, .. } => { lemma_sub_ok_weaken(a, child.0 as int); }
        Expr::DistributiveDescription { child, .. } => { lemma_sub_ok_weaken(a, child.0 as int); }
        _ => {}
    }
}

proof fn lemma_sub_ok_push_children(a: Seq<Expr>, ch: Vec<ExprId>, n: bool)
    requires
        forall|k: int| 0 <= k < ch@.len() ==> 0 <= (#[trigger] ch@[k]).0 < a.len() && sub_ok(a, ch@[k].0 as int, n),
    ensures
        forall|sp: HumanSpan| sub_ok(#[trigger] a.push(Expr::Sequence { children: ch, span: sp }), a.len() as int, n),
        forall|sp: HumanSpan| sub_ok(#[trigger] a.push(Expr::Alternative { children: ch, span: sp }), a.len() as int, n),
        forall|sp: HumanSpan| sub_ok(#[trigger] a.push(Expr::Fallback { children: ch, span: sp }), a.len() as int, n),
{
    assert forall|x: Expr| is_prefix(a, #[trigger] a.push(x)) by {}
    assert forall|sp: HumanSpan| sub_ok(#[trigger] a.push(Expr::Sequence { children: ch, span: sp }), a.len() as int, n) by {
        let b = a.push(Expr::Sequence { children: ch, span: sp });
        assert forall|k: int| 0 <= k < ch@.len() implies sub_ok(b, (#[trigger] ch@[k]).0 as int, n) by { lemma_sub_ok_prefix(a, b, ch@[k].0 as int, n); }
    }
    assert forall|sp: HumanSpan| sub_ok(#[trigger] a.push(Expr::Alternative { children: ch, span: sp }), a.len() as int, n) by {
        let b = a.push(Expr::Alternative { children: ch, span: sp });
        assert forall|k: int| 0 <= k < ch@.len() implies sub_ok(b, (#[trigger] ch@[k]).0 as int, n) by { lemma_sub_ok_prefix(a, b, ch@[k].0 as int, n); }
    }
    assert forall|sp: HumanSpan| sub_ok(#[trigger] a.push(Expr::Fallback { children: ch, span: sp }), a.len() as int, n) by {
        let b = a.push(Expr::Fallback { children: ch, span: sp });
        assert forall|k: int| 0 <= k < ch@.len() implies sub_ok(b, (#[trigger] ch@[k]).0 as int, n) by { lemma_sub_ok_prefix(a, b, ch@[k].0 as int, n); }
    }
}

proof fn lemma_sub_ok_push_child(a: Seq<Expr>, c: ExprId, n: bool)
    requires 0 <= c.0 < a.len(), sub_ok(a, c.0 as int, n)
    ensures
        forall|sp: HumanSpan| sub_ok(#[trigger] a.push(Expr::Optional { child: c, span: sp }), a.len() as int, n),
        forall|sp: HumanSpan| sub_ok(#[trigger] a.push(Expr::Many1 { child: c, span: sp }), a.len() as int, n),
        forall|sp: HumanSpan, d: Ustr| sub_ok(#[trigger] a.push(Expr::DistributiveDescription { child: c, descr: d, span: sp }), a.len() as int, n),
{
    assert forall|x: Expr| is_prefix(a, #[trigger] a.push(x)) by {}
    assert forall|sp: HumanSpan| sub_ok(#[trigger] a.push(Expr::Optional { child: c, span: sp }), a.len() as int, n) by {
        lemma_sub_ok_prefix(a, a.push(Expr::Optional { child: c, span: sp }), c.0 as int, n);
    }
    assert forall|sp: HumanSpan| sub_ok(#[trigger] a.push(Expr::Many1 { child: c, span: sp }), a.len() as int, n) by {
        lemma_sub_ok_prefix(a, a.push(Expr::Many1 { child: c, span: sp }), c.0 as int, n);
    }
    assert forall|sp: HumanSpan, d: Ustr| sub_ok(#[trigger] a.push(Expr::DistributiveDescription { child: c, descr: d, span: sp }), a.len() as int, n) by {
        lemma_sub_ok_prefix(a, a.push(Expr::DistributiveDescription { child: c, descr: d, span: sp }), c.0 as int, n);
    }
}

/// a Subword around a Subword-free root is a legal (non-nested) Subword
proof fn lemma_sub_ok_push_subword(a: Seq<Expr>, c: ExprId)
    requires 0 <= c.0 < a.len(), sub_ok(a, c.0 as int, false)
    ensures
        forall|sp: HumanSpan, fb: usize| sub_ok(#[trigger] a.push(Expr::Subword { root_id: c, fallback: fb, span: sp }), a.len() as int, true),
{
    assert forall|x: Expr| is_prefix(a, #[trigger] a.push(x)) by {}
    assert forall|sp: HumanSpan, fb: usize| sub_ok(#[trigger] a.push(Expr::Subword { root_id: c, fallback: fb, span: sp }), a.len() as int, true) by {
        lemma_sub_ok_prefix(a, a.push(Expr::Subword { root_id: c, fallback: fb, span: sp }), c.0 as int, false);
    }
}

proof fn lemma_fresh_push_children(a: Seq<Expr>, ch: Vec<ExprId>)
    requires
        forall|k: int| 0 <= k < ch@.len() ==> 0 <= (#[trigger] ch@[k]).0 < a.len() && fresh(a, ch@[k].0 as int),
    ensures
        forall|sp: HumanSpan| ch@.len() >= 1 ==> fresh(#[trigger] a.push(Expr::Sequence { children: ch, span: sp }), a.len() as int),
        forall|sp: HumanSpan| ch@.len() >= 1 ==> fresh(#[trigger] a.push(Expr::Alternative { children: ch, span: sp }), a.len() as int),
        forall|sp: HumanSpan| ch@.len() >= 2 ==> fresh(#[trigger] a.push(Expr::Fallback { children: ch, span: sp }), a.len() as int),
{
    assert forall|x: Expr| is_prefix(a, #[trigger] a.push(x)) by {}
    assert forall|sp: HumanSpan| ch@.len() >= 1 implies fresh(#[trigger] a.push(Expr::Sequence { children: ch, span: sp }), a.len() as int) by {
        let b = a.push(Expr::Sequence { children: ch, span: sp });
        assert forall|k: int| 0 <= k < ch@.len() implies fresh(b, (#[trigger] ch@[k]).0 as int) by { lemma_fresh_prefix(a, b, ch@[k].0 as int); }
    }
    assert forall|sp: HumanSpan| ch@.len() >= 1 implies fresh(#[trigger] a.push(Expr::Alternative { children: ch, span: sp }), a.len() as int) by {
        let b = a.push(Expr::Alternative { children: ch, span: sp });
        assert forall|k: int| 0 <= k < ch@.len() implies fresh(b, (#[trigger] ch@[k]).0 as int) by { lemma_fresh_prefix(a, b, ch@[k].0 as int); }
    }
    assert forall|sp: HumanSpan| ch@.len() >= 2 implies fresh(#[trigger] a.push(Expr::Fallback { children: ch, span: sp }), a.len() as int) by {
        let b = a.push(Expr::Fallback { children: ch, span: sp });
        assert forall|k: int| 0 <= k < ch@.len() implies fresh(b, (#[trigger] ch@[k]).0 as int) by { lemma_fresh_prefix(a, b, ch@[k].0 as int); }
    }
}

proof fn lemma_fresh_push_child(a: Seq<Expr>, c: ExprId)
    requires 0 <= c.0 < a.len(), fresh(a, c.0 as int)
    ensures
        forall|sp: HumanSpan| fresh(#[trigger] a.push(Expr::Optional { child: c, span: sp }), a.len() as int),
        forall|sp: HumanSpan| fresh(#[trigger] a.push(Expr::Many1 { child: c, span: sp }), a.len() as int),
        forall|sp: HumanSpan| fresh(#[trigger] a.push(Expr::Subword { root_id: c, fallback: 0, span: sp }), a.len() as int),
{
    assert forall|x: Expr| is_prefix(a, #[trigger] a.push(x)) by {}
    assert forall|sp: HumanSpan| fresh(#[trigger] a.push(Expr::Optional { child: c, span: sp }), a.len() as int) by {
        lemma_fresh_prefix(a, a.push(Expr::Optional { child: c, span: sp }), c.0 as int);
    }
    assert forall|sp: HumanSpan| fresh(#[trigger] a.push(Expr::Many1 { child: c, span: sp }), a.len() as int) by {
        lemma_fresh_prefix(a, a.push(Expr::Many1 { child: c, span: sp }), c.0 as int);
    }
    assert forall|sp: HumanSpan| fresh(#[trigger] a.push(Expr::Subword { root_id: c, fallback: 0, span: sp }), a.len() as int) by {
        lemma_fresh_prefix(a, a.push(Expr::Subword { root_id: c, fallback: 0, span: sp }), c.0 as int);
    }
}


/// the rebuilt tree r (in a1) has no more word nesting than e had (in a0), for both readings
spec fn sub_keep(a0: Seq<Expr>, e: int, a1: Seq<Expr>, r: int) -> bool {
    (sub_ok(a0, e, false) ==> sub_ok(a1, r, false)) && (sub_ok(a0, e, true) ==> sub_ok(a1, r, true))
}

proof fn lemma_sub_keep_extend(a0: Seq<Expr>, e: int, a1: Seq<Expr>, r: int, a2: Seq<Expr>)
    requires sub_keep(a0, e, a1, r), is_prefix(a1, a2)
    ensures sub_keep(a0, e, a2, r)
{
    if sub_ok(a0, e, false) { lemma_sub_ok_prefix(a1, a2, r, false); }
    if sub_ok(a0, e, true) { lemma_sub_ok_prefix(a1, a2, r, true); }
}

proof fn lemma_sub_keep_chain(a0: Seq<Expr>, a1: Seq<Expr>, e: int, a2: Seq<Expr>, r: int)
    requires is_prefix(a0, a1), sub_keep(a1, e, a2, r)
    ensures sub_keep(a0, e, a2, r)
{
    if sub_ok(a0, e, false) { lemma_sub_ok_prefix(a0, a1, e, false); }
    if sub_ok(a0, e, true) { lemma_sub_ok_prefix(a0, a1, e, true); }
}

proof fn lemma_sub_keep_same(a0: Seq<Expr>, e: int, a1: Seq<Expr>)
    requires is_prefix(a0, a1)
    ensures sub_keep(a0, e, a1, e)
{
    if sub_ok(a0, e, false) { lemma_sub_ok_prefix(a0, a1, e, false); }
    if sub_ok(a0, e, true) { lemma_sub_ok_prefix(a0, a1, e, true); }
}

} // verus!
