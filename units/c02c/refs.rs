// C11 / C15: resolve_nonterminals replaces a reference to a defined name by the definition and
// strikes the name off the unused list; get_nonterm_refs collects what is left (the
// undefined-nonterminal warnings). has_ref itself is in ../c11/hasref.rs.
verus! {

/// n is referred to after resolving the definitions in `vars` once: either directly by an
/// undefined name, or by the definition of a name the tree refers to
spec fn res_ref(a: Seq<Expr>, i: int, vars: Map<Ustr, NontermDefn>, n: Ustr) -> bool {
    (has_ref(a, i, n) && !vars.contains_key(n))
    || exists|d: Ustr| #[trigger] has_ref(a, i, d) && vars.contains_key(d) && has_ref(a, vars[d].rhs_expr_id.0 as int, n)
}

spec fn vars_wf(a: Seq<Expr>, vars: Map<Ustr, NontermDefn>) -> bool {
    forall|d: Ustr| vars.contains_key(d) ==> 0 <= (#[trigger] vars[d]).rhs_expr_id.0 < a.len() && no_dd(a, vars[d].rhs_expr_id.0 as int)
}


spec fn children_res_ref(a: Seq<Expr>, ch: Seq<ExprId>, vars: Map<Ustr, NontermDefn>, n: Ustr) -> bool {
    exists|m: int| 0 <= m < ch.len() && res_ref(a, (#[trigger] ch[m]).0 as int, vars, n)
}

/// res_ref only depends on what the node and the definitions refer to
proof fn lemma_res_ref_congr(a: Seq<Expr>, i: int, b: Seq<Expr>, j: int, vars: Map<Ustr, NontermDefn>)
    requires
        forall|x: Ustr| has_ref(a, i, x) == has_ref(b, j, x),
        forall|d: Ustr, n: Ustr| vars.contains_key(d) ==> has_ref(a, vars[d].rhs_expr_id.0 as int, n) == has_ref(b, vars[d].rhs_expr_id.0 as int, n),
    ensures
        forall|n: Ustr| #![trigger res_ref(a, i, vars, n)] #![trigger res_ref(b, j, vars, n)] res_ref(a, i, vars, n) == res_ref(b, j, vars, n),
{
    assert forall|n: Ustr| res_ref(a, i, vars, n) == res_ref(b, j, vars, n) by {
        if res_ref(a, i, vars, n) && !(has_ref(a, i, n) && !vars.contains_key(n)) {
            let d = choose|d: Ustr| #[trigger] has_ref(a, i, d) && vars.contains_key(d) && has_ref(a, vars[d].rhs_expr_id.0 as int, n);
            assert(has_ref(b, j, d));
        }
        if res_ref(b, j, vars, n) && !(has_ref(b, j, n) && !vars.contains_key(n)) {
            let d = choose|d: Ustr| #[trigger] has_ref(b, j, d) && vars.contains_key(d) && has_ref(b, vars[d].rhs_expr_id.0 as int, n);
            assert(has_ref(a, i, d));
        }
    }
}

proof fn lemma_res_ref_prefix(old: Seq<Expr>, new: Seq<Expr>, i: int, vars: Map<Ustr, NontermDefn>)
    requires
        is_prefix(old, new), 0 <= i < old.len(),
        forall|d: Ustr| vars.contains_key(d) ==> 0 <= (#[trigger] vars[d]).rhs_expr_id.0 < old.len(),
    ensures
        forall|n: Ustr| #![trigger res_ref(new, i, vars, n)] #![trigger res_ref(old, i, vars, n)] res_ref(new, i, vars, n) == res_ref(old, i, vars, n),
{
    lemma_has_ref_prefix_all(old, new, i);
    assert forall|d: Ustr, n: Ustr| vars.contains_key(d) implies has_ref(new, vars[d].rhs_expr_id.0 as int, n) == has_ref(old, vars[d].rhs_expr_id.0 as int, n) by {
        lemma_has_ref_prefix(old, new, vars[d].rhs_expr_id.0 as int, n);
    }
    lemma_res_ref_congr(new, i, old, i, vars);
}

/// for an n-ary node, resolving the node is resolving its children
proof fn lemma_res_ref_node(a: Seq<Expr>, i: int, ch: Seq<ExprId>, vars: Map<Ustr, NontermDefn>)
    requires
        0 <= i < a.len(),
        forall|k: int| 0 <= k < ch.len() ==> 0 <= (#[trigger] ch[k]).0 < i,
        forall|x: Ustr| has_ref(a, i, x) == children_have_ref(a, ch, ch.len() as int, x),
    ensures
        forall|n: Ustr| res_ref(a, i, vars, n) == children_res_ref(a, ch, vars, n),
{
    assert forall|n: Ustr| res_ref(a, i, vars, n) == children_res_ref(a, ch, vars, n) by {
        if res_ref(a, i, vars, n) {
            if has_ref(a, i, n) && !vars.contains_key(n) {
                let k = choose|k: int| 0 <= k < ch.len() && k < ch.len() && has_ref(a, (#[trigger] ch[k]).0 as int, n);
                assert(res_ref(a, ch[k].0 as int, vars, n));
            } else {
                let d = choose|d: Ustr| #[trigger] has_ref(a, i, d) && vars.contains_key(d) && has_ref(a, vars[d].rhs_expr_id.0 as int, n);
                let k = choose|k: int| 0 <= k < ch.len() && k < ch.len() && has_ref(a, (#[trigger] ch[k]).0 as int, d);
                assert(has_ref(a, ch[k].0 as int, d));
                assert(res_ref(a, ch[k].0 as int, vars, n));
            }
            assert(children_res_ref(a, ch, vars, n));
        }
        if children_res_ref(a, ch, vars, n) {
            let m = choose|m: int| 0 <= m < ch.len() && res_ref(a, (#[trigger] ch[m]).0 as int, vars, n);
            if has_ref(a, ch[m].0 as int, n) && !vars.contains_key(n) {
                assert(children_have_ref(a, ch, ch.len() as int, n));
            } else {
                let d = choose|d: Ustr| #[trigger] has_ref(a, ch[m].0 as int, d) && vars.contains_key(d) && has_ref(a, vars[d].rhs_expr_id.0 as int, n);
                assert(children_have_ref(a, ch, ch.len() as int, d));
                assert(has_ref(a, i, d));
            }
        }
    }
}


} // verus!
