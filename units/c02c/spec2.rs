// Additional lemmas for the check.rs passes that rebuild a node from new children.
verus! {

/// a freshly pushed Sequence / Alternative / Fallback whose children are DD-free is DD-free
proof fn lemma_no_dd_push_children(a: Seq<Expr>, ch: Vec<ExprId>)
    requires
        forall|k: int| 0 <= k < ch@.len() ==> 0 <= (#[trigger] ch@[k]).0 < a.len() && no_dd(a, ch@[k].0 as int),
    ensures
        forall|sp: HumanSpan| no_dd(#[trigger] a.push(Expr::Sequence { children: ch, span: sp }), a.len() as int),
        forall|sp: HumanSpan| no_dd(#[trigger] a.push(Expr::Alternative { children: ch, span: sp }), a.len() as int),
        forall|sp: HumanSpan| no_dd(#[trigger] a.push(Expr::Fallback { children: ch, span: sp }), a.len() as int),
{
    assert forall|n: Expr| is_prefix(a, #[trigger] a.push(n)) by {}
    assert forall|sp: HumanSpan| no_dd(#[trigger] a.push(Expr::Sequence { children: ch, span: sp }), a.len() as int) by {
        let b = a.push(Expr::Sequence { children: ch, span: sp });
        lemma_no_dd_prefix_children(a, b, a.len() as int, ch@);
    }
    assert forall|sp: HumanSpan| no_dd(#[trigger] a.push(Expr::Alternative { children: ch, span: sp }), a.len() as int) by {
        let b = a.push(Expr::Alternative { children: ch, span: sp });
        lemma_no_dd_prefix_children(a, b, a.len() as int, ch@);
    }
    assert forall|sp: HumanSpan| no_dd(#[trigger] a.push(Expr::Fallback { children: ch, span: sp }), a.len() as int) by {
        let b = a.push(Expr::Fallback { children: ch, span: sp });
        lemma_no_dd_prefix_children(a, b, a.len() as int, ch@);
    }
}

/// a freshly pushed node with one DD-free child is DD-free
proof fn lemma_no_dd_push_child(a: Seq<Expr>, c: ExprId)
    requires 0 <= c.0 < a.len(), no_dd(a, c.0 as int)
    ensures
        forall|sp: HumanSpan| no_dd(#[trigger] a.push(Expr::Optional { child: c, span: sp }), a.len() as int),
        forall|sp: HumanSpan| no_dd(#[trigger] a.push(Expr::Many1 { child: c, span: sp }), a.len() as int),
        forall|sp: HumanSpan, fb: usize| no_dd(#[trigger] a.push(Expr::Subword { root_id: c, fallback: fb, span: sp }), a.len() as int),
{
    assert forall|n: Expr| is_prefix(a, #[trigger] a.push(n)) by {}
    assert forall|sp: HumanSpan| no_dd(#[trigger] a.push(Expr::Optional { child: c, span: sp }), a.len() as int) by {
        lemma_no_dd_prefix(a, a.push(Expr::Optional { child: c, span: sp }), c.0 as int);
    }
    assert forall|sp: HumanSpan| no_dd(#[trigger] a.push(Expr::Many1 { child: c, span: sp }), a.len() as int) by {
        lemma_no_dd_prefix(a, a.push(Expr::Many1 { child: c, span: sp }), c.0 as int);
    }
    assert forall|sp: HumanSpan, fb: usize| no_dd(#[trigger] a.push(Expr::Subword { root_id: c, fallback: fb, span: sp }), a.len() as int) by {
        lemma_no_dd_prefix(a, a.push(Expr::Subword { root_id: c, fallback: fb, span: sp }), c.0 as int);
    }
}

} // verus!
