// C02: "the index of the `||` branch it sits in": after propagate_fallback_levels every leaf
// below node i carries the index of the nearest enclosing `||` branch (lvl when there is none).
verus! {

spec fn levels_ok(a: Seq<Expr>, i: int, lvl: int, st: bool) -> bool
    decreases i
{
    if i < 0 || i >= a.len() { false } else {
        match a[i] {
            Expr::DistributiveDescription { .. } => false,
            Expr::Terminal { fallback, .. } => fallback == lvl,
            Expr::NontermRef { fallback, .. } => fallback == lvl,
            Expr::Command { fallback, .. } => fallback == lvl,
            Expr::Sequence { children, .. } => forall|k: int| 0 <= k < children@.len() ==> 0 <= (#[trigger] children@[k]).0 < i && levels_ok(a, children@[k].0 as int, lvl, st),
            Expr::Alternative { children, .. } => forall|k: int| 0 <= k < children@.len() ==> 0 <= (#[trigger] children@[k]).0 < i && levels_ok(a, children@[k].0 as int, lvl, st),
            Expr::Fallback { children, .. } => forall|k: int| 0 <= k < children@.len() ==> 0 <= (#[trigger] children@[k]).0 < i && levels_ok(a, children@[k].0 as int, k, st),
            Expr::Optional { child, .. } => 0 <= child.0 < i && levels_ok(a, child.0 as int, lvl, st),
            Expr::Many1 { child, .. } => 0 <= child.0 < i && levels_ok(a, child.0 as int, lvl, st),
            Expr::Subword { root_id, fallback, .. } => 0 <= root_id.0 < i && levels_ok(a, root_id.0 as int, lvl, st) && (st ==> fallback == lvl),
        }
    }
}

proof fn lemma_levels_prefix(old: Seq<Expr>, new: Seq<Expr>, i: int, lvl: int, st: bool)
    requires is_prefix(old, new), levels_ok(old, i, lvl, st)
    ensures levels_ok(new, i, lvl, st)
    decreases i
{
    if 0 <= i < old.len() {
        assert(new[i] == old[i]);
        match old[i] {
            Expr::Sequence { children, .. } => {
                assert forall|k: int| 0 <= k < children@.len() implies 0 <= (#[trigger] children@[k]).0 < i && levels_ok(new, children@[k].0 as int, lvl, st) by {
                    lemma_levels_prefix(old, new, children@[k].0 as int, lvl, st);
                }
            }
            Expr::Alternative { children, .. } => {
                assert forall|k: int| 0 <= k < children@.len() implies 0 <= (#[trigger] children@[k]).0 < i && levels_ok(new, children@[k].0 as int, lvl, st) by {
                    lemma_levels_prefix(old, new, children@[k].0 as int, lvl, st);
                }
            }
            Expr::Fallback { children, .. } => {
                assert forall|k: int| 0 <= k < children@.len() implies 0 <= (#[trigger] children@[k]).0 < i && levels_ok(new, children@[k].0 as int, k, st) by {
                    lemma_levels_prefix(old, new, children@[k].0 as int, k, st);
                }
            }
            Expr::Optional { child, .. } => { lemma_levels_prefix(old, new, child.0 as int, lvl, st); }
            Expr::Many1 { child, .. } => { lemma_levels_prefix(old, new, child.0 as int, lvl, st); }
            Expr::Subword { root_id, .. } => { lemma_levels_prefix(old, new, root_id.0 as int, lvl, st); }
            _ => {}
        }
    }
}

/// levels_ok has no DistributiveDescription below: what regex construction relies on
proof fn lemma_levels_no_dd(a: Seq<Expr>, i: int, lvl: int, st: bool)
    requires levels_ok(a, i, lvl, st)
    ensures no_dd(a, i)
    decreases i
{
    match a[i] {
        Expr::Sequence { children, .. } => {
            assert forall|k: int| 0 <= k < children@.len() implies 0 <= (#[trigger] children@[k]).0 < i && no_dd(a, children@[k].0 as int) by {
                lemma_levels_no_dd(a, children@[k].0 as int, lvl, st);
            }
        }
        Expr::Alternative { children, .. } => {
            assert forall|k: int| 0 <= k < children@.len() implies 0 <= (#[trigger] children@[k]).0 < i && no_dd(a, children@[k].0 as int) by {
                lemma_levels_no_dd(a, children@[k].0 as int, lvl, st);
            }
        }
        Expr::Fallback { children, .. } => {
            assert forall|k: int| 0 <= k < children@.len() implies 0 <= (#[trigger] children@[k]).0 < i && no_dd(a, children@[k].0 as int) by {
                lemma_levels_no_dd(a, children@[k].0 as int, k, st);
            }
        }
        Expr::Optional { child, .. } => { lemma_levels_no_dd(a, child.0 as int, lvl, st); }
        Expr::Many1 { child, .. } => { lemma_levels_no_dd(a, child.0 as int, lvl, st); }
        Expr::Subword { root_id, .. } => { lemma_levels_no_dd(a, root_id.0 as int, lvl, st); }
        _ => {}
    }
}

proof fn lemma_levels_push_children(a: Seq<Expr>, ch: Vec<ExprId>, lvl: int, st: bool)
    requires
        forall|k: int| 0 <= k < ch@.len() ==> 0 <= (#[trigger] ch@[k]).0 < a.len() && levels_ok(a, ch@[k].0 as int, lvl, st),
    ensures
        forall|sp: HumanSpan| levels_ok(#[trigger] a.push(Expr::Sequence { children: ch, span: sp }), a.len() as int, lvl, st),
        forall|sp: HumanSpan| levels_ok(#[trigger] a.push(Expr::Alternative { children: ch, span: sp }), a.len() as int, lvl, st),
{
    assert forall|n: Expr| is_prefix(a, #[trigger] a.push(n)) by {}
    assert forall|sp: HumanSpan| levels_ok(#[trigger] a.push(Expr::Sequence { children: ch, span: sp }), a.len() as int, lvl, st) by {
        let b = a.push(Expr::Sequence { children: ch, span: sp });
        assert forall|k: int| 0 <= k < ch@.len() implies levels_ok(b, (#[trigger] ch@[k]).0 as int, lvl, st) by { lemma_levels_prefix(a, b, ch@[k].0 as int, lvl, st); }
    }
    assert forall|sp: HumanSpan| levels_ok(#[trigger] a.push(Expr::Alternative { children: ch, span: sp }), a.len() as int, lvl, st) by {
        let b = a.push(Expr::Alternative { children: ch, span: sp });
        assert forall|k: int| 0 <= k < ch@.len() implies levels_ok(b, (#[trigger] ch@[k]).0 as int, lvl, st) by { lemma_levels_prefix(a, b, ch@[k].0 as int, lvl, st); }
    }
}

proof fn lemma_levels_push_fallback(a: Seq<Expr>, ch: Vec<ExprId>, lvl: int, st: bool)
    requires
        forall|k: int| 0 <= k < ch@.len() ==> 0 <= (#[trigger] ch@[k]).0 < a.len() && levels_ok(a, ch@[k].0 as int, k, st),
    ensures
        forall|sp: HumanSpan| levels_ok(#[trigger] a.push(Expr::Fallback { children: ch, span: sp }), a.len() as int, lvl, st),
{
    assert forall|n: Expr| is_prefix(a, #[trigger] a.push(n)) by {}
    assert forall|sp: HumanSpan| levels_ok(#[trigger] a.push(Expr::Fallback { children: ch, span: sp }), a.len() as int, lvl, st) by {
        let b = a.push(Expr::Fallback { children: ch, span: sp });
        assert forall|k: int| 0 <= k < ch@.len() implies levels_ok(b, (#[trigger] ch@[k]).0 as int, k, st) by { lemma_levels_prefix(a, b, ch@[k].0 as int, k, st); }
    }
}

proof fn lemma_levels_push_child(a: Seq<Expr>, c: ExprId, lvl: int, st: bool)
    requires 0 <= c.0 < a.len(), levels_ok(a, c.0 as int, lvl, st)
    ensures
        forall|sp: HumanSpan| levels_ok(#[trigger] a.push(Expr::Optional { child: c, span: sp }), a.len() as int, lvl, st),
        forall|sp: HumanSpan| levels_ok(#[trigger] a.push(Expr::Many1 { child: c, span: sp }), a.len() as int, lvl, st),
        forall|sp: HumanSpan, fb: usize| (st ==> fb == lvl) ==> levels_ok(#[trigger] a.push(Expr::Subword { root_id: c, fallback: fb, span: sp }), a.len() as int, lvl, st),
{
    assert forall|n: Expr| is_prefix(a, #[trigger] a.push(n)) by {}
    assert forall|sp: HumanSpan| levels_ok(#[trigger] a.push(Expr::Optional { child: c, span: sp }), a.len() as int, lvl, st) by {
        lemma_levels_prefix(a, a.push(Expr::Optional { child: c, span: sp }), c.0 as int, lvl, st);
    }
    assert forall|sp: HumanSpan| levels_ok(#[trigger] a.push(Expr::Many1 { child: c, span: sp }), a.len() as int, lvl, st) by {
        lemma_levels_prefix(a, a.push(Expr::Many1 { child: c, span: sp }), c.0 as int, lvl, st);
    }
    assert forall|sp: HumanSpan, fb: usize| (st ==> fb == lvl) implies levels_ok(#[trigger] a.push(Expr::Subword { root_id: c, fallback: fb, span: sp }), a.len() as int, lvl, st) by {
        lemma_levels_prefix(a, a.push(Expr::Subword { root_id: c, fallback: fb, span: sp }), c.0 as int, lvl, st);
    }
}


/// what the parser and the earlier passes hand to propagate_fallback_levels: every level field
/// is still 0, `||` nodes have at least two branches, sequences and alternatives are not empty
spec fn fresh(a: Seq<Expr>, i: int) -> bool
    decreases i
{
    if i < 0 || i >= a.len() { false } else {
        match a[i] {
            Expr::DistributiveDescription { .. } => false,
            Expr::Terminal { fallback, .. } => fallback == 0,
            Expr::NontermRef { fallback, .. } => fallback == 0,
            Expr::Command { fallback, .. } => fallback == 0,
            Expr::Sequence { children, .. } => children@.len() >= 1 && forall|k: int| 0 <= k < children@.len() ==> 0 <= (#[trigger] children@[k]).0 < i && fresh(a, children@[k].0 as int),
            Expr::Alternative { children, .. } => children@.len() >= 1 && forall|k: int| 0 <= k < children@.len() ==> 0 <= (#[trigger] children@[k]).0 < i && fresh(a, children@[k].0 as int),
            Expr::Fallback { children, .. } => children@.len() >= 2 && forall|k: int| 0 <= k < children@.len() ==> 0 <= (#[trigger] children@[k]).0 < i && fresh(a, children@[k].0 as int),
            Expr::Optional { child, .. } => 0 <= child.0 < i && fresh(a, child.0 as int),
            Expr::Many1 { child, .. } => 0 <= child.0 < i && fresh(a, child.0 as int),
            Expr::Subword { root_id, fallback, .. } => 0 <= root_id.0 < i && fresh(a, root_id.0 as int) && fallback == 0,
        }
    }
}

proof fn lemma_fresh_prefix(old: Seq<Expr>, new: Seq<Expr>, i: int)
    requires is_prefix(old, new), fresh(old, i)
    ensures fresh(new, i)
    decreases i
{
    if 0 <= i < old.len() {
        assert(new[i] == old[i]);
        match old[i] {
            Expr::Sequence { children, .. } => {
                assert forall|k: int| 0 <= k < children@.len() implies 0 <= (#[trigger] children@[k]).0 < i && fresh(new, children@[k].0 as int) by {
                    lemma_fresh_prefix(old, new, children@[k].0 as int);
                }
            }
            Expr::Alternative { children, .. } => {
                assert forall|k: int| 0 <= k < children@.len() implies 0 <= (#[trigger] children@[k]).0 < i && fresh(new, children@[k].0 as int) by {
                    lemma_fresh_prefix(old, new, children@[k].0 as int);
                }
            }
            Expr::Fallback { children, .. } => {
                assert forall|k: int| 0 <= k < children@.len() implies 0 <= (#[trigger] children@[k]).0 < i && fresh(new, children@[k].0 as int) by {
                    lemma_fresh_prefix(old, new, children@[k].0 as int);
                }
            }
            Expr::Optional { child, .. } => { lemma_fresh_prefix(old, new, child.0 as int); }
            Expr::Many1 { child, .. } => { lemma_fresh_prefix(old, new, child.0 as int); }
            Expr::Subword { root_id, .. } => { lemma_fresh_prefix(old, new, root_id.0 as int); }
            _ => {}
        }
    }
}

/// a fresh tree that already has the levels of branch `lvl` can only be at level 0: so a node
/// that propagate_fallback_levels returns unchanged was already right, its own field included
proof fn lemma_fresh_fixed(a: Seq<Expr>, i: int, lvl: int)
    requires fresh(a, i), levels_ok(a, i, lvl, false)
    ensures lvl == 0
    decreases i
{
    match a[i] {
        Expr::Sequence { children, .. } => { assert(0 <= children@[0].0 < i); lemma_fresh_fixed(a, children@[0].0 as int, lvl); }
        Expr::Alternative { children, .. } => { assert(0 <= children@[0].0 < i); lemma_fresh_fixed(a, children@[0].0 as int, lvl); }
        Expr::Fallback { children, .. } => { assert(0 <= children@[1].0 < i); lemma_fresh_fixed(a, children@[1].0 as int, 1); }
        Expr::Optional { child, .. } => { lemma_fresh_fixed(a, child.0 as int, lvl); }
        Expr::Many1 { child, .. } => { lemma_fresh_fixed(a, child.0 as int, lvl); }
        Expr::Subword { root_id, .. } => { lemma_fresh_fixed(a, root_id.0 as int, lvl); }
        _ => {}
    }
}

} // verus!
