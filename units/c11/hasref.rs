// C11 / C15: which nonterminal names a tree refers to (shared by units c11 and c02c).
verus! {

spec fn has_ref(a: Seq<Expr>, i: int, n: Ustr) -> bool
    decreases i
{
    if i < 0 || i >= a.len() { false } else {
        match a[i] {
            Expr::NontermRef { nonterm, .. } => nonterm == n,
            Expr::Terminal { .. } => false,
            Expr::Command { .. } => false,
            Expr::Sequence { children, .. } => exists|k: int| 0 <= k < children@.len() && 0 <= (#[trigger] children@[k]).0 < i && has_ref(a, children@[k].0 as int, n),
            Expr::Alternative { children, .. } => exists|k: int| 0 <= k < children@.len() && 0 <= (#[trigger] children@[k]).0 < i && has_ref(a, children@[k].0 as int, n),
            Expr::Fallback { children, .. } => exists|k: int| 0 <= k < children@.len() && 0 <= (#[trigger] children@[k]).0 < i && has_ref(a, children@[k].0 as int, n),
            Expr::Optional { child, .. } => 0 <= child.0 < i && has_ref(a, child.0 as int, n),
            Expr::Many1 { child, .. } => 0 <= child.0 < i && has_ref(a, child.0 as int, n),
            Expr::DistributiveDescription { child, .. } => 0 <= child.0 < i && has_ref(a, child.0 as int, n),
            Expr::Subword { root_id, .. } => 0 <= root_id.0 < i && has_ref(a, root_id.0 as int, n),
        }
    }
}

/// some child among the first `upto` refers to n
spec fn children_have_ref(a: Seq<Expr>, ch: Seq<ExprId>, upto: int, n: Ustr) -> bool {
    exists|k: int| 0 <= k < upto && k < ch.len() && has_ref(a, (#[trigger] ch[k]).0 as int, n)
}

/// children_have_ref over one more child
proof fn lemma_children_have_ref_step(a: Seq<Expr>, ch: Seq<ExprId>, n: int, x: Ustr)
    requires 0 <= n < ch.len()
    ensures children_have_ref(a, ch, n + 1, x) == (children_have_ref(a, ch, n, x) || has_ref(a, ch[n].0 as int, x))
{
    if children_have_ref(a, ch, n + 1, x) {
        let w = choose|w: int| 0 <= w < n + 1 && w < ch.len() && has_ref(a, (#[trigger] ch[w]).0 as int, x);
        if w < n { assert(children_have_ref(a, ch, n, x)); }
    }
    if children_have_ref(a, ch, n, x) {
        let w = choose|w: int| 0 <= w < n && w < ch.len() && has_ref(a, (#[trigger] ch[w]).0 as int, x);
        assert(children_have_ref(a, ch, n + 1, x));
    }
    if has_ref(a, ch[n].0 as int, x) { assert(children_have_ref(a, ch, n + 1, x)); }
}

proof fn lemma_has_ref_prefix(old: Seq<Expr>, new: Seq<Expr>, i: int, n: Ustr)
    requires is_prefix(old, new), 0 <= i < old.len()
    ensures has_ref(new, i, n) == has_ref(old, i, n)
    decreases i
{
    assert(new[i] == old[i]);
    match old[i] {
        Expr::Sequence { children, .. } => {
            assert forall|k: int| 0 <= k < children@.len() && 0 <= (#[trigger] children@[k]).0 < i implies has_ref(new, children@[k].0 as int, n) == has_ref(old, children@[k].0 as int, n) by {
                lemma_has_ref_prefix(old, new, children@[k].0 as int, n);
            }
        }
        Expr::Alternative { children, .. } => {
            assert forall|k: int| 0 <= k < children@.len() && 0 <= (#[trigger] children@[k]).0 < i implies has_ref(new, children@[k].0 as int, n) == has_ref(old, children@[k].0 as int, n) by {
                lemma_has_ref_prefix(old, new, children@[k].0 as int, n);
            }
        }
        Expr::Fallback { children, .. } => {
            assert forall|k: int| 0 <= k < children@.len() && 0 <= (#[trigger] children@[k]).0 < i implies has_ref(new, children@[k].0 as int, n) == has_ref(old, children@[k].0 as int, n) by {
                lemma_has_ref_prefix(old, new, children@[k].0 as int, n);
            }
        }
        Expr::Optional { child, .. } => { if 0 <= child.0 < i { lemma_has_ref_prefix(old, new, child.0 as int, n); } }
        Expr::Many1 { child, .. } => { if 0 <= child.0 < i { lemma_has_ref_prefix(old, new, child.0 as int, n); } }
        Expr::DistributiveDescription { child, .. } => { if 0 <= child.0 < i { lemma_has_ref_prefix(old, new, child.0 as int, n); } }
        Expr::Subword { root_id, .. } => { if 0 <= root_id.0 < i { lemma_has_ref_prefix(old, new, root_id.0 as int, n); } }
        _ => {}
    }
}

proof fn lemma_has_ref_prefix_all(old: Seq<Expr>, new: Seq<Expr>, i: int)
    requires is_prefix(old, new), 0 <= i < old.len()
    ensures forall|n: Ustr| #![trigger has_ref(new, i, n)] #![trigger has_ref(old, i, n)] has_ref(new, i, n) == has_ref(old, i, n)
{
    assert forall|n: Ustr| #![trigger has_ref(new, i, n)] #![trigger has_ref(old, i, n)] has_ref(new, i, n) == has_ref(old, i, n) by { lemma_has_ref_prefix(old, new, i, n); }
}

/// the references of a freshly pushed n-ary node are those of its children
proof fn lemma_has_ref_push_children(a: Seq<Expr>, ch: Vec<ExprId>)
    requires forall|k: int| 0 <= k < ch@.len() ==> 0 <= (#[trigger] ch@[k]).0 < a.len(),
    ensures
        forall|sp: HumanSpan, n: Ustr| #[trigger] has_ref(a.push(Expr::Sequence { children: ch, span: sp }), a.len() as int, n) == children_have_ref(a, ch@, ch@.len() as int, n),
        forall|sp: HumanSpan, n: Ustr| #[trigger] has_ref(a.push(Expr::Alternative { children: ch, span: sp }), a.len() as int, n) == children_have_ref(a, ch@, ch@.len() as int, n),
        forall|sp: HumanSpan, n: Ustr| #[trigger] has_ref(a.push(Expr::Fallback { children: ch, span: sp }), a.len() as int, n) == children_have_ref(a, ch@, ch@.len() as int, n),
{
    assert forall|x: Expr| is_prefix(a, #[trigger] a.push(x)) by {}
    assert forall|sp: HumanSpan, n: Ustr| #[trigger] has_ref(a.push(Expr::Sequence { children: ch, span: sp }), a.len() as int, n) == children_have_ref(a, ch@, ch@.len() as int, n) by {
        let b = a.push(Expr::Sequence { children: ch, span: sp });
        assert forall|k: int| 0 <= k < ch@.len() implies has_ref(b, (#[trigger] ch@[k]).0 as int, n) == has_ref(a, ch@[k].0 as int, n) by { lemma_has_ref_prefix(a, b, ch@[k].0 as int, n); }
    }
    assert forall|sp: HumanSpan, n: Ustr| #[trigger] has_ref(a.push(Expr::Alternative { children: ch, span: sp }), a.len() as int, n) == children_have_ref(a, ch@, ch@.len() as int, n) by {
        let b = a.push(Expr::Alternative { children: ch, span: sp });
        assert forall|k: int| 0 <= k < ch@.len() implies has_ref(b, (#[trigger] ch@[k]).0 as int, n) == has_ref(a, ch@[k].0 as int, n) by { lemma_has_ref_prefix(a, b, ch@[k].0 as int, n); }
    }
    assert forall|sp: HumanSpan, n: Ustr| #[trigger] has_ref(a.push(Expr::Fallback { children: ch, span: sp }), a.len() as int, n) == children_have_ref(a, ch@, ch@.len() as int, n) by {
        let b = a.push(Expr::Fallback { children: ch, span: sp });
        assert forall|k: int| 0 <= k < ch@.len() implies has_ref(b, (#[trigger] ch@[k]).0 as int, n) == has_ref(a, ch@[k].0 as int, n) by { lemma_has_ref_prefix(a, b, ch@[k].0 as int, n); }
    }
}

proof fn lemma_has_ref_push_child(a: Seq<Expr>, c: ExprId)
    requires 0 <= c.0 < a.len()
    ensures
        forall|sp: HumanSpan, n: Ustr| #[trigger] has_ref(a.push(Expr::Optional { child: c, span: sp }), a.len() as int, n) == has_ref(a, c.0 as int, n),
        forall|sp: HumanSpan, n: Ustr| #[trigger] has_ref(a.push(Expr::Many1 { child: c, span: sp }), a.len() as int, n) == has_ref(a, c.0 as int, n),
        forall|sp: HumanSpan, fb: usize, n: Ustr| #[trigger] has_ref(a.push(Expr::Subword { root_id: c, fallback: fb, span: sp }), a.len() as int, n) == has_ref(a, c.0 as int, n),
{
    assert forall|x: Expr| is_prefix(a, #[trigger] a.push(x)) by {}
    assert forall|sp: HumanSpan, n: Ustr| #[trigger] has_ref(a.push(Expr::Optional { child: c, span: sp }), a.len() as int, n) == has_ref(a, c.0 as int, n) by {
        lemma_has_ref_prefix(a, a.push(Expr::Optional { child: c, span: sp }), c.0 as int, n);
    }
    assert forall|sp: HumanSpan, n: Ustr| #[trigger] has_ref(a.push(Expr::Many1 { child: c, span: sp }), a.len() as int, n) == has_ref(a, c.0 as int, n) by {
        lemma_has_ref_prefix(a, a.push(Expr::Many1 { child: c, span: sp }), c.0 as int, n);
    }
    assert forall|sp: HumanSpan, fb: usize, n: Ustr| #[trigger] has_ref(a.push(Expr::Subword { root_id: c, fallback: fb, span: sp }), a.len() as int, n) == has_ref(a, c.0 as int, n) by {
        lemma_has_ref_prefix(a, a.push(Expr::Subword { root_id: c, fallback: fb, span: sp }), c.0 as int, n);
    }
}

spec fn node_children(n: Expr) -> Option<Seq<ExprId>> {
    match n {
        Expr::Sequence { children, .. } => Some(children@),
        Expr::Alternative { children, .. } => Some(children@),
        Expr::Fallback { children, .. } => Some(children@),
        _ => None,
    }
}

/// has_ref of an n-ary node in terms of children_have_ref (definition unfolding)
proof fn lemma_node_unfold(a: Seq<Expr>, i: int, ch: Seq<ExprId>)
    requires 0 <= i < a.len(), enode_wf(a[i], i), node_children(a[i]) == Some(ch)
    ensures forall|x: Ustr| has_ref(a, i, x) == children_have_ref(a, ch, ch.len() as int, x)
{
}

} // verus!
