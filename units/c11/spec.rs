// C11 / C15 / C06 specification for check.rs::specialize_nonterminals and
// make_builtin_specializations, from the property statements:
//  C11: `<X>` stands for the `<X@S>` definition if there is one, otherwise ... the built-in
//       file/directory completion if X is PATH or DIRECTORY.
//  C15: a reference marks the definition / specialisation as used.
verus! {

/// C11: what `<nonterm>` stands for when compiling for `shell`, given the target-shell
/// definitions, the built-ins and the plain command definitions of specialised names.
spec fn chosen_cmd(nonterm: Ustr, user: Map<Ustr, UserSpec>, builtin: Map<Ustr, BuiltinSpec>, fallback: Map<Ustr, (Ustr, HumanSpan)>) -> Option<(Ustr, bool)> {
    if user.contains_key(nonterm) { Some((user[nonterm].cmd, true)) }
    else if builtin.contains_key(nonterm) { Some((builtin[nonterm].cmd, true)) }
    else if fallback.contains_key(nonterm) { Some((fallback[nonterm].0, false)) }
    else { None }
}

} // verus!
