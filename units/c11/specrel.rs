// C11 for the whole tree: specialize_nonterminals returns the same tree in which every reference
// `<X>` the target shell has a command for (chosen_cmd: `<X@S>`, then the built-in, then the plain
// command definition of a specialised name) has become that command, and nothing else changed.
verus! {

/// name -> command text of the target-shell definitions (the `used` flags change during the pass)
spec fn cmds_of(user: Map<Ustr, UserSpec>) -> Map<Ustr, Ustr> {
    user.map_values(|s: UserSpec| s.cmd)
}

spec fn chosen2(nonterm: Ustr, ucmd: Map<Ustr, Ustr>, builtin: Map<Ustr, BuiltinSpec>, fallback: Map<Ustr, (Ustr, HumanSpan)>) -> Option<(Ustr, bool)> {
    if ucmd.contains_key(nonterm) { Some((ucmd[nonterm], true)) }
    else if builtin.contains_key(nonterm) { Some((builtin[nonterm].cmd, true)) }
    else if fallback.contains_key(nonterm) { Some((fallback[nonterm].0, false)) }
    else { None }
}

/// the pass only flips `used` flags: keys, commands and spans of the target-shell definitions stay
spec fn same_cmds(u1: Map<Ustr, UserSpec>, u2: Map<Ustr, UserSpec>) -> bool {
    forall|k: Ustr| (#[trigger] u1.contains_key(k) <==> u2.contains_key(k)) && (u1.contains_key(k) ==> u1[k].cmd == u2[k].cmd && u1[k].span == u2[k].span)
}

proof fn lemma_same_cmds(u1: Map<Ustr, UserSpec>, u2: Map<Ustr, UserSpec>)
    requires same_cmds(u1, u2)
    ensures cmds_of(u1) == cmds_of(u2)
{
    assert(cmds_of(u1) =~= cmds_of(u2));
}

/// what a leaf becomes
spec fn spec_leaf(n: Expr, ucmd: Map<Ustr, Ustr>, builtin: Map<Ustr, BuiltinSpec>, fallback: Map<Ustr, (Ustr, HumanSpan)>, shell: Shell) -> Expr {
    match n {
        Expr::NontermRef { nonterm, fallback: fb, span } => match chosen2(nonterm, ucmd, builtin, fallback) {
            Some((cmd, compadd)) => Expr::Command { cmd: cmd, zsh_compadd: compadd && shell == Shell::Zsh, fallback: fb, span: span },
            None => n,
        },
        _ => n,
    }
}

spec fn rel_children(a: Seq<Expr>, e: int, ch: Seq<ExprId>, c2: Seq<ExprId>, ucmd: Map<Ustr, Ustr>, builtin: Map<Ustr, BuiltinSpec>, fallback: Map<Ustr, (Ustr, HumanSpan)>, shell: Shell) -> bool
    decreases e, 0int
{
    c2.len() == ch.len()
    && forall|k: int| 0 <= k < ch.len() ==> 0 <= (#[trigger] ch[k]).0 < e && spec_rel(a, ch[k].0 as int, c2[k].0 as int, ucmd, builtin, fallback, shell)
}

/// node r is the specialisation of node e
spec fn spec_rel(a: Seq<Expr>, e: int, r: int, ucmd: Map<Ustr, Ustr>, builtin: Map<Ustr, BuiltinSpec>, fallback: Map<Ustr, (Ustr, HumanSpan)>, shell: Shell) -> bool
    decreases e, 1int
{
    if e < 0 || e >= a.len() || r < 0 || r >= a.len() { false } else {
        match a[e] {
            Expr::Terminal { .. } => a[r] == a[e],
            Expr::Command { .. } => a[r] == a[e],
            Expr::NontermRef { .. } => a[r] == spec_leaf(a[e], ucmd, builtin, fallback, shell),
            Expr::Sequence { children, span } => match a[r] {
                Expr::Sequence { children: c2, span: s2 } => s2 == span && rel_children(a, e, children@, c2@, ucmd, builtin, fallback, shell),
                _ => false,
            },
            Expr::Alternative { children, span } => match a[r] {
                Expr::Alternative { children: c2, span: s2 } => s2 == span && rel_children(a, e, children@, c2@, ucmd, builtin, fallback, shell),
                _ => false,
            },
            Expr::Fallback { children, span } => match a[r] {
                Expr::Fallback { children: c2, span: s2 } => s2 == span && rel_children(a, e, children@, c2@, ucmd, builtin, fallback, shell),
                _ => false,
            },
            Expr::Optional { child, span } => match a[r] {
                Expr::Optional { child: c2, span: s2 } => s2 == span && 0 <= child.0 < e && spec_rel(a, child.0 as int, c2.0 as int, ucmd, builtin, fallback, shell),
                _ => false,
            },
            Expr::Many1 { child, span } => match a[r] {
                Expr::Many1 { child: c2, span: s2 } => s2 == span && 0 <= child.0 < e && spec_rel(a, child.0 as int, c2.0 as int, ucmd, builtin, fallback, shell),
                _ => false,
            },
            Expr::Subword { root_id, fallback: fb, span } => match a[r] {
                Expr::Subword { root_id: c2, fallback: fb2, span: s2 } => s2 == span && fb2 == fb && 0 <= root_id.0 < e && spec_rel(a, root_id.0 as int, c2.0 as int, ucmd, builtin, fallback, shell),
                _ => false,
            },
            Expr::DistributiveDescription { .. } => false,
        }
    }
}

proof fn lemma_spec_rel_prefix(a1: Seq<Expr>, a2: Seq<Expr>, e: int, r: int, ucmd: Map<Ustr, Ustr>, builtin: Map<Ustr, BuiltinSpec>, fallback: Map<Ustr, (Ustr, HumanSpan)>, shell: Shell)
    requires is_prefix(a1, a2), spec_rel(a1, e, r, ucmd, builtin, fallback, shell)
    ensures spec_rel(a2, e, r, ucmd, builtin, fallback, shell)
    decreases e, 1int
{
    assert(a2[e] == a1[e] && a2[r] == a1[r]);
    match a1[e] {
        Expr::Sequence { children, .. } => { match a1[r] { Expr::Sequence { children: c2, .. } => { lemma_rel_children_prefix(a1, a2, e, children@, c2@, ucmd, builtin, fallback, shell); } _ => {} } }
        Expr::Alternative { children, .. } => { match a1[r] { Expr::Alternative { children: c2, .. } => { lemma_rel_children_prefix(a1, a2, e, children@, c2@, ucmd, builtin, fallback, shell); } _ => {} } }
        Expr::Fallback { children, .. } => { match a1[r] { Expr::Fallback { children: c2, .. } => { lemma_rel_children_prefix(a1, a2, e, children@, c2@, ucmd, builtin, fallback, shell); } _ => {} } }
        Expr::Optional { child, .. } => { match a1[r] { Expr::Optional { child: c2, .. } => { lemma_spec_rel_prefix(a1, a2, child.0 as int, c2.0 as int, ucmd, builtin, fallback, shell); } _ => {} } }
        Expr::Many1 { child, .. } => { match a1[r] { Expr::Many1 { child: c2, .. } => { lemma_spec_rel_prefix(a1, a2, child.0 as int, c2.0 as int, ucmd, builtin, fallback, shell); } _ => {} } }
        Expr::Subword { root_id, .. } => { match a1[r] { Expr::Subword { root_id: c2, .. } => { lemma_spec_rel_prefix(a1, a2, root_id.0 as int, c2.0 as int, ucmd, builtin, fallback, shell); } _ => {} } }
        _ => {}
    }
}

proof fn lemma_rel_children_prefix(a1: Seq<Expr>, a2: Seq<Expr>, e: int, ch: Seq<ExprId>, c2: Seq<ExprId>, ucmd: Map<Ustr, Ustr>, builtin: Map<Ustr, BuiltinSpec>, fallback: Map<Ustr, (Ustr, HumanSpan)>, shell: Shell)
    requires is_prefix(a1, a2), rel_children(a1, e, ch, c2, ucmd, builtin, fallback, shell)
    ensures rel_children(a2, e, ch, c2, ucmd, builtin, fallback, shell)
    decreases e, 0int
{
    assert forall|k: int| 0 <= k < ch.len() implies 0 <= (#[trigger] ch[k]).0 < e && spec_rel(a2, ch[k].0 as int, c2[k].0 as int, ucmd, builtin, fallback, shell) by {
        lemma_spec_rel_prefix(a1, a2, ch[k].0 as int, c2[k].0 as int, ucmd, builtin, fallback, shell);
    }
}

/// specialisation only turns references into commands: whatever the result refers to, the
/// original referred to
proof fn lemma_spec_rel_refs(a: Seq<Expr>, e: int, r: int, ucmd: Map<Ustr, Ustr>, builtin: Map<Ustr, BuiltinSpec>, fallback: Map<Ustr, (Ustr, HumanSpan)>, shell: Shell, n: Ustr)
    requires spec_rel(a, e, r, ucmd, builtin, fallback, shell), has_ref(a, r, n)
    ensures has_ref(a, e, n)
    decreases e
{
    match a[e] {
        Expr::Sequence { children, .. } => { match a[r] { Expr::Sequence { children: c2, .. } => {
            assert(rel_children(a, e, children@, c2@, ucmd, builtin, fallback, shell));
            let k = choose|k: int| 0 <= k < c2@.len() && 0 <= (#[trigger] c2@[k]).0 < r && has_ref(a, c2@[k].0 as int, n);
            assert(0 <= children@[k].0 < e);
            lemma_spec_rel_refs(a, children@[k].0 as int, c2@[k].0 as int, ucmd, builtin, fallback, shell, n);
        } _ => {} } }
        Expr::Alternative { children, .. } => { match a[r] { Expr::Alternative { children: c2, .. } => {
            assert(rel_children(a, e, children@, c2@, ucmd, builtin, fallback, shell));
            let k = choose|k: int| 0 <= k < c2@.len() && 0 <= (#[trigger] c2@[k]).0 < r && has_ref(a, c2@[k].0 as int, n);
            assert(0 <= children@[k].0 < e);
            lemma_spec_rel_refs(a, children@[k].0 as int, c2@[k].0 as int, ucmd, builtin, fallback, shell, n);
        } _ => {} } }
        Expr::Fallback { children, .. } => { match a[r] { Expr::Fallback { children: c2, .. } => {
            assert(rel_children(a, e, children@, c2@, ucmd, builtin, fallback, shell));
            let k = choose|k: int| 0 <= k < c2@.len() && 0 <= (#[trigger] c2@[k]).0 < r && has_ref(a, c2@[k].0 as int, n);
            assert(0 <= children@[k].0 < e);
            lemma_spec_rel_refs(a, children@[k].0 as int, c2@[k].0 as int, ucmd, builtin, fallback, shell, n);
        } _ => {} } }
        Expr::Optional { child, .. } => { match a[r] { Expr::Optional { child: c2, .. } => { lemma_spec_rel_refs(a, child.0 as int, c2.0 as int, ucmd, builtin, fallback, shell, n); } _ => {} } }
        Expr::Many1 { child, .. } => { match a[r] { Expr::Many1 { child: c2, .. } => { lemma_spec_rel_refs(a, child.0 as int, c2.0 as int, ucmd, builtin, fallback, shell, n); } _ => {} } }
        Expr::Subword { root_id, .. } => { match a[r] { Expr::Subword { root_id: c2, .. } => { lemma_spec_rel_refs(a, root_id.0 as int, c2.0 as int, ucmd, builtin, fallback, shell, n); } _ => {} } }
        _ => {}
    }
}

/// pushing any node keeps the relation between older nodes
proof fn lemma_spec_rel_push(a: Seq<Expr>, e: int, r: int, ucmd: Map<Ustr, Ustr>, builtin: Map<Ustr, BuiltinSpec>, fallback: Map<Ustr, (Ustr, HumanSpan)>, shell: Shell)
    requires spec_rel(a, e, r, ucmd, builtin, fallback, shell)
    ensures forall|x: Expr| spec_rel(#[trigger] a.push(x), e, r, ucmd, builtin, fallback, shell)
{
    assert forall|x: Expr| spec_rel(#[trigger] a.push(x), e, r, ucmd, builtin, fallback, shell) by {
        assert(is_prefix(a, a.push(x)));
        lemma_spec_rel_prefix(a, a.push(x), e, r, ucmd, builtin, fallback, shell);
    }
}

proof fn lemma_rel_children_push(a: Seq<Expr>, e: int, ch: Seq<ExprId>, c2: Seq<ExprId>, ucmd: Map<Ustr, Ustr>, builtin: Map<Ustr, BuiltinSpec>, fallback: Map<Ustr, (Ustr, HumanSpan)>, shell: Shell)
    requires
        c2.len() == ch.len(),
        forall|k: int| 0 <= k < ch.len() ==> 0 <= (#[trigger] ch[k]).0 < e && spec_rel(a, ch[k].0 as int, c2[k].0 as int, ucmd, builtin, fallback, shell),
    ensures forall|x: Expr| rel_children(#[trigger] a.push(x), e, ch, c2, ucmd, builtin, fallback, shell)
{
    assert forall|x: Expr| rel_children(#[trigger] a.push(x), e, ch, c2, ucmd, builtin, fallback, shell) by {
        assert(is_prefix(a, a.push(x)));
        assert forall|k: int| 0 <= k < ch.len() implies 0 <= (#[trigger] ch[k]).0 < e && spec_rel(a.push(x), ch[k].0 as int, c2[k].0 as int, ucmd, builtin, fallback, shell) by {
            lemma_spec_rel_prefix(a, a.push(x), ch[k].0 as int, c2[k].0 as int, ucmd, builtin, fallback, shell);
        }
    }
}

} // verus!
