// Expression-arena specification shared by the check.rs units (c11, c02c).
verus! {

pub closed spec fn eid(x: ExprId) -> int { x.0 as int }

impl vstd::std_specs::core::IndexSpecImpl<ExprId> for [Expr] {
    open spec fn index_req(&self, index: &ExprId) -> bool { eid(*index) < self@.len() }
}
impl vstd::std_specs::core::IndexSpecImpl<ExprId> for Vec<Expr> {
    open spec fn index_req(&self, index: &ExprId) -> bool { eid(*index) < self@.len() }
}

impl vstd::std_specs::cmp::PartialEqSpecImpl for ExprId {
    open spec fn obeys_eq_spec() -> bool { true }
    open spec fn eq_spec(&self, other: &ExprId) -> bool { *self == *other }
}

/// children of node i have smaller ids (the arena is only ever appended to, children first)
spec fn enode_wf(n: Expr, i: int) -> bool {
    match n {
        Expr::Sequence { children, .. } => forall|k: int| 0 <= k < children@.len() ==> 0 <= (#[trigger] children@[k]).0 < i,
        Expr::Alternative { children, .. } => forall|k: int| 0 <= k < children@.len() ==> 0 <= (#[trigger] children@[k]).0 < i,
        Expr::Fallback { children, .. } => forall|k: int| 0 <= k < children@.len() ==> 0 <= (#[trigger] children@[k]).0 < i,
        Expr::Optional { child, .. } => 0 <= child.0 < i,
        Expr::Many1 { child, .. } => 0 <= child.0 < i,
        Expr::DistributiveDescription { child, .. } => 0 <= child.0 < i,
        Expr::Subword { root_id, .. } => 0 <= root_id.0 < i,
        _ => true,
    }
}
spec fn earena_wf(a: Seq<Expr>) -> bool {
    forall|i: int| 0 <= i < a.len() ==> enode_wf(#[trigger] a[i], i)
}

/// no DistributiveDescription node below (and including) node i: the postcondition of
/// distribute_descriptions that the later passes rely on (their `unreachable!()` arms)
spec fn no_dd(a: Seq<Expr>, i: int) -> bool
    decreases i
{
    if i < 0 || i >= a.len() { false } else {
        match a[i] {
            Expr::DistributiveDescription { .. } => false,
            Expr::Sequence { children, .. } => forall|k: int| 0 <= k < children@.len() ==> 0 <= (#[trigger] children@[k]).0 < i && no_dd(a, children@[k].0 as int),
            Expr::Alternative { children, .. } => forall|k: int| 0 <= k < children@.len() ==> 0 <= (#[trigger] children@[k]).0 < i && no_dd(a, children@[k].0 as int),
            Expr::Fallback { children, .. } => forall|k: int| 0 <= k < children@.len() ==> 0 <= (#[trigger] children@[k]).0 < i && no_dd(a, children@[k].0 as int),
            Expr::Optional { child, .. } => 0 <= child.0 < i && no_dd(a, child.0 as int),
            Expr::Many1 { child, .. } => 0 <= child.0 < i && no_dd(a, child.0 as int),
            Expr::Subword { root_id, .. } => 0 <= root_id.0 < i && no_dd(a, root_id.0 as int),
            Expr::Terminal { .. } => true,
            Expr::NontermRef { .. } => true,
            Expr::Command { .. } => true,
        }
    }
}

spec fn is_prefix(old: Seq<Expr>, new: Seq<Expr>) -> bool {
    old.len() <= new.len() && forall|i: int| 0 <= i < old.len() ==> new[i] == old[i]
}

/// no_dd only looks at ids <= i, so appending to the arena preserves it
proof fn lemma_no_dd_prefix(old: Seq<Expr>, new: Seq<Expr>, i: int)
    requires is_prefix(old, new), no_dd(old, i)
    ensures no_dd(new, i)
    decreases i
{
    if 0 <= i < old.len() {
        assert(new[i] == old[i]);
        match old[i] {
            Expr::Sequence { children, .. } => { lemma_no_dd_prefix_children(old, new, i, children@); }
            Expr::Alternative { children, .. } => { lemma_no_dd_prefix_children(old, new, i, children@); }
            Expr::Fallback { children, .. } => { lemma_no_dd_prefix_children(old, new, i, children@); }
            Expr::Optional { child, .. } => { lemma_no_dd_prefix(old, new, child.0 as int); }
            Expr::Many1 { child, .. } => { lemma_no_dd_prefix(old, new, child.0 as int); }
            Expr::Subword { root_id, .. } => { lemma_no_dd_prefix(old, new, root_id.0 as int); }
            _ => {}
        }
    }
}
proof fn lemma_no_dd_prefix_children(old: Seq<Expr>, new: Seq<Expr>, i: int, ch: Seq<ExprId>)
    requires
        is_prefix(old, new),
        forall|k: int| 0 <= k < ch.len() ==> 0 <= (#[trigger] ch[k]).0 < i && no_dd(old, ch[k].0 as int),
    ensures
        forall|k: int| 0 <= k < ch.len() ==> 0 <= (#[trigger] ch[k]).0 < i && no_dd(new, ch[k].0 as int),
    decreases i, ch.len()
{
    assert forall|k: int| 0 <= k < ch.len() implies 0 <= (#[trigger] ch[k]).0 < i && no_dd(new, ch[k].0 as int) by {
        lemma_no_dd_prefix(old, new, ch[k].0 as int);
    }
}

} // verus!
