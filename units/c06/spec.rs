// C06/C13: well-formed source location (1-based line, 1-based half-open column range on ONE line)
verus! {
pub open spec fn span_wf(s: HumanSpan) -> bool {
    s.line >= 1 && s.column_start >= 1 && s.column_start <= s.column_end
}
pub proof fn witness_span_wf() ensures span_wf(HumanSpan { line: 1, column_start: 1, column_end: 2 }) {}
} // verus!
