// corr (unit c02d) implies the position bound of bound.rs
verus! {

/// leaves_bounded only looks at the nodes below i
proof fn lemma_bounded_prefix(a: Seq<RegexNode>, b: Seq<RegexNode>, i: int, n: int)
    requires rprefix(a, b), arena_wf(a), 0 <= i < a.len(), leaves_bounded(a, i, n)
    ensures leaves_bounded(b, i, n)
    decreases i
{
    assert(b[i] == a[i]);
    match a[i] {
        RegexNode::Star(c) => { if c.0 < i { lemma_bounded_prefix(a, b, c.0 as int, n); } }
        RegexNode::Or(ch) => {
            assert forall|k: int| 0 <= k < ch@.len() implies ((#[trigger] ch@[k]).0 < i ==> leaves_bounded(b, ch@[k].0 as int, n)) by {
                if ch@[k].0 < i { lemma_bounded_prefix(a, b, ch@[k].0 as int, n); }
            }
        }
        RegexNode::Cat(ch) => {
            assert forall|k: int| 0 <= k < ch@.len() implies ((#[trigger] ch@[k]).0 < i ==> leaves_bounded(b, ch@[k].0 as int, n)) by {
                if ch@[k].0 < i { lemma_bounded_prefix(a, b, ch@[k].0 as int, n); }
            }
        }
        _ => {}
    }
}

/// a regex tree that corresponds to an expression has all its positions below the number of items
proof fn lemma_corr_bounded(ea: Seq<Expr>, e: int, na: Seq<RegexNode>, r: int, ifp: Seq<RegexInput>, base: int)
    requires corr(ea, e, na, r, ifp, base)
    ensures leaves_bounded(na, r, ifp.len() - 1)
    decreases e, 1int
{
    match ea[e] {
        Expr::Sequence { children, .. } => { match na[r] { RegexNode::Cat(sub) => { lemma_corr_children_bounded(ea, e, children@, na, r, sub@, ifp, base); } _ => {} } }
        Expr::Alternative { children, .. } => { match na[r] { RegexNode::Or(sub) => { lemma_corr_children_bounded(ea, e, children@, na, r, sub@, ifp, base); } _ => {} } }
        Expr::Fallback { children, .. } => { match na[r] { RegexNode::Or(sub) => { lemma_corr_children_bounded(ea, e, children@, na, r, sub@, ifp, base); } _ => {} } }
        Expr::Optional { child, .. } => { match na[r] { RegexNode::Or(sub) => {
            lemma_corr_bounded(ea, child.0 as int, na, sub@[0].0 as int, ifp, base);
            assert forall|k: int| 0 <= k < sub@.len() implies ((#[trigger] sub@[k]).0 < r ==> leaves_bounded(na, sub@[k].0 as int, ifp.len() - 1)) by { }
        } _ => {} } }
        Expr::Many1 { child, .. } => { match na[r] { RegexNode::Cat(sub) => {
            lemma_corr_bounded(ea, child.0 as int, na, sub@[0].0 as int, ifp, base);
            assert forall|k: int| 0 <= k < sub@.len() implies ((#[trigger] sub@[k]).0 < r ==> leaves_bounded(na, sub@[k].0 as int, ifp.len() - 1)) by { }
        } _ => {} } }
        _ => {}
    }
}

proof fn lemma_corr_children_bounded(ea: Seq<Expr>, e: int, ch: Seq<ExprId>, na: Seq<RegexNode>, r: int, sub: Seq<RegexNodeId>, ifp: Seq<RegexInput>, base: int)
    requires corr_children(ea, e, ch, na, r, sub, ifp, base)
    ensures forall|k: int| 0 <= k < sub.len() ==> ((#[trigger] sub[k]).0 < r ==> leaves_bounded(na, sub[k].0 as int, ifp.len() - 1))
    decreases e, 0int
{
    assert forall|k: int| 0 <= k < sub.len() implies ((#[trigger] sub[k]).0 < r ==> leaves_bounded(na, sub[k].0 as int, ifp.len() - 1)) by {
        assert(0 <= ch[k].0 < e);
        lemma_corr_bounded(ea, ch[k].0 as int, na, sub[k].0 as int, ifp, base + leaves_upto(ea, ch, k, e));
    }
}


/// a corresponding regex node is never a bare Star
proof fn lemma_corr_not_star(ea: Seq<Expr>, e: int, na: Seq<RegexNode>, r: int, ifp: Seq<RegexInput>, base: int)
    requires corr(ea, e, na, r, ifp, base)
    ensures !(na[r] is Star)
{
}

/// the positions of a corresponding regex tree are base .. base + leaf_count - 1
proof fn lemma_corr_range(ea: Seq<Expr>, e: int, na: Seq<RegexNode>, r: int, ifp: Seq<RegexInput>, base: int, p: u32)
    requires corr(ea, e, na, r, ifp, base), arena_wf(na), poss(na, r).contains(p)
    ensures base <= p < base + leaf_count(ea, e)
    decreases e, 1int
{
    match ea[e] {
        Expr::Sequence { children, .. } => { match na[r] { RegexNode::Cat(sub) => { lemma_corr_children_range(ea, e, children@, na, r, sub@, ifp, base, p); } _ => {} } }
        Expr::Alternative { children, .. } => { match na[r] { RegexNode::Or(sub) => { lemma_corr_children_range(ea, e, children@, na, r, sub@, ifp, base, p); } _ => {} } }
        Expr::Fallback { children, .. } => { match na[r] { RegexNode::Or(sub) => { lemma_corr_children_range(ea, e, children@, na, r, sub@, ifp, base, p); } _ => {} } }
        Expr::Optional { child, .. } => { match na[r] { RegexNode::Or(sub) => {
            let k = choose|k: int| 0 <= k < sub@.len() && (#[trigger] sub@[k]).0 < r && poss(na, sub@[k].0 as int).contains(p);
            if k == 0 { lemma_corr_range(ea, child.0 as int, na, sub@[0].0 as int, ifp, base, p); }
        } _ => {} } }
        Expr::Many1 { child, .. } => { match na[r] { RegexNode::Cat(sub) => {
            let k = choose|k: int| 0 <= k < sub@.len() && (#[trigger] sub@[k]).0 < r && poss(na, sub@[k].0 as int).contains(p);
            assert(node_wf(na[sub@[1].0 as int], sub@[1].0 as int));
            lemma_corr_range(ea, child.0 as int, na, sub@[0].0 as int, ifp, base, p);
        } _ => {} } }
        _ => {}
    }
}

proof fn lemma_corr_children_range(ea: Seq<Expr>, e: int, ch: Seq<ExprId>, na: Seq<RegexNode>, r: int, sub: Seq<RegexNodeId>, ifp: Seq<RegexInput>, base: int, p: u32)
    requires
        corr_children(ea, e, ch, na, r, sub, ifp, base), arena_wf(na),
        exists|k: int| 0 <= k < sub.len() && (#[trigger] sub[k]).0 < r && poss(na, sub[k].0 as int).contains(p),
    ensures base <= p < base + leaves_upto(ea, ch, ch.len() as int, e)
    decreases e, 0int
{
    let k = choose|k: int| 0 <= k < sub.len() && (#[trigger] sub[k]).0 < r && poss(na, sub[k].0 as int).contains(p);
    assert(0 <= ch[k].0 < e);
    lemma_corr_range(ea, ch[k].0 as int, na, sub[k].0 as int, ifp, base + leaves_upto(ea, ch, k, e), p);
    lemma_leaves_mono(ea, ch, k + 1, ch.len() as int, e);
    assert(leaves_upto(ea, ch, k + 1, e) == leaves_upto(ea, ch, k, e) + leaf_count(ea, ch[k].0 as int));
}

/// corresponding children have pairwise disjoint positions
proof fn lemma_corr_children_disjoint(ea: Seq<Expr>, e: int, ch: Seq<ExprId>, na: Seq<RegexNode>, r: int, sub: Seq<RegexNodeId>, ifp: Seq<RegexInput>, base: int)
    requires corr_children(ea, e, ch, na, r, sub, ifp, base), arena_wf(na)
    ensures disjoint_children(na, sub)
{
    assert forall|k1: int, k2: int, p: u32| 0 <= k1 < sub.len() && 0 <= k2 < sub.len() && k1 != k2
        && #[trigger] poss(na, sub[k1].0 as int).contains(p) implies !#[trigger] poss(na, sub[k2].0 as int).contains(p) by {
        if poss(na, sub[k2].0 as int).contains(p) {
            assert(0 <= ch[k1].0 < e && 0 <= ch[k2].0 < e);
            lemma_corr_range(ea, ch[k1].0 as int, na, sub[k1].0 as int, ifp, base + leaves_upto(ea, ch, k1, e), p);
            lemma_corr_range(ea, ch[k2].0 as int, na, sub[k2].0 as int, ifp, base + leaves_upto(ea, ch, k2, e), p);
            assert(leaves_upto(ea, ch, k1 + 1, e) == leaves_upto(ea, ch, k1, e) + leaf_count(ea, ch[k1].0 as int));
            assert(leaves_upto(ea, ch, k2 + 1, e) == leaves_upto(ea, ch, k2, e) + leaf_count(ea, ch[k2].0 as int));
            if k1 < k2 { lemma_leaves_mono(ea, ch, k1 + 1, k2, e); } else { lemma_leaves_mono(ea, ch, k2 + 1, k1, e); }
            assert(false);
        }
    }
}

/// a corresponding regex tree is linear (each position once; `c...` shares c with its star)
proof fn lemma_corr_lin(ea: Seq<Expr>, e: int, na: Seq<RegexNode>, r: int, ifp: Seq<RegexInput>, base: int)
    requires corr(ea, e, na, r, ifp, base), arena_wf(na)
    ensures lin_ok(na, r)
    decreases e, 1int
{
    match ea[e] {
        Expr::Sequence { children, .. } => { match na[r] { RegexNode::Cat(sub) => {
            lemma_corr_children_lin(ea, e, children@, na, r, sub@, ifp, base);
            if is_plus(na, sub@) { lemma_corr_not_star(ea, children@[1].0 as int, na, sub@[1].0 as int, ifp, base + leaves_upto(ea, children@, 1, e)); }
        } _ => {} } }
        Expr::Alternative { children, .. } => { match na[r] { RegexNode::Or(sub) => { lemma_corr_children_lin(ea, e, children@, na, r, sub@, ifp, base); } _ => {} } }
        Expr::Fallback { children, .. } => { match na[r] { RegexNode::Or(sub) => { lemma_corr_children_lin(ea, e, children@, na, r, sub@, ifp, base); } _ => {} } }
        Expr::Optional { child, .. } => { match na[r] { RegexNode::Or(sub) => {
            lemma_corr_lin(ea, child.0 as int, na, sub@[0].0 as int, ifp, base);
            lemma_corr_not_star(ea, child.0 as int, na, sub@[0].0 as int, ifp, base);
            assert forall|k: int| 0 <= k < sub@.len() implies 0 <= (#[trigger] sub@[k]).0 < r && lin_ok(na, sub@[k].0 as int) && !(na[sub@[k].0 as int] is Star) by {
                if k == 0 { } else { assert(k == 1); }
            }
            assert(disjoint_children(na, sub@)) by {
                assert forall|k1: int, k2: int, p: u32| 0 <= k1 < sub@.len() && 0 <= k2 < sub@.len() && k1 != k2
                    && #[trigger] poss(na, sub@[k1].0 as int).contains(p) implies !#[trigger] poss(na, sub@[k2].0 as int).contains(p) by {
                    assert(k1 == 1 || k2 == 1);
                }
            }
        } _ => {} } }
        Expr::Many1 { child, .. } => { match na[r] { RegexNode::Cat(sub) => {
            lemma_corr_lin(ea, child.0 as int, na, sub@[0].0 as int, ifp, base);
            lemma_corr_not_star(ea, child.0 as int, na, sub@[0].0 as int, ifp, base);
            assert(node_wf(na[sub@[1].0 as int], sub@[1].0 as int));
            assert(is_plus(na, sub@));
        } _ => {} } }
        _ => {}
    }
}

proof fn lemma_corr_children_lin(ea: Seq<Expr>, e: int, ch: Seq<ExprId>, na: Seq<RegexNode>, r: int, sub: Seq<RegexNodeId>, ifp: Seq<RegexInput>, base: int)
    requires corr_children(ea, e, ch, na, r, sub, ifp, base), arena_wf(na)
    ensures
        forall|k: int| 0 <= k < sub.len() ==> 0 <= (#[trigger] sub[k]).0 < r && lin_ok(na, sub[k].0 as int) && !(na[sub[k].0 as int] is Star),
        disjoint_children(na, sub),
    decreases e, 0int
{
    assert forall|k: int| 0 <= k < sub.len() implies 0 <= (#[trigger] sub[k]).0 < r && lin_ok(na, sub[k].0 as int) && !(na[sub[k].0 as int] is Star) by {
        assert(0 <= ch[k].0 < e);
        lemma_corr_lin(ea, ch[k].0 as int, na, sub[k].0 as int, ifp, base + leaves_upto(ea, ch, k, e));
        lemma_corr_not_star(ea, ch[k].0 as int, na, sub[k].0 as int, ifp, base + leaves_upto(ea, ch, k, e));
    }
    lemma_corr_children_disjoint(ea, e, ch, na, r, sub, ifp, base);
}

} // verus!
