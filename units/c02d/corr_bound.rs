// corr (unit c02d) implies the position bound of bound.rs
verus! {

/// leaves_bounded only looks at the nodes below i
proof fn lemma_bounded_prefix(a: Seq<RegexNode>, b: Seq<RegexNode>, i: int, n: int)
    requires rprefix(a, b), arena_wf(a), 0 <= i < a.len(), leaves_bounded(a, i, n)
    ensures leaves_bounded(b, i, n)
    decreases i
{
    assert(b[i] == a[i]);
    match a[i] {
        RegexNode::Star(c) => { if c.0 < i { lemma_bounded_prefix(a, b, c.0 as int, n); } }
        RegexNode::Or(ch) => {
            assert forall|k: int| 0 <= k < ch@.len() implies ((#[trigger] ch@[k]).0 < i ==> leaves_bounded(b, ch@[k].0 as int, n)) by {
                if ch@[k].0 < i { lemma_bounded_prefix(a, b, ch@[k].0 as int, n); }
            }
        }
        RegexNode::Cat(ch) => {
            assert forall|k: int| 0 <= k < ch@.len() implies ((#[trigger] ch@[k]).0 < i ==> leaves_bounded(b, ch@[k].0 as int, n)) by {
                if ch@[k].0 < i { lemma_bounded_prefix(a, b, ch@[k].0 as int, n); }
            }
        }
        _ => {}
    }
}

/// a regex tree that corresponds to an expression has all its positions below the number of items
proof fn lemma_corr_bounded(ea: Seq<Expr>, e: int, na: Seq<RegexNode>, r: int, ifp: Seq<RegexInput>, base: int)
    requires corr(ea, e, na, r, ifp, base)
    ensures leaves_bounded(na, r, ifp.len() as int)
    decreases e, 1int
{
    match ea[e] {
        Expr::Sequence { children, .. } => { match na[r] { RegexNode::Cat(sub) => { lemma_corr_children_bounded(ea, e, children@, na, r, sub@, ifp, base); } _ => {} } }
        Expr::Alternative { children, .. } => { match na[r] { RegexNode::Or(sub) => { lemma_corr_children_bounded(ea, e, children@, na, r, sub@, ifp, base); } _ => {} } }
        Expr::Fallback { children, .. } => { match na[r] { RegexNode::Or(sub) => { lemma_corr_children_bounded(ea, e, children@, na, r, sub@, ifp, base); } _ => {} } }
        Expr::Optional { child, .. } => { match na[r] { RegexNode::Or(sub) => {
            lemma_corr_bounded(ea, child.0 as int, na, sub@[0].0 as int, ifp, base);
            assert forall|k: int| 0 <= k < sub@.len() implies ((#[trigger] sub@[k]).0 < r ==> leaves_bounded(na, sub@[k].0 as int, ifp.len() as int)) by { }
        } _ => {} } }
        Expr::Many1 { child, .. } => { match na[r] { RegexNode::Cat(sub) => {
            lemma_corr_bounded(ea, child.0 as int, na, sub@[0].0 as int, ifp, base);
            assert forall|k: int| 0 <= k < sub@.len() implies ((#[trigger] sub@[k]).0 < r ==> leaves_bounded(na, sub@[k].0 as int, ifp.len() as int)) by { }
        } _ => {} } }
        _ => {}
    }
}

proof fn lemma_corr_children_bounded(ea: Seq<Expr>, e: int, ch: Seq<ExprId>, na: Seq<RegexNode>, r: int, sub: Seq<RegexNodeId>, ifp: Seq<RegexInput>, base: int)
    requires corr_children(ea, e, ch, na, r, sub, ifp, base)
    ensures forall|k: int| 0 <= k < sub.len() ==> ((#[trigger] sub[k]).0 < r ==> leaves_bounded(na, sub[k].0 as int, ifp.len() as int))
    decreases e, 0int
{
    assert forall|k: int| 0 <= k < sub.len() implies ((#[trigger] sub[k]).0 < r ==> leaves_bounded(na, sub[k].0 as int, ifp.len() as int)) by {
        assert(0 <= ch[k].0 < e);
        lemma_corr_bounded(ea, ch[k].0 as int, na, sub[k].0 as int, ifp, base + leaves_upto(ea, ch, k, e));
    }
}

} // verus!
