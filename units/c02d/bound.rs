// Positions stay inside the regex: every leaf position of the tree is at most n (the number of
// items; n itself is the end marker), hence so is every member of a first set and every right-hand
// side of the follow relation -- what makes `input_from_position[pos]` safe in regex.rs's checks.
verus! {

spec fn leaves_bounded(a: Seq<RegexNode>, i: int, n: int) -> bool
    decreases i
{
    if i < 0 || i >= a.len() { true } else {
        match a[i] {
            RegexNode::Epsilon => true,
            RegexNode::Terminal(p) => p <= n,
            RegexNode::Nonterminal(p) => p <= n,
            RegexNode::Command(p) => p <= n,
            RegexNode::Subword(p) => p <= n,
            RegexNode::EndMarker(p) => p <= n,
            RegexNode::Star(c) => c.0 < i ==> leaves_bounded(a, c.0 as int, n),
            RegexNode::Or(ch) => forall|k: int| 0 <= k < ch@.len() ==> ((#[trigger] ch@[k]).0 < i ==> leaves_bounded(a, ch@[k].0 as int, n)),
            RegexNode::Cat(ch) => forall|k: int| 0 <= k < ch@.len() ==> ((#[trigger] ch@[k]).0 < i ==> leaves_bounded(a, ch@[k].0 as int, n)),
        }
    }
}

proof fn lemma_first_bounded(a: Seq<RegexNode>, i: int, n: int, p: u32)
    requires leaves_bounded(a, i, n), s_first(a, i).contains(p)
    ensures p <= n
    decreases i
{
    if 0 <= i < a.len() {
        match a[i] {
            RegexNode::Star(c) => { if c.0 < i { lemma_first_bounded(a, c.0 as int, n, p); } }
            RegexNode::Or(ch) => {
                let k = choose|k: int| 0 <= k < ch@.len() && (#[trigger] ch@[k]).0 < i && s_first(a, ch@[k].0 as int).contains(p);
                lemma_first_bounded(a, ch@[k].0 as int, n, p);
            }
            RegexNode::Cat(ch) => {
                let k = choose|k: int| 0 <= k < ch@.len() && (#[trigger] ch@[k]).0 < i && prefix_nullable(a, ch@, k) && s_first(a, ch@[k].0 as int).contains(p);
                lemma_first_bounded(a, ch@[k].0 as int, n, p);
            }
            _ => {}
        }
    }
}

proof fn lemma_follow_bounded(a: Seq<RegexNode>, i: int, n: int, t: u32, h: u32)
    requires leaves_bounded(a, i, n), follows_code(a, i, t, h)
    ensures h <= n
    decreases i
{
    if 0 <= i < a.len() {
        match a[i] {
            RegexNode::Or(ch) => {
                let k = choose|k: int| 0 <= k < ch@.len() && (#[trigger] ch@[k]).0 < i && follows_code(a, ch@[k].0 as int, t, h);
                lemma_follow_bounded(a, ch@[k].0 as int, n, t, h);
            }
            RegexNode::Cat(ch) => {
                if exists|k: int| 0 <= k < ch@.len() && (#[trigger] ch@[k]).0 < i && follows_code(a, ch@[k].0 as int, t, h) {
                    let k = choose|k: int| 0 <= k < ch@.len() && (#[trigger] ch@[k]).0 < i && follows_code(a, ch@[k].0 as int, t, h);
                    lemma_follow_bounded(a, ch@[k].0 as int, n, t, h);
                } else {
                    assert(cat_link(a, ch@, i, t, h));
                    lemma_cat_link_bounded(a, ch@, i, n, t, h);
                }
            }
            RegexNode::Star(c) => { lemma_first_bounded(a, c.0 as int, n, h); }
            _ => {}
        }
    }
}

proof fn lemma_cat_link_bounded(a: Seq<RegexNode>, ch: Seq<RegexNodeId>, i: int, n: int, t: u32, h: u32)
    requires
        cat_link(a, ch, i, t, h),
        forall|k: int| 0 <= k < ch.len() ==> ((#[trigger] ch[k]).0 < i ==> leaves_bounded(a, ch[k].0 as int, n)),
    ensures h <= n
{
    let (l, r) = choose|l: int, r: int| 0 <= l < r < ch.len() && (#[trigger] ch[l]).0 < i && (#[trigger] ch[r]).0 < i
        && s_last(a, ch[l].0 as int).contains(t) && s_first(a, ch[r].0 as int).contains(h)
        && (forall|m: int| l < m < r ==> s_nullable(a, (#[trigger] ch[m]).0 as int));
    lemma_first_bounded(a, ch[r].0 as int, n, h);
}

/// a larger bound is a bound
proof fn lemma_bounded_mono(a: Seq<RegexNode>, i: int, n: int, n2: int)
    requires leaves_bounded(a, i, n), n <= n2
    ensures leaves_bounded(a, i, n2)
    decreases i
{
    if 0 <= i < a.len() {
        match a[i] {
            RegexNode::Star(c) => { if c.0 < i { lemma_bounded_mono(a, c.0 as int, n, n2); } }
            RegexNode::Or(ch) => {
                assert forall|k: int| 0 <= k < ch@.len() implies ((#[trigger] ch@[k]).0 < i ==> leaves_bounded(a, ch@[k].0 as int, n2)) by {
                    if ch@[k].0 < i { lemma_bounded_mono(a, ch@[k].0 as int, n, n2); }
                }
            }
            RegexNode::Cat(ch) => {
                assert forall|k: int| 0 <= k < ch@.len() implies ((#[trigger] ch@[k]).0 < i ==> leaves_bounded(a, ch@[k].0 as int, n2)) by {
                    if ch@[k].0 < i { lemma_bounded_mono(a, ch@[k].0 as int, n, n2); }
                }
            }
            _ => {}
        }
    }
}


// ---- linearity: every position occurs once, except that `c...` = Cat[c, Star(c)] shares c with its star ----

/// the positions below node i
spec fn poss(a: Seq<RegexNode>, i: int) -> ISet<u32>
    decreases i
{
    if i < 0 || i >= a.len() { ISet::empty() } else {
        match a[i] {
            RegexNode::Epsilon => ISet::empty(),
            RegexNode::Terminal(p) => iset![p],
            RegexNode::Nonterminal(p) => iset![p],
            RegexNode::Command(p) => iset![p],
            RegexNode::Subword(p) => iset![p],
            RegexNode::EndMarker(p) => iset![p],
            RegexNode::Star(c) => if c.0 < i { poss(a, c.0 as int) } else { ISet::empty() },
            RegexNode::Or(ch) => ISet::new(|p: u32| exists|k: int| 0 <= k < ch@.len() && (#[trigger] ch@[k]).0 < i && poss(a, ch@[k].0 as int).contains(p)),
            RegexNode::Cat(ch) => ISet::new(|p: u32| exists|k: int| 0 <= k < ch@.len() && (#[trigger] ch@[k]).0 < i && poss(a, ch@[k].0 as int).contains(p)),
        }
    }
}

/// `Cat[c, Star(c)]`: the regex of `c...`
spec fn is_plus(a: Seq<RegexNode>, ch: Seq<RegexNodeId>) -> bool {
    ch.len() == 2 && 0 <= ch[1].0 < a.len() && a[ch[1].0 as int] == RegexNode::Star(ch[0])
}

/// children have pairwise disjoint positions
spec fn disjoint_children(a: Seq<RegexNode>, ch: Seq<RegexNodeId>) -> bool {
    forall|k1: int, k2: int, p: u32| 0 <= k1 < ch.len() && 0 <= k2 < ch.len() && k1 != k2
        && #[trigger] poss(a, ch[k1].0 as int).contains(p) ==> !#[trigger] poss(a, ch[k2].0 as int).contains(p)
}

/// every position occurs once (except that a `c...` node shares c with its star); stars only occur there
spec fn lin_ok(a: Seq<RegexNode>, i: int) -> bool
    decreases i
{
    if i < 0 || i >= a.len() { false } else {
        match a[i] {
            RegexNode::Star(c) => 0 <= c.0 < i && lin_ok(a, c.0 as int) && !(a[c.0 as int] is Star),
            RegexNode::Or(ch) => (forall|k: int| 0 <= k < ch@.len() ==> 0 <= (#[trigger] ch@[k]).0 < i && lin_ok(a, ch@[k].0 as int) && !(a[ch@[k].0 as int] is Star))
                && disjoint_children(a, ch@),
            RegexNode::Cat(ch) =>
                if is_plus(a, ch@) { 0 <= ch@[0].0 < i && ch@[1].0 < i && ch@[0].0 < ch@[1].0 && lin_ok(a, ch@[0].0 as int) && !(a[ch@[0].0 as int] is Star) }
                else { (forall|k: int| 0 <= k < ch@.len() ==> 0 <= (#[trigger] ch@[k]).0 < i && lin_ok(a, ch@[k].0 as int) && !(a[ch@[k].0 as int] is Star))
                    && disjoint_children(a, ch@) },
            _ => true,
        }
    }
}

proof fn lemma_poss_bounded(a: Seq<RegexNode>, i: int, m: int, p: u32)
    requires leaves_bounded(a, i, m), poss(a, i).contains(p)
    ensures p <= m
    decreases i
{
    if 0 <= i < a.len() {
        match a[i] {
            RegexNode::Star(c) => { if c.0 < i { lemma_poss_bounded(a, c.0 as int, m, p); } }
            RegexNode::Or(ch) => {
                let k = choose|k: int| 0 <= k < ch@.len() && (#[trigger] ch@[k]).0 < i && poss(a, ch@[k].0 as int).contains(p);
                lemma_poss_bounded(a, ch@[k].0 as int, m, p);
            }
            RegexNode::Cat(ch) => {
                let k = choose|k: int| 0 <= k < ch@.len() && (#[trigger] ch@[k]).0 < i && poss(a, ch@[k].0 as int).contains(p);
                lemma_poss_bounded(a, ch@[k].0 as int, m, p);
            }
            _ => {}
        }
    }
}


} // verus!
