// Positions stay inside the regex: every leaf position of the tree is at most n (the number of
// items; n itself is the end marker), hence so is every member of a first set and every right-hand
// side of the follow relation -- what makes `input_from_position[pos]` safe in regex.rs's checks.
verus! {

spec fn leaves_bounded(a: Seq<RegexNode>, i: int, n: int) -> bool
    decreases i
{
    if i < 0 || i >= a.len() { true } else {
        match a[i] {
            RegexNode::Epsilon => true,
            RegexNode::Terminal(p) => p <= n,
            RegexNode::Nonterminal(p) => p <= n,
            RegexNode::Command(p) => p <= n,
            RegexNode::Subword(p) => p <= n,
            RegexNode::EndMarker(p) => p <= n,
            RegexNode::Star(c) => c.0 < i ==> leaves_bounded(a, c.0 as int, n),
            RegexNode::Or(ch) => forall|k: int| 0 <= k < ch@.len() ==> ((#[trigger] ch@[k]).0 < i ==> leaves_bounded(a, ch@[k].0 as int, n)),
            RegexNode::Cat(ch) => forall|k: int| 0 <= k < ch@.len() ==> ((#[trigger] ch@[k]).0 < i ==> leaves_bounded(a, ch@[k].0 as int, n)),
        }
    }
}

proof fn lemma_first_bounded(a: Seq<RegexNode>, i: int, n: int, p: u32)
    requires leaves_bounded(a, i, n), s_first(a, i).contains(p)
    ensures p <= n
    decreases i
{
    if 0 <= i < a.len() {
        match a[i] {
            RegexNode::Star(c) => { if c.0 < i { lemma_first_bounded(a, c.0 as int, n, p); } }
            RegexNode::Or(ch) => {
                let k = choose|k: int| 0 <= k < ch@.len() && (#[trigger] ch@[k]).0 < i && s_first(a, ch@[k].0 as int).contains(p);
                lemma_first_bounded(a, ch@[k].0 as int, n, p);
            }
            RegexNode::Cat(ch) => {
                let k = choose|k: int| 0 <= k < ch@.len() && (#[trigger] ch@[k]).0 < i && prefix_nullable(a, ch@, k) && s_first(a, ch@[k].0 as int).contains(p);
                lemma_first_bounded(a, ch@[k].0 as int, n, p);
            }
            _ => {}
        }
    }
}

proof fn lemma_follow_bounded(a: Seq<RegexNode>, i: int, n: int, t: u32, h: u32)
    requires leaves_bounded(a, i, n), follows_code(a, i, t, h)
    ensures h <= n
    decreases i
{
    if 0 <= i < a.len() {
        match a[i] {
            RegexNode::Or(ch) => {
                let k = choose|k: int| 0 <= k < ch@.len() && (#[trigger] ch@[k]).0 < i && follows_code(a, ch@[k].0 as int, t, h);
                lemma_follow_bounded(a, ch@[k].0 as int, n, t, h);
            }
            RegexNode::Cat(ch) => {
                if exists|k: int| 0 <= k < ch@.len() && (#[trigger] ch@[k]).0 < i && follows_code(a, ch@[k].0 as int, t, h) {
                    let k = choose|k: int| 0 <= k < ch@.len() && (#[trigger] ch@[k]).0 < i && follows_code(a, ch@[k].0 as int, t, h);
                    lemma_follow_bounded(a, ch@[k].0 as int, n, t, h);
                } else {
                    assert(cat_link(a, ch@, i, t, h));
                    lemma_cat_link_bounded(a, ch@, i, n, t, h);
                }
            }
            RegexNode::Star(c) => { lemma_first_bounded(a, c.0 as int, n, h); }
            _ => {}
        }
    }
}

proof fn lemma_cat_link_bounded(a: Seq<RegexNode>, ch: Seq<RegexNodeId>, i: int, n: int, t: u32, h: u32)
    requires
        cat_link(a, ch, i, t, h),
        forall|k: int| 0 <= k < ch.len() ==> ((#[trigger] ch[k]).0 < i ==> leaves_bounded(a, ch[k].0 as int, n)),
    ensures h <= n
{
    let (l, r) = choose|l: int, r: int| 0 <= l < r < ch.len() && (#[trigger] ch[l]).0 < i && (#[trigger] ch[r]).0 < i
        && s_last(a, ch[l].0 as int).contains(t) && s_first(a, ch[r].0 as int).contains(h)
        && (forall|m: int| l < m < r ==> s_nullable(a, (#[trigger] ch[m]).0 as int));
    lemma_first_bounded(a, ch[r].0 as int, n, h);
}

/// a larger bound is a bound
proof fn lemma_bounded_mono(a: Seq<RegexNode>, i: int, n: int, n2: int)
    requires leaves_bounded(a, i, n), n <= n2
    ensures leaves_bounded(a, i, n2)
    decreases i
{
    if 0 <= i < a.len() {
        match a[i] {
            RegexNode::Star(c) => { if c.0 < i { lemma_bounded_mono(a, c.0 as int, n, n2); } }
            RegexNode::Or(ch) => {
                assert forall|k: int| 0 <= k < ch@.len() implies ((#[trigger] ch@[k]).0 < i ==> leaves_bounded(a, ch@[k].0 as int, n2)) by {
                    if ch@[k].0 < i { lemma_bounded_mono(a, ch@[k].0 as int, n, n2); }
                }
            }
            RegexNode::Cat(ch) => {
                assert forall|k: int| 0 <= k < ch@.len() implies ((#[trigger] ch@[k]).0 < i ==> leaves_bounded(a, ch@[k].0 as int, n2)) by {
                    if ch@[k].0 < i { lemma_bounded_mono(a, ch@[k].0 as int, n, n2); }
                }
            }
            _ => {}
        }
    }
}

} // verus!
