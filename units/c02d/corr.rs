// C02: "each expected item carries its literal text, the description the grammar attaches to it,
// and the index of the `||` branch it sits in ... no description or fallback level is moved to a
// different literal". do_from_expr turns an expression tree into a position-labelled regex
// (Dragon Book 3.9: every leaf gets its own position); `corr` is the translation relation:
// same shape, leaf number p (left to right, counted from `base`) is position p, and
// input_from_position[p] is that leaf's own text / description / level / span.
verus! {

/// number of leaves (positions) the tree below e contributes; a within-word expression counts as one
spec fn leaf_count(ea: Seq<Expr>, e: int) -> nat
    decreases e, 1int, 0int
{
    if e < 0 || e >= ea.len() { 0 } else {
        match ea[e] {
            Expr::Terminal { .. } => 1,
            Expr::NontermRef { .. } => 1,
            Expr::Command { .. } => 1,
            Expr::Subword { .. } => 1,
            Expr::Sequence { children, .. } => leaves_upto(ea, children@, children@.len() as int, e),
            Expr::Alternative { children, .. } => leaves_upto(ea, children@, children@.len() as int, e),
            Expr::Fallback { children, .. } => leaves_upto(ea, children@, children@.len() as int, e),
            Expr::Optional { child, .. } => if 0 <= child.0 < e { leaf_count(ea, child.0 as int) } else { 0 },
            Expr::Many1 { child, .. } => if 0 <= child.0 < e { leaf_count(ea, child.0 as int) } else { 0 },
            Expr::DistributiveDescription { .. } => 0,
        }
    }
}

/// leaves of the first k children
spec fn leaves_upto(ea: Seq<Expr>, ch: Seq<ExprId>, k: int, bound: int) -> nat
    decreases bound, 0int, k
{
    if k <= 0 || k > ch.len() { 0 } else {
        leaves_upto(ea, ch, k - 1, bound) + (if 0 <= ch[k - 1].0 < bound { leaf_count(ea, ch[k - 1].0 as int) } else { 0 })
    }
}

proof fn lemma_leaves_mono(ea: Seq<Expr>, ch: Seq<ExprId>, k1: int, k2: int, bound: int)
    requires 0 <= k1 <= k2 <= ch.len()
    ensures leaves_upto(ea, ch, k1, bound) <= leaves_upto(ea, ch, k2, bound)
    decreases k2 - k1
{
    if k1 < k2 { lemma_leaves_mono(ea, ch, k1, k2 - 1, bound); }
}

/// every within-word expression below e is small enough for u32 positions (machine arithmetic:
/// `input_from_position.len() as Position`)
spec fn fits(ea: Seq<Expr>, e: int) -> bool
    decreases e
{
    if e < 0 || e >= ea.len() { false } else {
        match ea[e] {
            Expr::Terminal { .. } => true,
            Expr::NontermRef { .. } => true,
            Expr::Command { .. } => true,
            Expr::Subword { root_id, .. } => 0 <= root_id.0 < e && leaf_count(ea, root_id.0 as int) < u32::MAX && fits(ea, root_id.0 as int),
            Expr::Sequence { children, .. } => forall|k: int| 0 <= k < children@.len() ==> 0 <= (#[trigger] children@[k]).0 < e && fits(ea, children@[k].0 as int),
            Expr::Alternative { children, .. } => forall|k: int| 0 <= k < children@.len() ==> 0 <= (#[trigger] children@[k]).0 < e && fits(ea, children@[k].0 as int),
            Expr::Fallback { children, .. } => forall|k: int| 0 <= k < children@.len() ==> 0 <= (#[trigger] children@[k]).0 < e && fits(ea, children@[k].0 as int),
            Expr::Optional { child, .. } => 0 <= child.0 < e && fits(ea, child.0 as int),
            Expr::Many1 { child, .. } => 0 <= child.0 < e && fits(ea, child.0 as int),
            Expr::DistributiveDescription { .. } => false,
        }
    }
}

spec fn rprefix(old: Seq<RegexNode>, new: Seq<RegexNode>) -> bool {
    old.len() <= new.len() && forall|i: int| 0 <= i < old.len() ==> new[i] == old[i]
}
spec fn iprefix(old: Seq<RegexInput>, new: Seq<RegexInput>) -> bool {
    old.len() <= new.len() && forall|i: int| 0 <= i < old.len() ==> new[i] == old[i]
}

/// children k of the expression and of the regex node correspond, child k starting at the
/// position after the leaves of children 0..k
spec fn corr_children(ea: Seq<Expr>, e: int, ch: Seq<ExprId>, na: Seq<RegexNode>, r: int, sub: Seq<RegexNodeId>, ifp: Seq<RegexInput>, base: int) -> bool
    decreases e, 0int
{
    sub.len() == ch.len()
    && forall|k: int| 0 <= k < ch.len() ==> 0 <= (#[trigger] ch[k]).0 < e && 0 <= sub[k].0 < r
        && corr(ea, ch[k].0 as int, na, sub[k].0 as int, ifp, base + leaves_upto(ea, ch, k, e))
}

spec fn corr(ea: Seq<Expr>, e: int, na: Seq<RegexNode>, r: int, ifp: Seq<RegexInput>, base: int) -> bool
    decreases e, 1int
{
    if e < 0 || e >= ea.len() || r < 0 || r >= na.len() { false } else {
        match ea[e] {
            Expr::Terminal { term, descr, fallback, span } =>
                0 <= base < ifp.len() && base <= u32::MAX && na[r] == RegexNode::Terminal(base as u32)
                && ifp[base] == (RegexInput::Literal { literal: term, description: descr, fallback_level: fallback, span: span }),
            Expr::NontermRef { nonterm, fallback, span } =>
                0 <= base < ifp.len() && base <= u32::MAX && na[r] == RegexNode::Nonterminal(base as u32)
                && ifp[base] == (RegexInput::Nonterminal { nonterm: nonterm, fallback_level: fallback, span: span }),
            Expr::Command { cmd, zsh_compadd, fallback, span } =>
                0 <= base < ifp.len() && base <= u32::MAX && na[r] == RegexNode::Command(base as u32)
                && ifp[base] == (RegexInput::Command { cmd: cmd, zsh_compadd: zsh_compadd, fallback_level: fallback, span: span }),
            Expr::Subword { root_id, fallback, span } =>
                0 <= base < ifp.len() && base <= u32::MAX && na[r] == RegexNode::Subword(base as u32)
                && (match ifp[base] {
                    RegexInput::Subword { subword_regex_id, fallback_level, span: sp } => fallback_level == fallback && sp == span,
                    _ => false,
                }),
            Expr::Sequence { children, .. } => match na[r] {
                RegexNode::Cat(sub) => corr_children(ea, e, children@, na, r, sub@, ifp, base),
                _ => false,
            },
            Expr::Alternative { children, .. } => match na[r] {
                RegexNode::Or(sub) => corr_children(ea, e, children@, na, r, sub@, ifp, base),
                _ => false,
            },
            Expr::Fallback { children, .. } => match na[r] {
                RegexNode::Or(sub) => corr_children(ea, e, children@, na, r, sub@, ifp, base),
                _ => false,
            },
            Expr::Optional { child, .. } => match na[r] {
                RegexNode::Or(sub) => sub@.len() == 2 && 0 <= child.0 < e && 0 <= sub@[0].0 < r && 0 <= sub@[1].0 < r
                    && corr(ea, child.0 as int, na, sub@[0].0 as int, ifp, base) && na[sub@[1].0 as int] == RegexNode::Epsilon,
                _ => false,
            },
            Expr::Many1 { child, .. } => match na[r] {
                RegexNode::Cat(sub) => sub@.len() == 2 && 0 <= child.0 < e && 0 <= sub@[0].0 < r && 0 <= sub@[1].0 < r
                    && corr(ea, child.0 as int, na, sub@[0].0 as int, ifp, base) && na[sub@[1].0 as int] == RegexNode::Star(sub@[0]),
                _ => false,
            },
            Expr::DistributiveDescription { .. } => false,
        }
    }
}

/// the relation only looks at regex nodes <= r and positions below the current lengths
proof fn lemma_corr_prefix(ea: Seq<Expr>, e: int, na1: Seq<RegexNode>, na2: Seq<RegexNode>, r: int, ifp1: Seq<RegexInput>, ifp2: Seq<RegexInput>, base: int)
    requires rprefix(na1, na2), iprefix(ifp1, ifp2), corr(ea, e, na1, r, ifp1, base)
    ensures corr(ea, e, na2, r, ifp2, base)
    decreases e
{
    assert(na2[r] == na1[r]);
    match ea[e] {
        Expr::Sequence { children, .. } => { match na1[r] { RegexNode::Cat(sub) => { lemma_corr_children_prefix(ea, e, children@, na1, na2, r, sub@, ifp1, ifp2, base); } _ => {} } }
        Expr::Alternative { children, .. } => { match na1[r] { RegexNode::Or(sub) => { lemma_corr_children_prefix(ea, e, children@, na1, na2, r, sub@, ifp1, ifp2, base); } _ => {} } }
        Expr::Fallback { children, .. } => { match na1[r] { RegexNode::Or(sub) => { lemma_corr_children_prefix(ea, e, children@, na1, na2, r, sub@, ifp1, ifp2, base); } _ => {} } }
        Expr::Optional { child, .. } => { match na1[r] { RegexNode::Or(sub) => { lemma_corr_prefix(ea, child.0 as int, na1, na2, sub@[0].0 as int, ifp1, ifp2, base); } _ => {} } }
        Expr::Many1 { child, .. } => { match na1[r] { RegexNode::Cat(sub) => { lemma_corr_prefix(ea, child.0 as int, na1, na2, sub@[0].0 as int, ifp1, ifp2, base); } _ => {} } }
        _ => {}
    }
}

proof fn lemma_corr_children_prefix(ea: Seq<Expr>, e: int, ch: Seq<ExprId>, na1: Seq<RegexNode>, na2: Seq<RegexNode>, r: int, sub: Seq<RegexNodeId>, ifp1: Seq<RegexInput>, ifp2: Seq<RegexInput>, base: int)
    requires rprefix(na1, na2), iprefix(ifp1, ifp2), corr_children(ea, e, ch, na1, r, sub, ifp1, base)
    ensures corr_children(ea, e, ch, na2, r, sub, ifp2, base)
    decreases e, 0int
{
    assert forall|k: int| 0 <= k < ch.len() implies 0 <= (#[trigger] ch[k]).0 < e && 0 <= sub[k].0 < r
        && corr(ea, ch[k].0 as int, na2, sub[k].0 as int, ifp2, base + leaves_upto(ea, ch, k, e)) by {
        lemma_corr_prefix(ea, ch[k].0 as int, na1, na2, sub[k].0 as int, ifp1, ifp2, base + leaves_upto(ea, ch, k, e));
    }
}


proof fn lemma_corr_push(ea: Seq<Expr>, e: int, na: Seq<RegexNode>, r: int, ifp: Seq<RegexInput>, base: int)
    requires corr(ea, e, na, r, ifp, base)
    ensures forall|x: RegexNode| corr(ea, e, #[trigger] na.push(x), r, ifp, base)
{
    assert forall|x: RegexNode| corr(ea, e, #[trigger] na.push(x), r, ifp, base) by {
        assert(rprefix(na, na.push(x)));
        lemma_corr_prefix(ea, e, na, na.push(x), r, ifp, ifp, base);
    }
}

/// a freshly pushed Cat / Or over corresponding children corresponds to the n-ary expression node
proof fn lemma_corr_push_children(ea: Seq<Expr>, e: int, ch: Seq<ExprId>, na: Seq<RegexNode>, sub: Vec<RegexNodeId>, ifp: Seq<RegexInput>, base: int)
    requires
        sub@.len() == ch.len(),
        forall|k: int| 0 <= k < ch.len() ==> 0 <= (#[trigger] ch[k]).0 < e && 0 <= sub@[k].0 < na.len()
            && corr(ea, ch[k].0 as int, na, sub@[k].0 as int, ifp, base + leaves_upto(ea, ch, k, e)),
    ensures
        corr_children(ea, e, ch, na.push(RegexNode::Cat(sub)), na.len() as int, sub@, ifp, base),
        corr_children(ea, e, ch, na.push(RegexNode::Or(sub)), na.len() as int, sub@, ifp, base),
{
    assert forall|k: int| 0 <= k < ch.len() implies 0 <= (#[trigger] ch[k]).0 < e && 0 <= sub@[k].0 < na.len()
        && corr(ea, ch[k].0 as int, na.push(RegexNode::Cat(sub)), sub@[k].0 as int, ifp, base + leaves_upto(ea, ch, k, e)) by {
        lemma_corr_push(ea, ch[k].0 as int, na, sub@[k].0 as int, ifp, base + leaves_upto(ea, ch, k, e));
    }
    assert forall|k: int| 0 <= k < ch.len() implies 0 <= (#[trigger] ch[k]).0 < e && 0 <= sub@[k].0 < na.len()
        && corr(ea, ch[k].0 as int, na.push(RegexNode::Or(sub)), sub@[k].0 as int, ifp, base + leaves_upto(ea, ch, k, e)) by {
        lemma_corr_push(ea, ch[k].0 as int, na, sub@[k].0 as int, ifp, base + leaves_upto(ea, ch, k, e));
    }
}

/// Regex::from_expr: the augmented regex `(r)#` of the Dragon Book: root = Cat[r, EndMarker(n)],
/// n = number of leaves, r corresponds to the expression with positions 0..n
spec fn regex_ok(ea: Seq<Expr>, e: int, re: Regex) -> bool {
    arena_wf(re.arena@)
    && 0 <= nid(re.root_id) < re.arena@.len()
    && !cell_preset(re.follow_cache)
    && re.input_from_position@.len() == leaf_count(ea, e)
    && re.endmarker_position == leaf_count(ea, e)
    && match re.arena@[nid(re.root_id)] {
        RegexNode::Cat(sub) => sub@.len() == 2 && 0 <= sub@[0].0 < nid(re.root_id) && 0 <= sub@[1].0 < nid(re.root_id)
            && corr(ea, e, re.arena@, sub@[0].0 as int, re.input_from_position@, 0)
            && re.arena@[sub@[1].0 as int] == RegexNode::EndMarker(re.endmarker_position),
        _ => false,
    }
}

} // verus!
