// C02 (the link between the grammar and the regex, stated as languages): the denotation of an
// expression of parse.rs as a set of words of positions -- a leaf is the one-letter word of its own
// position (leaves are numbered left to right from `base`), a sequence is the concatenation of its
// children, `|` and `||` are the union, `[e]` adds the empty word, `e...` is one word of e followed by
// any number of non-empty words of e -- and the proof that the regex tree Regex::from_expr builds
// (translation relation `corr`) has exactly these words (in_lang of units glu / c02e).
verus! {

spec fn den(ea: Seq<Expr>, e: int, base: int, u: Seq<u32>) -> bool
    decreases e, 2int, 0int
{
    if e < 0 || e >= ea.len() { false } else {
        match ea[e] {
            Expr::Terminal { .. } => u =~= seq![base as u32],
            Expr::NontermRef { .. } => u =~= seq![base as u32],
            Expr::Command { .. } => u =~= seq![base as u32],
            Expr::Subword { .. } => u =~= seq![base as u32],
            Expr::Sequence { children, .. } => den_seq(ea, e, children@, 0, base, u),
            Expr::Alternative { children, .. } => exists|k: int| 0 <= k < children@.len() && 0 <= (#[trigger] children@[k]).0 < e
                && den(ea, children@[k].0 as int, base + leaves_upto(ea, children@, k, e), u),
            Expr::Fallback { children, .. } => exists|k: int| 0 <= k < children@.len() && 0 <= (#[trigger] children@[k]).0 < e
                && den(ea, children@[k].0 as int, base + leaves_upto(ea, children@, k, e), u),
            Expr::Optional { child, .. } => u.len() == 0 || (0 <= child.0 < e && den(ea, child.0 as int, base, u)),
            Expr::Many1 { child, .. } => 0 <= child.0 < e && exists|n: int| #[trigger] cut(u, 0, n)
                && den(ea, child.0 as int, base, u.subrange(0, n)) && den_star(ea, e, child.0 as int, base, u.subrange(n, u.len() as int)),
            Expr::DistributiveDescription { .. } => false,
        }
    }
}

/// u is a concatenation of words of the children k, k+1, ..
spec fn den_seq(ea: Seq<Expr>, e: int, ch: Seq<ExprId>, k: int, base: int, u: Seq<u32>) -> bool
    decreases e, 1int, ch.len() - k
{
    if k < 0 || k >= ch.len() { u.len() == 0 } else {
        0 <= ch[k].0 < e && exists|n: int| #[trigger] cut(u, 0, n)
            && den(ea, ch[k].0 as int, base + leaves_upto(ea, ch, k, e), u.subrange(0, n))
            && den_seq(ea, e, ch, k + 1, base, u.subrange(n, u.len() as int))
    }
}

/// u is a concatenation of non-empty words of c
spec fn den_star(ea: Seq<Expr>, e: int, c: int, base: int, u: Seq<u32>) -> bool
    decreases e, 1int, u.len()
{
    0 <= c < e && (u.len() == 0 || exists|n: int| #[trigger] cut(u, 1, n) && den(ea, c, base, u.subrange(0, n)) && den_star(ea, e, c, base, u.subrange(n, u.len() as int)))
}

/// the regex node that corresponds to an expression has exactly the expression's words
proof fn lemma_den(ea: Seq<Expr>, e: int, na: Seq<RegexNode>, r: int, ifp: Seq<RegexInput>, base: int, u: Seq<u32>)
    requires corr(ea, e, na, r, ifp, base), arena_wf(na)
    ensures in_lang(na, r, u) == den(ea, e, base, u)
    decreases e, u.len(), 3int
{
    match ea[e] {
        Expr::Terminal { .. } => {}
        Expr::NontermRef { .. } => {}
        Expr::Command { .. } => {}
        Expr::Subword { .. } => {}
        Expr::Sequence { children, .. } => {
            match na[r] { RegexNode::Cat(sub) => { lemma_den_seq(ea, e, children@, na, r, sub@, ifp, base, 0, u); } _ => {} }
        }
        Expr::Alternative { children, .. } => {
            match na[r] { RegexNode::Or(sub) => { lemma_den_or(ea, e, children@, na, r, sub@, ifp, base, u); } _ => {} }
        }
        Expr::Fallback { children, .. } => {
            match na[r] { RegexNode::Or(sub) => { lemma_den_or(ea, e, children@, na, r, sub@, ifp, base, u); } _ => {} }
        }
        Expr::Optional { child, .. } => {
            match na[r] {
                RegexNode::Or(sub) => {
                    let s0 = sub@[0].0 as int;
                    let s1 = sub@[1].0 as int;
                    lemma_den(ea, child.0 as int, na, s0, ifp, base, u);
                    assert(in_lang(na, s1, u) == (u.len() == 0));
                    if in_lang(na, r, u) {
                        let k = choose|k: int| 0 <= k < sub@.len() && (#[trigger] sub@[k]).0 < r && in_lang(na, sub@[k].0 as int, u);
                        assert(k == 0 || k == 1);
                    }
                    if u.len() == 0 { assert(sub@[1].0 < r && in_lang(na, sub@[1].0 as int, u)); }
                    if den(ea, child.0 as int, base, u) { assert(sub@[0].0 < r && in_lang(na, sub@[0].0 as int, u)); }
                }
                _ => {}
            }
        }
        Expr::Many1 { child, .. } => {
            match na[r] {
                RegexNode::Cat(sub) => {
                    let c = sub@[0].0 as int;
                    let s = sub@[1].0 as int;
                    let ce = child.0 as int;
                    lemma_cat2(na, r, sub@, u);
                    assert(node_wf(na[s], s));
                    assert forall|n: int| #[trigger] cut(u, 0, n) implies
                        (in_lang(na, c, u.subrange(0, n)) && in_lang(na, s, u.subrange(n, u.len() as int)))
                        == (den(ea, ce, base, u.subrange(0, n)) && den_star(ea, e, ce, base, u.subrange(n, u.len() as int))) by {
                        lemma_den(ea, ce, na, c, ifp, base, u.subrange(0, n));
                        lemma_den_star(ea, e, ce, na, s, sub@[0], c, ifp, base, u.subrange(n, u.len() as int));
                    }
                    if in_lang(na, r, u) {
                        let n = choose|n: int| #[trigger] cut(u, 0, n) && in_lang(na, c, u.subrange(0, n)) && in_lang(na, s, u.subrange(n, u.len() as int));
                        assert(cut(u, 0, n));
                    }
                    if den(ea, e, base, u) {
                        let n = choose|n: int| #[trigger] cut(u, 0, n) && den(ea, ce, base, u.subrange(0, n)) && den_star(ea, e, ce, base, u.subrange(n, u.len() as int));
                        assert(cut(u, 0, n));
                    }
                }
                _ => {}
            }
        }
        Expr::DistributiveDescription { .. } => {}
    }
}

/// the words of a two-element Cat: a word of the first child followed by a word of the second
proof fn lemma_cat2(na: Seq<RegexNode>, r: int, sub: Seq<RegexNodeId>, u: Seq<u32>)
    requires 0 <= r < na.len(), sub.len() == 2, sub[0].0 < r, sub[1].0 < r, (match na[r] { RegexNode::Cat(ch) => ch@ == sub, _ => false })
    ensures in_lang(na, r, u) == (exists|n: int| #[trigger] cut(u, 0, n) && in_lang(na, sub[0].0 as int, u.subrange(0, n)) && in_lang(na, sub[1].0 as int, u.subrange(n, u.len() as int)))
{
    assert(in_lang(na, r, u) == cat_lang(na, r, sub, 0, u));
    assert forall|n: int| #[trigger] cut(u, 0, n) implies cat_lang(na, r, sub, 1, u.subrange(n, u.len() as int)) == in_lang(na, sub[1].0 as int, u.subrange(n, u.len() as int)) by {
        let v = u.subrange(n, u.len() as int);
        if cat_lang(na, r, sub, 1, v) {
            let m = choose|m: int| #[trigger] cut(v, 0, m) && in_lang(na, sub[1].0 as int, v.subrange(0, m)) && cat_lang(na, r, sub, 2, v.subrange(m, v.len() as int));
            assert(v.subrange(m, v.len() as int).len() == 0);
            assert(v.subrange(0, m) =~= v);
        }
        if in_lang(na, sub[1].0 as int, v) {
            assert(cut(v, 0, v.len() as int));
            assert(v.subrange(0, v.len() as int) =~= v);
            assert(v.subrange(v.len() as int, v.len() as int).len() == 0);
            assert(cat_lang(na, r, sub, 2, v.subrange(v.len() as int, v.len() as int)));
        }
    }
    if cat_lang(na, r, sub, 0, u) {
        let n = choose|n: int| #[trigger] cut(u, 0, n) && in_lang(na, sub[0].0 as int, u.subrange(0, n)) && cat_lang(na, r, sub, 1, u.subrange(n, u.len() as int));
        assert(cut(u, 0, n));
    }
    if exists|n: int| #[trigger] cut(u, 0, n) && in_lang(na, sub[0].0 as int, u.subrange(0, n)) && in_lang(na, sub[1].0 as int, u.subrange(n, u.len() as int)) {
        let n = choose|n: int| #[trigger] cut(u, 0, n) && in_lang(na, sub[0].0 as int, u.subrange(0, n)) && in_lang(na, sub[1].0 as int, u.subrange(n, u.len() as int));
        assert(cut(u, 0, n));
    }
}

proof fn lemma_den_or(ea: Seq<Expr>, e: int, ch: Seq<ExprId>, na: Seq<RegexNode>, r: int, sub: Seq<RegexNodeId>, ifp: Seq<RegexInput>, base: int, u: Seq<u32>)
    requires 0 <= e < ea.len(), 0 <= r < na.len(), corr_children(ea, e, ch, na, r, sub, ifp, base), arena_wf(na)
    ensures
        (exists|k: int| 0 <= k < sub.len() && (#[trigger] sub[k]).0 < r && in_lang(na, sub[k].0 as int, u))
        == (exists|k: int| 0 <= k < ch.len() && 0 <= (#[trigger] ch[k]).0 < e && den(ea, ch[k].0 as int, base + leaves_upto(ea, ch, k, e), u))
    decreases e, u.len(), 2int
{
    if exists|k: int| 0 <= k < sub.len() && (#[trigger] sub[k]).0 < r && in_lang(na, sub[k].0 as int, u) {
        let k = choose|k: int| 0 <= k < sub.len() && (#[trigger] sub[k]).0 < r && in_lang(na, sub[k].0 as int, u);
        assert(0 <= ch[k].0 < e);
        lemma_den(ea, ch[k].0 as int, na, sub[k].0 as int, ifp, base + leaves_upto(ea, ch, k, e), u);
    }
    if exists|k: int| 0 <= k < ch.len() && 0 <= (#[trigger] ch[k]).0 < e && den(ea, ch[k].0 as int, base + leaves_upto(ea, ch, k, e), u) {
        let k = choose|k: int| 0 <= k < ch.len() && 0 <= (#[trigger] ch[k]).0 < e && den(ea, ch[k].0 as int, base + leaves_upto(ea, ch, k, e), u);
        lemma_den(ea, ch[k].0 as int, na, sub[k].0 as int, ifp, base + leaves_upto(ea, ch, k, e), u);
        assert(sub[k].0 < r && in_lang(na, sub[k].0 as int, u));
    }
}

proof fn lemma_den_seq(ea: Seq<Expr>, e: int, ch: Seq<ExprId>, na: Seq<RegexNode>, r: int, sub: Seq<RegexNodeId>, ifp: Seq<RegexInput>, base: int, k: int, u: Seq<u32>)
    requires 0 <= e < ea.len(), 0 <= r < na.len(), corr_children(ea, e, ch, na, r, sub, ifp, base), 0 <= k <= ch.len(), arena_wf(na)
    ensures cat_lang(na, r, sub, k, u) == den_seq(ea, e, ch, k, base, u)
    decreases e, u.len(), 2int, ch.len() - k
{
    if k < ch.len() {
        assert(0 <= ch[k].0 < e && sub[k].0 < r);
        assert forall|n: int| #[trigger] cut(u, 0, n) implies
            (in_lang(na, sub[k].0 as int, u.subrange(0, n)) && cat_lang(na, r, sub, k + 1, u.subrange(n, u.len() as int)))
            == (den(ea, ch[k].0 as int, base + leaves_upto(ea, ch, k, e), u.subrange(0, n)) && den_seq(ea, e, ch, k + 1, base, u.subrange(n, u.len() as int))) by {
            lemma_den(ea, ch[k].0 as int, na, sub[k].0 as int, ifp, base + leaves_upto(ea, ch, k, e), u.subrange(0, n));
            lemma_den_seq(ea, e, ch, na, r, sub, ifp, base, k + 1, u.subrange(n, u.len() as int));
        }
        if cat_lang(na, r, sub, k, u) {
            let n = choose|n: int| #[trigger] cut(u, 0, n) && in_lang(na, sub[k].0 as int, u.subrange(0, n)) && cat_lang(na, r, sub, k + 1, u.subrange(n, u.len() as int));
            assert(cut(u, 0, n));
        }
        if den_seq(ea, e, ch, k, base, u) {
            let n = choose|n: int| #[trigger] cut(u, 0, n) && den(ea, ch[k].0 as int, base + leaves_upto(ea, ch, k, e), u.subrange(0, n)) && den_seq(ea, e, ch, k + 1, base, u.subrange(n, u.len() as int));
            assert(cut(u, 0, n));
        }
    }
}

proof fn lemma_den_star(ea: Seq<Expr>, e: int, ce: int, na: Seq<RegexNode>, s: int, cid: RegexNodeId, c: int, ifp: Seq<RegexInput>, base: int, u: Seq<u32>)
    requires 0 <= ce < e < ea.len(), 0 <= s < na.len(), c == cid.0 as int, corr(ea, ce, na, c, ifp, base), na[s] == RegexNode::Star(cid), arena_wf(na)
    ensures star_lang(na, s, c, u) == den_star(ea, e, ce, base, u), in_lang(na, s, u) == star_lang(na, s, c, u)
    decreases e, u.len(), 1int
{
    assert(node_wf(na[s], s));
    if u.len() > 0 {
        assert forall|n: int| #[trigger] cut(u, 1, n) implies
            (in_lang(na, c, u.subrange(0, n)) && star_lang(na, s, c, u.subrange(n, u.len() as int)))
            == (den(ea, ce, base, u.subrange(0, n)) && den_star(ea, e, ce, base, u.subrange(n, u.len() as int))) by {
            lemma_den(ea, ce, na, c, ifp, base, u.subrange(0, n));
            lemma_den_star(ea, e, ce, na, s, cid, c, ifp, base, u.subrange(n, u.len() as int));
        }
        if star_lang(na, s, c, u) {
            let n = choose|n: int| #[trigger] cut(u, 1, n) && in_lang(na, c, u.subrange(0, n)) && star_lang(na, s, c, u.subrange(n, u.len() as int));
            assert(cut(u, 1, n));
        }
        if den_star(ea, e, ce, base, u) {
            let n = choose|n: int| #[trigger] cut(u, 1, n) && den(ea, ce, base, u.subrange(0, n)) && den_star(ea, e, ce, base, u.subrange(n, u.len() as int));
            assert(cut(u, 1, n));
        }
    }
}

} // verus!
