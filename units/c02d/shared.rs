// The regexes Regex::from_expr builds only contain `Cat[c, Star(c)]` stars, so the followpos the
// code computes (regex::do_followpos, unit c02a: no descent below a Star) is the Dragon Book's.
verus! {

proof fn lemma_corr_star_shared(ea: Seq<Expr>, e: int, na: Seq<RegexNode>, r: int, ifp: Seq<RegexInput>, base: int, p: bool)
    requires arena_wf(na), corr(ea, e, na, r, ifp, base)
    ensures star_shared(na, r, p), !(na[r] is Star)
    decreases e
{
    assert(node_wf(na[r], r));
    match ea[e] {
        Expr::Sequence { children, .. } => { match na[r] { RegexNode::Cat(sub) => {
            assert(corr_children(ea, e, children@, na, r, sub@, ifp, base));
            assert forall|k: int| 0 <= k < sub@.len() implies (#[trigger] sub@[k]).0 < r
                && star_shared(na, sub@[k].0 as int, k == 1 && sub@.len() == 2 && na[sub@[1].0 as int] == RegexNode::Star(sub@[0])) by {
                assert(0 <= children@[k].0 < e);
                lemma_corr_star_shared(ea, children@[k].0 as int, na, sub@[k].0 as int, ifp, base + leaves_upto(ea, children@, k, e), k == 1 && sub@.len() == 2 && na[sub@[1].0 as int] == RegexNode::Star(sub@[0]));
            }
        } _ => {} } }
        Expr::Alternative { children, .. } => { match na[r] { RegexNode::Or(sub) => {
            assert(corr_children(ea, e, children@, na, r, sub@, ifp, base));
            assert forall|k: int| 0 <= k < sub@.len() implies (#[trigger] sub@[k]).0 < r && star_shared(na, sub@[k].0 as int, false) by {
                assert(0 <= children@[k].0 < e);
                lemma_corr_star_shared(ea, children@[k].0 as int, na, sub@[k].0 as int, ifp, base + leaves_upto(ea, children@, k, e), false);
            }
        } _ => {} } }
        Expr::Fallback { children, .. } => { match na[r] { RegexNode::Or(sub) => {
            assert(corr_children(ea, e, children@, na, r, sub@, ifp, base));
            assert forall|k: int| 0 <= k < sub@.len() implies (#[trigger] sub@[k]).0 < r && star_shared(na, sub@[k].0 as int, false) by {
                assert(0 <= children@[k].0 < e);
                lemma_corr_star_shared(ea, children@[k].0 as int, na, sub@[k].0 as int, ifp, base + leaves_upto(ea, children@, k, e), false);
            }
        } _ => {} } }
        Expr::Optional { child, .. } => { match na[r] { RegexNode::Or(sub) => {
            lemma_corr_star_shared(ea, child.0 as int, na, sub@[0].0 as int, ifp, base, false);
            assert forall|k: int| 0 <= k < sub@.len() implies (#[trigger] sub@[k]).0 < r && star_shared(na, sub@[k].0 as int, false) by {
                assert(k == 0 || k == 1);
            }
        } _ => {} } }
        Expr::Many1 { child, .. } => { match na[r] { RegexNode::Cat(sub) => {
            lemma_corr_star_shared(ea, child.0 as int, na, sub@[0].0 as int, ifp, base, false);
            assert(node_wf(na[sub@[1].0 as int], sub@[1].0 as int));
            assert forall|k: int| 0 <= k < sub@.len() implies (#[trigger] sub@[k]).0 < r
                && star_shared(na, sub@[k].0 as int, k == 1 && sub@.len() == 2 && na[sub@[1].0 as int] == RegexNode::Star(sub@[0])) by {
                assert(k == 0 || k == 1);
            }
        } _ => {} } }
        _ => {}
    }
}

/// C02: on every regex Regex::from_expr returns, the code's followpos relation is the Dragon Book's
proof fn lemma_regex_follow_is_dragon_book(ea: Seq<Expr>, e: int, re: Regex, t: u32, h: u32)
    requires regex_ok(ea, e, re)
    ensures follows_code(re.arena@, nid(re.root_id), t, h) == follows(re.arena@, nid(re.root_id), t, h)
{
    let a = re.arena@;
    let r = nid(re.root_id);
    match a[r] {
        RegexNode::Cat(sub) => {
            lemma_corr_star_shared(ea, e, a, sub@[0].0 as int, re.input_from_position@, 0, false);
            assert forall|k: int| 0 <= k < sub@.len() implies (#[trigger] sub@[k]).0 < r
                && star_shared(a, sub@[k].0 as int, k == 1 && sub@.len() == 2 && a[sub@[1].0 as int] == RegexNode::Star(sub@[0])) by {
                assert(k == 0 || k == 1);
            }
            assert(star_shared(a, r, false));
            lemma_follow_shared(a, r, false, t, h);
        }
        _ => {}
    }
}

} // verus!
