// C02 / C09: dfa_from_regex is the subset construction of the Dragon Book (3.9.5) over the
// position automaton: a state is a set of positions, the start state is firstpos(root), reading
// the symbol a from the state S leads to the union of followpos(t) over the positions t of S that
// carry a, a state accepts iff it contains the end marker. Positions carrying equal symbols are
// merged (one transition per symbol: a typed word has one reading per symbol).
verus! {

/// `#[derive(PartialEq)]` on dfa::Inp is structural (Kani: C09.inp_eq.structural, full domain)
impl vstd::std_specs::cmp::PartialEqSpecImpl for Inp {
    open spec fn obeys_eq_spec() -> bool { true }
    open spec fn eq_spec(&self, other: &Inp) -> bool { *self == *other }
}

/// the automaton symbol of a regex item: its own text, description and `||` level; a within-word
/// item becomes the automaton id the cache holds for its regex id
spec fn lab(input: RegexInput, c: Map<RegexId, DFAId>) -> Inp {
    match input {
        RegexInput::Literal { literal, description, fallback_level, span } => Inp::Literal { literal, description, fallback_level },
        RegexInput::Subword { subword_regex_id, fallback_level, span } => Inp::Subword { subdfa: c[subword_regex_id], fallback_level },
        RegexInput::Nonterminal { nonterm, fallback_level, span } => Inp::Star,
        RegexInput::Command { cmd, zsh_compadd, fallback_level, span } =>
            if zsh_compadd { Inp::Compadd { cmd, fallback_level } } else { Inp::Command { cmd, fallback_level } },
    }
}

/// the cache knows the automaton of this item (trivially so unless it is a within-word item)
spec fn key_cached(input: RegexInput, c: Map<RegexId, DFAId>) -> bool {
    match input {
        RegexInput::Subword { subword_regex_id, fallback_level, span } => c.contains_key(subword_regex_id),
        _ => true,
    }
}

spec fn keys_cached(re: Regex, c: Map<RegexId, DFAId>, upto: int) -> bool {
    forall|p: int| 0 <= p < upto && p < re.input_from_position@.len() ==> key_cached(#[trigger] re.input_from_position@[p], c)
}

/// the cache only grows
spec fn cache_le(c: Map<RegexId, DFAId>, c2: Map<RegexId, DFAId>) -> bool {
    forall|k: RegexId| #[trigger] c.contains_key(k) ==> c2.contains_key(k) && c2[k] == c[k]
}

proof fn lemma_lab_mono(input: RegexInput, c: Map<RegexId, DFAId>, c2: Map<RegexId, DFAId>)
    requires key_cached(input, c), cache_le(c, c2)
    ensures lab(input, c2) == lab(input, c), key_cached(input, c2)
{
}

/// every cached automaton id names an automaton of the pool
spec fn cache_in_range(c: Map<RegexId, DFAId>, n: int) -> bool {
    forall|k: RegexId| #[trigger] c.contains_key(k) ==> (c[k].0 as int) < n
}

spec fn label(re: Regex, c: Map<RegexId, DFAId>, p: u32) -> Inp { lab(re.input_from_position@[p as int], c) }

spec fn step(re: Regex, c: Map<RegexId, DFAId>, s: ISet<u32>, a: Inp, t: u32, h: u32) -> bool {
    s.contains(t) && (t as int) < re.input_from_position@.len() && label(re, c, t) == a && follows_code(re.arena@, nid(re.root_id), t, h)
}

/// the positions the symbol a leads to from the set s
spec fn target(re: Regex, c: Map<RegexId, DFAId>, s: ISet<u32>, a: Inp) -> ISet<u32> {
    ISet::new(|h: u32| exists|t: u32| #[trigger] step(re, c, s, a, t, h))
}

spec fn nonempty(s: ISet<u32>) -> bool { exists|h: u32| s.contains(h) }

spec fn inj(sid: Map<ISet<u32>, u32>) -> bool {
    forall|a: ISet<u32>, b: ISet<u32>| sid.contains_key(a) && sid.contains_key(b) && #[trigger] sid[a] == #[trigger] sid[b] ==> a == b
}

/// the pool holds exactly the distinct symbols of the positions
spec fn pool_ok(re: Regex, c: Map<RegexId, DFAId>, pool: Seq<Inp>, upto: int) -> bool {
    pool_wf(pool)
    && (forall|p: int| 0 <= p < upto && p < re.input_from_position@.len() ==> pool.contains(#[trigger] lab(re.input_from_position@[p], c)))
    && (forall|i: int| 0 <= i < pool.len() ==> has_source(re, c, upto, #[trigger] pool[i]))
}

/// some position before `upto` carries the symbol x
spec fn has_source(re: Regex, c: Map<RegexId, DFAId>, upto: int, x: Inp) -> bool {
    exists|p: int| 0 <= p < upto && p < re.input_from_position@.len() && lab(#[trigger] re.input_from_position@[p], c) == x
}

/// the row of state sid[s] is right for the first `upto` symbols and empty for the others
spec fn row_ok(re: Regex, c: Map<RegexId, DFAId>, sid: Map<ISet<u32>, u32>, trans: Map<u32, Map<InpId, u32>>, pool: Seq<Inp>, s: ISet<u32>, upto: int) -> bool {
    sid.contains_key(s) && trans.contains_key(sid[s])
    && (forall|i: int| 0 <= i < pool.len() ==> #[trigger] cell_ok(re, c, sid, trans[sid[s]], pool, s, i, upto))
}

spec fn cell_ok(re: Regex, c: Map<RegexId, DFAId>, sid: Map<ISet<u32>, u32>, row: Map<InpId, u32>, pool: Seq<Inp>, s: ISet<u32>, i: int, upto: int) -> bool {
    let t = target(re, c, s, pool[i]);
    if i < upto && nonempty(t) { sid.contains_key(t) && row.contains_key(id_of(i)) && row[id_of(i)] == sid[t] }
    else { !row.contains_key(id_of(i)) }
}

/// partial union over the first m positions of the iteration vector
spec fn part_target(re: Regex, c: Map<RegexId, DFAId>, s: ISet<u32>, a: Inp, vec: Seq<&u32>, m: int, h: u32) -> bool {
    exists|k: int| 0 <= k < m && k < vec.len() && #[trigger] step(re, c, s, a, *vec[k], h)
}

proof fn lemma_part_target_step(re: Regex, c: Map<RegexId, DFAId>, s: ISet<u32>, a: Inp, vec: Seq<&u32>, m: int, h: u32)
    requires 0 <= m < vec.len()
    ensures part_target(re, c, s, a, vec, m + 1, h) == (part_target(re, c, s, a, vec, m, h) || step(re, c, s, a, *vec[m], h))
{
    if part_target(re, c, s, a, vec, m + 1, h) {
        let k = choose|k: int| 0 <= k < m + 1 && k < vec.len() && #[trigger] step(re, c, s, a, *vec[k], h);
        if k < m { assert(part_target(re, c, s, a, vec, m, h)); }
    }
    if part_target(re, c, s, a, vec, m, h) {
        let k = choose|k: int| 0 <= k < m && k < vec.len() && #[trigger] step(re, c, s, a, *vec[k], h);
        assert(part_target(re, c, s, a, vec, m + 1, h));
    }
    if step(re, c, s, a, *vec[m], h) { assert(part_target(re, c, s, a, vec, m + 1, h)); }
}

/// the worklist invariant: ids are unique and below the counter, unmarked sets are known, every
/// marked (processed) set has its complete row, unprocessed ones have none yet
spec fn wl_inv(re: Regex, c: Map<RegexId, DFAId>, sid: Map<ISet<u32>, u32>, trans: Map<u32, Map<InpId, u32>>, um: ISet<ISet<u32>>, next: u32, pool: Seq<Inp>, cur: Option<ISet<u32>>) -> bool {
    inj(sid)
    && (forall|s: ISet<u32>| #[trigger] sid.contains_key(s) ==> FIRST_STATE_ID <= sid[s] < next)
    && sid.contains_key(s_first(re.arena@, nid(re.root_id))) && sid[s_first(re.arena@, nid(re.root_id))] == FIRST_STATE_ID
    && (forall|s: ISet<u32>| #[trigger] um.contains(s) ==> sid.contains_key(s) && !trans.contains_key(sid[s]))
    && (forall|s: ISet<u32>| #[trigger] sid.contains_key(s) && !um.contains(s) && cur != Some(s) ==> row_ok(re, c, sid, trans, pool, s, pool.len() as int))
    && (forall|q: u32| #[trigger] trans.contains_key(q) ==> q < next)
    && keys_in_pool(trans, pool.len() as int)
}

/// every symbol id used in the table is the id of a pool index
spec fn keys_in_pool(trans: Map<u32, Map<InpId, u32>>, n: int) -> bool {
    forall|q: u32, k: InpId| #[trigger] used_t(trans, q, k) ==> key_in_pool(n, k)
}

spec fn used_t(trans: Map<u32, Map<InpId, u32>>, q: u32, k: InpId) -> bool { trans.contains_key(q) && trans[q].contains_key(k) }

spec fn key_in_pool(n: int, k: InpId) -> bool { exists|i: int| 0 <= i < n && k == #[trigger] id_of(i) }

/// one step of the row loop: the effect of handling symbol j of the current state keeps the
/// worklist invariant and completes cell j of the current row
proof fn lemma_row_step(re: Regex, c: Map<RegexId, DFAId>, sid: Map<ISet<u32>, u32>, tr: Map<u32, Map<InpId, u32>>, um: ISet<ISet<u32>>, next: u32, pool: Seq<Inp>,
                        cs: ISet<u32>, id: u32, j: int, tg: ISet<u32>,
                        sid2: Map<ISet<u32>, u32>, tr2: Map<u32, Map<InpId, u32>>, um2: ISet<ISet<u32>>, next2: u32)
    requires
        wl_inv(re, c, sid, tr, um, next, pool, Some(cs)), !um.contains(cs), sid.contains_key(cs), sid[cs] == id,
        row_ok(re, c, sid, tr, pool, cs, j), 0 <= j < pool.len(), pool.len() <= u32::MAX,
        tg == target(re, c, cs, pool[j]),
        nonempty(tg) ==> (sid.contains_key(tg) ==> sid2 == sid && um2 == um && next2 == next)
            && (!sid.contains_key(tg) ==> sid2 == sid.insert(tg, next) && um2 == um.insert(tg) && next2 == next + 1)
            && tr2 == tr.insert(id, tr[id].insert(id_of(j), sid2[tg])),
        !nonempty(tg) ==> sid2 == sid && um2 == um && next2 == next && tr2 == tr,
    ensures
        wl_inv(re, c, sid2, tr2, um2, next2, pool, Some(cs)), !um2.contains(cs), sid2.contains_key(cs), sid2[cs] == id,
        row_ok(re, c, sid2, tr2, pool, cs, j + 1),
{
    let row = tr[id];
    if !nonempty(tg) {
        assert forall|i: int| 0 <= i < pool.len() implies #[trigger] cell_ok(re, c, sid2, tr2[sid2[cs]], pool, cs, i, j + 1) by {
            assert(cell_ok(re, c, sid, row, pool, cs, i, j));
        }
    } else {
        let row2 = row.insert(id_of(j), sid2[tg]);
        assert(tr2[id] == row2);
        // ids of old sets are unchanged; old sets stay known
        assert forall|s: ISet<u32>| sid.contains_key(s) implies sid2.contains_key(s) && sid2[s] == sid[s] by {}
        assert(sid2.contains_key(tg));
        // the current row
        assert forall|i: int| 0 <= i < pool.len() implies #[trigger] cell_ok(re, c, sid2, tr2[sid2[cs]], pool, cs, i, j + 1) by {
            assert(cell_ok(re, c, sid, row, pool, cs, i, j));
            if i != j {
                if id_of(i) == id_of(j) { lemma_id_of_inj(i, j); }
                let t = target(re, c, cs, pool[i]);
                if i < j && nonempty(t) { assert(sid.contains_key(t)); }
            }
        }
        // processed rows of other states
        assert forall|s: ISet<u32>| #[trigger] sid2.contains_key(s) && !um2.contains(s) && Some(cs) != Some(s) implies row_ok(re, c, sid2, tr2, pool, s, pool.len() as int) by {
            assert(sid.contains_key(s) && !um.contains(s));
            assert(row_ok(re, c, sid, tr, pool, s, pool.len() as int));
            assert(sid[s] != id) by { if sid[s] == id { assert(sid[s] == sid[cs]); } }
            assert(tr2[sid2[s]] == tr[sid[s]]);
            assert forall|i: int| 0 <= i < pool.len() implies #[trigger] cell_ok(re, c, sid2, tr2[sid2[s]], pool, s, i, pool.len() as int) by {
                assert(cell_ok(re, c, sid, tr[sid[s]], pool, s, i, pool.len() as int));
                let t = target(re, c, s, pool[i]);
                if nonempty(t) { assert(sid.contains_key(t)); }
            }
        }
        assert forall|s: ISet<u32>| #[trigger] um2.contains(s) implies sid2.contains_key(s) && !tr2.contains_key(sid2[s]) by {
            if um.contains(s) {
                assert(sid.contains_key(s) && !tr.contains_key(sid[s]));
                assert(sid[s] != id);
            } else {
                assert(s == tg && !sid.contains_key(tg));
                assert(sid2[s] == next);
                if tr2.contains_key(next) { assert(tr.contains_key(next) || next == id); }
            }
        }
        assert(inj(sid2)) by {
            assert forall|a: ISet<u32>, b: ISet<u32>| sid2.contains_key(a) && sid2.contains_key(b) && #[trigger] sid2[a] == #[trigger] sid2[b] implies a == b by {
                if !sid.contains_key(tg) {
                    if a == tg && b != tg { assert(sid.contains_key(b)); assert(sid[b] < next); }
                    if b == tg && a != tg { assert(sid.contains_key(a)); assert(sid[a] < next); }
                    if a != tg && b != tg { assert(sid.contains_key(a) && sid.contains_key(b)); assert(sid[a] == sid[b]); }
                } else {
                    assert(sid[a] == sid[b]);
                }
            }
        }
        assert forall|q: u32| #[trigger] tr2.contains_key(q) implies q < next2 by {
            if q != id { assert(tr.contains_key(q)); }
        }
        assert forall|q: u32, k: InpId| #[trigger] used_t(tr2, q, k) implies key_in_pool(pool.len() as int, k) by {
            if q == id {
                if k == id_of(j) { assert(key_in_pool(pool.len() as int, k)); }
                else { assert(used_t(tr, q, k)); }
            } else { assert(used_t(tr, q, k)); }
        }
    }
}

/// the table only uses symbols of the pool, and within-word symbols name automata of the pool
proof fn lemma_dfa_wf(re: Regex, c: Map<RegexId, DFAId>, dfa: DFA, n: int)
    requires
        keys_in_pool(dfa.transitions@, dfa.inputs@.len() as int), dfa.inputs@.len() <= u32::MAX,
        pool_ok(re, c, dfa.inputs@, re.input_from_position@.len() as int),
        keys_cached(re, c, re.input_from_position@.len() as int), cache_in_range(c, n), n == dfa.subdfas.store@.len(),
    ensures dfa_wf(dfa), subs_wf(dfa)
{
    assert forall|q: u32, id: InpId| #[trigger] used(dfa, q, id) implies 0 <= ix_of(id) < dfa.inputs@.len() by {
        assert(used_t(dfa.transitions@, q, id));
        let i = choose|i: int| 0 <= i < dfa.inputs@.len() && id == #[trigger] id_of(i);
        lemma_ix_of_id_of(i);
    }
    assert forall|i: int| 0 <= i < dfa.inputs@.len() implies ((#[trigger] dfa.inputs@[i]) is Subword ==> 0 <= dfa_ix(dfa.inputs@[i]->subdfa) < dfa.subdfas.store@.len()) by {
        assert(has_source(re, c, re.input_from_position@.len() as int, dfa.inputs@[i]));
        let p = choose|p: int| 0 <= p < re.input_from_position@.len() && p < re.input_from_position@.len() && lab(#[trigger] re.input_from_position@[p], c) == dfa.inputs@[i];
        assert(key_cached(re.input_from_position@[p], c));
        lemma_dfa_ix(dfa.inputs@[i]->subdfa);
    }
}

/// q is the id of an entry before `upto` whose set contains the end marker
spec fn acc_upto(es: Seq<(&BTreeSet<u32>, &u32)>, upto: int, em: u32, q: u32) -> bool {
    exists|k: int| 0 <= k < upto && k < es.len() && #[trigger] acc_at(es, k, em, q)
}

spec fn acc_at(es: Seq<(&BTreeSet<u32>, &u32)>, k: int, em: u32, q: u32) -> bool {
    *es[k].1 == q && es[k].0@.contains(em)
}

proof fn lemma_acc_step(es: Seq<(&BTreeSet<u32>, &u32)>, m: int, em: u32, q: u32)
    requires 0 <= m < es.len()
    ensures acc_upto(es, m + 1, em, q) == (acc_upto(es, m, em, q) || acc_at(es, m, em, q))
{
    if acc_upto(es, m + 1, em, q) {
        let k = choose|k: int| 0 <= k < m + 1 && k < es.len() && #[trigger] acc_at(es, k, em, q);
        if k < m { assert(acc_upto(es, m, em, q)); }
    }
    if acc_upto(es, m, em, q) {
        let k = choose|k: int| 0 <= k < m && k < es.len() && #[trigger] acc_at(es, k, em, q);
        assert(acc_upto(es, m + 1, em, q));
    }
    if acc_at(es, m, em, q) { assert(acc_upto(es, m + 1, em, q)); }
}

/// some known set with the id q contains the end marker
spec fn acc_wit(sid: Map<ISet<u32>, u32>, em: u32, q: u32) -> bool {
    exists|s: ISet<u32>| #[trigger] sid.contains_key(s) && sid[s] == q && s.contains(em)
}

spec fn acc_final(acc: ISet<u32>, sid: Map<ISet<u32>, u32>, em: u32) -> bool {
    forall|q: u32| acc.contains(q) <==> acc_wit(sid, em, q)
}

proof fn lemma_acc_full(es: Seq<(&BTreeSet<u32>, &u32)>, sid: Map<ISet<u32>, u32>, em: u32, q: u32)
    requires
        forall|i: int| 0 <= i < es.len() ==> sid.contains_key((#[trigger] es[i]).0@) && sid[es[i].0@] == *es[i].1,
        forall|k: ISet<u32>| sid.contains_key(k) ==> exists|i: int| 0 <= i < es.len() && (#[trigger] es[i]).0@ == k,
    ensures acc_upto(es, es.len() as int, em, q) == acc_wit(sid, em, q)
{
    if acc_upto(es, es.len() as int, em, q) {
        let k = choose|k: int| 0 <= k < es.len() && k < es.len() && #[trigger] acc_at(es, k, em, q);
        assert(sid.contains_key(es[k].0@));
    }
    if acc_wit(sid, em, q) {
        let s = choose|s: ISet<u32>| #[trigger] sid.contains_key(s) && sid[s] == q && s.contains(em);
        let i = choose|i: int| 0 <= i < es.len() && (#[trigger] es[i]).0@ == s;
        assert(acc_at(es, i, em, q));
    }
}

proof fn lemma_pool_mono(re: Regex, c: Map<RegexId, DFAId>, c2: Map<RegexId, DFAId>, pool: Seq<Inp>, upto: int)
    requires pool_ok(re, c, pool, upto), keys_cached(re, c, upto), cache_le(c, c2)
    ensures pool_ok(re, c2, pool, upto), keys_cached(re, c2, upto)
{
    assert forall|p: int| 0 <= p < upto && p < re.input_from_position@.len() implies
        key_cached(#[trigger] re.input_from_position@[p], c2) && lab(re.input_from_position@[p], c2) == lab(re.input_from_position@[p], c) by {
        lemma_lab_mono(re.input_from_position@[p], c, c2);
    }
    assert forall|i: int| 0 <= i < pool.len() implies has_source(re, c2, upto, #[trigger] pool[i]) by {
        assert(has_source(re, c, upto, pool[i]));
        let p = choose|p: int| 0 <= p < upto && p < re.input_from_position@.len() && lab(#[trigger] re.input_from_position@[p], c) == pool[i];
        assert(lab(re.input_from_position@[p], c2) == pool[i]);
    }
}

/// dfa is the subset construction of re, for some numbering of position sets and some assignment
/// of automaton ids to the within-word regexes; it then accepts what the position automaton accepts
spec fn is_subset_construction(re: Regex, dfa: DFA) -> bool {
    exists|sid: Map<ISet<u32>, u32>, c: Map<RegexId, DFAId>| #[trigger] subset_ok(re, c, dfa, sid) && lang_ok(re, c, dfa) && regex_lang_ok(re, c, dfa) && keys_cached(re, c, re.input_from_position@.len() as int)
        && cache_in_range(c, dfa.subdfas.store@.len() as int)
}

spec fn subset_ok(re: Regex, c: Map<RegexId, DFAId>, dfa: DFA, sid: Map<ISet<u32>, u32>) -> bool {
    let first = s_first(re.arena@, nid(re.root_id));
    pool_ok(re, c, dfa.inputs@, re.input_from_position@.len() as int) && inj(sid)
    && sid.contains_key(first) && sid[first] == FIRST_STATE_ID && dfa.starting_state == FIRST_STATE_ID
    && (forall|s: ISet<u32>| #[trigger] sid.contains_key(s) ==> row_ok(re, c, sid, dfa.transitions@, dfa.inputs@, s, dfa.inputs@.len() as int))
    && acc_final(dfa.accepting_states@, sid, re.endmarker_position)
}

} // verus!
