// C02: from the regex language to the position automaton and back (uses reach / label of lang.rs
// and subset.rs): lemma_regex_language -- for every regex Regex::from_expr returns
// (glushkov_ready), the position automaton accepts a symbol word exactly when it is the label
// sequence of a word of the regex.
verus! {

// ---------------- words stay inside the leaves ----------------
proof fn lemma_lang_bounded(a: Seq<RegexNode>, i: int, m: int, u: Seq<u32>)
    requires in_lang(a, i, u), leaves_bounded(a, i, m)
    ensures forall|j: int| 0 <= j < u.len() ==> #[trigger] u[j] <= m
    decreases i, 2int, 0int
{
    match a[i] {
        RegexNode::Or(ch) => {
            let k = choose|k: int| 0 <= k < ch@.len() && (#[trigger] ch@[k]).0 < i && in_lang(a, ch@[k].0 as int, u);
            lemma_lang_bounded(a, ch@[k].0 as int, m, u);
        }
        RegexNode::Cat(ch) => { lemma_cat_bounded(a, i, ch@, 0, m, u); }
        RegexNode::Star(c) => { lemma_star_bounded(a, i, c.0 as int, m, u); }
        _ => {}
    }
}

proof fn lemma_cat_bounded(a: Seq<RegexNode>, i: int, ch: Seq<RegexNodeId>, k: int, m: int, u: Seq<u32>)
    requires
        0 <= k <= ch.len(), cat_lang(a, i, ch, k, u),
        forall|q: int| 0 <= q < ch.len() ==> ((#[trigger] ch[q]).0 < i ==> leaves_bounded(a, ch[q].0 as int, m)),
    ensures forall|j: int| 0 <= j < u.len() ==> #[trigger] u[j] <= m
    decreases i, 1int, ch.len() - k
{
    if k < ch.len() {
        let n = choose|n: int| #[trigger] cut(u, 0, n) && in_lang(a, ch[k].0 as int, u.subrange(0, n)) && cat_lang(a, i, ch, k + 1, u.subrange(n, u.len() as int));
        let u1 = u.subrange(0, n);
        let u2 = u.subrange(n, u.len() as int);
        lemma_lang_bounded(a, ch[k].0 as int, m, u1);
        lemma_cat_bounded(a, i, ch, k + 1, m, u2);
        assert forall|j: int| 0 <= j < u.len() implies #[trigger] u[j] <= m by {
            if j < n { assert(u1[j] == u[j]); } else { assert(u2[j - n] == u[j]); }
        }
    }
}

proof fn lemma_star_bounded(a: Seq<RegexNode>, i: int, c: int, m: int, u: Seq<u32>)
    requires star_lang(a, i, c, u), leaves_bounded(a, c, m)
    ensures forall|j: int| 0 <= j < u.len() ==> #[trigger] u[j] <= m
    decreases i, 1int, u.len()
{
    if u.len() > 0 {
        let n = choose|n: int| #[trigger] cut(u, 1, n) && in_lang(a, c, u.subrange(0, n)) && star_lang(a, i, c, u.subrange(n, u.len() as int));
        let u1 = u.subrange(0, n);
        let u2 = u.subrange(n, u.len() as int);
        lemma_lang_bounded(a, c, m, u1);
        lemma_star_bounded(a, i, c, m, u2);
        assert forall|j: int| 0 <= j < u.len() implies #[trigger] u[j] <= m by {
            if j < n { assert(u1[j] == u[j]); } else { assert(u2[j - n] == u[j]); }
        }
    }
}

// ---------------- from the language to the position automaton ----------------

/// the symbols carried by the positions of a word
spec fn labels(re: Regex, c: Map<RegexId, DFAId>, u: Seq<u32>) -> Seq<Inp> {
    Seq::new(u.len(), |j: int| label(re, c, u[j]))
}

/// a word of the body, followed by the end marker, is a word of the augmented regex
proof fn lemma_augmented_word(re: Regex, u: Seq<u32>)
    requires augmented(re), in_lang(re.arena@, body_of(re), u)
    ensures in_lang(re.arena@, nid(re.root_id), u.push(re.endmarker_position))
{
    let a = re.arena@;
    let root = nid(re.root_id);
    let em = re.endmarker_position;
    let w = u.push(em);
    match a[root] {
        RegexNode::Cat(ch) => {
            let chs = ch@;
            let tail = w.subrange(u.len() as int, w.len() as int);
            assert(w.subrange(0, u.len() as int) =~= u);
            assert(tail =~= seq![em]);
            // child 1: the end marker reads [em], then nothing is left
            assert(tail.subrange(0, 1) =~= seq![em]);
            assert(in_lang(a, chs[1].0 as int, tail.subrange(0, 1)));
            assert(tail.subrange(1, tail.len() as int).len() == 0);
            assert(cat_lang(a, root, chs, 2, tail.subrange(1, tail.len() as int)));
            assert(cut(tail, 0, 1));
            assert(cat_lang(a, root, chs, 1, tail));
            assert(cut(w, 0, u.len() as int));
            assert(cat_lang(a, root, chs, 0, w));
        }
        _ => {}
    }
}

/// along a word of the augmented regex the position automaton can be at each position in turn
proof fn lemma_reach_along(re: Regex, c: Map<RegexId, DFAId>, u: Seq<u32>, j: int)
    requires
        augmented(re), follow_is_dragon(re), in_lang(re.arena@, body_of(re), u), 0 <= j <= u.len(),
    ensures reach(re, c, labels(re, c, u.subrange(0, j))).contains(u.push(re.endmarker_position)[j])
    decreases j
{
    let a = re.arena@;
    let root = nid(re.root_id);
    let w = u.push(re.endmarker_position);
    lemma_augmented_word(re, u);
    lemma_lang_local(a, root, w);
    if j == 0 {
        assert(labels(re, c, u.subrange(0, 0)).len() == 0);
    } else {
        lemma_reach_along(re, c, u, j - 1);
        let pre = labels(re, c, u.subrange(0, j - 1));
        let cur = labels(re, c, u.subrange(0, j));
        assert(cur.drop_last() =~= pre);
        assert(cur.last() == label(re, c, u[j - 1]));
        let s = reach(re, c, pre);
        assert(s.contains(w[j - 1]));
        assert(w[j - 1] == u[j - 1]);
        lemma_lang_bounded(a, body_of(re), re.input_from_position@.len() - 1, u);
        assert(follows(a, root, w[j - 1], w[j]));
        assert(follows_code(a, root, w[j - 1], w[j]));
        assert(step(re, c, s, cur.last(), u[j - 1], w[j]));
        assert(reach(re, c, cur) == target(re, c, reach(re, c, cur.drop_last()), cur.last()));
    }
}

/// C02, completeness at the level of the regex: every word of the regex is accepted by the position automaton
proof fn lemma_regex_words_accepted(re: Regex, c: Map<RegexId, DFAId>, u: Seq<u32>)
    requires augmented(re), follow_is_dragon(re), in_lang(re.arena@, body_of(re), u)
    ensures pos_accepts(re, c, labels(re, c, u))
{
    lemma_reach_along(re, c, u, u.len() as int);
    assert(u.subrange(0, u.len() as int) =~= u);
}


// ---------------- from the position automaton back to the language ----------------

/// a run of the position automaton on w that ends in h: positions p[0..=|w|], p[|w|] == h
spec fn run_ok(re: Regex, c: Map<RegexId, DFAId>, w: Seq<Inp>, p: Seq<u32>, h: u32) -> bool {
    p.len() == w.len() + 1 && p[p.len() - 1] == h
    && s_first(re.arena@, nid(re.root_id)).contains(p[0])
    && (forall|j: int| 0 <= j < w.len() ==> (#[trigger] p[j] as int) < re.input_from_position@.len() && label(re, c, p[j]) == w[j]
            && follows_code(re.arena@, nid(re.root_id), p[j], p[j + 1]))
}

proof fn lemma_reach_run(re: Regex, c: Map<RegexId, DFAId>, w: Seq<Inp>, h: u32)
    requires reach(re, c, w).contains(h)
    ensures exists|p: Seq<u32>| run_ok(re, c, w, p, h)
    decreases w.len()
{
    if w.len() == 0 {
        let p = seq![h];
        assert(run_ok(re, c, w, p, h));
    } else {
        let v = w.drop_last();
        let s = reach(re, c, v);
        assert(reach(re, c, w) == target(re, c, s, w.last()));
        let t = choose|t: u32| #[trigger] step(re, c, s, w.last(), t, h);
        lemma_reach_run(re, c, v, t);
        let p0 = choose|p0: Seq<u32>| run_ok(re, c, v, p0, t);
        let p = p0.push(h);
        assert forall|j: int| 0 <= j < w.len() implies (#[trigger] p[j] as int) < re.input_from_position@.len() && label(re, c, p[j]) == w[j]
                && follows_code(re.arena@, nid(re.root_id), p[j], p[j + 1]) by {
            if j < v.len() {
                assert(p[j] == p0[j] && p[j + 1] == p0[j + 1]);
                assert(w[j] == v[j]);
            } else {
                assert(p[j] == t && p[j + 1] == h);
            }
        }
        assert(p[0] == p0[0]);
        assert(run_ok(re, c, w, p, h));
    }
}

/// C02 at the level of the regex: the position automaton accepts exactly the symbol words of the regex
proof fn lemma_regex_language(re: Regex, c: Map<RegexId, DFAId>, w: Seq<Inp>)
    requires glushkov_ready(re)
    ensures pos_accepts(re, c, w) <==> exists|u: Seq<u32>| in_lang(re.arena@, body_of(re), u) && #[trigger] labels(re, c, u) =~= w
{
    if exists|u: Seq<u32>| in_lang(re.arena@, body_of(re), u) && #[trigger] labels(re, c, u) =~= w {
        let u = choose|u: Seq<u32>| in_lang(re.arena@, body_of(re), u) && #[trigger] labels(re, c, u) =~= w;
        lemma_regex_words_accepted(re, c, u);
        assert(labels(re, c, u) == w);
    }
    if pos_accepts(re, c, w) {
        lemma_accepted_is_word(re, c, w);
    }
}

proof fn lemma_accepted_is_word(re: Regex, c: Map<RegexId, DFAId>, w: Seq<Inp>)
    requires glushkov_ready(re), pos_accepts(re, c, w)
    ensures exists|u: Seq<u32>| in_lang(re.arena@, body_of(re), u) && #[trigger] labels(re, c, u) =~= w
{
    reveal_with_fuel(cat_lang, 4);
    reveal_with_fuel(in_lang, 4);
    let a = re.arena@;
    let root = nid(re.root_id);
    let em = re.endmarker_position;
    let n = re.input_from_position@.len() as int;
    lemma_reach_run(re, c, w, em);
    let p = choose|p: Seq<u32>| run_ok(re, c, w, p, em);
    let u = p.drop_last();
    match a[root] {
        RegexNode::Cat(ch) => {
            let chs = ch@;
            let r = chs[0].0 as int;
            let e = chs[1].0 as int;
            // the root is a linear node
            assert(!is_plus(a, chs));
            assert(disjoint_children(a, chs)) by {
                assert forall|k1: int, k2: int, q: u32| 0 <= k1 < chs.len() && 0 <= k2 < chs.len() && k1 != k2
                    && #[trigger] poss(a, chs[k1].0 as int).contains(q) implies !#[trigger] poss(a, chs[k2].0 as int).contains(q) by {
                    if k1 == 0 { lemma_poss_bounded(a, r, n - 1, q); } else { if poss(a, chs[k2].0 as int).contains(q) { lemma_poss_bounded(a, r, n - 1, q); } }
                }
            }
            assert forall|k: int| 0 <= k < chs.len() implies 0 <= (#[trigger] chs[k]).0 < root && lin_ok(a, chs[k].0 as int) && !(a[chs[k].0 as int] is Star) by {
                if k == 0 { } else { assert(k == 1); }
            }
            assert(lin_ok(a, root));
            // p satisfies the local conditions of the root
            assert(s_last(a, root).contains(em)) by {
                assert(suffix_nullable(a, chs, 1));
                assert(s_last(a, e).contains(em));
            }
            assert forall|j: int| 0 <= j < p.len() - 1 implies follows(a, root, #[trigger] p[j], p[j + 1]) by {
                assert(follows_code(a, root, p[j], p[j + 1]));
            }
            assert(local_ok(a, root, p));
            lemma_local_in_lang(a, root, p);
            // split p into a word of the body and the end marker
            let n1 = choose|n1: int| #[trigger] cut(p, 0, n1) && in_lang(a, r, p.subrange(0, n1)) && cat_lang(a, root, chs, 1, p.subrange(n1, p.len() as int));
            let rest = p.subrange(n1, p.len() as int);
            let n2 = choose|n2: int| #[trigger] cut(rest, 0, n2) && in_lang(a, e, rest.subrange(0, n2)) && cat_lang(a, root, chs, 2, rest.subrange(n2, rest.len() as int));
            assert(rest.subrange(n2, rest.len() as int).len() == 0);
            assert(n2 == rest.len());
            assert(rest.subrange(0, n2) =~= rest);
            if rest.len() == 0 {
                // then p itself would be a word of the body, but it ends in the end marker
                assert(p.subrange(0, n1) =~= p);
                lemma_lang_bounded(a, r, n - 1, p);
                assert(p[p.len() - 1] <= n - 1);
                assert(false);
            }
            assert(rest =~= seq![em]);
            assert(n1 == p.len() - 1);
            assert(p.subrange(0, n1) =~= u);
            assert(in_lang(a, r, u));
            assert(labels(re, c, u) =~= w) by {
                assert forall|j: int| 0 <= j < w.len() implies labels(re, c, u)[j] == w[j] by {
                    assert(u[j] == p[j]);
                }
            }
        }
        _ => {}
    }
}


/// w is the sequence of symbols carried by some word of the regex
spec fn word_of_regex(re: Regex, c: Map<RegexId, DFAId>, w: Seq<Inp>) -> bool {
    exists|u: Seq<u32>| in_lang(re.arena@, body_of(re), u) && #[trigger] labels(re, c, u) =~= w
}

/// C02 (before minimisation): the automaton accepts exactly the symbol words of the regex
spec fn regex_lang_ok(re: Regex, c: Map<RegexId, DFAId>, dfa: DFA) -> bool {
    forall|w: Seq<Inp>| #[trigger] dfa_accepts(dfa, w) <==> word_of_regex(re, c, w)
}

proof fn lemma_regex_lang_ok(re: Regex, c: Map<RegexId, DFAId>, dfa: DFA)
    requires glushkov_ready(re), lang_ok(re, c, dfa)
    ensures regex_lang_ok(re, c, dfa)
{
    assert forall|w: Seq<Inp>| #[trigger] dfa_accepts(dfa, w) <==> word_of_regex(re, c, w) by {
        lemma_regex_language(re, c, w);
    }
}

} // verus!
