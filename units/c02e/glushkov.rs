// The Glushkov / McNaughton-Yamada theorem for the regex trees of regex.rs (no executable code:
// definitions and lemmas over the specs of units c02a / c02d):
//   in_lang(a, i, u)   -- u is a word (sequence of positions) of node i, by the usual reading of
//                         Epsilon / leaf / Or / Cat / Star (the end marker reads itself or nothing:
//                         the code treats it as a nullable position-carrying leaf);
//   local_ok(a, i, u)  -- u starts in firstpos(i), ends in lastpos(i), consecutive positions are
//                         related by followpos(i) (u empty: i nullable).
// lemma_lang_local:     in_lang ==> local_ok                         (for every arena)
// lemma_local_in_lang:  lin_ok && local_ok ==> in_lang               (linear trees: each position
//                       once, `c...` = Cat[c, Star(c)] sharing c, stars only there)
verus! {

// ---------------- the language of a regex node, over positions ----------------
/// n is a cut point of u (a trigger that is not one of the mutually recursive functions)
spec fn cut(u: Seq<u32>, lo: int, n: int) -> bool { lo <= n <= u.len() }

spec fn in_lang(a: Seq<RegexNode>, i: int, u: Seq<u32>) -> bool
    decreases i, 2int, 0int
{
    if i < 0 || i >= a.len() { false } else {
        match a[i] {
            RegexNode::Epsilon => u.len() == 0,
            RegexNode::Terminal(p) => u =~= seq![p],
            RegexNode::Nonterminal(p) => u =~= seq![p],
            RegexNode::Command(p) => u =~= seq![p],
            RegexNode::Subword(p) => u =~= seq![p],
            RegexNode::EndMarker(p) => u.len() == 0 || u =~= seq![p],
            RegexNode::Or(ch) => exists|k: int| 0 <= k < ch@.len() && (#[trigger] ch@[k]).0 < i && in_lang(a, ch@[k].0 as int, u),
            RegexNode::Cat(ch) => cat_lang(a, i, ch@, 0, u),
            RegexNode::Star(c) => c.0 < i && star_lang(a, i, c.0 as int, u),
        }
    }
}

/// u is a concatenation of words of the children k, k+1, ..
spec fn cat_lang(a: Seq<RegexNode>, i: int, ch: Seq<RegexNodeId>, k: int, u: Seq<u32>) -> bool
    decreases i, 1int, ch.len() - k
{
    if k < 0 || k >= ch.len() { u.len() == 0 } else {
        ch[k].0 < i && exists|n: int| #[trigger] cut(u, 0, n) && in_lang(a, ch[k].0 as int, u.subrange(0, n)) && cat_lang(a, i, ch, k + 1, u.subrange(n, u.len() as int))
    }
}

/// u is a concatenation of non-empty words of c
spec fn star_lang(a: Seq<RegexNode>, i: int, c: int, u: Seq<u32>) -> bool
    decreases i, 1int, u.len()
{
    0 <= c < i && (u.len() == 0 || exists|n: int| #[trigger] cut(u, 1, n) && in_lang(a, c, u.subrange(0, n)) && star_lang(a, i, c, u.subrange(n, u.len() as int)))
}

/// the local conditions of the position automaton hold for u at node i
spec fn local_ok(a: Seq<RegexNode>, i: int, u: Seq<u32>) -> bool {
    (u.len() == 0 ==> s_nullable(a, i))
    && (u.len() > 0 ==> s_first(a, i).contains(u[0]) && s_last(a, i).contains(u[u.len() - 1])
        && forall|j: int| 0 <= j < u.len() - 1 ==> follows(a, i, #[trigger] u[j], u[j + 1]))
}

spec fn link_from(a: Seq<RegexNode>, ch: Seq<RegexNodeId>, i: int, k: int, t: u32, h: u32) -> bool {
    exists|l: int, r: int| k <= l < r < ch.len() && (#[trigger] ch[l]).0 < i && (#[trigger] ch[r]).0 < i
        && s_last(a, ch[l].0 as int).contains(t) && s_first(a, ch[r].0 as int).contains(h)
        && (forall|m: int| l < m < r ==> s_nullable(a, (#[trigger] ch[m]).0 as int))
}

spec fn child_follow_from(a: Seq<RegexNode>, ch: Seq<RegexNodeId>, i: int, k: int, t: u32, h: u32) -> bool {
    exists|m: int| k <= m < ch.len() && (#[trigger] ch[m]).0 < i && follows(a, ch[m].0 as int, t, h)
}

spec fn first_from(a: Seq<RegexNode>, ch: Seq<RegexNodeId>, i: int, k: int, p: u32) -> bool {
    exists|r: int| k <= r < ch.len() && (#[trigger] ch[r]).0 < i && s_first(a, ch[r].0 as int).contains(p)
        && (forall|m: int| k <= m < r ==> s_nullable(a, (#[trigger] ch[m]).0 as int))
}

spec fn last_from(a: Seq<RegexNode>, ch: Seq<RegexNodeId>, i: int, k: int, p: u32) -> bool {
    exists|l: int| k <= l < ch.len() && (#[trigger] ch[l]).0 < i && s_last(a, ch[l].0 as int).contains(p)
        && (forall|m: int| l < m < ch.len() ==> s_nullable(a, (#[trigger] ch[m]).0 as int))
}

spec fn cat_local(a: Seq<RegexNode>, ch: Seq<RegexNodeId>, i: int, k: int, u: Seq<u32>) -> bool {
    (u.len() == 0 ==> forall|m: int| k <= m < ch.len() ==> (#[trigger] ch[m]).0 < i && s_nullable(a, ch[m].0 as int))
    && (u.len() > 0 ==> first_from(a, ch, i, k, u[0]) && last_from(a, ch, i, k, u[u.len() - 1])
        && forall|j: int| 0 <= j < u.len() - 1 ==> child_follow_from(a, ch, i, k, #[trigger] u[j], u[j + 1]) || link_from(a, ch, i, k, u[j], u[j + 1]))
}

proof fn lemma_lang_local(a: Seq<RegexNode>, i: int, u: Seq<u32>)
    requires in_lang(a, i, u)
    ensures local_ok(a, i, u)
    decreases i, 2int, 0int
{
    match a[i] {
        RegexNode::Or(ch) => {
            let k = choose|k: int| 0 <= k < ch@.len() && (#[trigger] ch@[k]).0 < i && in_lang(a, ch@[k].0 as int, u);
            lemma_lang_local(a, ch@[k].0 as int, u);
            if u.len() > 0 {
                assert forall|j: int| 0 <= j < u.len() - 1 implies follows(a, i, #[trigger] u[j], u[j + 1]) by {
                    assert(follows(a, ch@[k].0 as int, u[j], u[j + 1]));
                }
            }
        }
        RegexNode::Cat(ch) => {
            lemma_cat_local(a, i, ch@, 0, u);
            if u.len() > 0 {
                let r = choose|r: int| 0 <= r < ch@.len() && (#[trigger] ch@[r]).0 < i && s_first(a, ch@[r].0 as int).contains(u[0])
                    && (forall|m: int| 0 <= m < r ==> s_nullable(a, (#[trigger] ch@[m]).0 as int));
                assert(prefix_nullable(a, ch@, r));
                let l = choose|l: int| 0 <= l < ch@.len() && (#[trigger] ch@[l]).0 < i && s_last(a, ch@[l].0 as int).contains(u[u.len() - 1])
                    && (forall|m: int| l < m < ch@.len() ==> s_nullable(a, (#[trigger] ch@[m]).0 as int));
                assert(suffix_nullable(a, ch@, l));
                assert forall|j: int| 0 <= j < u.len() - 1 implies follows(a, i, #[trigger] u[j], u[j + 1]) by {
                    if child_follow_from(a, ch@, i, 0, u[j], u[j + 1]) {
                        let m = choose|m: int| 0 <= m < ch@.len() && (#[trigger] ch@[m]).0 < i && follows(a, ch@[m].0 as int, u[j], u[j + 1]);
                    } else {
                        assert(link_from(a, ch@, i, 0, u[j], u[j + 1]));
                        assert(cat_link(a, ch@, i, u[j], u[j + 1]));
                    }
                }
            }
        }
        RegexNode::Star(c) => {
            lemma_star_local(a, i, c.0 as int, u);
        }
        _ => {}
    }
}

proof fn lemma_cat_local(a: Seq<RegexNode>, i: int, ch: Seq<RegexNodeId>, k: int, u: Seq<u32>)
    requires 0 <= k <= ch.len(), cat_lang(a, i, ch, k, u)
    ensures cat_local(a, ch, i, k, u)
    decreases i, 1int, ch.len() - k
{
    if k < ch.len() {
        let n = choose|n: int| #[trigger] cut(u, 0, n) && in_lang(a, ch[k].0 as int, u.subrange(0, n)) && cat_lang(a, i, ch, k + 1, u.subrange(n, u.len() as int));
        lemma_lang_local(a, ch[k].0 as int, u.subrange(0, n));
        lemma_cat_local(a, i, ch, k + 1, u.subrange(n, u.len() as int));
        lemma_cat_combine(a, i, ch, k, u, n);
    }
}

/// a word of child k followed by a word of the children after it
proof fn lemma_cat_combine(a: Seq<RegexNode>, i: int, ch: Seq<RegexNodeId>, k: int, u: Seq<u32>, n: int)
    requires
        0 <= k < ch.len(), ch[k].0 < i, 0 <= n <= u.len(),
        local_ok(a, ch[k].0 as int, u.subrange(0, n)),
        cat_local(a, ch, i, k + 1, u.subrange(n, u.len() as int)),
    ensures cat_local(a, ch, i, k, u)
{
    let u1 = u.subrange(0, n);
    let u2 = u.subrange(n, u.len() as int);
    if u.len() == 0 {
        assert forall|m: int| k <= m < ch.len() implies (#[trigger] ch[m]).0 < i && s_nullable(a, ch[m].0 as int) by { }
    } else {
        lemma_cat_first(a, i, ch, k, u, n);
        lemma_cat_last(a, i, ch, k, u, n);
        // the facts about u1 / u2, restated over u
        assert forall|q: int| 0 <= q < n - 1 implies follows(a, ch[k].0 as int, #[trigger] u[q], u[q + 1]) by {
            assert(u1[q] == u[q] && u1[q + 1] == u[q + 1]);
        }
        if n > 0 { assert(u1[u1.len() - 1] == u[n - 1]); }
        if n < u.len() { assert(u2[0] == u[n]); }
        assert forall|q: int| n <= q < u.len() - 1 implies child_follow_from(a, ch, i, k + 1, #[trigger] u[q], u[q + 1]) || link_from(a, ch, i, k + 1, u[q], u[q + 1]) by {
            assert(u2[q - n] == u[q] && u2[q - n + 1] == u[q + 1]);
        }
        assert forall|j: int| 0 <= j < u.len() - 1 implies child_follow_from(a, ch, i, k, #[trigger] u[j], u[j + 1]) || link_from(a, ch, i, k, u[j], u[j + 1]) by {
            lemma_cat_pair(a, i, ch, k, u, n, j);
        }
    }
}

proof fn lemma_cat_first(a: Seq<RegexNode>, i: int, ch: Seq<RegexNodeId>, k: int, u: Seq<u32>, n: int)
    requires
        0 <= k < ch.len(), ch[k].0 < i, 0 <= n <= u.len(), u.len() > 0,
        local_ok(a, ch[k].0 as int, u.subrange(0, n)),
        cat_local(a, ch, i, k + 1, u.subrange(n, u.len() as int)),
    ensures first_from(a, ch, i, k, u[0])
{
    let u1 = u.subrange(0, n);
    let u2 = u.subrange(n, u.len() as int);
    if n > 0 {
        assert(u1[0] == u[0]);
        assert(k <= k < ch.len() && s_first(a, ch[k].0 as int).contains(u[0]));
    } else {
        assert(u2 =~= u);
        assert(u1.len() == 0);
        let r = choose|r: int| k + 1 <= r < ch.len() && (#[trigger] ch[r]).0 < i && s_first(a, ch[r].0 as int).contains(u2[0])
            && (forall|m: int| k + 1 <= m < r ==> s_nullable(a, (#[trigger] ch[m]).0 as int));
        assert forall|m: int| k <= m < r implies s_nullable(a, (#[trigger] ch[m]).0 as int) by { }
        assert(k <= r < ch.len() && ch[r].0 < i && s_first(a, ch[r].0 as int).contains(u[0]));
    }
}

proof fn lemma_cat_last(a: Seq<RegexNode>, i: int, ch: Seq<RegexNodeId>, k: int, u: Seq<u32>, n: int)
    requires
        0 <= k < ch.len(), ch[k].0 < i, 0 <= n <= u.len(), u.len() > 0,
        local_ok(a, ch[k].0 as int, u.subrange(0, n)),
        cat_local(a, ch, i, k + 1, u.subrange(n, u.len() as int)),
    ensures last_from(a, ch, i, k, u[u.len() - 1])
{
    let u1 = u.subrange(0, n);
    let u2 = u.subrange(n, u.len() as int);
    if n < u.len() {
        assert(u2[u2.len() - 1] == u[u.len() - 1]);
        let l = choose|l: int| k + 1 <= l < ch.len() && (#[trigger] ch[l]).0 < i && s_last(a, ch[l].0 as int).contains(u2[u2.len() - 1])
            && (forall|m: int| l < m < ch.len() ==> s_nullable(a, (#[trigger] ch[m]).0 as int));
        assert(k <= l < ch.len() && ch[l].0 < i && s_last(a, ch[l].0 as int).contains(u[u.len() - 1]));
    } else {
        assert(u1 =~= u);
        assert(u2.len() == 0);
        assert forall|m: int| k < m < ch.len() implies s_nullable(a, (#[trigger] ch[m]).0 as int) by { }
        assert(k <= k < ch.len() && s_last(a, ch[k].0 as int).contains(u[u.len() - 1]));
    }
}

proof fn lemma_cat_pair(a: Seq<RegexNode>, i: int, ch: Seq<RegexNodeId>, k: int, u: Seq<u32>, n: int, j: int)
    requires
        0 <= k < ch.len(), ch[k].0 < i, 0 <= n <= u.len(), 0 <= j < u.len() - 1,
        forall|q: int| 0 <= q < n - 1 ==> follows(a, ch[k].0 as int, #[trigger] u[q], u[q + 1]),
        n > 0 ==> s_last(a, ch[k].0 as int).contains(u[n - 1]),
        n < u.len() ==> first_from(a, ch, i, k + 1, u[n]),
        forall|q: int| n <= q < u.len() - 1 ==> child_follow_from(a, ch, i, k + 1, #[trigger] u[q], u[q + 1]) || link_from(a, ch, i, k + 1, u[q], u[q + 1]),
    ensures child_follow_from(a, ch, i, k, u[j], u[j + 1]) || link_from(a, ch, i, k, u[j], u[j + 1])
{
    if j + 1 < n {
        assert(k <= k < ch.len() && ch[k].0 < i && follows(a, ch[k].0 as int, u[j], u[j + 1]));
    } else if j >= n {
        lemma_pair_weaken(a, i, ch, k, u[j], u[j + 1]);
    } else {
        lemma_pair_boundary(a, i, ch, k, u[j], u[j + 1]);
    }
}

/// a pair justified by the children after k is justified by the children from k on
proof fn lemma_pair_weaken(a: Seq<RegexNode>, i: int, ch: Seq<RegexNodeId>, k: int, t: u32, h: u32)
    requires 0 <= k < ch.len(), child_follow_from(a, ch, i, k + 1, t, h) || link_from(a, ch, i, k + 1, t, h)
    ensures child_follow_from(a, ch, i, k, t, h) || link_from(a, ch, i, k, t, h)
{
    if child_follow_from(a, ch, i, k + 1, t, h) {
        let m = choose|m: int| k + 1 <= m < ch.len() && (#[trigger] ch[m]).0 < i && follows(a, ch[m].0 as int, t, h);
        assert(k <= m < ch.len() && ch[m].0 < i && follows(a, ch[m].0 as int, t, h));
    } else {
        let (l, r) = choose|l: int, r: int| k + 1 <= l < r < ch.len() && (#[trigger] ch[l]).0 < i && (#[trigger] ch[r]).0 < i
            && s_last(a, ch[l].0 as int).contains(t) && s_first(a, ch[r].0 as int).contains(h)
            && (forall|m: int| l < m < r ==> s_nullable(a, (#[trigger] ch[m]).0 as int));
        assert(k <= l < r < ch.len() && ch[l].0 < i && ch[r].0 < i && s_last(a, ch[l].0 as int).contains(t) && s_first(a, ch[r].0 as int).contains(h));
    }
}

/// the last position of child k's word followed by the first position of the rest
proof fn lemma_pair_boundary(a: Seq<RegexNode>, i: int, ch: Seq<RegexNodeId>, k: int, t: u32, h: u32)
    requires 0 <= k < ch.len(), ch[k].0 < i, s_last(a, ch[k].0 as int).contains(t), first_from(a, ch, i, k + 1, h)
    ensures link_from(a, ch, i, k, t, h)
{
    let r = choose|r: int| k + 1 <= r < ch.len() && (#[trigger] ch[r]).0 < i && s_first(a, ch[r].0 as int).contains(h)
        && (forall|m: int| k + 1 <= m < r ==> s_nullable(a, (#[trigger] ch[m]).0 as int));
    assert forall|m: int| k < m < r implies s_nullable(a, (#[trigger] ch[m]).0 as int) by { }
    assert(k <= k < r < ch.len() && ch[k].0 < i && ch[r].0 < i && s_last(a, ch[k].0 as int).contains(t) && s_first(a, ch[r].0 as int).contains(h));
}

proof fn lemma_star_local(a: Seq<RegexNode>, i: int, c: int, u: Seq<u32>)
    requires 0 <= i < a.len(), a[i] is Star, (a[i]->Star_0).0 == c, c < i, star_lang(a, i, c, u)
    ensures local_ok(a, i, u)
    decreases i, 1int, u.len()
{
    if u.len() > 0 {
        let n = choose|n: int| #[trigger] cut(u, 1, n) && in_lang(a, c, u.subrange(0, n)) && star_lang(a, i, c, u.subrange(n, u.len() as int));
        let u1 = u.subrange(0, n);
        let u2 = u.subrange(n, u.len() as int);
        lemma_lang_local(a, c, u1);
        lemma_star_local(a, i, c, u2);
        assert(u1[0] == u[0]);
        if n < u.len() { assert(u2[u2.len() - 1] == u[u.len() - 1]); } else { assert(u1[u1.len() - 1] == u[u.len() - 1]); }
        assert forall|j: int| 0 <= j < u.len() - 1 implies follows(a, i, #[trigger] u[j], u[j + 1]) by {
            if j + 1 < n {
                assert(u1[j] == u[j] && u1[j + 1] == u[j + 1]);
                assert(follows(a, c, u1[j], u1[j + 1]));
            } else if j >= n {
                assert(u2[j - n] == u[j] && u2[j - n + 1] == u[j + 1]);
                assert(follows(a, i, u2[j - n], u2[j - n + 1]));
            } else {
                assert(u1[u1.len() - 1] == u[j]);
                assert(u2[0] == u[j + 1]);
            }
        }
    }
}

/// first, last and follow only mention positions below the node
proof fn lemma_first_in_poss(a: Seq<RegexNode>, i: int, p: u32)
    requires s_first(a, i).contains(p)
    ensures poss(a, i).contains(p)
    decreases i
{
    if 0 <= i < a.len() {
        match a[i] {
            RegexNode::Star(c) => { if c.0 < i { lemma_first_in_poss(a, c.0 as int, p); } }
            RegexNode::Or(ch) => {
                let k = choose|k: int| 0 <= k < ch@.len() && (#[trigger] ch@[k]).0 < i && s_first(a, ch@[k].0 as int).contains(p);
                lemma_first_in_poss(a, ch@[k].0 as int, p);
            }
            RegexNode::Cat(ch) => {
                let k = choose|k: int| 0 <= k < ch@.len() && (#[trigger] ch@[k]).0 < i && prefix_nullable(a, ch@, k) && s_first(a, ch@[k].0 as int).contains(p);
                lemma_first_in_poss(a, ch@[k].0 as int, p);
            }
            _ => {}
        }
    }
}

proof fn lemma_last_in_poss(a: Seq<RegexNode>, i: int, p: u32)
    requires s_last(a, i).contains(p)
    ensures poss(a, i).contains(p)
    decreases i
{
    if 0 <= i < a.len() {
        match a[i] {
            RegexNode::Star(c) => { if c.0 < i { lemma_last_in_poss(a, c.0 as int, p); } }
            RegexNode::Or(ch) => {
                let k = choose|k: int| 0 <= k < ch@.len() && (#[trigger] ch@[k]).0 < i && s_last(a, ch@[k].0 as int).contains(p);
                lemma_last_in_poss(a, ch@[k].0 as int, p);
            }
            RegexNode::Cat(ch) => {
                let k = choose|k: int| 0 <= k < ch@.len() && (#[trigger] ch@[k]).0 < i && suffix_nullable(a, ch@, k) && s_last(a, ch@[k].0 as int).contains(p);
                lemma_last_in_poss(a, ch@[k].0 as int, p);
            }
            _ => {}
        }
    }
}

proof fn lemma_follows_in_poss(a: Seq<RegexNode>, i: int, t: u32, h: u32)
    requires follows(a, i, t, h)
    ensures poss(a, i).contains(t), poss(a, i).contains(h)
    decreases i
{
    if 0 <= i < a.len() {
        match a[i] {
            RegexNode::Or(ch) => {
                let k = choose|k: int| 0 <= k < ch@.len() && (#[trigger] ch@[k]).0 < i && follows(a, ch@[k].0 as int, t, h);
                lemma_follows_in_poss(a, ch@[k].0 as int, t, h);
            }
            RegexNode::Cat(ch) => {
                if exists|k: int| 0 <= k < ch@.len() && (#[trigger] ch@[k]).0 < i && follows(a, ch@[k].0 as int, t, h) {
                    let k = choose|k: int| 0 <= k < ch@.len() && (#[trigger] ch@[k]).0 < i && follows(a, ch@[k].0 as int, t, h);
                    lemma_follows_in_poss(a, ch@[k].0 as int, t, h);
                } else {
                    let (l, r) = choose|l: int, r: int| 0 <= l < r < ch@.len() && (#[trigger] ch@[l]).0 < i && (#[trigger] ch@[r]).0 < i
                        && s_last(a, ch@[l].0 as int).contains(t) && s_first(a, ch@[r].0 as int).contains(h)
                        && (forall|m: int| l < m < r ==> s_nullable(a, (#[trigger] ch@[m]).0 as int));
                    lemma_last_in_poss(a, ch@[l].0 as int, t);
                    lemma_first_in_poss(a, ch@[r].0 as int, h);
                }
            }
            RegexNode::Star(c) => {
                if s_last(a, c.0 as int).contains(t) && s_first(a, c.0 as int).contains(h) {
                    lemma_last_in_poss(a, c.0 as int, t);
                    lemma_first_in_poss(a, c.0 as int, h);
                } else {
                    lemma_follows_in_poss(a, c.0 as int, t, h);
                }
            }
            _ => {}
        }
    }
}

/// the empty word belongs to every nullable node
proof fn lemma_nullable_empty(a: Seq<RegexNode>, i: int)
    requires s_nullable(a, i), lin_ok(a, i)
    ensures in_lang(a, i, Seq::<u32>::empty())
    decreases i, 2int, 0int
{
    let e = Seq::<u32>::empty();
    match a[i] {
        RegexNode::Or(ch) => {
            let k = choose|k: int| 0 <= k < ch@.len() && (#[trigger] ch@[k]).0 < i && s_nullable(a, ch@[k].0 as int);
            lemma_nullable_empty(a, ch@[k].0 as int);
        }
        RegexNode::Cat(ch) => {
            if is_plus(a, ch@) {
                assert(lin_ok(a, ch@[1].0 as int));
                assert forall|m: int| 0 <= m < ch@.len() implies 0 <= (#[trigger] ch@[m]).0 < i && s_nullable(a, ch@[m].0 as int) && lin_ok(a, ch@[m].0 as int) by {
                    if m == 0 { } else { assert(m == 1); }
                }
            }
            lemma_nullable_cat_empty(a, i, ch@, 0);
        }
        RegexNode::Star(c) => { assert(star_lang(a, i, c.0 as int, e)); }
        _ => {}
    }
}

proof fn lemma_nullable_cat_empty(a: Seq<RegexNode>, i: int, ch: Seq<RegexNodeId>, k: int)
    requires
        0 <= k <= ch.len(), 0 <= i < a.len(),
        forall|m: int| k <= m < ch.len() ==> 0 <= (#[trigger] ch[m]).0 < i && s_nullable(a, ch[m].0 as int) && lin_ok(a, ch[m].0 as int),
    ensures cat_lang(a, i, ch, k, Seq::<u32>::empty())
    decreases i, 1int, ch.len() - k
{
    let e = Seq::<u32>::empty();
    if k < ch.len() {
        lemma_nullable_empty(a, ch[k].0 as int);
        lemma_nullable_cat_empty(a, i, ch, k + 1);
        assert(e.subrange(0, 0) =~= e);
        assert(e.subrange(0, e.len() as int) =~= e);
        assert(cut(e, 0, 0));
    }
}

// ---------------- Or: a word that starts in child k stays in child k ----------------
proof fn lemma_or_stays(a: Seq<RegexNode>, i: int, ch: Seq<RegexNodeId>, k: int, u: Seq<u32>, j: int)
    requires
        0 <= i < a.len(), a[i] is Or, (a[i]->Or_0)@ == ch, lin_ok(a, i), 0 <= k < ch.len(),
        u.len() > 0, poss(a, ch[k].0 as int).contains(u[0]),
        forall|q: int| 0 <= q < u.len() - 1 ==> follows(a, i, #[trigger] u[q], u[q + 1]),
        0 <= j < u.len(),
    ensures
        poss(a, ch[k].0 as int).contains(u[j]),
        j + 1 < u.len() ==> follows(a, ch[k].0 as int, u[j], u[j + 1]),
    decreases j
{
    if j > 0 {
        lemma_or_stays(a, i, ch, k, u, j - 1);
        // the pair (u[j-1], u[j]) is a pair of child k
        assert(follows(a, ch[k].0 as int, u[j - 1], u[j]));
        lemma_follows_in_poss(a, ch[k].0 as int, u[j - 1], u[j]);
    }
    if j + 1 < u.len() {
        assert(follows(a, i, u[j], u[j + 1]));
        let k2 = choose|k2: int| 0 <= k2 < ch.len() && (#[trigger] ch[k2]).0 < i && follows(a, ch[k2].0 as int, u[j], u[j + 1]);
        lemma_follows_in_poss(a, ch[k2].0 as int, u[j], u[j + 1]);
        if k2 != k { assert(disjoint_children(a, ch)); assert(false); }
    }
}

proof fn lemma_local_in_lang(a: Seq<RegexNode>, i: int, u: Seq<u32>)
    requires lin_ok(a, i), local_ok(a, i, u)
    ensures in_lang(a, i, u)
    decreases i, 2int, 0int
{
    if u.len() == 0 {
        assert(u =~= Seq::<u32>::empty());
        lemma_nullable_empty(a, i);
    } else {
        match a[i] {
            RegexNode::Epsilon => { }
            RegexNode::Terminal(p) => { if u.len() > 1 { assert(follows(a, i, u[0], u[1])); } }
            RegexNode::Nonterminal(p) => { if u.len() > 1 { assert(follows(a, i, u[0], u[1])); } }
            RegexNode::Command(p) => { if u.len() > 1 { assert(follows(a, i, u[0], u[1])); } }
            RegexNode::Subword(p) => { if u.len() > 1 { assert(follows(a, i, u[0], u[1])); } }
            RegexNode::EndMarker(p) => { if u.len() > 1 { assert(follows(a, i, u[0], u[1])); } }
            RegexNode::Or(ch) => {
                let k = choose|k: int| 0 <= k < ch@.len() && (#[trigger] ch@[k]).0 < i && s_first(a, ch@[k].0 as int).contains(u[0]);
                lemma_first_in_poss(a, ch@[k].0 as int, u[0]);
                assert forall|j: int| 0 <= j < u.len() - 1 implies follows(a, ch@[k].0 as int, #[trigger] u[j], u[j + 1]) by {
                    lemma_or_stays(a, i, ch@, k, u, j);
                }
                lemma_or_stays(a, i, ch@, k, u, u.len() - 1);
                let kl = choose|kl: int| 0 <= kl < ch@.len() && (#[trigger] ch@[kl]).0 < i && s_last(a, ch@[kl].0 as int).contains(u[u.len() - 1]);
                lemma_last_in_poss(a, ch@[kl].0 as int, u[u.len() - 1]);
                if kl != k { assert(disjoint_children(a, ch@)); assert(false); }
                assert(local_ok(a, ch@[k].0 as int, u));
                lemma_local_in_lang(a, ch@[k].0 as int, u);
            }
            RegexNode::Star(c) => { lemma_star_split(a, i, c.0 as int, u); }
            RegexNode::Cat(ch) => {
                if is_plus(a, ch@) { lemma_plus_in_lang(a, i, ch@, u); }
                else { lemma_cat_from_local(a, i, ch@, u); }
            }
        }
    }
}

// ---------------- Star and `c...` ----------------
/// the local conditions of c* / c+ in terms of c
spec fn star_local(a: Seq<RegexNode>, c: int, u: Seq<u32>) -> bool {
    u.len() > 0 ==> s_first(a, c).contains(u[0]) && s_last(a, c).contains(u[u.len() - 1])
        && forall|j: int| 0 <= j < u.len() - 1 ==> star_pair(a, c, #[trigger] u[j], u[j + 1])
}

/// a pair inside a word of c, or the end of one word of c followed by the start of the next
spec fn star_pair(a: Seq<RegexNode>, c: int, t: u32, h: u32) -> bool {
    follows(a, c, t, h) || (s_last(a, c).contains(t) && s_first(a, c).contains(h))
}

/// the first index from `from` on whose pair is not a pair of c (u.len() - 1 if there is none)
spec fn first_break(a: Seq<RegexNode>, c: int, u: Seq<u32>, from: int) -> int
    decreases u.len() - from
{
    if from < 0 || from >= u.len() - 1 { u.len() - 1 }
    else if !follows(a, c, u[from], u[from + 1]) { from }
    else { first_break(a, c, u, from + 1) }
}

proof fn lemma_first_break(a: Seq<RegexNode>, c: int, u: Seq<u32>, from: int)
    requires u.len() > 0, 0 <= from <= u.len() - 1
    ensures
        from <= first_break(a, c, u, from) <= u.len() - 1,
        forall|j: int| from <= j < first_break(a, c, u, from) ==> follows(a, c, #[trigger] u[j], u[j + 1]),
        first_break(a, c, u, from) < u.len() - 1 ==> !follows(a, c, u[first_break(a, c, u, from)], u[first_break(a, c, u, from) + 1]),
    decreases u.len() - from
{
    if from < u.len() - 1 && follows(a, c, u[from], u[from + 1]) {
        lemma_first_break(a, c, u, from + 1);
    }
}

/// the part of u up to the first break is a word of c
proof fn lemma_star_head(a: Seq<RegexNode>, c: int, u: Seq<u32>, m: int)
    requires star_local(a, c, u), u.len() > 0, m == first_break(a, c, u, 0)
    ensures 0 <= m <= u.len() - 1, local_ok(a, c, u.subrange(0, m + 1))
{
    lemma_first_break(a, c, u, 0);
    let u1 = u.subrange(0, m + 1);
    assert(u1[0] == u[0]);
    assert(u1[u1.len() - 1] == u[m]);
    assert forall|j: int| 0 <= j < u1.len() - 1 implies follows(a, c, #[trigger] u1[j], u1[j + 1]) by {
        assert(u1[j] == u[j] && u1[j + 1] == u[j + 1]);
    }
    if m < u.len() - 1 {
        assert(star_pair(a, c, u[m], u[m + 1]));
        assert(s_last(a, c).contains(u[m]));
    }
}

/// what comes after the first break again satisfies the conditions of c*
proof fn lemma_star_tail(a: Seq<RegexNode>, c: int, u: Seq<u32>, m: int)
    requires star_local(a, c, u), u.len() > 0, m == first_break(a, c, u, 0)
    ensures star_local(a, c, u.subrange(m + 1, u.len() as int))
{
    lemma_first_break(a, c, u, 0);
    let u2 = u.subrange(m + 1, u.len() as int);
    if m < u.len() - 1 {
        assert(star_pair(a, c, u[m], u[m + 1]));
        assert(s_last(a, c).contains(u[m]) && s_first(a, c).contains(u[m + 1]));
        assert(u2[0] == u[m + 1]);
        assert(u2[u2.len() - 1] == u[u.len() - 1]);
        assert forall|j: int| 0 <= j < u2.len() - 1 implies star_pair(a, c, #[trigger] u2[j], u2[j + 1]) by {
            assert(u2[j] == u[m + 1 + j] && u2[j + 1] == u[m + 1 + j + 1]);
            assert(star_pair(a, c, u[m + 1 + j], u[m + 1 + j + 1]));
        }
    }
}

proof fn lemma_star_words(a: Seq<RegexNode>, i: int, c: int, u: Seq<u32>)
    requires 0 <= c < i, lin_ok(a, c), star_local(a, c, u)
    ensures star_lang(a, i, c, u)
    decreases i, 1int, u.len()
{
    if u.len() > 0 {
        let m = first_break(a, c, u, 0);
        lemma_star_head(a, c, u, m);
        lemma_star_tail(a, c, u, m);
        lemma_local_in_lang(a, c, u.subrange(0, m + 1));
        lemma_star_words(a, i, c, u.subrange(m + 1, u.len() as int));
        assert(cut(u, 1, m + 1));
    }
}

proof fn lemma_star_split(a: Seq<RegexNode>, i: int, c: int, u: Seq<u32>)
    requires 0 <= i < a.len(), a[i] is Star, (a[i]->Star_0).0 == c, lin_ok(a, i), local_ok(a, i, u)
    ensures in_lang(a, i, u)
    decreases i, 1int, u.len() + 1
{
    if u.len() > 0 {
        assert forall|j: int| 0 <= j < u.len() - 1 implies star_pair(a, c, #[trigger] u[j], u[j + 1]) by {
            assert(follows(a, i, u[j], u[j + 1]));
        }
    }
    lemma_star_words(a, i, c, u);
}

proof fn lemma_plus_in_lang(a: Seq<RegexNode>, i: int, ch: Seq<RegexNodeId>, u: Seq<u32>)
    requires 0 <= i < a.len(), a[i] is Cat, (a[i]->Cat_0)@ == ch, is_plus(a, ch), lin_ok(a, i), local_ok(a, i, u), u.len() > 0
    ensures in_lang(a, i, u)
    decreases i, 1int, u.len() + 1
{
    let c = ch[0].0 as int;
    let s = ch[1].0 as int;
    // first / last of the node are those of c
    let kf = choose|kf: int| 0 <= kf < ch.len() && (#[trigger] ch[kf]).0 < i && prefix_nullable(a, ch, kf) && s_first(a, ch[kf].0 as int).contains(u[0]);
    assert(s_first(a, c).contains(u[0]));
    let kl = choose|kl: int| 0 <= kl < ch.len() && (#[trigger] ch[kl]).0 < i && suffix_nullable(a, ch, kl) && s_last(a, ch[kl].0 as int).contains(u[u.len() - 1]);
    assert(s_last(a, c).contains(u[u.len() - 1]));
    assert forall|j: int| 0 <= j < u.len() - 1 implies star_pair(a, c, #[trigger] u[j], u[j + 1]) by {
        assert(follows(a, i, u[j], u[j + 1]));
        if exists|k: int| 0 <= k < ch.len() && (#[trigger] ch[k]).0 < i && follows(a, ch[k].0 as int, u[j], u[j + 1]) {
            let k = choose|k: int| 0 <= k < ch.len() && (#[trigger] ch[k]).0 < i && follows(a, ch[k].0 as int, u[j], u[j + 1]);
            if k == 1 { assert(follows(a, s, u[j], u[j + 1])); }
        } else {
            let (l, r) = choose|l: int, r: int| 0 <= l < r < ch.len() && (#[trigger] ch[l]).0 < i && (#[trigger] ch[r]).0 < i
                && s_last(a, ch[l].0 as int).contains(u[j]) && s_first(a, ch[r].0 as int).contains(u[j + 1])
                && (forall|m: int| l < m < r ==> s_nullable(a, (#[trigger] ch[m]).0 as int));
            assert(l == 0 && r == 1);
        }
    }
    lemma_star_words(a, s, c, u);
    // star_lang(a, s, c, u) with u non-empty: a first word of c, then a word of the star node
    let n = choose|n: int| #[trigger] cut(u, 1, n) && in_lang(a, c, u.subrange(0, n)) && star_lang(a, s, c, u.subrange(n, u.len() as int));
    let rest = u.subrange(n, u.len() as int);
    assert(in_lang(a, s, rest));
    assert(rest.subrange(0, rest.len() as int) =~= rest);
    assert(rest.subrange(rest.len() as int, rest.len() as int).len() == 0);
    assert(cut(rest, 0, rest.len() as int));
    assert(cat_lang(a, i, ch, 2, rest.subrange(rest.len() as int, rest.len() as int)));
    assert(cat_lang(a, i, ch, 1, rest));
    assert(cut(u, 0, n));
    assert(cat_lang(a, i, ch, 0, u));
}

proof fn lemma_cat_from_local(a: Seq<RegexNode>, i: int, ch: Seq<RegexNodeId>, u: Seq<u32>)
    requires 0 <= i < a.len(), a[i] is Cat, (a[i]->Cat_0)@ == ch, !is_plus(a, ch), lin_ok(a, i), local_ok(a, i, u), u.len() > 0
    ensures in_lang(a, i, u)
    decreases i, 1int, ch.len() + 1
{
    // the node's conditions are the conditions of its children from 0 on
    let kf = choose|kf: int| 0 <= kf < ch.len() && (#[trigger] ch[kf]).0 < i && prefix_nullable(a, ch, kf) && s_first(a, ch[kf].0 as int).contains(u[0]);
    assert(first_from(a, ch, i, 0, u[0]));
    let kl = choose|kl: int| 0 <= kl < ch.len() && (#[trigger] ch[kl]).0 < i && suffix_nullable(a, ch, kl) && s_last(a, ch[kl].0 as int).contains(u[u.len() - 1]);
    assert(last_from(a, ch, i, 0, u[u.len() - 1]));
    assert forall|j: int| 0 <= j < u.len() - 1 implies child_follow_from(a, ch, i, 0, #[trigger] u[j], u[j + 1]) || link_from(a, ch, i, 0, u[j], u[j + 1]) by {
        assert(follows(a, i, u[j], u[j + 1]));
        if exists|k: int| 0 <= k < ch.len() && (#[trigger] ch[k]).0 < i && follows(a, ch[k].0 as int, u[j], u[j + 1]) {
            let k = choose|k: int| 0 <= k < ch.len() && (#[trigger] ch[k]).0 < i && follows(a, ch[k].0 as int, u[j], u[j + 1]);
            assert(child_follow_from(a, ch, i, 0, u[j], u[j + 1]));
        } else {
            assert(cat_link(a, ch, i, u[j], u[j + 1]));
            assert(link_from(a, ch, i, 0, u[j], u[j + 1]));
        }
    }
    lemma_cat_words(a, i, ch, 0, u);
}

// ---------------- linear concatenation: local conditions imply a split ----------------

spec fn in_child(a: Seq<RegexNode>, ch: Seq<RegexNodeId>, m: int, p: u32) -> bool {
    0 <= m < ch.len() && poss(a, ch[m].0 as int).contains(p)
}

/// the setting of the argument: a non-`c...` Cat node whose children are linear and pairwise disjoint
spec fn cat_h(a: Seq<RegexNode>, i: int, ch: Seq<RegexNodeId>) -> bool {
    0 <= i < a.len() && a[i] is Cat && (a[i]->Cat_0)@ == ch && !is_plus(a, ch) && lin_ok(a, i)
}

proof fn lemma_same_child(a: Seq<RegexNode>, i: int, ch: Seq<RegexNodeId>, m1: int, m2: int, p: u32)
    requires cat_h(a, i, ch), in_child(a, ch, m1, p), in_child(a, ch, m2, p)
    ensures m1 == m2
{
    if m1 != m2 { assert(disjoint_children(a, ch)); assert(false); }
}

/// first index >= from whose position is not below child c (u.len() if there is none)
spec fn pre_len(a: Seq<RegexNode>, c: int, u: Seq<u32>, from: int) -> int
    decreases u.len() - from
{
    if from < 0 || from >= u.len() { u.len() as int }
    else if !poss(a, c).contains(u[from]) { from }
    else { pre_len(a, c, u, from + 1) }
}

proof fn lemma_pre_len(a: Seq<RegexNode>, c: int, u: Seq<u32>, from: int)
    requires 0 <= from <= u.len()
    ensures
        from <= pre_len(a, c, u, from) <= u.len(),
        forall|j: int| from <= j < pre_len(a, c, u, from) ==> poss(a, c).contains(#[trigger] u[j]),
        pre_len(a, c, u, from) < u.len() ==> !poss(a, c).contains(u[pre_len(a, c, u, from)]),
    decreases u.len() - from
{
    if from < u.len() && poss(a, c).contains(u[from]) { lemma_pre_len(a, c, u, from + 1); }
}

/// where a justified pair (t, h) lives: both in one child m >= k with follows(ch[m]), or t in child l, h in a later child r
proof fn lemma_pair_places(a: Seq<RegexNode>, i: int, ch: Seq<RegexNodeId>, k: int, t: u32, h: u32)
    requires cat_h(a, i, ch), 0 <= k < ch.len(), child_follow_from(a, ch, i, k, t, h) || link_from(a, ch, i, k, t, h)
    ensures
        (exists|m: int| k <= m < ch.len() && #[trigger] in_child(a, ch, m, t) && in_child(a, ch, m, h) && follows(a, ch[m].0 as int, t, h))
        || (exists|l: int, r: int| k <= l < r < ch.len() && #[trigger] in_child(a, ch, l, t) && #[trigger] in_child(a, ch, r, h)
              && s_last(a, ch[l].0 as int).contains(t) && s_first(a, ch[r].0 as int).contains(h)
              && (forall|q: int| l < q < r ==> s_nullable(a, (#[trigger] ch[q]).0 as int)))
{
    if child_follow_from(a, ch, i, k, t, h) {
        let m = choose|m: int| k <= m < ch.len() && (#[trigger] ch[m]).0 < i && follows(a, ch[m].0 as int, t, h);
        lemma_follows_in_poss(a, ch[m].0 as int, t, h);
        assert(in_child(a, ch, m, t) && in_child(a, ch, m, h));
    } else {
        let (l, r) = choose|l: int, r: int| k <= l < r < ch.len() && (#[trigger] ch[l]).0 < i && (#[trigger] ch[r]).0 < i
            && s_last(a, ch[l].0 as int).contains(t) && s_first(a, ch[r].0 as int).contains(h)
            && (forall|q: int| l < q < r ==> s_nullable(a, (#[trigger] ch[q]).0 as int));
        lemma_last_in_poss(a, ch[l].0 as int, t);
        lemma_first_in_poss(a, ch[r].0 as int, h);
        assert(in_child(a, ch, l, t) && in_child(a, ch, r, h));
    }
}

/// once the word has left child k it does not come back
proof fn lemma_no_return(a: Seq<RegexNode>, i: int, ch: Seq<RegexNodeId>, k: int, u: Seq<u32>, n: int, j: int)
    requires
        cat_h(a, i, ch), 0 <= k < ch.len(), 0 <= n <= j < u.len(),
        !in_child(a, ch, k, u[n]),
        forall|q: int| 0 <= q < u.len() - 1 ==> child_follow_from(a, ch, i, k, #[trigger] u[q], u[q + 1]) || link_from(a, ch, i, k, u[q], u[q + 1]),
    ensures !in_child(a, ch, k, u[j])
    decreases j - n
{
    if j > n {
        lemma_no_return(a, i, ch, k, u, n, j - 1);
        lemma_pair_places(a, i, ch, k, u[j - 1], u[j]);
        if in_child(a, ch, k, u[j]) {
            if exists|m: int| k <= m < ch.len() && #[trigger] in_child(a, ch, m, u[j - 1]) && in_child(a, ch, m, u[j]) && follows(a, ch[m].0 as int, u[j - 1], u[j]) {
                let m = choose|m: int| k <= m < ch.len() && #[trigger] in_child(a, ch, m, u[j - 1]) && in_child(a, ch, m, u[j]) && follows(a, ch[m].0 as int, u[j - 1], u[j]);
                lemma_same_child(a, i, ch, m, k, u[j]);
            } else {
                let (l, r) = choose|l: int, r: int| k <= l < r < ch.len() && #[trigger] in_child(a, ch, l, u[j - 1]) && #[trigger] in_child(a, ch, r, u[j])
                    && s_last(a, ch[l].0 as int).contains(u[j - 1]) && s_first(a, ch[r].0 as int).contains(u[j])
                    && (forall|q: int| l < q < r ==> s_nullable(a, (#[trigger] ch[q]).0 as int));
                lemma_same_child(a, i, ch, r, k, u[j]);
            }
            assert(false);
        }
    }
}

/// the prefix of u inside child k satisfies child k's local conditions (stated over u)
proof fn lemma_cat_head(a: Seq<RegexNode>, i: int, ch: Seq<RegexNodeId>, k: int, u: Seq<u32>, n: int)
    requires
        cat_h(a, i, ch), 0 <= k < ch.len(), u.len() > 0, cat_local(a, ch, i, k, u),
        n == pre_len(a, ch[k].0 as int, u, 0),
    ensures
        0 <= n <= u.len(),
        n == 0 ==> s_nullable(a, ch[k].0 as int),
        n > 0 ==> s_first(a, ch[k].0 as int).contains(u[0]) && s_last(a, ch[k].0 as int).contains(u[n - 1]),
        forall|q: int| 0 <= q < n - 1 ==> follows(a, ch[k].0 as int, #[trigger] u[q], u[q + 1]),
{
    let c = ch[k].0 as int;
    lemma_pre_len(a, c, u, 0);
    // first
    let r = choose|r: int| k <= r < ch.len() && (#[trigger] ch[r]).0 < i && s_first(a, ch[r].0 as int).contains(u[0])
        && (forall|m: int| k <= m < r ==> s_nullable(a, (#[trigger] ch[m]).0 as int));
    lemma_first_in_poss(a, ch[r].0 as int, u[0]);
    assert(in_child(a, ch, r, u[0]));
    if n == 0 {
        assert(!in_child(a, ch, k, u[0]));
        assert(r != k);
        assert(s_nullable(a, ch[k].0 as int));
    } else {
        assert(in_child(a, ch, k, u[0]));
        lemma_same_child(a, i, ch, r, k, u[0]);
        // pairs inside the prefix
        assert forall|q: int| 0 <= q < n - 1 implies follows(a, c, #[trigger] u[q], u[q + 1]) by {
            assert(in_child(a, ch, k, u[q]) && in_child(a, ch, k, u[q + 1]));
            lemma_pair_places(a, i, ch, k, u[q], u[q + 1]);
            if exists|m: int| k <= m < ch.len() && #[trigger] in_child(a, ch, m, u[q]) && in_child(a, ch, m, u[q + 1]) && follows(a, ch[m].0 as int, u[q], u[q + 1]) {
                let m = choose|m: int| k <= m < ch.len() && #[trigger] in_child(a, ch, m, u[q]) && in_child(a, ch, m, u[q + 1]) && follows(a, ch[m].0 as int, u[q], u[q + 1]);
                lemma_same_child(a, i, ch, m, k, u[q]);
            } else {
                let (l, r2) = choose|l: int, r2: int| k <= l < r2 < ch.len() && #[trigger] in_child(a, ch, l, u[q]) && #[trigger] in_child(a, ch, r2, u[q + 1])
                    && s_last(a, ch[l].0 as int).contains(u[q]) && s_first(a, ch[r2].0 as int).contains(u[q + 1])
                    && (forall|x: int| l < x < r2 ==> s_nullable(a, (#[trigger] ch[x]).0 as int));
                lemma_same_child(a, i, ch, l, k, u[q]);
                lemma_same_child(a, i, ch, r2, k, u[q + 1]);
                assert(false);
            }
        }
        // last of the prefix
        if n == u.len() {
            let l = choose|l: int| k <= l < ch.len() && (#[trigger] ch[l]).0 < i && s_last(a, ch[l].0 as int).contains(u[u.len() - 1])
                && (forall|m: int| l < m < ch.len() ==> s_nullable(a, (#[trigger] ch[m]).0 as int));
            lemma_last_in_poss(a, ch[l].0 as int, u[u.len() - 1]);
            assert(in_child(a, ch, l, u[n - 1]) && in_child(a, ch, k, u[n - 1]));
            lemma_same_child(a, i, ch, l, k, u[n - 1]);
        } else {
            assert(in_child(a, ch, k, u[n - 1]) && !in_child(a, ch, k, u[n]));
            lemma_pair_places(a, i, ch, k, u[n - 1], u[n]);
            if exists|m: int| k <= m < ch.len() && #[trigger] in_child(a, ch, m, u[n - 1]) && in_child(a, ch, m, u[n]) && follows(a, ch[m].0 as int, u[n - 1], u[n]) {
                let m = choose|m: int| k <= m < ch.len() && #[trigger] in_child(a, ch, m, u[n - 1]) && in_child(a, ch, m, u[n]) && follows(a, ch[m].0 as int, u[n - 1], u[n]);
                lemma_same_child(a, i, ch, m, k, u[n - 1]);
                assert(false);
            } else {
                let (l, r2) = choose|l: int, r2: int| k <= l < r2 < ch.len() && #[trigger] in_child(a, ch, l, u[n - 1]) && #[trigger] in_child(a, ch, r2, u[n])
                    && s_last(a, ch[l].0 as int).contains(u[n - 1]) && s_first(a, ch[r2].0 as int).contains(u[n])
                    && (forall|x: int| l < x < r2 ==> s_nullable(a, (#[trigger] ch[x]).0 as int));
                lemma_same_child(a, i, ch, l, k, u[n - 1]);
            }
        }
    }
}

/// what is left after the prefix satisfies the conditions of the children after k (stated over u)
proof fn lemma_cat_tail(a: Seq<RegexNode>, i: int, ch: Seq<RegexNodeId>, k: int, u: Seq<u32>, n: int)
    requires
        cat_h(a, i, ch), 0 <= k < ch.len(), u.len() > 0, cat_local(a, ch, i, k, u),
        n == pre_len(a, ch[k].0 as int, u, 0),
    ensures
        n == u.len() ==> (forall|m: int| k < m < ch.len() ==> s_nullable(a, (#[trigger] ch[m]).0 as int)),
        n < u.len() ==> first_from(a, ch, i, k + 1, u[n]) && last_from(a, ch, i, k + 1, u[u.len() - 1]),
        forall|q: int| n <= q < u.len() - 1 ==> child_follow_from(a, ch, i, k + 1, #[trigger] u[q], u[q + 1]) || link_from(a, ch, i, k + 1, u[q], u[q + 1]),
{
    let c = ch[k].0 as int;
    lemma_pre_len(a, c, u, 0);
    lemma_cat_head(a, i, ch, k, u, n);
    let lst = u[u.len() - 1];
    let l = choose|l: int| k <= l < ch.len() && (#[trigger] ch[l]).0 < i && s_last(a, ch[l].0 as int).contains(lst)
        && (forall|m: int| l < m < ch.len() ==> s_nullable(a, (#[trigger] ch[m]).0 as int));
    lemma_last_in_poss(a, ch[l].0 as int, lst);
    assert(in_child(a, ch, l, lst));
    if n == u.len() {
        assert(in_child(a, ch, k, lst));
        lemma_same_child(a, i, ch, l, k, lst);
    } else {
        assert(!in_child(a, ch, k, u[n]));
        // first of the rest
        if n == 0 {
            let r = choose|r: int| k <= r < ch.len() && (#[trigger] ch[r]).0 < i && s_first(a, ch[r].0 as int).contains(u[0])
                && (forall|m: int| k <= m < r ==> s_nullable(a, (#[trigger] ch[m]).0 as int));
            lemma_first_in_poss(a, ch[r].0 as int, u[0]);
            assert(in_child(a, ch, r, u[0]));
            assert(r != k);
            assert forall|m: int| k + 1 <= m < r implies s_nullable(a, (#[trigger] ch[m]).0 as int) by { }
            assert(k + 1 <= r < ch.len() && ch[r].0 < i && s_first(a, ch[r].0 as int).contains(u[n]));
        } else {
            assert(in_child(a, ch, k, u[n - 1]));
            lemma_pair_places(a, i, ch, k, u[n - 1], u[n]);
            if exists|m: int| k <= m < ch.len() && #[trigger] in_child(a, ch, m, u[n - 1]) && in_child(a, ch, m, u[n]) && follows(a, ch[m].0 as int, u[n - 1], u[n]) {
                let m = choose|m: int| k <= m < ch.len() && #[trigger] in_child(a, ch, m, u[n - 1]) && in_child(a, ch, m, u[n]) && follows(a, ch[m].0 as int, u[n - 1], u[n]);
                lemma_same_child(a, i, ch, m, k, u[n - 1]);
                assert(false);
            } else {
                let (l2, r2) = choose|l2: int, r2: int| k <= l2 < r2 < ch.len() && #[trigger] in_child(a, ch, l2, u[n - 1]) && #[trigger] in_child(a, ch, r2, u[n])
                    && s_last(a, ch[l2].0 as int).contains(u[n - 1]) && s_first(a, ch[r2].0 as int).contains(u[n])
                    && (forall|x: int| l2 < x < r2 ==> s_nullable(a, (#[trigger] ch[x]).0 as int));
                lemma_same_child(a, i, ch, l2, k, u[n - 1]);
                assert forall|m: int| k + 1 <= m < r2 implies s_nullable(a, (#[trigger] ch[m]).0 as int) by { }
                assert(k + 1 <= r2 < ch.len() && ch[r2].0 < i && s_first(a, ch[r2].0 as int).contains(u[n]));
            }
        }
        // last of the rest
        lemma_no_return(a, i, ch, k, u, n, u.len() - 1);
        assert(l != k);
        assert(k + 1 <= l < ch.len() && ch[l].0 < i && s_last(a, ch[l].0 as int).contains(lst));
        // pairs of the rest
        assert forall|q: int| n <= q < u.len() - 1 implies child_follow_from(a, ch, i, k + 1, #[trigger] u[q], u[q + 1]) || link_from(a, ch, i, k + 1, u[q], u[q + 1]) by {
            lemma_no_return(a, i, ch, k, u, n, q);
            if child_follow_from(a, ch, i, k, u[q], u[q + 1]) {
                let m = choose|m: int| k <= m < ch.len() && (#[trigger] ch[m]).0 < i && follows(a, ch[m].0 as int, u[q], u[q + 1]);
                lemma_follows_in_poss(a, ch[m].0 as int, u[q], u[q + 1]);
                assert(in_child(a, ch, m, u[q]));
                assert(m != k);
                assert(k + 1 <= m < ch.len() && ch[m].0 < i && follows(a, ch[m].0 as int, u[q], u[q + 1]));
            } else {
                let (l3, r3) = choose|l3: int, r3: int| k <= l3 < r3 < ch.len() && (#[trigger] ch[l3]).0 < i && (#[trigger] ch[r3]).0 < i
                    && s_last(a, ch[l3].0 as int).contains(u[q]) && s_first(a, ch[r3].0 as int).contains(u[q + 1])
                    && (forall|x: int| l3 < x < r3 ==> s_nullable(a, (#[trigger] ch[x]).0 as int));
                lemma_last_in_poss(a, ch[l3].0 as int, u[q]);
                assert(in_child(a, ch, l3, u[q]));
                assert(l3 != k);
                assert(k + 1 <= l3 < r3 < ch.len() && ch[l3].0 < i && ch[r3].0 < i && s_last(a, ch[l3].0 as int).contains(u[q]) && s_first(a, ch[r3].0 as int).contains(u[q + 1]));
            }
        }
    }
}

/// the conditions stated over u are the conditions of the prefix as a word of its own
proof fn lemma_head_to_local(a: Seq<RegexNode>, c: int, u: Seq<u32>, n: int)
    requires
        0 <= n <= u.len(),
        n == 0 ==> s_nullable(a, c),
        n > 0 ==> s_first(a, c).contains(u[0]) && s_last(a, c).contains(u[n - 1]),
        forall|q: int| 0 <= q < n - 1 ==> follows(a, c, #[trigger] u[q], u[q + 1]),
    ensures local_ok(a, c, u.subrange(0, n))
{
    let u1 = u.subrange(0, n);
    if n > 0 {
        assert(u1[0] == u[0] && u1[u1.len() - 1] == u[n - 1]);
        assert forall|q: int| 0 <= q < u1.len() - 1 implies follows(a, c, #[trigger] u1[q], u1[q + 1]) by {
            assert(u1[q] == u[q] && u1[q + 1] == u[q + 1]);
        }
    }
}

proof fn lemma_tail_to_local(a: Seq<RegexNode>, i: int, ch: Seq<RegexNodeId>, k: int, u: Seq<u32>, n: int)
    requires
        0 <= n <= u.len(), u.len() > 0, 0 <= k < ch.len(),
        forall|m: int| k < m < ch.len() ==> (#[trigger] ch[m]).0 < i,
        n == u.len() ==> (forall|m: int| k < m < ch.len() ==> s_nullable(a, (#[trigger] ch[m]).0 as int)),
        n < u.len() ==> first_from(a, ch, i, k + 1, u[n]) && last_from(a, ch, i, k + 1, u[u.len() - 1]),
        forall|q: int| n <= q < u.len() - 1 ==> child_follow_from(a, ch, i, k + 1, #[trigger] u[q], u[q + 1]) || link_from(a, ch, i, k + 1, u[q], u[q + 1]),
    ensures cat_local(a, ch, i, k + 1, u.subrange(n, u.len() as int))
{
    let u2 = u.subrange(n, u.len() as int);
    if n < u.len() {
        assert(u2[0] == u[n] && u2[u2.len() - 1] == u[u.len() - 1]);
        assert forall|q: int| 0 <= q < u2.len() - 1 implies child_follow_from(a, ch, i, k + 1, #[trigger] u2[q], u2[q + 1]) || link_from(a, ch, i, k + 1, u2[q], u2[q + 1]) by {
            assert(u2[q] == u[n + q] && u2[q + 1] == u[n + q + 1]);
        }
    } else {
        assert forall|m: int| k + 1 <= m < ch.len() implies (#[trigger] ch[m]).0 < i && s_nullable(a, ch[m].0 as int) by { }
    }
}

/// the words satisfying the conditions of the children from k on are concatenations of their words
proof fn lemma_cat_words(a: Seq<RegexNode>, i: int, ch: Seq<RegexNodeId>, k: int, u: Seq<u32>)
    requires cat_h(a, i, ch), 0 <= k <= ch.len(), cat_local(a, ch, i, k, u)
    ensures cat_lang(a, i, ch, k, u)
    decreases i, 1int, ch.len() - k
{
    if k < ch.len() {
        if u.len() == 0 {
            assert(u =~= Seq::<u32>::empty());
            lemma_nullable_cat_empty(a, i, ch, k);
        } else {
            let c = ch[k].0 as int;
            let n = pre_len(a, c, u, 0);
            lemma_cat_head(a, i, ch, k, u, n);
            lemma_cat_tail(a, i, ch, k, u, n);
            lemma_head_to_local(a, c, u, n);
            lemma_tail_to_local(a, i, ch, k, u, n);
            lemma_local_in_lang(a, c, u.subrange(0, n));
            lemma_cat_words(a, i, ch, k + 1, u.subrange(n, u.len() as int));
            assert(cut(u, 0, n));
        }
    } else {
        if u.len() > 0 { assert(first_from(a, ch, i, k, u[0])); assert(false); }
    }
}


// ---------------- sanity of the definitions (they are what they are meant to be on small trees) ----------------
proof fn lemma_sanity_leaf(a: Seq<RegexNode>, i: int, p: u32)
    requires 0 <= i < a.len(), a[i] == RegexNode::Terminal(p)
    ensures in_lang(a, i, seq![p]), !in_lang(a, i, Seq::<u32>::empty()), !in_lang(a, i, seq![p, p])
{
    assert(!(seq![p, p] =~= seq![p])) by { assert(seq![p, p].len() == 2); }
    assert(!(Seq::<u32>::empty() =~= seq![p])) by { assert(seq![p].len() == 1); }
}

/// `p q` (a Cat of two leaves) has the word p q
proof fn lemma_sanity_cat(a: Seq<RegexNode>, i: int, x: RegexNodeId, y: RegexNodeId, p: u32, q: u32, ch: Vec<RegexNodeId>)
    requires
        0 <= x.0 < i, 0 <= y.0 < i, 0 <= i < a.len(), p != q,
        a[x.0 as int] == RegexNode::Terminal(p), a[y.0 as int] == RegexNode::Terminal(q),
        a[i] == RegexNode::Cat(ch), ch@ == seq![x, y],
    ensures in_lang(a, i, seq![p, q])
{
    reveal_with_fuel(cat_lang, 4);
    let u = seq![p, q];
    assert(u.subrange(0, 1) =~= seq![p]);
    let r1 = u.subrange(1, 2);
    assert(r1 =~= seq![q]);
    assert(r1.subrange(0, 1) =~= seq![q]);
    assert(r1.subrange(1, 1).len() == 0);
    assert(cut(r1, 0, 1));
    assert(cat_lang(a, i, ch@, 1, r1));
    assert(cut(u, 0, 1));
    assert(cat_lang(a, i, ch@, 0, u));
}

} // verus!
