// What dfa_from_regex / Inp::from_input require of a regex and of the pool of within-word regexes,
// and what Regex::from_expr / do_from_expr (unit c02d) establish. Shared by units c02d and c02e.
verus! {

/// what dfa_from_regex needs of its regex: a bottom-up arena with the root in it and a follow
/// cache that nobody filled before (Regex::from_expr builds it with an empty one)
spec fn regex_wf(re: Regex) -> bool {
    arena_wf(re.arena@) && nid(re.root_id) < re.arena@.len() && !cell_preset(re.follow_cache)
}

/// what from_input needs of the pool of within-word regexes: each is a regex dfa_from_regex can
/// take, and the within-word items inside it point into the pool again
spec fn regex_pool_ok(pool: Seq<Regex>) -> bool {
    forall|i: int| 0 <= i < pool.len() ==> regex_ready(#[trigger] pool[i], pool.len() as int)
}

spec fn regex_ready(re: Regex, npool: int) -> bool {
    regex_wf(re) && re.input_from_position@.len() <= u32::MAX
    && re.endmarker_position == re.input_from_position@.len()
    && leaves_bounded(re.arena@, nid(re.root_id), re.input_from_position@.len() as int)
    && glushkov_ready(re)
    && (forall|p: int| 0 <= p < re.input_from_position@.len() ==> input_ok(#[trigger] re.input_from_position@[p], npool))
}

spec fn input_ok(input: RegexInput, npool: int) -> bool {
    match input {
        RegexInput::Subword { subword_regex_id, fallback_level, span } => (subword_regex_id.0 as int) < npool,
        _ => true,
    }
}

/// positions from `from` on point into a pool of npool regexes
spec fn inputs_ok_from(ifp: Seq<RegexInput>, from: int, npool: int) -> bool {
    forall|p: int| from <= p < ifp.len() ==> input_ok(#[trigger] ifp[p], npool)
}

proof fn lemma_regex_ready_mono(re: Regex, n: int, n2: int)
    requires regex_ready(re, n), n <= n2
    ensures regex_ready(re, n2)
{
    assert forall|p: int| 0 <= p < re.input_from_position@.len() implies input_ok(#[trigger] re.input_from_position@[p], n2) by {
        assert(input_ok(re.input_from_position@[p], n));
    }
}

/// interning one more ready regex keeps the pool ready
proof fn lemma_pool_ready_push(pool: Seq<Regex>, pool2: Seq<Regex>, v: Regex)
    requires regex_pool_ok(pool), regex_ready(v, pool.len() as int), pool2 == pool || pool2 == pool.push(v)
    ensures regex_pool_ok(pool2)
{
    assert forall|i: int| 0 <= i < pool2.len() implies regex_ready(#[trigger] pool2[i], pool2.len() as int) by {
        if i < pool.len() { lemma_regex_ready_mono(pool[i], pool.len() as int, pool2.len() as int); }
        else { lemma_regex_ready_mono(v, pool.len() as int, pool2.len() as int); }
    }
}


/// no within-word item among the positions from `from` on
spec fn inputs_flat_from(ifp: Seq<RegexInput>, from: int) -> bool {
    forall|p: int| from <= p < ifp.len() ==> !((#[trigger] ifp[p]) is Subword)
}

/// the within-word regexes hold no within-word items themselves (words are not nested)
spec fn pool_flat(pool: Seq<Regex>) -> bool {
    forall|i: int| 0 <= i < pool.len() ==> inputs_flat_from((#[trigger] pool[i]).input_from_position@, 0)
}


/// the augmented regex `(r)#`: root = Cat[r, EndMarker(n)], n = number of items
spec fn augmented(re: Regex) -> bool {
    let a = re.arena@;
    let root = nid(re.root_id);
    let n = re.input_from_position@.len();
    0 <= root < a.len() && n <= u32::MAX && re.endmarker_position == n && match a[root] {
        RegexNode::Cat(ch) => ch@.len() == 2 && 0 <= ch@[0].0 < root && 0 <= ch@[1].0 < root
            && a[ch@[1].0 as int] == RegexNode::EndMarker(n as u32)
            && leaves_bounded(a, ch@[0].0 as int, n - 1),
        _ => false,
    }
}

/// the body r of the augmented regex
spec fn body_of(re: Regex) -> int {
    match re.arena@[nid(re.root_id)] { RegexNode::Cat(ch) => ch@[0].0 as int, _ => 0 }
}

/// the code's follow relation is the Dragon Book's (unit c02d proves it for every regex from_expr returns)
spec fn follow_is_dragon(re: Regex) -> bool {
    forall|t: u32, h: u32| follows_code(re.arena@, nid(re.root_id), t, h) == #[trigger] follows(re.arena@, nid(re.root_id), t, h)
}

/// the augmented regex with a linear body
spec fn glushkov_ready(re: Regex) -> bool {
    augmented(re) && follow_is_dragon(re) && lin_ok(re.arena@, body_of(re)) && !(re.arena@[body_of(re)] is Star)
}


} // verus!
