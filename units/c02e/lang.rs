// C02: what the subset construction buys. The position automaton of a regex reads a word of
// symbols by moving a set of positions: before any symbol the set is firstpos(root); reading a
// moves S to target(S, a); the word is accepted when the set holds the end marker. Every automaton
// satisfying subset_ok (dfa_from_regex's postcondition) runs in lock step with that set and
// accepts exactly the same symbol words. No executable code here: lemmas over the contracts.
verus! {

/// positions the position automaton may be at after reading w
spec fn reach(re: Regex, c: Map<RegexId, DFAId>, w: Seq<Inp>) -> ISet<u32>
    decreases w.len()
{
    if w.len() == 0 { s_first(re.arena@, nid(re.root_id)) } else { target(re, c, reach(re, c, w.drop_last()), w.last()) }
}

spec fn pos_accepts(re: Regex, c: Map<RegexId, DFAId>, w: Seq<Inp>) -> bool { reach(re, c, w).contains(re.endmarker_position) }

/// the transition of state q on the symbol a, if any (a is looked up in the symbol pool)
spec fn lang_ok(re: Regex, c: Map<RegexId, DFAId>, dfa: DFA) -> bool {
    forall|w: Seq<Inp>| #[trigger] dfa_accepts(dfa, w) == pos_accepts(re, c, w)
}

/// lock step: the automaton is in the state numbered reach(w), or stuck exactly when reach(w) is empty
proof fn lemma_run_tracks_reach(re: Regex, c: Map<RegexId, DFAId>, dfa: DFA, sid: Map<ISet<u32>, u32>, w: Seq<Inp>)
    requires subset_ok(re, c, dfa, sid)
    ensures
        (w.len() == 0 || nonempty(reach(re, c, w))) ==> sid.contains_key(reach(re, c, w)) && dfa_run(dfa, w) == Some(sid[reach(re, c, w)]),
        !(w.len() == 0 || nonempty(reach(re, c, w))) ==> dfa_run(dfa, w) is None,
    decreases w.len()
{
    if w.len() > 0 {
        let v = w.drop_last();
        let a = w.last();
        lemma_run_tracks_reach(re, c, dfa, sid, v);
        let rv = reach(re, c, v);
        let rw = reach(re, c, w);
        assert(rw == target(re, c, rv, a));
        let pool = dfa.inputs@;
        if v.len() == 0 || nonempty(rv) {
            let q = sid[rv];
            assert(row_ok(re, c, sid, dfa.transitions@, pool, rv, pool.len() as int));
            if exists|i: int| 0 <= i < pool.len() && pool[i] == a {
                let i = choose|i: int| 0 <= i < pool.len() && pool[i] == a;
                assert(cell_ok(re, c, sid, dfa.transitions@[q], pool, rv, i, pool.len() as int));
            } else {
                // no position carries a: the target is empty
                if nonempty(rw) {
                    let h = choose|h: u32| rw.contains(h);
                    let t = choose|t: u32| #[trigger] step(re, c, rv, a, t, h);
                    assert(pool.contains(lab(re.input_from_position@[t as int], c)));
                    assert(false);
                }
            }
        } else {
            // stuck before: the empty set has no successors
            if nonempty(rw) {
                let h = choose|h: u32| rw.contains(h);
                let t = choose|t: u32| #[trigger] step(re, c, rv, a, t, h);
                assert(rv.contains(t));
                assert(false);
            }
        }
    }
}

/// the compiled automaton and the position automaton accept the same symbol words
proof fn lemma_dfa_language(re: Regex, c: Map<RegexId, DFAId>, dfa: DFA, sid: Map<ISet<u32>, u32>, w: Seq<Inp>)
    requires subset_ok(re, c, dfa, sid)
    ensures dfa_accepts(dfa, w) == pos_accepts(re, c, w)
{
    lemma_run_tracks_reach(re, c, dfa, sid, w);
    let r = reach(re, c, w);
    if w.len() == 0 || nonempty(r) {
        let q = sid[r];
        if dfa.accepting_states@.contains(q) {
            assert(acc_wit(sid, re.endmarker_position, q));
            let s = choose|s: ISet<u32>| #[trigger] sid.contains_key(s) && sid[s] == q && s.contains(re.endmarker_position);
            assert(s == r);
        }
        if r.contains(re.endmarker_position) {
            assert(acc_wit(sid, re.endmarker_position, q));
        }
    }
}

} // verus!
