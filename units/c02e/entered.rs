// C03 / C06 (preconditions of the minimiser, proved of the subset construction): every row of the
// table belongs to a numbered set of positions, and every numbered set other than the first one is
// the target of some cell. Kept beside wl_inv through the worklist loop of dfa_from_regex.
verus! {

/// some cell of the table leads to v
spec fn entered(tr: Map<u32, Map<InpId, u32>>, v: u32) -> bool {
    exists|q: u32, a: InpId| #[trigger] used_t(tr, q, a) && tr[q][a] == v
}

spec fn wl_extra(sid: Map<ISet<u32>, u32>, tr: Map<u32, Map<InpId, u32>>, first: ISet<u32>) -> bool {
    (forall|q: u32| #[trigger] tr.contains_key(q) ==> exists|s: ISet<u32>| #[trigger] sid.contains_key(s) && sid[s] == q)
    && (forall|s: ISet<u32>| #[trigger] sid.contains_key(s) && s != first ==> entered(tr, sid[s]))
}

proof fn lemma_extra_init(first: ISet<u32>, id: u32)
    ensures wl_extra(Map::<ISet<u32>, u32>::empty().insert(first, id), Map::<u32, Map<InpId, u32>>::empty(), first)
{
}

/// `transitions.entry(id).or_default()` for the id of a numbered set
proof fn lemma_extra_row(sid: Map<ISet<u32>, u32>, tr: Map<u32, Map<InpId, u32>>, tr2: Map<u32, Map<InpId, u32>>, first: ISet<u32>, cs: ISet<u32>, id: u32)
    requires
        wl_extra(sid, tr, first), sid.contains_key(cs), sid[cs] == id,
        tr.contains_key(id) ==> tr2 == tr,
        !tr.contains_key(id) ==> tr2 == tr.insert(id, Map::<InpId, u32>::empty()),
    ensures wl_extra(sid, tr2, first)
{
    assert forall|s: ISet<u32>| #[trigger] sid.contains_key(s) && s != first implies entered(tr2, sid[s]) by {
        assert(entered(tr, sid[s]));
        let (q, a) = choose|q: u32, a: InpId| #[trigger] used_t(tr, q, a) && tr[q][a] == sid[s];
        assert(used_t(tr2, q, a) && tr2[q][a] == sid[s]);
    }
    assert forall|q: u32| #[trigger] tr2.contains_key(q) implies exists|s: ISet<u32>| #[trigger] sid.contains_key(s) && sid[s] == q by {
        if q == id { assert(sid.contains_key(cs)); } else { assert(tr.contains_key(q)); }
    }
}

/// one step of the row loop (the same state change as in lemma_row_step)
proof fn lemma_extra_step(sid: Map<ISet<u32>, u32>, tr: Map<u32, Map<InpId, u32>>, next: u32, first: ISet<u32>, id: u32, j: int, tg: ISet<u32>,
                          sid2: Map<ISet<u32>, u32>, tr2: Map<u32, Map<InpId, u32>>)
    requires
        wl_extra(sid, tr, first), sid.contains_key(first), tr.contains_key(id), !tr[id].contains_key(id_of(j)),
        nonempty(tg) ==> (sid.contains_key(tg) ==> sid2 == sid) && (!sid.contains_key(tg) ==> sid2 == sid.insert(tg, next))
            && tr2 == tr.insert(id, tr[id].insert(id_of(j), sid2[tg])),
        !nonempty(tg) ==> sid2 == sid && tr2 == tr,
    ensures wl_extra(sid2, tr2, first)
{
    if nonempty(tg) {
        assert(sid2.contains_key(tg));
        assert forall|q: u32| #[trigger] tr2.contains_key(q) implies exists|s: ISet<u32>| #[trigger] sid2.contains_key(s) && sid2[s] == q by {
            assert(tr.contains_key(q));
            let s = choose|s: ISet<u32>| #[trigger] sid.contains_key(s) && sid[s] == q;
            assert(sid2.contains_key(s) && sid2[s] == q) by { if !sid.contains_key(tg) { assert(s != tg); } }
        }
        assert forall|s: ISet<u32>| #[trigger] sid2.contains_key(s) && s != first implies entered(tr2, sid2[s]) by {
            if s == tg {
                assert(used_t(tr2, id, id_of(j)) && tr2[id][id_of(j)] == sid2[tg]);
            } else {
                assert(sid.contains_key(s) && sid2[s] == sid[s]);
                assert(entered(tr, sid[s]));
                let (q, a) = choose|q: u32, a: InpId| #[trigger] used_t(tr, q, a) && tr[q][a] == sid[s];
                assert(!(q == id && a == id_of(j)));
                assert(used_t(tr2, q, a) && tr2[q][a] == sid[s]);
            }
        }
    }
}

/// what the minimiser needs of the finished table
proof fn lemma_min_pre(re: Regex, c: Map<RegexId, DFAId>, dfa: DFA, sid: Map<ISet<u32>, u32>, next: u32)
    requires
        subset_ok(re, c, dfa, sid), wl_extra(sid, dfa.transitions@, s_first(re.arena@, nid(re.root_id))),
        forall|s: ISet<u32>| #[trigger] sid.contains_key(s) ==> FIRST_STATE_ID <= sid[s] < next,
        keys_in_pool(dfa.transitions@, dfa.inputs@.len() as int),
    ensures no_zero(dfa), all_have_pred(dfa), acc_occur(dfa), rows_total(dfa)
{
    reveal(no_zero);
    reveal(all_have_pred);
    reveal(rows_total);
    let tr = dfa.transitions@;
    let first = s_first(re.arena@, nid(re.root_id));
    // every end of a transition is the number of a set
    assert forall|q: u32, a: InpId| #[trigger] used(dfa, q, a) implies
        (exists|s: ISet<u32>| #[trigger] sid.contains_key(s) && sid[s] == q) && (exists|t: ISet<u32>| #[trigger] sid.contains_key(t) && sid[t] == tr[q][a]) by {
        assert(tr.contains_key(q));
        let s = choose|s: ISet<u32>| #[trigger] sid.contains_key(s) && sid[s] == q;
        assert(row_ok(re, c, sid, tr, dfa.inputs@, s, dfa.inputs@.len() as int));
        assert(used_t(tr, q, a));
        let i = choose|i: int| 0 <= i < dfa.inputs@.len() && a == #[trigger] id_of(i);
        assert(cell_ok(re, c, sid, tr[sid[s]], dfa.inputs@, s, i, dfa.inputs@.len() as int));
        let t = target(re, c, s, dfa.inputs@[i]);
        assert(sid.contains_key(t) && sid[t] == tr[q][a]);
    }
    assert forall|q: u32, a: InpId| #[trigger] used(dfa, q, a) implies q != DEAD_STATE_ID && tr[q][a] != DEAD_STATE_ID by {
        let s = choose|s: ISet<u32>| #[trigger] sid.contains_key(s) && sid[s] == q;
        let t = choose|t: ISet<u32>| #[trigger] sid.contains_key(t) && sid[t] == tr[q][a];
        assert(sid.contains_key(s) && sid.contains_key(t));
    }
    assert(!dfa.accepting_states@.contains(DEAD_STATE_ID)) by {
        if dfa.accepting_states@.contains(DEAD_STATE_ID) {
            assert(acc_wit(sid, re.endmarker_position, DEAD_STATE_ID));
            let s = choose|s: ISet<u32>| #[trigger] sid.contains_key(s) && sid[s] == DEAD_STATE_ID && s.contains(re.endmarker_position);
            assert(sid.contains_key(s));
        }
    }
    assert forall|v: u32| #[trigger] is_end(dfa, v) && v != dfa.starting_state implies exists|p: u32, a: InpId| #[trigger] used(dfa, p, a) && tr[p][a] == v by {
        let (q, a) = choose|q: u32, a: InpId| #[trigger] used(dfa, q, a) && (q == v || tr[q][a] == v);
        let s = choose|s: ISet<u32>| #[trigger] sid.contains_key(s) && sid[s] == q;
        let t = choose|t: ISet<u32>| #[trigger] sid.contains_key(t) && sid[t] == tr[q][a];
        let sv = if q == v { s } else { t };
        assert(sid.contains_key(sv) && sid[sv] == v);
        assert(sv != first);
        assert(entered(tr, sid[sv]));
        let (p, b) = choose|p: u32, b: InpId| #[trigger] used_t(tr, p, b) && tr[p][b] == v;
        assert(used(dfa, p, b));
    }
    assert forall|v: u32| #[trigger] is_end(dfa, v) implies tr.contains_key(v) by {
        let (q, a) = choose|q: u32, a: InpId| #[trigger] used(dfa, q, a) && (q == v || tr[q][a] == v);
        let s = choose|s: ISet<u32>| #[trigger] sid.contains_key(s) && sid[s] == q;
        let t = choose|t: ISet<u32>| #[trigger] sid.contains_key(t) && sid[t] == tr[q][a];
        let sv = if q == v { s } else { t };
        assert(row_ok(re, c, sid, tr, dfa.inputs@, sv, dfa.inputs@.len() as int));
    }
    assert forall|v: u32| dfa.accepting_states@.contains(v) && v != dfa.starting_state implies is_end(dfa, v) by {
        assert(acc_wit(sid, re.endmarker_position, v));
        let s = choose|s: ISet<u32>| #[trigger] sid.contains_key(s) && sid[s] == v && s.contains(re.endmarker_position);
        assert(s != first);
        assert(entered(tr, sid[s]));
        let (p, b) = choose|p: u32, b: InpId| #[trigger] used_t(tr, p, b) && tr[p][b] == v;
        assert(used(dfa, p, b));
    }
}


/// every numbered set is reached from the first one through cells of the table
spec fn wl_reach(sid: Map<ISet<u32>, u32>, tr: Map<u32, Map<InpId, u32>>) -> bool {
    forall|s: ISet<u32>| #[trigger] sid.contains_key(s) ==> exists|w: Seq<InpId>| trun(tr, FIRST_STATE_ID, w) == Some(sid[s])
}

/// tr2 has every cell of tr
spec fn cells_kept(tr: Map<u32, Map<InpId, u32>>, tr2: Map<u32, Map<InpId, u32>>) -> bool {
    forall|q: u32, a: InpId| #[trigger] cell_in(tr, q, a) ==> cell_in(tr2, q, a) && tr2[q][a] == tr[q][a]
}

proof fn lemma_trun_mono(tr: Map<u32, Map<InpId, u32>>, tr2: Map<u32, Map<InpId, u32>>, q: u32, w: Seq<InpId>)
    requires cells_kept(tr, tr2), trun(tr, q, w) is Some
    ensures trun(tr2, q, w) == trun(tr, q, w)
    decreases w.len()
{
    if w.len() > 0 {
        assert(cell_in(tr, q, w[0]));
        lemma_trun_mono(tr, tr2, tr[q][w[0]], w.drop_first());
    }
}

proof fn lemma_trun_snoc2(tab: Map<u32, Map<InpId, u32>>, q: u32, w: Seq<InpId>, a: InpId)
    ensures trun(tab, q, w.push(a)) == (match trun(tab, q, w) {
        None => None::<u32>,
        Some(p) => if cell_in(tab, p, a) { Some(tab[p][a]) } else { None },
    })
    decreases w.len()
{
    let wa = w.push(a);
    if w.len() == 0 {
        assert(wa[0] == a);
        assert(wa.drop_first() =~= Seq::<InpId>::empty());
        if cell_in(tab, q, a) { assert(trun(tab, tab[q][a], wa.drop_first()) == Some(tab[q][a])); }
    } else {
        assert(wa[0] == w[0]);
        assert(wa.drop_first() =~= w.drop_first().push(a));
        if cell_in(tab, q, w[0]) { lemma_trun_snoc2(tab, tab[q][w[0]], w.drop_first(), a); }
    }
}

proof fn lemma_reach_init(first: ISet<u32>)
    ensures wl_reach(Map::<ISet<u32>, u32>::empty().insert(first, FIRST_STATE_ID), Map::<u32, Map<InpId, u32>>::empty())
{
    let sid = Map::<ISet<u32>, u32>::empty().insert(first, FIRST_STATE_ID);
    let tr = Map::<u32, Map<InpId, u32>>::empty();
    assert forall|s: ISet<u32>| #[trigger] sid.contains_key(s) implies exists|w: Seq<InpId>| trun(tr, FIRST_STATE_ID, w) == Some(sid[s]) by {
        assert(trun(tr, FIRST_STATE_ID, Seq::<InpId>::empty()) == Some(sid[s]));
    }
}

proof fn lemma_reach_keep(sid: Map<ISet<u32>, u32>, tr: Map<u32, Map<InpId, u32>>, tr2: Map<u32, Map<InpId, u32>>)
    requires wl_reach(sid, tr), cells_kept(tr, tr2)
    ensures wl_reach(sid, tr2)
{
    assert forall|s: ISet<u32>| #[trigger] sid.contains_key(s) implies exists|w: Seq<InpId>| trun(tr2, FIRST_STATE_ID, w) == Some(sid[s]) by {
        let w = choose|w: Seq<InpId>| trun(tr, FIRST_STATE_ID, w) == Some(sid[s]);
        lemma_trun_mono(tr, tr2, FIRST_STATE_ID, w);
    }
}

/// `transitions.entry(id).or_default()`
proof fn lemma_reach_row(sid: Map<ISet<u32>, u32>, tr: Map<u32, Map<InpId, u32>>, tr2: Map<u32, Map<InpId, u32>>, id: u32)
    requires
        wl_reach(sid, tr),
        tr.contains_key(id) ==> tr2 == tr,
        !tr.contains_key(id) ==> tr2 == tr.insert(id, Map::<InpId, u32>::empty()),
    ensures wl_reach(sid, tr2)
{
    assert(cells_kept(tr, tr2));
    lemma_reach_keep(sid, tr, tr2);
}

/// one step of the row loop
proof fn lemma_reach_step(sid: Map<ISet<u32>, u32>, tr: Map<u32, Map<InpId, u32>>, next: u32, cs: ISet<u32>, id: u32, j: int, tg: ISet<u32>,
                          sid2: Map<ISet<u32>, u32>, tr2: Map<u32, Map<InpId, u32>>)
    requires
        wl_reach(sid, tr), sid.contains_key(cs), sid[cs] == id, tr.contains_key(id), !tr[id].contains_key(id_of(j)),
        nonempty(tg) ==> (sid.contains_key(tg) ==> sid2 == sid) && (!sid.contains_key(tg) ==> sid2 == sid.insert(tg, next))
            && tr2 == tr.insert(id, tr[id].insert(id_of(j), sid2[tg])),
        !nonempty(tg) ==> sid2 == sid && tr2 == tr,
    ensures wl_reach(sid2, tr2)
{
    if nonempty(tg) {
        assert(cells_kept(tr, tr2)) by {
            assert forall|q: u32, a: InpId| #[trigger] cell_in(tr, q, a) implies cell_in(tr2, q, a) && tr2[q][a] == tr[q][a] by {
                assert(!(q == id && a == id_of(j)));
            }
        }
        lemma_reach_keep(sid, tr, tr2);
        assert forall|s: ISet<u32>| #[trigger] sid2.contains_key(s) implies exists|w: Seq<InpId>| trun(tr2, FIRST_STATE_ID, w) == Some(sid2[s]) by {
            if sid.contains_key(s) {
                assert(sid2[s] == sid[s]);
            } else {
                assert(s == tg);
                let w = choose|w: Seq<InpId>| trun(tr2, FIRST_STATE_ID, w) == Some(sid[cs]);
                lemma_trun_snoc2(tr2, FIRST_STATE_ID, w, id_of(j));
                assert(cell_in(tr2, id, id_of(j)) && tr2[id][id_of(j)] == sid2[tg]);
                assert(trun(tr2, FIRST_STATE_ID, w.push(id_of(j))) == Some(sid2[tg]));
            }
        }
    }
}

proof fn lemma_min_reach(re: Regex, c: Map<RegexId, DFAId>, dfa: DFA, sid: Map<ISet<u32>, u32>, next: u32)
    requires
        subset_ok(re, c, dfa, sid), wl_extra(sid, dfa.transitions@, s_first(re.arena@, nid(re.root_id))), wl_reach(sid, dfa.transitions@),
        keys_in_pool(dfa.transitions@, dfa.inputs@.len() as int),
    ensures reach_ok(dfa)
{
    reveal(reach_ok);
    let tr = dfa.transitions@;
    assert forall|v: u32| #[trigger] is_end(dfa, v) implies exists|w: Seq<InpId>| trun(tr, dfa.starting_state, w) == Some(v) by {
        let (q, a) = choose|q: u32, a: InpId| #[trigger] used(dfa, q, a) && (q == v || tr[q][a] == v);
        assert(tr.contains_key(q));
        let s = choose|s: ISet<u32>| #[trigger] sid.contains_key(s) && sid[s] == q;
        assert(row_ok(re, c, sid, tr, dfa.inputs@, s, dfa.inputs@.len() as int));
        assert(used_t(tr, q, a));
        let i = choose|i: int| 0 <= i < dfa.inputs@.len() && a == #[trigger] id_of(i);
        assert(cell_ok(re, c, sid, tr[sid[s]], dfa.inputs@, s, i, dfa.inputs@.len() as int));
        let t = target(re, c, s, dfa.inputs@[i]);
        assert(sid.contains_key(t) && sid[t] == tr[q][a]);
        let sv = if q == v { s } else { t };
        assert(sid.contains_key(sv) && sid[sv] == v);
    }
}

} // verus!
