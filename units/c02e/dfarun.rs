// the run of an automaton over a word of symbols (shared by units c02e and min)
verus! {

/// the transition of state q on the symbol a, if any (a is looked up in the symbol pool)
spec fn dfa_step(dfa: DFA, q: u32, a: Inp) -> Option<u32> {
    if exists|i: int| 0 <= i < dfa.inputs@.len() && dfa.inputs@[i] == a {
        let i = choose|i: int| 0 <= i < dfa.inputs@.len() && dfa.inputs@[i] == a;
        if dfa.transitions@.contains_key(q) && dfa.transitions@[q].contains_key(id_of(i)) { Some(dfa.transitions@[q][id_of(i)]) } else { None }
    } else { None }
}

spec fn dfa_run(dfa: DFA, w: Seq<Inp>) -> Option<u32>
    decreases w.len()
{
    if w.len() == 0 { Some(dfa.starting_state) } else {
        match dfa_run(dfa, w.drop_last()) {
            None => None,
            Some(q) => dfa_step(dfa, q, w.last()),
        }
    }
}

spec fn dfa_accepts(dfa: DFA, w: Seq<Inp>) -> bool {
    dfa_run(dfa, w) is Some && dfa.accepting_states@.contains(dfa_run(dfa, w)->0)
}

} // verus!
