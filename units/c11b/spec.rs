// C11: "`<X>` stands for the `<X@S>` definition if there is one ... definitions for other shells
// never influence the result": Grammar::get_specializations returns, for the target shell S,
// exactly the `<X@S>` command definitions (and, for the names so specialised, their plain command
// definitions as the fallback for shells that take no compadd); definitions for other shells can
// only make it fail (unknown shell name, non-command right-hand side), never change the tables.
verus! {

/// `#[derive(PartialEq)]` on the field-less enum Shell compares the variants
impl vstd::std_specs::cmp::PartialEqSpecImpl for Shell {
    open spec fn obeys_eq_spec() -> bool { true }
    open spec fn eq_spec(&self, other: &Shell) -> bool { *self == *other }
}

/// D[i] is a definition of n for the target shell
spec fn target_def(d: NontermDefn, n: Ustr, sh: Shell) -> bool {
    d.lhs_name == n && d.shell is Some && shell_named((d.shell->0).0@) == Some(sh)
}
spec fn plain_def(d: NontermDefn, n: Ustr) -> bool {
    d.lhs_name == n && d.shell is None
}
spec fn has_target_def(ds: Seq<NontermDefn>, upto: int, n: Ustr, sh: Shell) -> bool {
    exists|i: int| 0 <= i < upto && i < ds.len() && #[trigger] target_def(ds[i], n, sh)
}
spec fn has_plain_def(ds: Seq<NontermDefn>, upto: int, n: Ustr) -> bool {
    exists|i: int| 0 <= i < upto && i < ds.len() && #[trigger] plain_def(ds[i], n)
}
spec fn cmd_of(a: Seq<Expr>, d: NontermDefn) -> Option<Ustr> {
    if 0 <= d.rhs_expr_id.0 < a.len() {
        match a[d.rhs_expr_id.0 as int] { Expr::Command { cmd, .. } => Some(cmd), _ => None }
    } else { None }
}

/// the mistakes get_specializations reports
spec fn non_command_spec(a: Seq<Expr>, ds: Seq<NontermDefn>, sh: Shell) -> bool {
    exists|i: int| 0 <= i < ds.len() && cmd_of(a, #[trigger] ds[i]) is None
        && (ds[i].shell is Some || has_target_def(ds, ds.len() as int, ds[i].lhs_name, sh))
}
spec fn duplicate_spec(ds: Seq<NontermDefn>, sh: Shell) -> bool {
    exists|i: int, j: int| 0 <= i < j < ds.len() && (#[trigger] ds[i]).lhs_name == (#[trigger] ds[j]).lhs_name
        && ((target_def(ds[i], ds[i].lhs_name, sh) && target_def(ds[j], ds[j].lhs_name, sh)) || (ds[i].shell is None && ds[j].shell is None && has_target_def(ds, ds.len() as int, ds[i].lhs_name, sh)))
}
spec fn unknown_shell_spec(ds: Seq<NontermDefn>) -> bool {
    exists|i: int| 0 <= i < ds.len() && (#[trigger] ds[i]).shell is Some && shell_named((ds[i].shell->0).0@) is None
}

proof fn lemma_target_step(ds: Seq<NontermDefn>, n: int, x: Ustr, sh: Shell)
    requires 0 <= n < ds.len()
    ensures has_target_def(ds, n + 1, x, sh) == (has_target_def(ds, n, x, sh) || target_def(ds[n], x, sh))
{
    if has_target_def(ds, n + 1, x, sh) {
        let i = choose|i: int| 0 <= i < n + 1 && i < ds.len() && #[trigger] target_def(ds[i], x, sh);
        if i < n { assert(has_target_def(ds, n, x, sh)); }
    }
    if has_target_def(ds, n, x, sh) {
        let i = choose|i: int| 0 <= i < n && i < ds.len() && #[trigger] target_def(ds[i], x, sh);
        assert(has_target_def(ds, n + 1, x, sh));
    }
    if target_def(ds[n], x, sh) { assert(has_target_def(ds, n + 1, x, sh)); }
}

proof fn lemma_plain_step(ds: Seq<NontermDefn>, n: int, x: Ustr)
    requires 0 <= n < ds.len()
    ensures has_plain_def(ds, n + 1, x) == (has_plain_def(ds, n, x) || plain_def(ds[n], x))
{
    if has_plain_def(ds, n + 1, x) {
        let i = choose|i: int| 0 <= i < n + 1 && i < ds.len() && #[trigger] plain_def(ds[i], x);
        if i < n { assert(has_plain_def(ds, n, x)); }
    }
    if has_plain_def(ds, n, x) {
        let i = choose|i: int| 0 <= i < n && i < ds.len() && #[trigger] plain_def(ds[i], x);
        assert(has_plain_def(ds, n + 1, x));
    }
    if plain_def(ds[n], x) { assert(has_plain_def(ds, n + 1, x)); }
}

} // verus!
