// C07 specification: independent decoders for each shell's double-quoted string syntax, written
// from the shell manuals (NOT from complgen), and the lemmas connecting a chain of
// single-character replaces to them. No executable code of complgen appears here.
verus! {

pub open spec fn tail(t: Seq<char>, n: int) -> Seq<char> { t.subrange(n, t.len() as int) }

// ---------------------------------------------------------------------------------------------
// bash (Bash Reference Manual 3.1.2.3 Double Quotes): inside "...", `$` and '`' keep their
// special meaning (=> the text is not inert: None); `\` is an escape only before $ ` " \ and
// newline (line continuation: both removed), otherwise it stays; the first unescaped " ends the
// string and must be the last character of the token.
pub open spec fn bash_body(t: Seq<char>) -> Option<Seq<char>>
    decreases t.len()
{
    if t.len() == 0 { None }
    else if t[0] == '"' { if t.len() == 1 { Some(Seq::<char>::empty()) } else { None } }
    else if t[0] == '$' || t[0] == '`' { None }
    else if t[0] == '\\' {
        if t.len() < 2 { None }
        else if t[1] == '$' || t[1] == '`' || t[1] == '"' || t[1] == '\\' {
            match bash_body(tail(t, 2)) { Some(r) => Some(seq![t[1]] + r), None => None }
        } else if t[1] == '\n' { bash_body(tail(t, 2)) }
        else { match bash_body(tail(t, 1)) { Some(r) => Some(seq!['\\'] + r), None => None } }
    } else {
        match bash_body(tail(t, 1)) { Some(r) => Some(seq![t[0]] + r), None => None }
    }
}
pub open spec fn dq_decode_bash(t: Seq<char>) -> Option<Seq<char>> {
    if t.len() >= 1 && t[0] == '"' { bash_body(tail(t, 1)) } else { None }
}

// zsh (zshmisc QUOTING): inside double quotes `\` quotes the characters \ ` " $ (and newline
// is a continuation); parameter and command substitution occur.
pub open spec fn zsh_body(t: Seq<char>) -> Option<Seq<char>>
    decreases t.len()
{
    if t.len() == 0 { None }
    else if t[0] == '"' { if t.len() == 1 { Some(Seq::<char>::empty()) } else { None } }
    else if t[0] == '$' || t[0] == '`' { None }
    else if t[0] == '\\' {
        if t.len() < 2 { None }
        else if t[1] == '$' || t[1] == '`' || t[1] == '"' || t[1] == '\\' {
            match zsh_body(tail(t, 2)) { Some(r) => Some(seq![t[1]] + r), None => None }
        } else if t[1] == '\n' { zsh_body(tail(t, 2)) }
        else { match zsh_body(tail(t, 1)) { Some(r) => Some(seq!['\\'] + r), None => None } }
    } else {
        match zsh_body(tail(t, 1)) { Some(r) => Some(seq![t[0]] + r), None => None }
    }
}
pub open spec fn dq_decode_zsh(t: Seq<char>) -> Option<Seq<char>> {
    if t.len() >= 1 && t[0] == '"' { zsh_body(tail(t, 1)) } else { None }
}

// fish (fish language, Quotes): inside double quotes the only backslash escapes are \" \$ \\
// and \newline (removed); `$` starts variable / command substitution; a backtick is an
// ordinary character.
pub open spec fn fish_body(t: Seq<char>) -> Option<Seq<char>>
    decreases t.len()
{
    if t.len() == 0 { None }
    else if t[0] == '"' { if t.len() == 1 { Some(Seq::<char>::empty()) } else { None } }
    else if t[0] == '$' { None }
    else if t[0] == '\\' {
        if t.len() < 2 { None }
        else if t[1] == '$' || t[1] == '"' || t[1] == '\\' {
            match fish_body(tail(t, 2)) { Some(r) => Some(seq![t[1]] + r), None => None }
        } else if t[1] == '\n' { fish_body(tail(t, 2)) }
        else { match fish_body(tail(t, 1)) { Some(r) => Some(seq!['\\'] + r), None => None } }
    } else {
        match fish_body(tail(t, 1)) { Some(r) => Some(seq![t[0]] + r), None => None }
    }
}
pub open spec fn dq_decode_fish(t: Seq<char>) -> Option<Seq<char>> {
    if t.len() >= 1 && t[0] == '"' { fish_body(tail(t, 1)) } else { None }
}

// PowerShell (about_Quoting_Rules, about_Special_Characters): inside an expandable string the
// backtick is the escape character: `0 `a `b `e `f `n `r `t `v produce control characters,
// `u{..} a code point, any other `x produces x; `$` starts an expansion; "" is a literal quote;
// a single " ends the string. U+201C..U+201F (typographic double quotes) are read as " by the
// PowerShell tokenizer: text containing them is outside this decoder's domain (pwsh_plain).
pub open spec fn pwsh_escape(c: char) -> Option<char> {
    if c == '0' { Some('\0') } else if c == 'a' { Some('\x07') } else if c == 'b' { Some('\x08') }
    else if c == 'e' { Some('\x1b') } else if c == 'f' { Some('\x0c') } else if c == 'n' { Some('\n') }
    else if c == 'r' { Some('\r') } else if c == 't' { Some('\t') } else if c == 'v' { Some('\x0b') }
    else if c == 'u' { None } else { Some(c) }
}
pub open spec fn pwsh_is_dquote(c: char) -> bool {
    c == '"' || c == '\u{201C}' || c == '\u{201D}' || c == '\u{201E}' || c == '\u{201F}'
}
pub open spec fn pwsh_body(t: Seq<char>) -> Option<Seq<char>>
    decreases t.len()
{
    if t.len() == 0 { None }
    else if pwsh_is_dquote(t[0]) {
        if t.len() == 1 { Some(Seq::<char>::empty()) }
        else if pwsh_is_dquote(t[1]) { match pwsh_body(tail(t, 2)) { Some(r) => Some(seq![t[1]] + r), None => None } }
        else { None }
    }
    else if t[0] == '$' { None }
    else if t[0] == '`' {
        if t.len() < 2 { None }
        else { match pwsh_escape(t[1]) {
            Some(d) => match pwsh_body(tail(t, 2)) { Some(r) => Some(seq![d] + r), None => None },
            None => None } }
    } else {
        match pwsh_body(tail(t, 1)) { Some(r) => Some(seq![t[0]] + r), None => None }
    }
}
pub open spec fn dq_decode_pwsh(t: Seq<char>) -> Option<Seq<char>> {
    if t.len() >= 1 && t[0] == '"' { pwsh_body(tail(t, 1)) } else { None }
}
/// grammar text that PowerShell's tokenizer reads with the documented ASCII rules
pub open spec fn pwsh_plain(s: Seq<char>) -> bool {
    forall|i: int| 0 <= i < s.len() ==> !(s[i] == '\u{201C}' || s[i] == '\u{201D}' || s[i] == '\u{201E}' || s[i] == '\u{201F}')
}

// DOT (Graphviz "The DOT language"): in a double-quoted ID the only escaped character is \" ;
// for the dumps we additionally require what every DOT reader does with escString labels:
// `\\` is a backslash. The first unescaped " ends the ID.
pub open spec fn dot_body(t: Seq<char>) -> Option<Seq<char>>
    decreases t.len()
{
    if t.len() == 0 { None }
    else if t[0] == '"' { if t.len() == 1 { Some(Seq::<char>::empty()) } else { None } }
    else if t[0] == '\\' {
        if t.len() < 2 { None }
        else if t[1] == '"' || t[1] == '\\' {
            match dot_body(tail(t, 2)) { Some(r) => Some(seq![t[1]] + r), None => None }
        } else { match dot_body(tail(t, 1)) { Some(r) => Some(seq!['\\'] + r), None => None } }
    } else {
        match dot_body(tail(t, 1)) { Some(r) => Some(seq![t[0]] + r), None => None }
    }
}
pub open spec fn dq_decode_dot(t: Seq<char>) -> Option<Seq<char>> {
    if t.len() >= 1 && t[0] == '"' { dot_body(tail(t, 1)) } else { None }
}

// ---------------------------------------------------------------------------------------------
// replace chains as per-character homomorphisms

pub open spec fn rep1(x: char, c: char, r: Seq<char>) -> Seq<char> { if x == c { r } else { seq![x] } }

pub proof fn lemma_rep_pair(x: char, y: char, c: char, r: Seq<char>)
    ensures replace_char(seq![x, y], c, r) == rep1(x, c, r) + rep1(y, c, r)
{
    assert(seq![x, y] =~= seq![x] + seq![y]);
    lemma_replace_char_concat(seq![x], seq![y], c, r);
    lemma_replace_char_single(x, c, r);
    lemma_replace_char_single(y, c, r);
}

pub const BS: char = '\\';
pub const DQ: char = '"';
pub const BT: char = '`';
pub const DL: char = '$';

pub open spec fn e2(a: char, b: char) -> Seq<char> { seq![a, b] }

// chain used by zsh.rs and (after the D1 fix) bash.rs:  \ -> \\ , " -> \" , ` -> \` , $ -> \$
pub open spec fn chain_bqtd(s: Seq<char>) -> Seq<char> {
    replace_char(replace_char(replace_char(replace_char(s, BS, e2(BS, BS)), DQ, e2(BS, DQ)), BT, e2(BS, BT)), DL, e2(BS, DL))
}
pub open spec fn esc_bqtd(c: char) -> Seq<char> {
    if c == BS || c == DQ || c == BT || c == DL { e2(BS, c) } else { seq![c] }
}
pub proof fn lemma_chain_bqtd_single(c: char)
    ensures chain_bqtd(seq![c]) == esc_bqtd(c)
{
    lemma_replace_char_single(c, BS, e2(BS, BS));
    if c == BS {
        lemma_rep_pair(BS, BS, DQ, e2(BS, DQ));
        assert(rep1(BS, DQ, e2(BS, DQ)) + rep1(BS, DQ, e2(BS, DQ)) =~= e2(BS, BS));
        lemma_rep_pair(BS, BS, BT, e2(BS, BT));
        assert(rep1(BS, BT, e2(BS, BT)) + rep1(BS, BT, e2(BS, BT)) =~= e2(BS, BS));
        lemma_rep_pair(BS, BS, DL, e2(BS, DL));
        assert(rep1(BS, DL, e2(BS, DL)) + rep1(BS, DL, e2(BS, DL)) =~= e2(BS, BS));
    } else {
        lemma_replace_char_single(c, DQ, e2(BS, DQ));
        if c == DQ {
            lemma_rep_pair(BS, DQ, BT, e2(BS, BT));
            assert(rep1(BS, BT, e2(BS, BT)) + rep1(DQ, BT, e2(BS, BT)) =~= e2(BS, DQ));
            lemma_rep_pair(BS, DQ, DL, e2(BS, DL));
            assert(rep1(BS, DL, e2(BS, DL)) + rep1(DQ, DL, e2(BS, DL)) =~= e2(BS, DQ));
        } else {
            lemma_replace_char_single(c, BT, e2(BS, BT));
            if c == BT {
                lemma_rep_pair(BS, BT, DL, e2(BS, DL));
                assert(rep1(BS, DL, e2(BS, DL)) + rep1(BT, DL, e2(BS, DL)) =~= e2(BS, BT));
            } else {
                lemma_replace_char_single(c, DL, e2(BS, DL));
            }
        }
    }
}
pub proof fn lemma_chain_bqtd_concat(a: Seq<char>, b: Seq<char>)
    ensures chain_bqtd(a + b) == chain_bqtd(a) + chain_bqtd(b)
{
    let r1 = |s: Seq<char>| replace_char(s, BS, e2(BS, BS));
    let r2 = |s: Seq<char>| replace_char(s, DQ, e2(BS, DQ));
    let r3 = |s: Seq<char>| replace_char(s, BT, e2(BS, BT));
    lemma_replace_char_concat(a, b, BS, e2(BS, BS));
    lemma_replace_char_concat(r1(a), r1(b), DQ, e2(BS, DQ));
    lemma_replace_char_concat(r2(r1(a)), r2(r1(b)), BT, e2(BS, BT));
    lemma_replace_char_concat(r3(r2(r1(a))), r3(r2(r1(b))), DL, e2(BS, DL));
}

pub proof fn lemma_bash_roundtrip(s: Seq<char>)
    ensures bash_body(chain_bqtd(s) + seq![DQ]) == Some(s)
    decreases s.len()
{
    if s.len() == 0 {
        assert(chain_bqtd(s) =~= Seq::<char>::empty());
        assert(chain_bqtd(s) + seq![DQ] =~= seq![DQ]);
        assert(s =~= Seq::<char>::empty());
    } else {
        let c = s[0];
        let rest = s.subrange(1, s.len() as int);
        assert(s =~= seq![c] + rest);
        lemma_chain_bqtd_concat(seq![c], rest);
        lemma_chain_bqtd_single(c);
        lemma_bash_roundtrip(rest);
        let x = chain_bqtd(rest) + seq![DQ];
        let t = chain_bqtd(s) + seq![DQ];
        assert(t =~= esc_bqtd(c) + x);
        if c == BS || c == DQ || c == BT || c == DL {
            assert(t[0] == BS && t[1] == c);
            assert(tail(t, 2) =~= x);
            assert(seq![c] + rest =~= s);
        } else {
            assert(t[0] == c);
            assert(tail(t, 1) =~= x);
            assert(seq![c] + rest =~= s);
        }
    }
}
pub proof fn lemma_zsh_roundtrip(s: Seq<char>)
    ensures zsh_body(chain_bqtd(s) + seq![DQ]) == Some(s)
    decreases s.len()
{
    if s.len() == 0 {
        assert(chain_bqtd(s) =~= Seq::<char>::empty());
        assert(chain_bqtd(s) + seq![DQ] =~= seq![DQ]);
        assert(s =~= Seq::<char>::empty());
    } else {
        let c = s[0];
        let rest = s.subrange(1, s.len() as int);
        assert(s =~= seq![c] + rest);
        lemma_chain_bqtd_concat(seq![c], rest);
        lemma_chain_bqtd_single(c);
        lemma_zsh_roundtrip(rest);
        let x = chain_bqtd(rest) + seq![DQ];
        let t = chain_bqtd(s) + seq![DQ];
        assert(t =~= esc_bqtd(c) + x);
        if c == BS || c == DQ || c == BT || c == DL {
            assert(t[0] == BS && t[1] == c);
            assert(tail(t, 2) =~= x);
            assert(seq![c] + rest =~= s);
        } else {
            assert(t[0] == c);
            assert(tail(t, 1) =~= x);
            assert(seq![c] + rest =~= s);
        }
    }
}

// chain used by fish.rs:  \ -> \\ , " -> \" , $ -> \$
pub open spec fn chain_bqd(s: Seq<char>) -> Seq<char> {
    replace_char(replace_char(replace_char(s, BS, e2(BS, BS)), DQ, e2(BS, DQ)), DL, e2(BS, DL))
}
pub open spec fn esc_bqd(c: char) -> Seq<char> {
    if c == BS || c == DQ || c == DL { e2(BS, c) } else { seq![c] }
}
pub proof fn lemma_chain_bqd_single(c: char)
    ensures chain_bqd(seq![c]) == esc_bqd(c)
{
    lemma_replace_char_single(c, BS, e2(BS, BS));
    if c == BS {
        lemma_rep_pair(BS, BS, DQ, e2(BS, DQ));
        assert(rep1(BS, DQ, e2(BS, DQ)) + rep1(BS, DQ, e2(BS, DQ)) =~= e2(BS, BS));
        lemma_rep_pair(BS, BS, DL, e2(BS, DL));
        assert(rep1(BS, DL, e2(BS, DL)) + rep1(BS, DL, e2(BS, DL)) =~= e2(BS, BS));
    } else {
        lemma_replace_char_single(c, DQ, e2(BS, DQ));
        if c == DQ {
            lemma_rep_pair(BS, DQ, DL, e2(BS, DL));
            assert(rep1(BS, DL, e2(BS, DL)) + rep1(DQ, DL, e2(BS, DL)) =~= e2(BS, DQ));
        } else {
            lemma_replace_char_single(c, DL, e2(BS, DL));
        }
    }
}
pub proof fn lemma_chain_bqd_concat(a: Seq<char>, b: Seq<char>)
    ensures chain_bqd(a + b) == chain_bqd(a) + chain_bqd(b)
{
    let r1 = |s: Seq<char>| replace_char(s, BS, e2(BS, BS));
    let r2 = |s: Seq<char>| replace_char(s, DQ, e2(BS, DQ));
    lemma_replace_char_concat(a, b, BS, e2(BS, BS));
    lemma_replace_char_concat(r1(a), r1(b), DQ, e2(BS, DQ));
    lemma_replace_char_concat(r2(r1(a)), r2(r1(b)), DL, e2(BS, DL));
}
pub proof fn lemma_fish_roundtrip(s: Seq<char>)
    ensures fish_body(chain_bqd(s) + seq![DQ]) == Some(s)
    decreases s.len()
{
    if s.len() == 0 {
        assert(chain_bqd(s) =~= Seq::<char>::empty());
        assert(chain_bqd(s) + seq![DQ] =~= seq![DQ]);
        assert(s =~= Seq::<char>::empty());
    } else {
        let c = s[0];
        let rest = s.subrange(1, s.len() as int);
        assert(s =~= seq![c] + rest);
        lemma_chain_bqd_concat(seq![c], rest);
        lemma_chain_bqd_single(c);
        lemma_fish_roundtrip(rest);
        let x = chain_bqd(rest) + seq![DQ];
        let t = chain_bqd(s) + seq![DQ];
        assert(t =~= esc_bqd(c) + x);
        if c == BS || c == DQ || c == DL {
            assert(t[0] == BS && t[1] == c);
            assert(tail(t, 2) =~= x);
            assert(seq![c] + rest =~= s);
        } else {
            assert(t[0] == c);
            assert(tail(t, 1) =~= x);
            assert(seq![c] + rest =~= s);
        }
    }
}

// chain used by regex.rs make_dot_string_constant:  \ -> \\ , " -> \"
pub open spec fn chain_bq(s: Seq<char>) -> Seq<char> {
    replace_char(replace_char(s, BS, e2(BS, BS)), DQ, e2(BS, DQ))
}
pub open spec fn esc_bq(c: char) -> Seq<char> {
    if c == BS || c == DQ { e2(BS, c) } else { seq![c] }
}
pub proof fn lemma_chain_bq_single(c: char)
    ensures chain_bq(seq![c]) == esc_bq(c)
{
    lemma_replace_char_single(c, BS, e2(BS, BS));
    if c == BS {
        lemma_rep_pair(BS, BS, DQ, e2(BS, DQ));
        assert(rep1(BS, DQ, e2(BS, DQ)) + rep1(BS, DQ, e2(BS, DQ)) =~= e2(BS, BS));
    } else {
        lemma_replace_char_single(c, DQ, e2(BS, DQ));
    }
}
pub proof fn lemma_chain_bq_concat(a: Seq<char>, b: Seq<char>)
    ensures chain_bq(a + b) == chain_bq(a) + chain_bq(b)
{
    let r1 = |s: Seq<char>| replace_char(s, BS, e2(BS, BS));
    lemma_replace_char_concat(a, b, BS, e2(BS, BS));
    lemma_replace_char_concat(r1(a), r1(b), DQ, e2(BS, DQ));
}
pub proof fn lemma_dot_roundtrip(s: Seq<char>)
    ensures dot_body(chain_bq(s) + seq![DQ]) == Some(s)
    decreases s.len()
{
    if s.len() == 0 {
        assert(chain_bq(s) =~= Seq::<char>::empty());
        assert(chain_bq(s) + seq![DQ] =~= seq![DQ]);
        assert(s =~= Seq::<char>::empty());
    } else {
        let c = s[0];
        let rest = s.subrange(1, s.len() as int);
        assert(s =~= seq![c] + rest);
        lemma_chain_bq_concat(seq![c], rest);
        lemma_chain_bq_single(c);
        lemma_dot_roundtrip(rest);
        let x = chain_bq(rest) + seq![DQ];
        let t = chain_bq(s) + seq![DQ];
        assert(t =~= esc_bq(c) + x);
        if c == BS || c == DQ {
            assert(t[0] == BS && t[1] == c);
            assert(tail(t, 2) =~= x);
            assert(seq![c] + rest =~= s);
        } else {
            assert(t[0] == c);
            assert(tail(t, 1) =~= x);
            assert(seq![c] + rest =~= s);
        }
    }
}

// chain used by pwsh.rs:  ` -> `` , " -> `" , $ -> `$ , \n -> `n , \r -> `r
pub const NL: char = '\n';
pub const CR: char = '\r';
pub open spec fn chain_pwsh(s: Seq<char>) -> Seq<char> {
    replace_char(replace_char(replace_char(replace_char(replace_char(s, BT, e2(BT, BT)), DQ, e2(BT, DQ)), DL, e2(BT, DL)), NL, e2(BT, 'n')), CR, e2(BT, 'r'))
}
pub open spec fn esc_pwsh(c: char) -> Seq<char> {
    if c == BT || c == DQ || c == DL { e2(BT, c) } else if c == NL { e2(BT, 'n') } else if c == CR { e2(BT, 'r') } else { seq![c] }
}
pub proof fn lemma_chain_pwsh_single(c: char)
    ensures chain_pwsh(seq![c]) == esc_pwsh(c)
{
    let rb = e2(BT, BT); let rq = e2(BT, DQ); let rd = e2(BT, DL); let rn = e2(BT, 'n'); let rr = e2(BT, 'r');
    lemma_replace_char_single(c, BT, rb);
    if c == BT {
        lemma_rep_pair(BT, BT, DQ, rq); assert(rep1(BT, DQ, rq) + rep1(BT, DQ, rq) =~= e2(BT, BT));
        lemma_rep_pair(BT, BT, DL, rd); assert(rep1(BT, DL, rd) + rep1(BT, DL, rd) =~= e2(BT, BT));
        lemma_rep_pair(BT, BT, NL, rn); assert(rep1(BT, NL, rn) + rep1(BT, NL, rn) =~= e2(BT, BT));
        lemma_rep_pair(BT, BT, CR, rr); assert(rep1(BT, CR, rr) + rep1(BT, CR, rr) =~= e2(BT, BT));
    } else {
        lemma_replace_char_single(c, DQ, rq);
        if c == DQ {
            lemma_rep_pair(BT, DQ, DL, rd); assert(rep1(BT, DL, rd) + rep1(DQ, DL, rd) =~= e2(BT, DQ));
            lemma_rep_pair(BT, DQ, NL, rn); assert(rep1(BT, NL, rn) + rep1(DQ, NL, rn) =~= e2(BT, DQ));
            lemma_rep_pair(BT, DQ, CR, rr); assert(rep1(BT, CR, rr) + rep1(DQ, CR, rr) =~= e2(BT, DQ));
        } else {
            lemma_replace_char_single(c, DL, rd);
            if c == DL {
                lemma_rep_pair(BT, DL, NL, rn); assert(rep1(BT, NL, rn) + rep1(DL, NL, rn) =~= e2(BT, DL));
                lemma_rep_pair(BT, DL, CR, rr); assert(rep1(BT, CR, rr) + rep1(DL, CR, rr) =~= e2(BT, DL));
            } else {
                lemma_replace_char_single(c, NL, rn);
                if c == NL {
                    lemma_rep_pair(BT, 'n', CR, rr); assert(rep1(BT, CR, rr) + rep1('n', CR, rr) =~= e2(BT, 'n'));
                } else {
                    lemma_replace_char_single(c, CR, rr);
                }
            }
        }
    }
}
pub proof fn lemma_chain_pwsh_concat(a: Seq<char>, b: Seq<char>)
    ensures chain_pwsh(a + b) == chain_pwsh(a) + chain_pwsh(b)
{
    let r1 = |s: Seq<char>| replace_char(s, BT, e2(BT, BT));
    let r2 = |s: Seq<char>| replace_char(s, DQ, e2(BT, DQ));
    let r3 = |s: Seq<char>| replace_char(s, DL, e2(BT, DL));
    let r4 = |s: Seq<char>| replace_char(s, NL, e2(BT, 'n'));
    lemma_replace_char_concat(a, b, BT, e2(BT, BT));
    lemma_replace_char_concat(r1(a), r1(b), DQ, e2(BT, DQ));
    lemma_replace_char_concat(r2(r1(a)), r2(r1(b)), DL, e2(BT, DL));
    lemma_replace_char_concat(r3(r2(r1(a))), r3(r2(r1(b))), NL, e2(BT, 'n'));
    lemma_replace_char_concat(r4(r3(r2(r1(a)))), r4(r3(r2(r1(b)))), CR, e2(BT, 'r'));
}
pub proof fn lemma_pwsh_roundtrip(s: Seq<char>)
    requires pwsh_plain(s)
    ensures pwsh_body(chain_pwsh(s) + seq![DQ]) == Some(s)
    decreases s.len()
{
    if s.len() == 0 {
        assert(chain_pwsh(s) =~= Seq::<char>::empty());
        assert(chain_pwsh(s) + seq![DQ] =~= seq![DQ]);
        assert(s =~= Seq::<char>::empty());
    } else {
        let c = s[0];
        let rest = s.subrange(1, s.len() as int);
        assert(s =~= seq![c] + rest);
        assert(pwsh_plain(rest)) by {
            assert forall|i: int| 0 <= i < rest.len() implies !(rest[i] == '\u{201C}' || rest[i] == '\u{201D}' || rest[i] == '\u{201E}' || rest[i] == '\u{201F}') by { assert(rest[i] == s[i + 1]); }
        }
        lemma_chain_pwsh_concat(seq![c], rest);
        lemma_chain_pwsh_single(c);
        lemma_pwsh_roundtrip(rest);
        let x = chain_pwsh(rest) + seq![DQ];
        let t = chain_pwsh(s) + seq![DQ];
        assert(t =~= esc_pwsh(c) + x);
        if c == BT || c == DQ || c == DL {
            assert(t[0] == BT && t[1] == c);
            assert(tail(t, 2) =~= x);
            assert(seq![c] + rest =~= s);
        } else if c == NL {
            assert(t[0] == BT && t[1] == 'n');
            assert(tail(t, 2) =~= x);
            assert(seq![c] + rest =~= s);
        } else if c == CR {
            assert(t[0] == BT && t[1] == 'r');
            assert(tail(t, 2) =~= x);
            assert(seq![c] + rest =~= s);
        } else {
            assert(t[0] == c);
            assert(tail(t, 1) =~= x);
            assert(seq![c] + rest =~= s);
        }
    }
}

// precondition witnesses (vacuity guard): the preconditions used in this unit are satisfiable
pub proof fn witness_pwsh_plain() ensures pwsh_plain(seq!['a', '"', '$']) {}

} // verus!
