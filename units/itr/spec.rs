// C04: DFA::iter_transitions lists every transition of the table, and nothing else.
verus! {

spec fn cell_of(d: DFA, t: (u32, InpId, u32)) -> bool { used(d, t.0, t.1) && d.transitions@[t.0][t.1] == t.2 }

/// every transition leaving q is in the list
spec fn row_walked(d: DFA, out: Seq<(u32, InpId, u32)>, q: u32) -> bool {
    forall|a: InpId| #[trigger] used(d, q, a) ==> out.contains((q, a, d.transitions@[q][a]))
}

spec fn walk_inv(d: DFA, out: Seq<(u32, InpId, u32)>, rowk: Seq<u32>, n: int) -> bool {
    (forall|k: int| 0 <= k < out.len() ==> cell_of(d, #[trigger] out[k]))
    && (forall|i: int| 0 <= i < n && i < rowk.len() ==> row_walked(d, out, #[trigger] rowk[i]))
}

proof fn lemma_walk_push(d: DFA, out: Seq<(u32, InpId, u32)>, t: (u32, InpId, u32), rowk: Seq<u32>, n: int)
    requires walk_inv(d, out, rowk, n), cell_of(d, t)
    ensures walk_inv(d, out.push(t), rowk, n), forall|x: (u32, InpId, u32)| out.contains(x) ==> out.push(t).contains(x), out.push(t).contains(t)
{
    let o2 = out.push(t);
    assert forall|x: (u32, InpId, u32)| out.contains(x) implies o2.contains(x) by {
        let m = choose|m: int| 0 <= m < out.len() && out[m] == x;
        assert(o2[m] == x);
    }
    assert(o2[out.len() as int] == t);
    assert forall|k: int| 0 <= k < o2.len() implies cell_of(d, #[trigger] o2[k]) by {
        if k < out.len() { assert(o2[k] == out[k]); }
    }
    assert forall|i: int| 0 <= i < n && i < rowk.len() implies row_walked(d, o2, #[trigger] rowk[i]) by {
        assert(row_walked(d, out, rowk[i]));
    }
}

} // verus!
