// C08 (one clause: "the same literal expected at one point with two different descriptions"):
// DFA::check_ambiguity_best_effort reports ConflictingDescriptions only for a real clash, and accepts
// only automata in which no state reachable from the start state has one.
verus! {

spec fn sym(d: DFA, a: InpId) -> Inp { d.inputs@[ix_of(a)] }

/// the (text, description) pair of a literal transition
spec fn lit_of(d: DFA, a: InpId) -> Option<(Ustr, Option<Ustr>)> {
    match sym(d, a) {
        Inp::Literal { literal, description, .. } => Some((literal, description)),
        _ => None,
    }
}

/// state q has a literal transition with this text and description
spec fn lit_pair(d: DFA, q: u32, t: (Ustr, Option<Ustr>)) -> bool {
    exists|a: InpId| #[trigger] used(d, q, a) && lit_of(d, a) == Some(t)
}

/// state q expects one literal text with two different descriptions
spec fn desc_conflict(d: DFA, q: u32) -> bool {
    exists|t1: (Ustr, Option<Ustr>), t2: (Ustr, Option<Ustr>)| #[trigger] lit_pair(d, q, t1) && #[trigger] lit_pair(d, q, t2) && t1.0 == t2.0 && t1.1 != t2.1
}

/// s has no clash and all its successors are marked
spec fn clean_closed(d: DFA, s: u32, v: ISet<u32>) -> bool {
    !desc_conflict(d, s) && (forall|a: InpId| #[trigger] used(d, s, a) ==> v.contains(d.transitions@[s][a]))
}

/// the pairs collected from the first n transitions of the row
spec fn collected(d: DFA, trs: Seq<(InpId, u32)>, n: int, l: Seq<(Ustr, Option<Ustr>)>) -> bool {
    (forall|j: int| 0 <= j < l.len() ==> exists|k: int| 0 <= k < n && k < trs.len() && lit_of(d, (#[trigger] trs[k]).0) == Some(#[trigger] l[j]))
    && (forall|k: int| 0 <= k < n && k < trs.len() && lit_of(d, (#[trigger] trs[k]).0) is Some ==> l.contains(lit_of(d, trs[k].0)->0))
}

proof fn lemma_collected_skip(d: DFA, trs: Seq<(InpId, u32)>, n: int, l: Seq<(Ustr, Option<Ustr>)>)
    requires collected(d, trs, n, l), 0 <= n < trs.len(), lit_of(d, trs[n].0) is None
    ensures collected(d, trs, n + 1, l)
{
    assert forall|j: int| 0 <= j < l.len() implies exists|k: int| 0 <= k < n + 1 && k < trs.len() && lit_of(d, (#[trigger] trs[k]).0) == Some(#[trigger] l[j]) by {
        let k = choose|k: int| 0 <= k < n && k < trs.len() && lit_of(d, (#[trigger] trs[k]).0) == Some(l[j]);
        assert(lit_of(d, trs[k].0) == Some(l[j]));
    }
}

proof fn lemma_collected_push(d: DFA, trs: Seq<(InpId, u32)>, n: int, l: Seq<(Ustr, Option<Ustr>)>, t: (Ustr, Option<Ustr>))
    requires collected(d, trs, n, l), 0 <= n < trs.len(), lit_of(d, trs[n].0) == Some(t)
    ensures collected(d, trs, n + 1, l.push(t))
{
    let l2 = l.push(t);
    assert forall|j: int| 0 <= j < l2.len() implies exists|k: int| 0 <= k < n + 1 && k < trs.len() && lit_of(d, (#[trigger] trs[k]).0) == Some(#[trigger] l2[j]) by {
        if j < l.len() {
            let k = choose|k: int| 0 <= k < n && k < trs.len() && lit_of(d, (#[trigger] trs[k]).0) == Some(l[j]);
            assert(lit_of(d, trs[k].0) == Some(l2[j]));
        } else { assert(lit_of(d, trs[n].0) == Some(l2[j])); }
    }
    assert forall|k: int| 0 <= k < n + 1 && k < trs.len() && lit_of(d, (#[trigger] trs[k]).0) is Some implies l2.contains(lit_of(d, trs[k].0)->0) by {
        if k < n {
            assert(l.contains(lit_of(d, trs[k].0)->0));
            let j = choose|j: int| 0 <= j < l.len() && l[j] == lit_of(d, trs[k].0)->0;
            assert(l2[j] == l[j]);
        } else { assert(l2[l.len() as int] == t); }
    }
}

/// a subsequence of a grouped list is grouped
proof fn lemma_subseq_grouped(out: Seq<(Ustr, Option<Ustr>)>, s: Seq<(Ustr, Option<Ustr>)>)
    requires subseq_of(out, s), grouped(s)
    ensures grouped(out)
{
    let f = choose|f: Seq<int>| f.len() == out.len()
        && (forall|i: int| 0 <= i < f.len() ==> 0 <= #[trigger] f[i] < s.len() && s[f[i]] == out[i])
        && (forall|i: int, j: int| 0 <= i < j < f.len() ==> #[trigger] f[i] < #[trigger] f[j]);
    assert forall|i: int, j: int, k: int| 0 <= i < j < k < out.len() && (#[trigger] out[i]).0 == (#[trigger] out[k]).0 implies (#[trigger] out[j]).0 == out[i].0 by {
        assert(f[i] < f[j] && f[j] < f[k]);
        assert(s[f[i]].0 == s[f[k]].0);
        assert(s[f[j]].0 == s[f[i]].0);
    }
}

/// in a grouped list, two entries with the same text and different descriptions have an adjacent
/// such pair between them
proof fn lemma_adjacent_clash(l: Seq<(Ustr, Option<Ustr>)>, i: int, j: int)
    requires grouped(l), 0 <= i < j < l.len(), l[i].0 == l[j].0, l[i].1 != l[j].1
    ensures exists|k: int| i <= k < j && (#[trigger] l[k]).0 == l[k + 1].0 && l[k].1 != l[k + 1].1
    decreases j - i
{
    if j == i + 1 {
        assert(l[i].0 == l[i + 1].0 && l[i].1 != l[i + 1].1);
    } else {
        assert(l[i + 1].0 == l[i].0) by { assert(l[i].0 == l[j].0); }
        if l[i].1 != l[i + 1].1 {
            assert(l[i].0 == l[i + 1].0 && l[i].1 != l[i + 1].1);
        } else {
            lemma_adjacent_clash(l, i + 1, j);
            let k = choose|k: int| i + 1 <= k < j && (#[trigger] l[k]).0 == l[k + 1].0 && l[k].1 != l[k + 1].1;
            assert(i <= k < j);
        }
    }
}

/// the window loop found nothing: the state has no clash
proof fn lemma_no_clash(d: DFA, q: u32, trs: Seq<(InpId, u32)>, l0: Seq<(Ustr, Option<Ustr>)>, l1: Seq<(Ustr, Option<Ustr>)>, l2: Seq<(Ustr, Option<Ustr>)>)
    requires
        forall|k: int| 0 <= k < trs.len() ==> used(d, q, (#[trigger] trs[k]).0),
        forall|id: InpId| #[trigger] used(d, q, id) ==> exists|k: int| 0 <= k < trs.len() && (#[trigger] trs[k]).0 == id,
        collected(d, trs, trs.len() as int, l0),
        grouped(l1), forall|t: (Ustr, Option<Ustr>)| l1.contains(t) <==> l0.contains(t),
        subseq_of(l2, l1), forall|t: (Ustr, Option<Ustr>)| l2.contains(t) <==> l1.contains(t),
        forall|k: int| 0 <= k < l2.len() - 1 ==> !((#[trigger] l2[k]).0 == l2[k + 1].0 && l2[k].1 != l2[k + 1].1),
    ensures !desc_conflict(d, q)
{
    if desc_conflict(d, q) {
        let (t1, t2) = choose|t1: (Ustr, Option<Ustr>), t2: (Ustr, Option<Ustr>)| #[trigger] lit_pair(d, q, t1) && #[trigger] lit_pair(d, q, t2) && t1.0 == t2.0 && t1.1 != t2.1;
        let a1 = choose|a: InpId| #[trigger] used(d, q, a) && lit_of(d, a) == Some(t1);
        let a2 = choose|a: InpId| #[trigger] used(d, q, a) && lit_of(d, a) == Some(t2);
        let k1 = choose|k: int| 0 <= k < trs.len() && (#[trigger] trs[k]).0 == a1;
        let k2 = choose|k: int| 0 <= k < trs.len() && (#[trigger] trs[k]).0 == a2;
        assert(l0.contains(lit_of(d, trs[k1].0)->0));
        assert(l0.contains(lit_of(d, trs[k2].0)->0));
        assert(l2.contains(t1) && l2.contains(t2));
        lemma_subseq_grouped(l2, l1);
        let i = choose|i: int| 0 <= i < l2.len() && l2[i] == t1;
        let j = choose|j: int| 0 <= j < l2.len() && l2[j] == t2;
        if i < j { lemma_adjacent_clash(l2, i, j); } else { assert(i != j); lemma_adjacent_clash(l2, j, i); }
    }
}

/// an adjacent pair of the final list with equal texts and different descriptions is a real clash
proof fn lemma_real_clash(d: DFA, q: u32, trs: Seq<(InpId, u32)>, l0: Seq<(Ustr, Option<Ustr>)>, l1: Seq<(Ustr, Option<Ustr>)>, l2: Seq<(Ustr, Option<Ustr>)>, k: int)
    requires
        forall|m: int| 0 <= m < trs.len() ==> used(d, q, (#[trigger] trs[m]).0),
        collected(d, trs, trs.len() as int, l0),
        forall|t: (Ustr, Option<Ustr>)| l1.contains(t) <==> l0.contains(t),
        forall|t: (Ustr, Option<Ustr>)| l2.contains(t) <==> l1.contains(t),
        0 <= k < l2.len() - 1, l2[k].0 == l2[k + 1].0, l2[k].1 != l2[k + 1].1,
    ensures desc_conflict(d, q)
{
    let t1 = l2[k];
    let t2 = l2[k + 1];
    assert(l2.contains(t1) && l2.contains(t2));
    assert(l0.contains(t1) && l0.contains(t2));
    let j1 = choose|j: int| 0 <= j < l0.len() && l0[j] == t1;
    let j2 = choose|j: int| 0 <= j < l0.len() && l0[j] == t2;
    let m1 = choose|m: int| 0 <= m < trs.len() && m < trs.len() && lit_of(d, (#[trigger] trs[m]).0) == Some(l0[j1]);
    let m2 = choose|m: int| 0 <= m < trs.len() && m < trs.len() && lit_of(d, (#[trigger] trs[m]).0) == Some(l0[j2]);
    assert(used(d, q, trs[m1].0) && used(d, q, trs[m2].0));
    assert(lit_pair(d, q, t1) && lit_pair(d, q, t2));
}

/// the marked states are closed under successors and hold the start state's successors: every
/// state reached from the start state is the start state or marked
proof fn lemma_reached_is_marked(d: DFA, v: ISet<u32>, w: Seq<InpId>, s: u32)
    requires
        forall|a: InpId| #[trigger] used(d, d.starting_state, a) ==> v.contains(d.transitions@[d.starting_state][a]),
        forall|x: u32| v.contains(x) ==> #[trigger] clean_closed(d, x, v),
        trun(d.transitions@, d.starting_state, w) == Some(s),
    ensures s == d.starting_state || v.contains(s)
    decreases w.len()
{
    if w.len() > 0 {
        let w0 = w.drop_last();
        let a = w.last();
        assert(w =~= w0.push(a));
        lemma_trun_snoc3(d.transitions@, d.starting_state, w0, a);
        let q0 = trun(d.transitions@, d.starting_state, w0)->0;
        lemma_reached_is_marked(d, v, w0, q0);
        assert(used(d, q0, a) && d.transitions@[q0][a] == s);
        if q0 != d.starting_state { assert(clean_closed(d, q0, v)); }
    }
}

proof fn lemma_trun_snoc3(tab: Map<u32, Map<InpId, u32>>, q: u32, w: Seq<InpId>, a: InpId)
    ensures trun(tab, q, w.push(a)) == (match trun(tab, q, w) {
        None => None::<u32>,
        Some(p) => if cell_in(tab, p, a) { Some(tab[p][a]) } else { None },
    })
    decreases w.len()
{
    let wa = w.push(a);
    if w.len() == 0 {
        assert(wa[0] == a);
        assert(wa.drop_first() =~= Seq::<InpId>::empty());
        if cell_in(tab, q, a) { assert(trun(tab, tab[q][a], wa.drop_first()) == Some(tab[q][a])); }
    } else {
        assert(wa[0] == w[0]);
        assert(wa.drop_first() =~= w.drop_first().push(a));
        if cell_in(tab, q, w[0]) { lemma_trun_snoc3(tab, tab[q][w[0]], w.drop_first(), a); }
    }
}

} // verus!
verus! {

proof fn lemma_cc_mono(d: DFA, s: u32, v1: ISet<u32>, v2: ISet<u32>)
    requires clean_closed(d, s, v1), forall|x: u32| v1.contains(x) ==> v2.contains(x)
    ensures clean_closed(d, s, v2)
{
}

} // verus!
