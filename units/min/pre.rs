// The preconditions of dfa::do_minimize (shared by unit min, which proves do_minimize under them, and
// unit c02e, which proves the first two and the accepting half of the third for every automaton
// dfa_from_regex returns).
verus! {

/// the dead state's number is not used for a real state
#[verifier::opaque]
spec fn no_zero(d: DFA) -> bool {
    (forall|q: u32, a: InpId| #[trigger] used(d, q, a) ==> q != DEAD_STATE_ID && d.transitions@[q][a] != DEAD_STATE_ID)
    && d.starting_state != DEAD_STATE_ID && !d.accepting_states@.contains(DEAD_STATE_ID)
}

/// the start state and the accepting states occur in the table
#[verifier::opaque]
spec fn states_occur(d: DFA) -> bool {
    is_end(d, d.starting_state) && (forall|s: u32| d.accepting_states@.contains(s) ==> is_end(d, s))
}

/// every state other than the start state is the target of some transition
#[verifier::opaque]
spec fn all_have_pred(d: DFA) -> bool {
    forall|s: u32| #[trigger] is_end(d, s) && s != d.starting_state ==> exists|p: u32, a: InpId| #[trigger] used(d, p, a) && d.transitions@[p][a] == s
}

/// every accepting state other than the start state is an end of some transition
spec fn acc_occur(d: DFA) -> bool {
    forall|s: u32| d.accepting_states@.contains(s) && s != d.starting_state ==> is_end(d, s)
}

proof fn lemma_states_occur(d: DFA)
    requires is_end(d, d.starting_state), acc_occur(d)
    ensures states_occur(d)
{
    reveal(states_occur);
}

} // verus!
