// The preconditions of dfa::do_minimize (shared by unit min, which proves do_minimize under them, and
// unit c02e, which proves the first two and the accepting half of the third for every automaton
// dfa_from_regex returns).
verus! {

/// the dead state's number is not used for a real state
#[verifier::opaque]
spec fn no_zero(d: DFA) -> bool {
    (forall|q: u32, a: InpId| #[trigger] used(d, q, a) ==> q != DEAD_STATE_ID && d.transitions@[q][a] != DEAD_STATE_ID)
    && d.starting_state != DEAD_STATE_ID && !d.accepting_states@.contains(DEAD_STATE_ID)
}

/// the start state and the accepting states occur in the table
#[verifier::opaque]
spec fn states_occur(d: DFA) -> bool {
    is_end(d, d.starting_state) && (forall|s: u32| d.accepting_states@.contains(s) ==> is_end(d, s))
}

/// every state other than the start state is the target of some transition
#[verifier::opaque]
spec fn all_have_pred(d: DFA) -> bool {
    forall|s: u32| #[trigger] is_end(d, s) && s != d.starting_state ==> exists|p: u32, a: InpId| #[trigger] used(d, p, a) && d.transitions@[p][a] == s
}

/// run of a transition table over a word of symbol ids; None = stuck
spec fn trun(tab: Map<u32, Map<InpId, u32>>, q: u32, w: Seq<InpId>) -> Option<u32>
    decreases w.len()
{
    if w.len() == 0 { Some(q) }
    else if cell_in(tab, q, w[0]) { trun(tab, tab[q][w[0]], w.drop_first()) }
    else { None }
}

spec fn tacc(tab: Map<u32, Map<InpId, u32>>, q: u32, acc: ISet<u32>, w: Seq<InpId>) -> bool {
    trun(tab, q, w) is Some && acc.contains(trun(tab, q, w)->0)
}

/// every state has a row (possibly an empty one)
#[verifier::opaque]
spec fn rows_total(d: DFA) -> bool { forall|q: u32| #[trigger] is_end(d, q) ==> d.transitions@.contains_key(q) }

/// every state is reached from the start state by some word
#[verifier::opaque]
spec fn reach_ok(d: DFA) -> bool {
    forall|q: u32| #[trigger] is_end(d, q) ==> exists|w: Seq<InpId>| trun(d.transitions@, d.starting_state, w) == Some(q)
}

/// every accepting state other than the start state is an end of some transition
spec fn acc_occur(d: DFA) -> bool {
    forall|s: u32| d.accepting_states@.contains(s) && s != d.starting_state ==> is_end(d, s)
}

proof fn lemma_states_occur(d: DFA)
    requires is_end(d, d.starting_state), acc_occur(d)
    ensures states_occur(d)
{
    reveal(states_occur);
}

} // verus!
