// C03: the automaton do_minimize builds from the final partition accepts the same words.
verus! {

/// the two automata accept the same words of symbol ids (the symbol pool is shared)
spec fn same_language(d: DFA, r: DFA) -> bool {
    forall|w: Seq<InpId>| tacc(d.transitions@, d.starting_state, d.accepting_states@, w) == tacc(r.transitions@, r.starting_state, r.accepting_states@, w)
}

/// r is the minimum of its block k, the block of s
spec fn is_rep(p: Seq<ISet<u32>>, k: SetId, s: u32, r: u32) -> bool {
    blk(p, k).contains(s) && blk(p, k).contains(r) && (forall|x: u32| blk(p, k).contains(x) ==> r <= x)
}

/// every entry of the representative map sends a state to the minimum of its block
#[verifier::opaque]
spec fn rep_src(p: Seq<ISet<u32>>, pt: ISet<SetId>, rep: Map<u32, u32>) -> bool {
    forall|s: u32| #[trigger] rep.contains_key(s) ==> exists|k: SetId| pt.contains(k) && #[trigger] is_rep(p, k, s, rep[s])
}

/// rep maps the states of d (and the dead state) to representatives of a congruence
#[verifier::opaque]
spec fn cong_ok(d: DFA, rep: Map<u32, u32>) -> bool {
    (forall|s: u32| #![trigger rep.contains_key(s)] #![trigger all_st(d, s)] rep.contains_key(s) <==> all_st(d, s))
    && (forall|s: u32| #[trigger] rep.contains_key(s) ==> rep.contains_key(rep[s]) && rep[rep[s]] == rep[s])
    && (forall|s: u32| #[trigger] rep.contains_key(s) ==> (rep[s] == DEAD_STATE_ID <==> s == DEAD_STATE_ID))
    && (forall|x: u32, y: u32| rep.contains_key(x) && rep.contains_key(y) && #[trigger] rep[x] == #[trigger] rep[y] ==> d.accepting_states@.contains(x) == d.accepting_states@.contains(y))
    && (forall|x: u32, y: u32, a: InpId| rep.contains_key(x) && rep.contains_key(y) && rep[x] == rep[y] ==> #[trigger] rep[nxt(d, x, a)] == #[trigger] rep[nxt(d, y, a)])
}

/// with the work list empty the partition is a congruence, and the map of minima represents it
proof fn lemma_rep(d: DFA, p: Seq<ISet<u32>>, pt: ISet<SetId>, wl: ISet<SetId>, rep: Map<u32, u32>)
    requires
        part_ok(d, p, pt), acc_ok(d, p, pt), hop_ok(d, p, pt, wl, None),
        forall|k: SetId| !wl.contains(k),
        rep_src(p, pt, rep),
        forall|k: SetId, s: u32| pt.contains(k) && #[trigger] blk(p, k).contains(s) ==> rep.contains_key(s),
    ensures cong_ok(d, rep)
{
    reveal(rep_src);
    reveal(cong_ok);
    reveal(part_ok);
    reveal(acc_ok);
    reveal(hop_ok);
    assert forall|s: u32| rep.contains_key(s) <==> all_st(d, s) by {
        if rep.contains_key(s) { let k = choose|k: SetId| pt.contains(k) && #[trigger] is_rep(p, k, s, rep[s]); }
        if all_st(d, s) { assert(same(p, pt, s, s)); let k = choose|k: SetId| #[trigger] pair_in(p, pt, k, s, s); }
    }
    assert forall|s: u32| #[trigger] rep.contains_key(s) implies rep.contains_key(rep[s]) && rep[rep[s]] == rep[s] by {
        let k = choose|k: SetId| pt.contains(k) && #[trigger] is_rep(p, k, s, rep[s]);
        assert(blk(p, k).contains(rep[s]));
        let k2 = choose|k2: SetId| pt.contains(k2) && #[trigger] is_rep(p, k2, rep[s], rep[rep[s]]);
        assert(k == k2);
    }
    assert forall|s: u32| #[trigger] rep.contains_key(s) implies (rep[s] == DEAD_STATE_ID <==> s == DEAD_STATE_ID) by {
        let k = choose|k: SetId| pt.contains(k) && #[trigger] is_rep(p, k, s, rep[s]);
        if s == DEAD_STATE_ID { assert(pair_in(p, pt, k, s, rep[s])); }
        if rep[s] == DEAD_STATE_ID { assert(pair_in(p, pt, k, rep[s], s)); }
    }
    assert forall|x: u32, y: u32| rep.contains_key(x) && rep.contains_key(y) && #[trigger] rep[x] == #[trigger] rep[y] implies d.accepting_states@.contains(x) == d.accepting_states@.contains(y) by {
        let kx = choose|k: SetId| pt.contains(k) && #[trigger] is_rep(p, k, x, rep[x]);
        let ky = choose|k: SetId| pt.contains(k) && #[trigger] is_rep(p, k, y, rep[y]);
        assert(kx == ky);
        assert(pair_in(p, pt, kx, x, y));
    }
    assert forall|x: u32, y: u32, a: InpId| rep.contains_key(x) && rep.contains_key(y) && rep[x] == rep[y] implies #[trigger] rep[nxt(d, x, a)] == #[trigger] rep[nxt(d, y, a)] by {
        let kx = choose|k: SetId| pt.contains(k) && #[trigger] is_rep(p, k, x, rep[x]);
        let ky = choose|k: SetId| pt.contains(k) && #[trigger] is_rep(p, k, y, rep[y]);
        assert(kx == ky);
        assert(pair_in(p, pt, kx, x, y));
        let nx = nxt(d, x, a);
        let ny = nxt(d, y, a);
        if !same(p, pt, nx, ny) {
            let w = choose|w: SetId| #[trigger] wit(p, wl, w, nx, ny);
            assert(wl.contains(w));
        }
        let kk = choose|kk: SetId| #[trigger] pair_in(p, pt, kk, nx, ny);
        assert(rep.contains_key(nx) && rep.contains_key(ny));
        let k1 = choose|k: SetId| pt.contains(k) && #[trigger] is_rep(p, k, nx, rep[nx]);
        let k2 = choose|k: SetId| pt.contains(k) && #[trigger] is_rep(p, k, ny, rep[ny]);
        assert(k1 == kk && k2 == kk);
    }
}

// ---- the list of transitions through the three clean-up passes ------------------------------------

/// the list has a transition q --a--> x
spec fn has(ts: Seq<Transition>, q: u32, a: InpId, x: u32) -> bool {
    exists|m: int| 0 <= m < ts.len() && #[trigger] tr_is(ts[m], q, a, x)
}

/// no two entries of the list leave the same state on the same symbol
spec fn det(ts: Seq<Transition>) -> bool {
    forall|m1: int, m2: int| 0 <= m1 < m2 < ts.len() ==> !((#[trigger] ts[m1]).from == (#[trigger] ts[m2]).from && ts[m1].input == ts[m2].input)
}

/// every entry of out is one of the first n entries of ts
spec fn sub_of(ts: Seq<Transition>, out: Seq<Transition>, n: int) -> bool {
    forall|j: int| 0 <= j < out.len() ==> exists|m: int| 0 <= m < n && m < ts.len() && ts[m] == #[trigger] out[j]
}

proof fn lemma_kept_in(ts: Seq<Transition>, start: u32, n: int)
    requires 0 <= n <= ts.len(), det(ts)
    ensures
        kept_in_upto(ts, start, n).len() <= n,
        sub_of(ts, kept_in_upto(ts, start, n), n),
        det(kept_in_upto(ts, start, n)),
        forall|m: int| 0 <= m < n && keep_in(ts, start, #[trigger] ts[m]) ==> kept_in_upto(ts, start, n).contains(ts[m]),
        forall|j: int| 0 <= j < kept_in_upto(ts, start, n).len() ==> keep_in(ts, start, #[trigger] kept_in_upto(ts, start, n)[j]),
    decreases n
{
    if n > 0 {
        lemma_kept_in(ts, start, n - 1);
        let p = kept_in_upto(ts, start, n - 1);
        let o = kept_in_upto(ts, start, n);
        if keep_in(ts, start, ts[n - 1]) {
            assert(o == p.push(ts[n - 1]));
            assert forall|j: int| 0 <= j < o.len() implies exists|m: int| 0 <= m < n && m < ts.len() && ts[m] == #[trigger] o[j] by {
                if j < p.len() { let m = choose|m: int| 0 <= m < n - 1 && m < ts.len() && ts[m] == p[j]; assert(ts[m] == o[j]); }
                else { assert(ts[n - 1] == o[j]); }
            }
            assert forall|m1: int, m2: int| 0 <= m1 < m2 < o.len() implies !((#[trigger] o[m1]).from == (#[trigger] o[m2]).from && o[m1].input == o[m2].input) by {
                if m2 == p.len() {
                    let m = choose|m: int| 0 <= m < n - 1 && m < ts.len() && ts[m] == p[m1];
                    assert(o[m1] == ts[m] && o[m2] == ts[n - 1]);
                } else { assert(o[m1] == p[m1] && o[m2] == p[m2]); }
            }
            assert forall|m: int| 0 <= m < n && keep_in(ts, start, #[trigger] ts[m]) implies o.contains(ts[m]) by {
                if m < n - 1 { assert(p.contains(ts[m])); let j = choose|j: int| 0 <= j < p.len() && p[j] == ts[m]; assert(o[j] == ts[m]); }
                else { assert(o[p.len() as int] == ts[m]); }
            }
            assert forall|j: int| 0 <= j < o.len() implies keep_in(ts, start, #[trigger] o[j]) by {
                if j < p.len() { assert(o[j] == p[j]); }
            }
        } else {
            assert(o == p);
            assert forall|j: int| 0 <= j < o.len() implies exists|m: int| 0 <= m < n && m < ts.len() && ts[m] == #[trigger] o[j] by {
                let m = choose|m: int| 0 <= m < n - 1 && m < ts.len() && ts[m] == p[j];
            }
        }
    }
}

proof fn lemma_kept_out(ts: Seq<Transition>, acc: ISet<u32>, n: int)
    requires 0 <= n <= ts.len(), det(ts)
    ensures
        kept_out_upto(ts, acc, n).len() <= n,
        sub_of(ts, kept_out_upto(ts, acc, n), n),
        det(kept_out_upto(ts, acc, n)),
        forall|m: int| 0 <= m < n && keep_out(ts, acc, #[trigger] ts[m]) ==> kept_out_upto(ts, acc, n).contains(ts[m]),
        forall|j: int| 0 <= j < kept_out_upto(ts, acc, n).len() ==> keep_out(ts, acc, #[trigger] kept_out_upto(ts, acc, n)[j]),
    decreases n
{
    if n > 0 {
        lemma_kept_out(ts, acc, n - 1);
        let p = kept_out_upto(ts, acc, n - 1);
        let o = kept_out_upto(ts, acc, n);
        if keep_out(ts, acc, ts[n - 1]) {
            assert(o == p.push(ts[n - 1]));
            assert forall|j: int| 0 <= j < o.len() implies exists|m: int| 0 <= m < n && m < ts.len() && ts[m] == #[trigger] o[j] by {
                if j < p.len() { let m = choose|m: int| 0 <= m < n - 1 && m < ts.len() && ts[m] == p[j]; assert(ts[m] == o[j]); }
                else { assert(ts[n - 1] == o[j]); }
            }
            assert forall|m1: int, m2: int| 0 <= m1 < m2 < o.len() implies !((#[trigger] o[m1]).from == (#[trigger] o[m2]).from && o[m1].input == o[m2].input) by {
                if m2 == p.len() {
                    let m = choose|m: int| 0 <= m < n - 1 && m < ts.len() && ts[m] == p[m1];
                    assert(o[m1] == ts[m] && o[m2] == ts[n - 1]);
                } else { assert(o[m1] == p[m1] && o[m2] == p[m2]); }
            }
            assert forall|m: int| 0 <= m < n && keep_out(ts, acc, #[trigger] ts[m]) implies o.contains(ts[m]) by {
                if m < n - 1 { assert(p.contains(ts[m])); let j = choose|j: int| 0 <= j < p.len() && p[j] == ts[m]; assert(o[j] == ts[m]); }
                else { assert(o[p.len() as int] == ts[m]); }
            }
            assert forall|j: int| 0 <= j < o.len() implies keep_out(ts, acc, #[trigger] o[j]) by {
                if j < p.len() { assert(o[j] == p[j]); }
            }
        } else {
            assert(o == p);
            assert forall|j: int| 0 <= j < o.len() implies exists|m: int| 0 <= m < n && m < ts.len() && ts[m] == #[trigger] o[j] by {
                let m = choose|m: int| 0 <= m < n - 1 && m < ts.len() && ts[m] == p[j];
            }
        }
    }
}

} // verus!
verus! {

/// what do_minimize computes after the merge loop, stage by stage
pub ghost struct Stages {
    pub rep: Map<u32, u32>,
    pub t1: Seq<Transition>,
    pub start1: u32,
    pub acc1: ISet<u32>,
    pub t2: Seq<Transition>,
    pub acc2: ISet<u32>,
    pub t3: Seq<Transition>,
    pub f: Map<u32, u32>,
    pub c: int,
    pub r0: u32,
    pub r1: Seq<Transition>,
    pub r2: ISet<u32>,
    pub tabf: Map<u32, Map<InpId, u32>>,
}

/// the list of all transitions with the target replaced by its representative
#[verifier::opaque]
spec fn t1_ok(d: DFA, rep: Map<u32, u32>, ts: Seq<Transition>) -> bool {
    det(ts)
    && (forall|m: int| 0 <= m < ts.len() ==> used(d, (#[trigger] ts[m]).from, ts[m].input) && ts[m].to == rep[d.transitions@[ts[m].from][ts[m].input]])
    && (forall|q: u32, a: InpId| #[trigger] used(d, q, a) ==> has(ts, q, a, rep[d.transitions@[q][a]]))
}

spec fn acc_img(d: DFA, rep: Map<u32, u32>, v: u32) -> bool {
    exists|s: u32| d.accepting_states@.contains(s) && #[trigger] rep[s] == v
}

spec fn quot_ok(d: DFA, g: Stages) -> bool {
    cong_ok(d, g.rep) && no_zero(d) && states_occur(d)
    && t1_ok(d, g.rep, g.t1)
    && g.start1 == g.rep[d.starting_state]
    && (forall|v: u32| g.acc1.contains(v) <==> acc_img(d, g.rep, v))
    && g.t2 == kept_in_upto(g.t1, g.start1, g.t1.len() as int)
    && (forall|s: u32| g.acc2.contains(s) <==> g.acc1.contains(s) && (s == g.start1 || has_in(g.t1, s)))
    && g.t3 == kept_out_upto(g.t2, g.acc2, g.t2.len() as int)
    && renumbering_ok(g.f, g.c, g.start1, g.t3, g.acc2, g.r0, g.r1, g.r2)
    && table_of(g.r1, g.r1.len() as int, g.tabf)
}

/// the second list: transitions out of the start state or out of a state something leads into
proof fn lemma_t2(d: DFA, g: Stages)
    requires quot_ok(d, g)
    ensures
        det(g.t2), g.t2.len() <= g.t1.len(),
        forall|q: u32, a: InpId, x: u32| #[trigger] has(g.t2, q, a, x) <==> has(g.t1, q, a, x) && (q == g.start1 || has_in(g.t1, q)),
{
    reveal(cong_ok);
    reveal(t1_ok);
    reveal(no_zero);
    reveal(states_occur);
    lemma_kept_in(g.t1, g.start1, g.t1.len() as int);
    assert forall|q: u32, a: InpId, x: u32| #[trigger] has(g.t2, q, a, x) <==> has(g.t1, q, a, x) && (q == g.start1 || has_in(g.t1, q)) by {
        if has(g.t2, q, a, x) {
            let j = choose|j: int| 0 <= j < g.t2.len() && #[trigger] tr_is(g.t2[j], q, a, x);
            let m = choose|m: int| 0 <= m < g.t1.len() && m < g.t1.len() && g.t1[m] == g.t2[j];
            assert(tr_is(g.t1[m], q, a, x));
            assert(keep_in(g.t1, g.start1, g.t2[j]));
        }
        if has(g.t1, q, a, x) && (q == g.start1 || has_in(g.t1, q)) {
            let m = choose|m: int| 0 <= m < g.t1.len() && #[trigger] tr_is(g.t1[m], q, a, x);
            assert(g.t1[m].to == x);
            assert(has_in(g.t1, x));
            assert(keep_in(g.t1, g.start1, g.t1[m]));
            assert(g.t2.contains(g.t1[m]));
            let j = choose|j: int| 0 <= j < g.t2.len() && g.t2[j] == g.t1[m];
            assert(tr_is(g.t2[j], q, a, x));
        }
    }
}

/// the third list: transitions into an accepting state or into a state with a way out
proof fn lemma_t3(d: DFA, g: Stages)
    requires quot_ok(d, g)
    ensures
        det(g.t3), g.t3.len() <= g.t1.len(),
        forall|q: u32, a: InpId, x: u32| #[trigger] has(g.t3, q, a, x) <==> has(g.t2, q, a, x) && (g.acc2.contains(x) || has_out(g.t2, x)),
{
    reveal(cong_ok);
    reveal(t1_ok);
    reveal(no_zero);
    reveal(states_occur);
    lemma_t2(d, g);
    lemma_kept_out(g.t2, g.acc2, g.t2.len() as int);
    assert forall|q: u32, a: InpId, x: u32| #[trigger] has(g.t3, q, a, x) <==> has(g.t2, q, a, x) && (g.acc2.contains(x) || has_out(g.t2, x)) by {
        if has(g.t3, q, a, x) {
            let j = choose|j: int| 0 <= j < g.t3.len() && #[trigger] tr_is(g.t3[j], q, a, x);
            let m = choose|m: int| 0 <= m < g.t2.len() && m < g.t2.len() && g.t2[m] == g.t3[j];
            assert(tr_is(g.t2[m], q, a, x));
            assert(keep_out(g.t2, g.acc2, g.t3[j]));
        }
        if has(g.t2, q, a, x) && (g.acc2.contains(x) || has_out(g.t2, x)) {
            let m = choose|m: int| 0 <= m < g.t2.len() && #[trigger] tr_is(g.t2[m], q, a, x);
            assert(keep_out(g.t2, g.acc2, g.t2[m]));
            assert(g.t3.contains(g.t2[m]));
            let j = choose|j: int| 0 <= j < g.t3.len() && g.t3[j] == g.t2[m];
            assert(tr_is(g.t3[j], q, a, x));
        }
    }
}

/// the final table: the third list read through the renumbering
proof fn lemma_tabf(d: DFA, g: Stages)
    requires quot_ok(d, g)
    ensures
        forall|q: u32, a: InpId, x: u32| #[trigger] has(g.t3, q, a, x) ==> cell_in(g.tabf, g.f[q], a) && g.tabf[g.f[q]][a] == g.f[x] && g.f.contains_key(q) && g.f.contains_key(x),
        forall|v: u32, a: InpId| #[trigger] cell_in(g.tabf, v, a) ==> exists|q: u32, x: u32| #[trigger] has(g.t3, q, a, x) && g.f[q] == v,
{
    reveal(cong_ok);
    reveal(t1_ok);
    reveal(no_zero);
    reveal(states_occur);
    lemma_t3(d, g);
    let t3 = g.t3;
    let r1 = g.r1;
    assert forall|q: u32, a: InpId, x: u32| #[trigger] has(t3, q, a, x) implies cell_in(g.tabf, g.f[q], a) && g.tabf[g.f[q]][a] == g.f[x] && g.f.contains_key(q) && g.f.contains_key(x) by {
        let m = choose|m: int| 0 <= m < t3.len() && #[trigger] tr_is(t3[m], q, a, x);
        assert(has_out(t3, q) && has_in(t3, x));
        assert(state_of(t3, g.start1, q) && state_of(t3, g.start1, x));
        assert(r1[m] == (Transition { from: g.f[q], to: g.f[x], input: a }));
        assert(cell_in(g.tabf, r1[m].from, r1[m].input));
        let m2 = choose|m2: int| 0 <= m2 < r1.len() && m2 < r1.len() && #[trigger] tr_is(r1[m2], g.f[q], a, g.tabf[g.f[q]][a]);
        assert(r1[m2] == (Transition { from: g.f[t3[m2].from], to: g.f[t3[m2].to], input: t3[m2].input }));
        assert(has_out(t3, t3[m2].from));
        assert(state_of(t3, g.start1, t3[m2].from));
        assert(t3[m2].from == q);
        if m2 < m { assert(!(t3[m2].from == t3[m].from && t3[m2].input == t3[m].input)); }
        if m < m2 { assert(!(t3[m].from == t3[m2].from && t3[m].input == t3[m2].input)); }
    }
    assert forall|v: u32, a: InpId| #[trigger] cell_in(g.tabf, v, a) implies exists|q: u32, x: u32| #[trigger] has(t3, q, a, x) && g.f[q] == v by {
        let m = choose|m: int| 0 <= m < r1.len() && m < r1.len() && #[trigger] tr_is(r1[m], v, a, g.tabf[v][a]);
        assert(r1[m] == (Transition { from: g.f[t3[m].from], to: g.f[t3[m].to], input: t3[m].input }));
        assert(tr_is(t3[m], t3[m].from, a, t3[m].to));
        assert(has(t3, t3[m].from, a, t3[m].to));
    }
}

} // verus!
verus! {

/// the representative of q is the start state or the target of some transition
spec fn inn(g: Stages, q: u32) -> bool { g.rep[q] == g.start1 || has_in(g.t1, g.rep[q]) }

/// congruent states have the same cells
proof fn lemma_cong_used(d: DFA, rep: Map<u32, u32>, x: u32, y: u32, a: InpId)
    requires cong_ok(d, rep), no_zero(d), rep.contains_key(x), rep.contains_key(y), rep[x] == rep[y]
    ensures used(d, x, a) == used(d, y, a), rep[nxt(d, x, a)] == rep[nxt(d, y, a)]
{
    reveal(no_zero);
    reveal(cong_ok);
    let nx = nxt(d, x, a);
    let ny = nxt(d, y, a);
    assert(rep[nx] == rep[ny]);
    lemma_nxt_all(d, x, a);
    lemma_nxt_all(d, y, a);
    assert(rep.contains_key(nx) && rep.contains_key(ny));
}

/// lock step of the original automaton in state q and the built one in the number of q's representative
proof fn lemma_sim(d: DFA, g: Stages, q: u32, w: Seq<InpId>)
    requires
        quot_ok(d, g), is_end(d, q), inn(g, q), state_of(g.t3, g.start1, g.rep[q]),
    ensures
        tacc(d.transitions@, q, d.accepting_states@, w) == tacc(g.tabf, g.f[g.rep[q]], g.r2, w),
    decreases w.len()
{
    reveal(cong_ok);
    reveal(t1_ok);
    reveal(no_zero);
    reveal(states_occur);
    let rep = g.rep;
    let rq = rep[q];
    lemma_t2(d, g);
    lemma_t3(d, g);
    lemma_tabf(d, g);
    assert(all_st(d, q));
    assert(rep.contains_key(q) && rep.contains_key(rq) && rep[rq] == rq);
    assert(g.f.contains_key(rq));
    if w.len() == 0 {
        if d.accepting_states@.contains(q) {
            assert(acc_img(d, rep, rq));
            assert(g.acc2.contains(rq));
            assert(acc_image(g.f, g.acc2, g.f[rq]));
        }
        if g.r2.contains(g.f[rq]) {
            assert(acc_image(g.f, g.acc2, g.f[rq]));
            let s = choose|s: u32| g.acc2.contains(s) && g.f.contains_key(s) && #[trigger] g.f[s] == g.f[rq];
            assert(s == rq);
            assert(acc_img(d, rep, rq));
            let s0 = choose|s0: u32| d.accepting_states@.contains(s0) && #[trigger] rep[s0] == rq;
            assert(is_end(d, s0));
            assert(rep.contains_key(s0));
        }
    } else {
        let a = w[0];
        let w1 = w.drop_first();
        lemma_cong_used(d, rep, q, rq, a);
        if !used(d, q, a) {
            if cell_in(g.tabf, g.f[rq], a) {
                let (q2, x2) = choose|q2: u32, x2: u32| #[trigger] has(g.t3, q2, a, x2) && g.f[q2] == g.f[rq];
                assert(g.f.contains_key(q2));
                assert(q2 == rq);
                assert(has(g.t1, rq, a, x2));
                let m = choose|m: int| 0 <= m < g.t1.len() && #[trigger] tr_is(g.t1[m], rq, a, x2);
                assert(used(d, g.t1[m].from, g.t1[m].input));
            }
        } else {
            let q1 = d.transitions@[q][a];
            assert(is_end(d, q1));
            assert(all_st(d, q1) && rep.contains_key(q1));
            let r1 = rep[q1];
            assert(q1 != DEAD_STATE_ID && r1 != DEAD_STATE_ID);
            assert(used(d, rq, a));
            assert(rep[d.transitions@[rq][a]] == r1);
            assert(has(g.t1, rq, a, r1));
            let m = choose|m: int| 0 <= m < g.t1.len() && #[trigger] tr_is(g.t1[m], rq, a, r1);
            assert(g.t1[m].to == r1);
            assert(has_in(g.t1, r1));
            assert(inn(g, q1));
            assert(has(g.t2, rq, a, r1));
            if g.acc2.contains(r1) || has_out(g.t2, r1) {
                assert(has(g.t3, rq, a, r1));
                let m3 = choose|m3: int| 0 <= m3 < g.t3.len() && #[trigger] tr_is(g.t3[m3], rq, a, r1);
                assert(g.t3[m3].to == r1);
                assert(has_in(g.t3, r1));
                assert(cell_in(g.tabf, g.f[rq], a) && g.tabf[g.f[rq]][a] == g.f[r1]);
                lemma_sim(d, g, q1, w1);
            } else {
                // the transition was dropped: nothing is accepted from q1, and the built automaton is stuck
                if cell_in(g.tabf, g.f[rq], a) {
                    let (q2, x2) = choose|q2: u32, x2: u32| #[trigger] has(g.t3, q2, a, x2) && g.f[q2] == g.f[rq];
                    assert(g.f.contains_key(q2));
                    assert(q2 == rq);
                    assert(has(g.t1, rq, a, x2));
                    let m2 = choose|m2: int| 0 <= m2 < g.t1.len() && #[trigger] tr_is(g.t1[m2], rq, a, x2);
                    if m2 < m { assert(!(g.t1[m2].from == g.t1[m].from && g.t1[m2].input == g.t1[m].input)); }
                    if m < m2 { assert(!(g.t1[m].from == g.t1[m2].from && g.t1[m].input == g.t1[m2].input)); }
                    assert(x2 == r1);
                }
                lemma_dead_end(d, g, q1, w1);
            }
        }
    }
}

/// a state whose representative neither accepts nor has a way out accepts nothing
proof fn lemma_dead_end(d: DFA, g: Stages, q1: u32, w: Seq<InpId>)
    requires
        quot_ok(d, g), is_end(d, q1), inn(g, q1),
        !g.acc2.contains(g.rep[q1]), !has_out(g.t2, g.rep[q1]),
    ensures !tacc(d.transitions@, q1, d.accepting_states@, w)
{
    reveal(cong_ok);
    reveal(t1_ok);
    reveal(no_zero);
    reveal(states_occur);
    let rep = g.rep;
    let r1 = rep[q1];
    lemma_t2(d, g);
    assert(all_st(d, q1) && rep.contains_key(q1) && rep.contains_key(r1) && rep[r1] == r1);
    if w.len() == 0 {
        if d.accepting_states@.contains(q1) { assert(acc_img(d, rep, r1)); }
    } else {
        let a = w[0];
        lemma_cong_used(d, rep, q1, r1, a);
        if used(d, r1, a) {
            let x = rep[d.transitions@[r1][a]];
            assert(has(g.t1, r1, a, x));
            assert(has(g.t2, r1, a, x));
            let m = choose|m: int| 0 <= m < g.t2.len() && #[trigger] tr_is(g.t2[m], r1, a, x);
            assert(g.t2[m].from == r1);
        }
    }
}

/// the built automaton accepts exactly the words of the original one
proof fn lemma_quotient(d: DFA, g: Stages)
    requires quot_ok(d, g)
    ensures forall|w: Seq<InpId>| tacc(d.transitions@, d.starting_state, d.accepting_states@, w) == tacc(g.tabf, g.r0, g.r2, w)
{
    reveal(cong_ok);
    reveal(t1_ok);
    reveal(no_zero);
    reveal(states_occur);
    assert forall|w: Seq<InpId>| tacc(d.transitions@, d.starting_state, d.accepting_states@, w) == tacc(g.tabf, g.r0, g.r2, w) by {
        lemma_sim(d, g, d.starting_state, w);
    }
}

} // verus!
verus! {

spec fn in_first(s: Seq<u32>, n: int, q: u32) -> bool { exists|i: int| 0 <= i < n && i < s.len() && #[trigger] s[i] == q }
spec fn in_first_a(s: Seq<InpId>, n: int, a: InpId) -> bool { exists|i: int| 0 <= i < n && i < s.len() && #[trigger] s[i] == a }

spec fn entry_ok(d: DFA, rep: Map<u32, u32>, t: Transition) -> bool {
    used(d, t.from, t.input) && t.to == rep[d.transitions@[t.from][t.input]]
}

spec fn row_done(d: DFA, rep: Map<u32, u32>, ts: Seq<Transition>, q: u32) -> bool {
    forall|a: InpId| #[trigger] used(d, q, a) ==> has(ts, q, a, rep[d.transitions@[q][a]])
}

/// the list while row i7 (state rowk[i7]) is being copied: n of its cells are done
#[verifier::opaque]
spec fn list_inv(d: DFA, rep: Map<u32, u32>, ts: Seq<Transition>, rowk: Seq<u32>, i7: int, cellk: Seq<InpId>, n: int) -> bool {
    det(ts)
    && (forall|m: int| 0 <= m < ts.len() ==> entry_ok(d, rep, #[trigger] ts[m])
            && (in_first(rowk, i7, ts[m].from) || (0 <= i7 < rowk.len() && ts[m].from == rowk[i7] && in_first_a(cellk, n, ts[m].input))))
    && (forall|i: int| 0 <= i < i7 && i < rowk.len() ==> row_done(d, rep, ts, #[trigger] rowk[i]))
    && (forall|j: int| 0 <= j < n && j < cellk.len() && 0 <= i7 < rowk.len() ==> has(ts, rowk[i7], #[trigger] cellk[j], rep[d.transitions@[rowk[i7]][cellk[j]]]))
}

spec fn distinct_u32(s: Seq<u32>) -> bool { forall|i: int, j: int| 0 <= i < j < s.len() ==> #[trigger] s[i] != #[trigger] s[j] }
spec fn distinct_a(s: Seq<InpId>) -> bool { forall|i: int, j: int| 0 <= i < j < s.len() ==> #[trigger] s[i] != #[trigger] s[j] }

proof fn lemma_has_push(ts: Seq<Transition>, t: Transition, q: u32, a: InpId, x: u32)
    requires has(ts, q, a, x)
    ensures has(ts.push(t), q, a, x)
{
    let m = choose|m: int| 0 <= m < ts.len() && #[trigger] tr_is(ts[m], q, a, x);
    assert(tr_is(ts.push(t)[m], q, a, x));
}

/// one cell copied
proof fn lemma_push_cell(d: DFA, rep: Map<u32, u32>, ts: Seq<Transition>, t: Transition, rowk: Seq<u32>, i7: int, cellk: Seq<InpId>, n: int)
    requires
        list_inv(d, rep, ts, rowk, i7, cellk, n), distinct_u32(rowk), distinct_a(cellk),
        0 <= i7 < rowk.len(), 0 <= n < cellk.len(),
        t.from == rowk[i7], t.input == cellk[n], entry_ok(d, rep, t),
    ensures list_inv(d, rep, ts.push(t), rowk, i7, cellk, n + 1)
{
    reveal(list_inv);
    let t2 = ts.push(t);
    assert forall|m1: int, m2: int| 0 <= m1 < m2 < t2.len() implies !((#[trigger] t2[m1]).from == (#[trigger] t2[m2]).from && t2[m1].input == t2[m2].input) by {
        if m2 == ts.len() {
            assert(t2[m1] == ts[m1]);
            if in_first(rowk, i7, ts[m1].from) {
                let i = choose|i: int| 0 <= i < i7 && i < rowk.len() && #[trigger] rowk[i] == ts[m1].from;
                assert(rowk[i] != rowk[i7]);
            } else {
                let j = choose|j: int| 0 <= j < n && j < cellk.len() && #[trigger] cellk[j] == ts[m1].input;
                assert(cellk[j] != cellk[n]);
            }
        } else { assert(t2[m1] == ts[m1] && t2[m2] == ts[m2]); }
    }
    assert forall|m: int| 0 <= m < t2.len() implies entry_ok(d, rep, #[trigger] t2[m])
            && (in_first(rowk, i7, t2[m].from) || (0 <= i7 < rowk.len() && t2[m].from == rowk[i7] && in_first_a(cellk, n + 1, t2[m].input))) by {
        if m < ts.len() {
            assert(t2[m] == ts[m]);
            if !in_first(rowk, i7, ts[m].from) {
                let j = choose|j: int| 0 <= j < n && j < cellk.len() && #[trigger] cellk[j] == ts[m].input;
                assert(cellk[j] == t2[m].input);
            }
        } else { assert(cellk[n] == t2[m].input); }
    }
    assert forall|i: int| 0 <= i < i7 && i < rowk.len() implies row_done(d, rep, t2, #[trigger] rowk[i]) by {
        assert(row_done(d, rep, ts, rowk[i]));
        assert forall|a: InpId| #[trigger] used(d, rowk[i], a) implies has(t2, rowk[i], a, rep[d.transitions@[rowk[i]][a]]) by {
            lemma_has_push(ts, t, rowk[i], a, rep[d.transitions@[rowk[i]][a]]);
        }
    }
    assert forall|j: int| 0 <= j < n + 1 && j < cellk.len() && 0 <= i7 < rowk.len() implies has(t2, rowk[i7], #[trigger] cellk[j], rep[d.transitions@[rowk[i7]][cellk[j]]]) by {
        if j < n { lemma_has_push(ts, t, rowk[i7], cellk[j], rep[d.transitions@[rowk[i7]][cellk[j]]]); }
        else { assert(tr_is(t2[ts.len() as int], rowk[i7], cellk[j], rep[d.transitions@[rowk[i7]][cellk[j]]])); }
    }
}

/// a row is finished: all its cells are in the list
proof fn lemma_row_end(d: DFA, rep: Map<u32, u32>, ts: Seq<Transition>, rowk: Seq<u32>, i7: int, cellk: Seq<InpId>)
    requires
        list_inv(d, rep, ts, rowk, i7, cellk, cellk.len() as int), 0 <= i7 < rowk.len(),
        forall|a: InpId| used(d, rowk[i7], a) ==> exists|j: int| 0 <= j < cellk.len() && #[trigger] cellk[j] == a,
    ensures list_inv(d, rep, ts, rowk, i7 + 1, Seq::<InpId>::empty(), 0)
{
    reveal(list_inv);
    assert forall|m: int| 0 <= m < ts.len() implies entry_ok(d, rep, #[trigger] ts[m]) && in_first(rowk, i7 + 1, ts[m].from) by {
        if in_first(rowk, i7, ts[m].from) {
            let i = choose|i: int| 0 <= i < i7 && i < rowk.len() && #[trigger] rowk[i] == ts[m].from;
            assert(rowk[i] == ts[m].from);
        } else { assert(rowk[i7] == ts[m].from); }
    }
    assert forall|i: int| 0 <= i < i7 + 1 && i < rowk.len() implies row_done(d, rep, ts, #[trigger] rowk[i]) by {
        if i == i7 {
            assert forall|a: InpId| #[trigger] used(d, rowk[i7], a) implies has(ts, rowk[i7], a, rep[d.transitions@[rowk[i7]][a]]) by {
                let j = choose|j: int| 0 <= j < cellk.len() && #[trigger] cellk[j] == a;
            }
        }
    }
}

/// a new row starts
proof fn lemma_row_start(d: DFA, rep: Map<u32, u32>, ts: Seq<Transition>, rowk: Seq<u32>, i7: int, cellk: Seq<InpId>)
    requires list_inv(d, rep, ts, rowk, i7, Seq::<InpId>::empty(), 0)
    ensures list_inv(d, rep, ts, rowk, i7, cellk, 0)
{
    reveal(list_inv);
    assert forall|m: int| 0 <= m < ts.len() implies entry_ok(d, rep, #[trigger] ts[m])
            && (in_first(rowk, i7, ts[m].from) || (0 <= i7 < rowk.len() && ts[m].from == rowk[i7] && in_first_a(cellk, 0, ts[m].input))) by {
        if !in_first(rowk, i7, ts[m].from) {
            let j = choose|j: int| 0 <= j < 0 && j < 0 && #[trigger] Seq::<InpId>::empty()[j] == ts[m].input;
        }
    }
}

/// all rows copied: the list is the first stage
proof fn lemma_list_end(d: DFA, rep: Map<u32, u32>, ts: Seq<Transition>, rowk: Seq<u32>)
    requires
        list_inv(d, rep, ts, rowk, rowk.len() as int, Seq::<InpId>::empty(), 0),
        forall|q: u32| d.transitions@.contains_key(q) ==> exists|i: int| 0 <= i < rowk.len() && #[trigger] rowk[i] == q,
    ensures t1_ok(d, rep, ts)
{
    reveal(t1_ok);
    reveal(list_inv);
    assert forall|q: u32, a: InpId| #[trigger] used(d, q, a) implies has(ts, q, a, rep[d.transitions@[q][a]]) by {
        let i = choose|i: int| 0 <= i < rowk.len() && #[trigger] rowk[i] == q;
        assert(row_done(d, rep, ts, rowk[i]));
    }
    assert forall|m: int| 0 <= m < ts.len() implies used(d, (#[trigger] ts[m]).from, ts[m].input) && ts[m].to == rep[d.transitions@[ts[m].from][ts[m].input]] by {
        assert(entry_ok(d, rep, ts[m]));
    }
}

/// a list of cells of the table, each at most once
spec fn lists_cells(d: DFA, l: Seq<Transition>) -> bool {
    det(l) && (forall|m: int| 0 <= m < l.len() ==> used(d, (#[trigger] l[m]).from, l[m].input))
}

/// the state counter of renumber_states cannot overflow: fewer than 2^31 - 1 transitions
#[verifier::opaque]
spec fn fits_u32(d: DFA) -> bool {
    forall|l: Seq<Transition>| #[trigger] lists_cells(d, l) ==> 2 * l.len() + 1 < u32::MAX
}

/// what renumber_states needs: the surviving accepting states occur in the surviving transitions
proof fn lemma_acc_occur(d: DFA, g: Stages)
    requires
        cong_ok(d, g.rep), no_zero(d), states_occur(d), all_have_pred(d), fits_u32(d),
        t1_ok(d, g.rep, g.t1),
        g.start1 == g.rep[d.starting_state],
        forall|v: u32| g.acc1.contains(v) <==> acc_img(d, g.rep, v),
        g.t2 == kept_in_upto(g.t1, g.start1, g.t1.len() as int),
        forall|s: u32| g.acc2.contains(s) <==> g.acc1.contains(s) && (s == g.start1 || has_in(g.t1, s)),
        g.t3 == kept_out_upto(g.t2, g.acc2, g.t2.len() as int),
    ensures
        forall|s: u32| #![trigger g.acc2.contains(s)] #![trigger state_of(g.t3, g.start1, s)] g.acc2.contains(s) ==> state_of(g.t3, g.start1, s),
        2 * g.t3.len() + 1 < u32::MAX,
{
    reveal(no_zero);
    reveal(states_occur);
    reveal(all_have_pred);
    reveal(fits_u32);
    reveal(cong_ok);
    reveal(t1_ok);
    let rep = g.rep;
    lemma_kept_in(g.t1, g.start1, g.t1.len() as int);
    lemma_kept_out(g.t2, g.acc2, g.t2.len() as int);
    assert(lists_cells(d, g.t1));
    assert forall|s: u32| #![trigger g.acc2.contains(s)] #![trigger state_of(g.t3, g.start1, s)] g.acc2.contains(s) implies state_of(g.t3, g.start1, s) by {
        if s != g.start1 {
            assert(acc_img(d, rep, s));
            let s0 = choose|s0: u32| d.accepting_states@.contains(s0) && #[trigger] rep[s0] == s;
            assert(is_end(d, s0) && all_st(d, s0) && rep.contains_key(s0));
            assert(rep.contains_key(s) && rep[s] == s);
            assert(s != DEAD_STATE_ID);
            assert(all_st(d, s) && is_end(d, s));
            assert(s != d.starting_state);
            let (p, a) = choose|p: u32, a: InpId| #[trigger] used(d, p, a) && d.transitions@[p][a] == s;
            assert(is_end(d, p) && all_st(d, p) && rep.contains_key(p));
            let rp = rep[p];
            lemma_cong_used(d, rep, p, rp, a);
            assert(used(d, rp, a) && rep[d.transitions@[rp][a]] == s);
            assert(has(g.t1, rp, a, s));
            let m = choose|m: int| 0 <= m < g.t1.len() && #[trigger] tr_is(g.t1[m], rp, a, s);
            if rp != g.start1 {
                assert(is_end(d, rp));
                assert(rp != d.starting_state);
                let (p2, a2) = choose|p2: u32, a2: InpId| #[trigger] used(d, p2, a2) && d.transitions@[p2][a2] == rp;
                assert(has(g.t1, p2, a2, rep[rp]));
                let m2 = choose|m2: int| 0 <= m2 < g.t1.len() && #[trigger] tr_is(g.t1[m2], p2, a2, rp);
                assert(g.t1[m2].to == rp);
                assert(has_in(g.t1, rp));
            }
            assert(g.t1[m].to == s);
            assert(has_in(g.t1, s));
            assert(keep_in(g.t1, g.start1, g.t1[m]));
            assert(g.t2.contains(g.t1[m]));
            let j = choose|j: int| 0 <= j < g.t2.len() && g.t2[j] == g.t1[m];
            assert(keep_out(g.t2, g.acc2, g.t2[j]));
            assert(g.t3.contains(g.t2[j]));
            let j3 = choose|j3: int| 0 <= j3 < g.t3.len() && g.t3[j3] == g.t2[j];
            assert(g.t3[j3].to == s);
            assert(has_in(g.t3, s));
        }
    }
}

} // verus!
verus! {

proof fn lemma_rep_insert(p: Seq<ISet<u32>>, pt: ISet<SetId>, rep: Map<u32, u32>, k: SetId, s: u32, r: u32)
    requires rep_src(p, pt, rep), pt.contains(k), is_rep(p, k, s, r)
    ensures rep_src(p, pt, rep.insert(s, r))
{
    reveal(rep_src);
    let rep2 = rep.insert(s, r);
    assert forall|x: u32| #[trigger] rep2.contains_key(x) implies exists|k2: SetId| pt.contains(k2) && #[trigger] is_rep(p, k2, x, rep2[x]) by {
        if x == s { assert(is_rep(p, k, x, rep2[x])); }
        else { assert(rep.contains_key(x)); let k2 = choose|k2: SetId| pt.contains(k2) && #[trigger] is_rep(p, k2, x, rep[x]); assert(is_rep(p, k2, x, rep2[x])); }
    }
}

} // verus!
verus! {

proof fn lemma_image_sorted(d: DFA, im: Seq<Transition>)
    requires image_ok(d, im)
    ensures sorted_by_to(im)
{
    reveal(image_ok);
    reveal(sorted_by_to);
}

proof fn lemma_occur(d: DFA, s: u32)
    requires states_occur(d), s == d.starting_state || d.accepting_states@.contains(s)
    ensures is_end(d, s), all_st(d, s)
{
    reveal(states_occur);
}

proof fn lemma_rep_key(d: DFA, rep: Map<u32, u32>, s: u32)
    requires cong_ok(d, rep), all_st(d, s)
    ensures rep.contains_key(s)
{
    reveal(cong_ok);
}

proof fn lemma_rep_src_empty(p: Seq<ISet<u32>>, pt: ISet<SetId>)
    ensures rep_src(p, pt, Map::<u32, u32>::empty())
{
    reveal(rep_src);
}

proof fn lemma_list_start(d: DFA, rep: Map<u32, u32>, rowk: Seq<u32>)
    ensures list_inv(d, rep, Seq::<Transition>::empty(), rowk, 0, Seq::<InpId>::empty(), 0)
{
    reveal(list_inv);
}

/// the two interned halves of a block form a split
proof fn lemma_mk_split(p0: Seq<ISet<u32>>, p1: Seq<ISet<u32>>, c: SetId, c1: SetId, c2: SetId, f: ISet<u32>, inter: ISet<u32>, rem: ISet<u32>)
    requires
        c.0 < p0.len(), pool_ext(p0, p1), c1.0 < p1.len(), c2.0 < p1.len(),
        blk(p1, c1) == inter, blk(p1, c2) == rem,
        forall|x: u32| inter.contains(x) <==> blk(p0, c).contains(x) && f.contains(x),
        forall|x: u32| rem.contains(x) <==> blk(p0, c).contains(x) && !inter.contains(x),
        nonempty(inter), nonempty(rem),
    ensures is_split(p0, p1, c, c1, c2, f)
{
    reveal(is_split);
    let xa = choose|x: u32| inter.contains(x);
    let xb = choose|x: u32| rem.contains(x);
    assert(blk(p1, c1).contains(xa));
    assert(blk(p1, c2).contains(xb));
}

} // verus!
