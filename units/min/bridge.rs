// C02 / C03: words of symbols (as unit c02e reads them: each symbol is looked up in the automaton's
// symbol pool) against words of symbol ids (as the minimiser's contract reads them): two automata
// over the same pool that accept the same id words accept the same symbol words.
verus! {

spec fn sym_id(d: DFA, a: Inp) -> Option<InpId> {
    if exists|i: int| 0 <= i < d.inputs@.len() && d.inputs@[i] == a {
        Some(id_of(choose|i: int| 0 <= i < d.inputs@.len() && d.inputs@[i] == a))
    } else { None }
}

/// the word of ids of a word of symbols; None when some symbol is not in the pool
spec fn ids_of(d: DFA, w: Seq<Inp>) -> Option<Seq<InpId>>
    decreases w.len()
{
    if w.len() == 0 { Some(Seq::<InpId>::empty()) } else {
        match (ids_of(d, w.drop_last()), sym_id(d, w.last())) {
            (Some(p), Some(i)) => Some(p.push(i)),
            _ => None,
        }
    }
}

proof fn lemma_trun_snoc(tab: Map<u32, Map<InpId, u32>>, q: u32, w: Seq<InpId>, a: InpId)
    ensures trun(tab, q, w.push(a)) == (match trun(tab, q, w) {
        None => None::<u32>,
        Some(p) => if cell_in(tab, p, a) { Some(tab[p][a]) } else { None },
    })
    decreases w.len()
{
    let wa = w.push(a);
    if w.len() == 0 {
        assert(wa[0] == a);
        assert(wa.drop_first() =~= Seq::<InpId>::empty());
        if cell_in(tab, q, a) { assert(trun(tab, tab[q][a], wa.drop_first()) == Some(tab[q][a])); }
    } else {
        assert(wa[0] == w[0]);
        assert(wa.drop_first() =~= w.drop_first().push(a));
        if cell_in(tab, q, w[0]) { lemma_trun_snoc(tab, tab[q][w[0]], w.drop_first(), a); }
    }
}

/// the run over symbols is the run over their ids
proof fn lemma_run_ids(d: DFA, w: Seq<Inp>)
    ensures
        ids_of(d, w) is None ==> dfa_run(d, w) is None,
        ids_of(d, w) is Some ==> dfa_run(d, w) == trun(d.transitions@, d.starting_state, ids_of(d, w)->0),
    decreases w.len()
{
    if w.len() > 0 {
        let w0 = w.drop_last();
        lemma_run_ids(d, w0);
        if ids_of(d, w0) is Some && sym_id(d, w.last()) is Some {
            lemma_trun_snoc(d.transitions@, d.starting_state, ids_of(d, w0)->0, sym_id(d, w.last())->0);
        }
    }
}

/// only the pool matters for the translation of a word
proof fn lemma_ids_same_pool(d: DFA, r: DFA, w: Seq<Inp>)
    requires r.inputs == d.inputs
    ensures ids_of(r, w) == ids_of(d, w)
    decreases w.len()
{
    if w.len() > 0 { lemma_ids_same_pool(d, r, w.drop_last()); }
}

/// C02 / C03: minimisation does not change which words of symbols are accepted
proof fn lemma_same_symbol_language(d: DFA, r: DFA)
    requires same_language(d, r), r.inputs == d.inputs
    ensures forall|w: Seq<Inp>| dfa_accepts(d, w) == #[trigger] dfa_accepts(r, w)
{
    assert forall|w: Seq<Inp>| dfa_accepts(d, w) == #[trigger] dfa_accepts(r, w) by {
        lemma_run_ids(d, w);
        lemma_run_ids(r, w);
        lemma_ids_same_pool(d, r, w);
        if ids_of(d, w) is Some {
            let ids = ids_of(d, w)->0;
            assert(tacc(d.transitions@, d.starting_state, d.accepting_states@, ids) == tacc(r.transitions@, r.starting_state, r.accepting_states@, ids));
        }
    }
}

} // verus!
