// C03, second half: the merge loop never separates two states that accept the same continuations, so
// (with the first half: the final partition is a congruence) the states of the result are pairwise
// distinguishable. Holds for automata in which every state can reach acceptance (`live`) and has a
// row (`rows_total`), as the subset construction builds them.
verus! {

/// the run made total through the dead state
spec fn nrun(d: DFA, q: u32, w: Seq<InpId>) -> u32
    decreases w.len()
{
    if w.len() == 0 { q } else { nrun(d, nxt(d, q, w[0]), w.drop_first()) }
}

spec fn nacc(d: DFA, q: u32, w: Seq<InpId>) -> bool { d.accepting_states@.contains(nrun(d, q, w)) }

/// x and y accept the same continuations
spec fn equiv(d: DFA, x: u32, y: u32) -> bool { forall|w: Seq<InpId>| nacc(d, x, w) == nacc(d, y, w) }

/// every state can reach acceptance
#[verifier::opaque]
spec fn live(d: DFA) -> bool { forall|q: u32| #[trigger] is_end(d, q) ==> exists|w: Seq<InpId>| nacc(d, q, w) }

/// no two equivalent states are in different blocks
#[verifier::opaque]
spec fn ner_ok(d: DFA, p: Seq<ISet<u32>>, pt: ISet<SetId>) -> bool {
    forall|x: u32, y: u32| all_st(d, x) && all_st(d, y) && #[trigger] equiv(d, x, y) ==> same(p, pt, x, y)
}

/// the set f never separates equivalent states
spec fn resp(d: DFA, f: ISet<u32>) -> bool {
    forall|x: u32, y: u32| all_st(d, x) && all_st(d, y) && #[trigger] equiv(d, x, y) ==> f.contains(x) == f.contains(y)
}

proof fn lemma_nrun_cons(d: DFA, q: u32, a: InpId, w: Seq<InpId>)
    ensures nrun(d, q, seq![a].add(w)) == nrun(d, nxt(d, q, a), w)
{
    let aw = seq![a].add(w);
    assert(aw[0] == a);
    assert(aw.drop_first() =~= w);
}

proof fn lemma_equiv_step(d: DFA, x: u32, y: u32, a: InpId)
    requires equiv(d, x, y)
    ensures equiv(d, nxt(d, x, a), nxt(d, y, a))
{
    assert forall|w: Seq<InpId>| nacc(d, nxt(d, x, a), w) == nacc(d, nxt(d, y, a), w) by {
        lemma_nrun_cons(d, x, a, w);
        lemma_nrun_cons(d, y, a, w);
        assert(nacc(d, x, seq![a].add(w)) == nacc(d, y, seq![a].add(w)));
    }
}

proof fn lemma_equiv_acc(d: DFA, x: u32, y: u32)
    requires equiv(d, x, y)
    ensures d.accepting_states@.contains(x) == d.accepting_states@.contains(y)
{
    assert(nacc(d, x, Seq::<InpId>::empty()) == nacc(d, y, Seq::<InpId>::empty()));
}

/// nothing is accepted from the dead state
proof fn lemma_dead_run(d: DFA, w: Seq<InpId>)
    requires no_zero(d)
    ensures nrun(d, DEAD_STATE_ID, w) == DEAD_STATE_ID, !nacc(d, DEAD_STATE_ID, w)
    decreases w.len()
{
    reveal(no_zero);
    if w.len() > 0 { lemma_dead_run(d, w.drop_first()); }
}

/// a live state is not equivalent to the dead state
proof fn lemma_live_not_dead(d: DFA, q: u32)
    requires no_zero(d), live(d), is_end(d, q)
    ensures !equiv(d, q, DEAD_STATE_ID), !equiv(d, DEAD_STATE_ID, q)
{
    reveal(live);
    let w = choose|w: Seq<InpId>| nacc(d, q, w);
    lemma_dead_run(d, w);
}

/// the initial partition (dead / accepting / others) separates no equivalent states
proof fn lemma_initial_ner(d: DFA, p: Seq<ISet<u32>>, pt: ISet<SetId>)
    requires no_zero(d), live(d), part_ok(d, p, pt), acc_ok(d, p, pt),
        forall|k: SetId, x: u32, y: u32| #![trigger pair_in(p, pt, k, x, x), all_st(d, y)] pair_in(p, pt, k, x, x) && all_st(d, y) && x != DEAD_STATE_ID && y != DEAD_STATE_ID
            && d.accepting_states@.contains(x) == d.accepting_states@.contains(y) ==> blk(p, k).contains(y),
    ensures ner_ok(d, p, pt)
{
    reveal(ner_ok);
    reveal(part_ok);
    reveal(acc_ok);
    assert forall|x: u32, y: u32| all_st(d, x) && all_st(d, y) && #[trigger] equiv(d, x, y) implies same(p, pt, x, y) by {
        assert(same(p, pt, x, x));
        let k = choose|k: SetId| #[trigger] pair_in(p, pt, k, x, x);
        if x == DEAD_STATE_ID {
            if y != DEAD_STATE_ID { lemma_live_not_dead(d, y); }
            assert(pair_in(p, pt, k, x, y));
        } else {
            if y == DEAD_STATE_ID { lemma_live_not_dead(d, x); }
            lemma_equiv_acc(d, x, y);
            assert(blk(p, k).contains(y));
            assert(pair_in(p, pt, k, x, y));
        }
    }
}

/// a split by a set that respects equivalence separates no equivalent states
proof fn lemma_split_ner(d: DFA, p0: Seq<ISet<u32>>, p1: Seq<ISet<u32>>, pt0: ISet<SetId>, pt1: ISet<SetId>, c: SetId, c1: SetId, c2: SetId, f: ISet<u32>)
    requires
        ner_ok(d, p0, pt0), resp(d, f), is_split(p0, p1, c, c1, c2, f),
        pt1.contains(c1) && pt1.contains(c2),
        forall|k: SetId| #![trigger pt0.contains(k)] #![trigger pt1.contains(k)] pt0.contains(k) && k != c ==> pt1.contains(k) && blk(p1, k) == blk(p0, k) && k != c1 && k != c2,
    ensures ner_ok(d, p1, pt1)
{
    reveal(ner_ok);
    reveal(is_split);
    assert forall|x: u32, y: u32| all_st(d, x) && all_st(d, y) && #[trigger] equiv(d, x, y) implies same(p1, pt1, x, y) by {
        assert(same(p0, pt0, x, y));
        let k = choose|k: SetId| #[trigger] pair_in(p0, pt0, k, x, y);
        if k != c { assert(pair_in(p1, pt1, k, x, y)); }
        else {
            assert(f.contains(x) == f.contains(y));
            if f.contains(x) { assert(pair_in(p1, pt1, c1, x, y)); } else { assert(pair_in(p1, pt1, c2, x, y)); }
        }
    }
}

/// the pre-image of a union of blocks respects equivalence
proof fn lemma_resp_pre(d: DFA, p: Seq<ISet<u32>>, pt: ISet<SetId>, gs: ISet<u32>, a: InpId)
    requires ner_ok(d, p, pt), pure(p, pt, gs)
    ensures resp(d, preset(d, gs, a))
{
    reveal(ner_ok);
    reveal(pure);
    assert forall|x: u32, y: u32| all_st(d, x) && all_st(d, y) && #[trigger] equiv(d, x, y) implies preset(d, gs, a).contains(x) == preset(d, gs, a).contains(y) by {
        lemma_equiv_step(d, x, y, a);
        lemma_nxt_all(d, x, a);
        lemma_nxt_all(d, y, a);
        let nx = nxt(d, x, a);
        let ny = nxt(d, y, a);
        assert(same(p, pt, nx, ny));
        let k = choose|k: SetId| #[trigger] pair_in(p, pt, k, nx, ny);
    }
}

proof fn lemma_resp_eq(d: DFA, f: ISet<u32>, g: ISet<u32>)
    requires resp(d, f), forall|x: u32| all_st(d, x) ==> f.contains(x) == g.contains(x)
    ensures resp(d, g)
{
}

/// a block of the partition is not cut by itself
proof fn lemma_pure_block(d: DFA, p: Seq<ISet<u32>>, pt: ISet<SetId>, s: SetId)
    requires part_ok(d, p, pt), pt.contains(s)
    ensures pure(p, pt, blk(p, s))
{
    reveal(part_ok);
    reveal(pure);
}

} // verus!
verus! {

/// wrapper for the loop invariants: the property is claimed for live automata with total rows only
#[verifier::opaque]
spec fn ner_inv(d: DFA, p: Seq<ISet<u32>>, pt: ISet<SetId>) -> bool { live(d) && rows_total(d) ==> ner_ok(d, p, pt) }

/// the pre-image of the dead state's block (read off the explicit fillers of the image) respects
/// equivalence: a state without an a-transition is equivalent only to states without one
proof fn lemma_resp_dead(d: DFA, im: Seq<Transition>, sl: Seq<Transition>, lo: int, hi: int, gmin: u32, gmax: u32, gs: ISet<u32>, a: InpId, f: ISet<u32>)
    requires
        no_zero(d), live(d), rows_total(d), image_ok(d, im), is_exact_range(im, sl, lo, hi, gmin, gmax),
        forall|s: u32| gs.contains(s) <==> s == DEAD_STATE_ID,
        gmin == DEAD_STATE_ID && gmax == DEAD_STATE_ID,
        forall|x: u32| f.contains(x) <==> pre_img(sl, sl.len() as int, gs, a, x),
        exists|x: u32| f.contains(x),
    ensures resp(d, f)
{
    reveal(image_ok);
    reveal(is_exact_range);
    reveal(pre_img);
    reveal(no_zero);
    reveal(rows_total);
    // a is a symbol of the pool
    let x0 = choose|x: u32| f.contains(x);
    let m0 = choose|m: int| 0 <= m < sl.len() && m < sl.len() && gs.contains((#[trigger] sl[m]).to) && sl[m].input == a && sl[m].from == x0;
    assert(sl[m0] == im[lo + m0]);
    assert(img_entry(d, im[lo + m0]));
    let i0 = choose|i: int| 0 <= i < d.inputs@.len() && a == #[trigger] id_of(i);
    assert forall|x: u32| is_end(d, x) implies (f.contains(x) <==> !used(d, x, a)) by {
        if f.contains(x) {
            let m = choose|m: int| 0 <= m < sl.len() && m < sl.len() && gs.contains((#[trigger] sl[m]).to) && sl[m].input == a && sl[m].from == x;
            assert(sl[m] == im[lo + m]);
            assert(img_entry(d, im[lo + m]));
        }
        if !used(d, x, a) {
            assert(d.transitions@.contains_key(x));
            assert(!used(d, x, id_of(i0)));
            let t = Transition { from: x, to: DEAD_STATE_ID, input: a };
            assert(im.contains(t));
            let m = choose|m: int| 0 <= m < im.len() && im[m] == t;
            assert(in_group(im[m], gmin, gmax));
            assert(sl[m - lo] == im[m]);
            assert(gs.contains(sl[m - lo].to));
        }
    }
    assert forall|x: u32, y: u32| all_st(d, x) && all_st(d, y) && #[trigger] equiv(d, x, y) implies f.contains(x) == f.contains(y) by {
        if x == DEAD_STATE_ID && y != DEAD_STATE_ID { lemma_live_not_dead(d, y); }
        if y == DEAD_STATE_ID && x != DEAD_STATE_ID { lemma_live_not_dead(d, x); }
        if x != DEAD_STATE_ID && y != DEAD_STATE_ID {
            lemma_equiv_step(d, x, y, a);
            if used(d, x, a) != used(d, y, a) {
                let z = if used(d, x, a) { d.transitions@[x][a] } else { d.transitions@[y][a] };
                assert(is_end(d, z));
                lemma_live_not_dead(d, z);
            }
        }
    }
}

/// the partial run of the table and the run made total through the dead state accept the same
proof fn lemma_tacc_nacc(d: DFA, q: u32, w: Seq<InpId>)
    requires no_zero(d)
    ensures tacc(d.transitions@, q, d.accepting_states@, w) == nacc(d, q, w)
    decreases w.len()
{
    if w.len() > 0 {
        if cell_in(d.transitions@, q, w[0]) {
            assert(used(d, q, w[0]));
            lemma_tacc_nacc(d, d.transitions@[q][w[0]], w.drop_first());
        } else {
            assert(!used(d, q, w[0]));
            lemma_dead_run(d, w.drop_first());
        }
    }
}

/// u is a state of the built automaton: its start state or an end of one of its transitions
spec fn rstate(tab: Map<u32, Map<InpId, u32>>, start: u32, u: u32) -> bool {
    u == start || exists|q: u32, a: InpId| #[trigger] cell_in(tab, q, a) && (q == u || tab[q][a] == u)
}

/// s is a representative that survived the clean-up passes, numbered u
spec fn src_of(d: DFA, g: Stages, u: u32, s: u32) -> bool {
    g.f.contains_key(s) && g.f[s] == u && state_of(g.t3, g.start1, s) && g.rep.contains_key(s) && g.rep[s] == s && is_end(d, s) && inn(g, s)
}

/// every state of the built automaton is the number of a surviving representative
proof fn lemma_rstate_src(d: DFA, g: Stages, u: u32)
    requires quot_ok(d, g), rstate(g.tabf, g.r0, u)
    ensures exists|s: u32| #[trigger] src_of(d, g, u, s)
{
    reveal(cong_ok);
    reveal(t1_ok);
    reveal(no_zero);
    reveal(states_occur);
    lemma_t2(d, g);
    lemma_t3(d, g);
    lemma_tabf(d, g);
    let rep = g.rep;
    if u == g.r0 {
        let s = g.start1;
        assert(all_st(d, d.starting_state));
        assert(rep.contains_key(d.starting_state));
        assert(rep.contains_key(s) && rep[s] == s);
        assert(s != DEAD_STATE_ID);
        assert(all_st(d, s));
        assert(is_end(d, s));
        assert(state_of(g.t3, g.start1, s));
        assert(g.f.contains_key(s));
        assert(g.f[s] == u);
        assert(inn(g, s));
        assert(src_of(d, g, u, s));
    } else {
        let (q, a) = choose|q: u32, a: InpId| #[trigger] cell_in(g.tabf, q, a) && (q == u || g.tabf[q][a] == u);
        let (q0, x0) = choose|q0: u32, x0: u32| #[trigger] has(g.t3, q0, a, x0) && g.f[q0] == q;
        assert(has(g.t2, q0, a, x0) && has(g.t1, q0, a, x0));
        let m = choose|m: int| 0 <= m < g.t1.len() && #[trigger] tr_is(g.t1[m], q0, a, x0);
        assert(used(d, q0, a) && x0 == rep[d.transitions@[q0][a]]);
        let z = d.transitions@[q0][a];
        assert(is_end(d, q0) && is_end(d, z) && all_st(d, q0) && all_st(d, z));
        assert(rep.contains_key(z) && rep.contains_key(x0) && rep[x0] == x0 && x0 != DEAD_STATE_ID);
        assert(all_st(d, x0) && is_end(d, x0));
        assert(g.t1[m].to == x0);
        assert(has_in(g.t1, x0));
        let m3 = choose|m3: int| 0 <= m3 < g.t3.len() && #[trigger] tr_is(g.t3[m3], q0, a, x0);
        assert(g.t3[m3].from == q0 && g.t3[m3].to == x0);
        assert(has_out(g.t3, q0) && has_in(g.t3, x0));
        if q == u {
            if q0 != g.start1 {
                let mi = choose|mi: int| 0 <= mi < g.t1.len() && (#[trigger] g.t1[mi]).to == q0;
                assert(q0 == rep[d.transitions@[g.t1[mi].from][g.t1[mi].input]]);
                assert(is_end(d, d.transitions@[g.t1[mi].from][g.t1[mi].input]));
                assert(rep.contains_key(d.transitions@[g.t1[mi].from][g.t1[mi].input]));
            } else {
                assert(all_st(d, d.starting_state));
                assert(rep.contains_key(d.starting_state));
            }
            assert(rep.contains_key(q0) && rep[q0] == q0);
            assert(src_of(d, g, u, q0));
        } else {
            assert(g.tabf[g.f[q0]][a] == g.f[x0]);
            assert(src_of(d, g, u, x0));
        }
    }
}

/// C03: no two states of the built automaton accept the same continuations
spec fn distinguishable(tab: Map<u32, Map<InpId, u32>>, start: u32, acc: ISet<u32>) -> bool {
    forall|u: u32, v: u32| #![trigger rstate(tab, start, u), rstate(tab, start, v)] rstate(tab, start, u) && rstate(tab, start, v) && u != v
        ==> exists|w: Seq<InpId>| tacc(tab, u, acc, w) != tacc(tab, v, acc, w)
}

proof fn lemma_distinct(d: DFA, g: Stages, p: Seq<ISet<u32>>, pt: ISet<SetId>)
    requires quot_ok(d, g), part_ok(d, p, pt), ner_ok(d, p, pt), rep_src(p, pt, g.rep)
    ensures distinguishable(g.tabf, g.r0, g.r2)
{
    assert forall|u: u32, v: u32| #![trigger rstate(g.tabf, g.r0, u), rstate(g.tabf, g.r0, v)] rstate(g.tabf, g.r0, u) && rstate(g.tabf, g.r0, v) && u != v
        implies exists|w: Seq<InpId>| tacc(g.tabf, u, g.r2, w) != tacc(g.tabf, v, g.r2, w) by {
        lemma_rstate_src(d, g, u);
        lemma_rstate_src(d, g, v);
        let s = choose|s: u32| #[trigger] src_of(d, g, u, s);
        let t = choose|t: u32| #[trigger] src_of(d, g, v, t);
        if forall|w: Seq<InpId>| tacc(g.tabf, u, g.r2, w) == tacc(g.tabf, v, g.r2, w) {
            reveal(cong_ok);
            assert forall|w: Seq<InpId>| nacc(d, s, w) == nacc(d, t, w) by {
                lemma_sim(d, g, s, w);
                lemma_sim(d, g, t, w);
                lemma_tacc_nacc(d, s, w);
                lemma_tacc_nacc(d, t, w);
                assert(tacc(g.tabf, u, g.r2, w) == tacc(g.tabf, v, g.r2, w));
            }
            assert(equiv(d, s, t));
            reveal(ner_ok);
            reveal(part_ok);
            reveal(rep_src);
            assert(all_st(d, s) && all_st(d, t));
            assert(same(p, pt, s, t));
            let k = choose|k: SetId| #[trigger] pair_in(p, pt, k, s, t);
            let ks = choose|ks: SetId| pt.contains(ks) && #[trigger] is_rep(p, ks, s, g.rep[s]);
            let kt = choose|kt: SetId| pt.contains(kt) && #[trigger] is_rep(p, kt, t, g.rep[t]);
            assert(ks == k && kt == k);
            assert(s == t);
        }
    }
}

} // verus!
verus! {

/// the block holding the dead state holds nothing else
proof fn lemma_dead_block(d: DFA, p: Seq<ISet<u32>>, pt: ISet<SetId>, k: SetId)
    requires acc_ok(d, p, pt), pt.contains(k), blk(p, k).contains(DEAD_STATE_ID)
    ensures forall|s: u32| blk(p, k).contains(s) <==> s == DEAD_STATE_ID
{
    reveal(acc_ok);
    assert forall|s: u32| blk(p, k).contains(s) implies s == DEAD_STATE_ID by {
        assert(pair_in(p, pt, k, DEAD_STATE_ID, s));
    }
}

proof fn lemma_resp_empty(d: DFA, f: ISet<u32>)
    requires forall|x: u32| !f.contains(x)
    ensures resp(d, f)
{
}

} // verus!
verus! {

/// every state of the built automaton can reach acceptance
spec fn live_r(tab: Map<u32, Map<InpId, u32>>, start: u32, acc: ISet<u32>) -> bool {
    forall|u: u32| #[trigger] rstate(tab, start, u) ==> exists|w: Seq<InpId>| tacc(tab, u, acc, w)
}

proof fn lemma_live_r(d: DFA, g: Stages)
    requires quot_ok(d, g), live(d)
    ensures live_r(g.tabf, g.r0, g.r2)
{
    assert forall|u: u32| #[trigger] rstate(g.tabf, g.r0, u) implies exists|w: Seq<InpId>| tacc(g.tabf, u, g.r2, w) by {
        lemma_rstate_src(d, g, u);
        let s = choose|s: u32| #[trigger] src_of(d, g, u, s);
        reveal(live);
        let w = choose|w: Seq<InpId>| nacc(d, s, w);
        lemma_tacc_nacc(d, s, w);
        lemma_sim(d, g, s, w);
        assert(tacc(g.tabf, u, g.r2, w));
    }
}

spec fn reach_r(tab: Map<u32, Map<InpId, u32>>, start: u32) -> bool {
    forall|u: u32| #[trigger] rstate(tab, start, u) ==> exists|w: Seq<InpId>| trun(tab, start, w) == Some(u)
}

/// a state reached in the original automaton whose representative survived is reached in the built one
proof fn lemma_reach_one(d: DFA, g: Stages, w: Seq<InpId>, q: u32)
    requires quot_ok(d, g), trun(d.transitions@, d.starting_state, w) == Some(q), state_of(g.t3, g.start1, g.rep[q])
    ensures
        is_end(d, q), inn(g, q),
        exists|w2: Seq<InpId>| trun(g.tabf, g.r0, w2) == Some(g.f[g.rep[q]]),
    decreases w.len()
{
    reveal(cong_ok);
    reveal(t1_ok);
    reveal(no_zero);
    reveal(states_occur);
    lemma_t2(d, g);
    lemma_t3(d, g);
    lemma_tabf(d, g);
    let rep = g.rep;
    if w.len() == 0 {
        assert(q == d.starting_state);
        assert(trun(g.tabf, g.r0, Seq::<InpId>::empty()) == Some(g.f[rep[q]]));
    } else {
        let w0 = w.drop_last();
        let a = w.last();
        assert(w =~= w0.push(a));
        lemma_trun_snoc(d.transitions@, d.starting_state, w0, a);
        let q0 = trun(d.transitions@, d.starting_state, w0)->0;
        assert(cell_in(d.transitions@, q0, a) && d.transitions@[q0][a] == q);
        assert(used(d, q0, a));
        assert(is_end(d, q0) && is_end(d, q) && all_st(d, q0) && all_st(d, q));
        assert(rep.contains_key(q0) && rep.contains_key(q));
        let r0 = rep[q0];
        let r1 = rep[q];
        assert(rep.contains_key(r0) && rep[r0] == r0);
        lemma_cong_used(d, rep, q0, r0, a);
        assert(used(d, r0, a) && rep[d.transitions@[r0][a]] == r1);
        assert(has(g.t1, r0, a, r1));
        let m = choose|m: int| 0 <= m < g.t1.len() && #[trigger] tr_is(g.t1[m], r0, a, r1);
        assert(g.t1[m].to == r1);
        assert(has_in(g.t1, r1));
        assert(inn(g, q));
        if r1 == g.start1 {
            assert(trun(g.tabf, g.r0, Seq::<InpId>::empty()) == Some(g.f[r1]));
        } else {
            // the transition into r1 survives, so r0 survives too
            lemma_reach_inn(d, g, w0, q0);
            assert(has(g.t2, r0, a, r1));
            assert(g.acc2.contains(r1) || has_out(g.t2, r1)) by {
                if has_in(g.t3, r1) {
                    let mi = choose|mi: int| 0 <= mi < g.t3.len() && (#[trigger] g.t3[mi]).to == r1;
                    assert(tr_is(g.t3[mi], g.t3[mi].from, g.t3[mi].input, r1));
                    assert(has(g.t3, g.t3[mi].from, g.t3[mi].input, r1));
                } else {
                    let mo = choose|mo: int| 0 <= mo < g.t3.len() && (#[trigger] g.t3[mo]).from == r1;
                    assert(tr_is(g.t3[mo], r1, g.t3[mo].input, g.t3[mo].to));
                    assert(has(g.t3, r1, g.t3[mo].input, g.t3[mo].to));
                    assert(has(g.t2, r1, g.t3[mo].input, g.t3[mo].to));
                    let m2 = choose|m2: int| 0 <= m2 < g.t2.len() && #[trigger] tr_is(g.t2[m2], r1, g.t3[mo].input, g.t3[mo].to);
                    assert(g.t2[m2].from == r1);
                }
            }
            assert(has(g.t3, r0, a, r1));
            let m3 = choose|m3: int| 0 <= m3 < g.t3.len() && #[trigger] tr_is(g.t3[m3], r0, a, r1);
            assert(g.t3[m3].from == r0);
            assert(has_out(g.t3, r0));
            lemma_reach_one(d, g, w0, q0);
            let w2 = choose|w2: Seq<InpId>| trun(g.tabf, g.r0, w2) == Some(g.f[r0]);
            lemma_trun_snoc(g.tabf, g.r0, w2, a);
            assert(trun(g.tabf, g.r0, w2.push(a)) == Some(g.f[r1]));
        }
    }
}

/// a state reached from the start state is the start state or is entered: its representative is
/// the start representative or the target of a transition of the first list
proof fn lemma_reach_inn(d: DFA, g: Stages, w: Seq<InpId>, q: u32)
    requires quot_ok(d, g), trun(d.transitions@, d.starting_state, w) == Some(q)
    ensures inn(g, q), is_end(d, q)
{
    reveal(cong_ok);
    reveal(t1_ok);
    reveal(no_zero);
    reveal(states_occur);
    if w.len() > 0 {
        let w0 = w.drop_last();
        let a = w.last();
        assert(w =~= w0.push(a));
        lemma_trun_snoc(d.transitions@, d.starting_state, w0, a);
        let q0 = trun(d.transitions@, d.starting_state, w0)->0;
        assert(used(d, q0, a) && d.transitions@[q0][a] == q);
        assert(is_end(d, q));
        assert(has(g.t1, q0, a, g.rep[q]));
        let m = choose|m: int| 0 <= m < g.t1.len() && #[trigger] tr_is(g.t1[m], q0, a, g.rep[q]);
        assert(g.t1[m].to == g.rep[q]);
        assert(has_in(g.t1, g.rep[q]));
    }
}

/// C03: every state of the built automaton is reached from its start state
proof fn lemma_reach_r(d: DFA, g: Stages)
    requires quot_ok(d, g), reach_ok(d)
    ensures reach_r(g.tabf, g.r0)
{
    assert forall|u: u32| #[trigger] rstate(g.tabf, g.r0, u) implies exists|w: Seq<InpId>| trun(g.tabf, g.r0, w) == Some(u) by {
        lemma_rstate_src(d, g, u);
        let s = choose|s: u32| #[trigger] src_of(d, g, u, s);
        reveal(reach_ok);
        let w = choose|w: Seq<InpId>| trun(d.transitions@, d.starting_state, w) == Some(s);
        lemma_reach_one(d, g, w, s);
    }
}

} // verus!
verus! {

/// the built table uses only symbol ids the original table uses
proof fn lemma_wf_kept(d: DFA, g: Stages, r: DFA)
    requires quot_ok(d, g), dfa_wf(d), r.transitions@ == g.tabf, r.inputs == d.inputs
    ensures dfa_wf(r)
{
    reveal(t1_ok);
    lemma_t2(d, g);
    lemma_t3(d, g);
    lemma_tabf(d, g);
    assert forall|q: u32, id: InpId| #[trigger] used(r, q, id) implies 0 <= ix_of(id) < r.inputs@.len() by {
        assert(cell_in(g.tabf, q, id));
        let (q0, x0) = choose|q0: u32, x0: u32| #[trigger] has(g.t3, q0, id, x0) && g.f[q0] == q;
        assert(has(g.t1, q0, id, x0));
        let m = choose|m: int| 0 <= m < g.t1.len() && #[trigger] tr_is(g.t1[m], q0, id, x0);
        assert(used(d, g.t1[m].from, g.t1[m].input));
    }
}

} // verus!
