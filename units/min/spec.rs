// C03: the merge loop of do_minimize (Hopcroft's partition refinement) and the quotient automaton.
verus! {

/// what make_transitions_image may list: a transition of the table, or a transition into the dead
/// state for a (state with a row, symbol of the pool without a cell)
spec fn img_entry(d: DFA, t: Transition) -> bool {
    (used(d, t.from, t.input) && d.transitions@[t.from][t.input] == t.to)
    || (t.to == DEAD_STATE_ID && d.transitions@.contains_key(t.from) && !used(d, t.from, t.input)
        && exists|i: int| 0 <= i < d.inputs@.len() && t.input == #[trigger] id_of(i))
}

/// the image handed to the splitter: sorted by target; it holds every transition of the table,
/// a transition into the dead state for every (state with a row, symbol of the pool without a cell),
/// and nothing else
#[verifier::opaque]
spec fn image_ok(d: DFA, im: Seq<Transition>) -> bool {
    sorted_by_to(im)
    && (forall|q: u32, a: InpId| #[trigger] used(d, q, a) ==> exists|m: int| 0 <= m < im.len() && #[trigger] tr_is(im[m], q, a, d.transitions@[q][a]))
    && (forall|m: int| 0 <= m < im.len() ==> img_entry(d, #[trigger] im[m]))
    && (forall|q: u32, i: int| d.transitions@.contains_key(q) && 0 <= i < d.inputs@.len() && !(#[trigger] used(d, q, id_of(i))) ==> im.contains(Transition { from: q, to: DEAD_STATE_ID, input: id_of(i) }))
}

/// the transition function made total: a missing cell leads to the dead state
spec fn nxt(d: DFA, q: u32, a: InpId) -> u32 {
    if used(d, q, a) { d.transitions@[q][a] } else { DEAD_STATE_ID }
}

/// the states the minimiser partitions: both ends of every transition, and the dead state
spec fn all_st(d: DFA, s: u32) -> bool { s == DEAD_STATE_ID || is_end(d, s) }

spec fn blk(p: Seq<ISet<u32>>, k: SetId) -> ISet<u32> { p[k.0 as int] }

/// x and y lie in block k of the partition
spec fn pair_in(p: Seq<ISet<u32>>, pt: ISet<SetId>, k: SetId, x: u32, y: u32) -> bool {
    pt.contains(k) && blk(p, k).contains(x) && blk(p, k).contains(y)
}

spec fn same(p: Seq<ISet<u32>>, pt: ISet<SetId>, x: u32, y: u32) -> bool {
    exists|k: SetId| #[trigger] pair_in(p, pt, k, x, y)
}

/// pt names a partition of the states of d into non-empty blocks of the pool
#[verifier::opaque]
spec fn part_ok(d: DFA, p: Seq<ISet<u32>>, pt: ISet<SetId>) -> bool {
    (forall|k: SetId| #[trigger] pt.contains(k) ==> k.0 < p.len() && exists|x: u32| #[trigger] blk(p, k).contains(x))
    && (forall|k1: SetId, k2: SetId, x: u32| pt.contains(k1) && pt.contains(k2) && #[trigger] blk(p, k1).contains(x) && #[trigger] blk(p, k2).contains(x) ==> k1 == k2)
    && (forall|k: SetId, x: u32| pt.contains(k) && #[trigger] blk(p, k).contains(x) ==> all_st(d, x))
    && (forall|x: u32| #[trigger] all_st(d, x) ==> same(p, pt, x, x))
}

/// a block never mixes accepting and other states, and the dead state is alone in its block
#[verifier::opaque]
spec fn acc_ok(d: DFA, p: Seq<ISet<u32>>, pt: ISet<SetId>) -> bool {
    forall|k: SetId, x: u32, y: u32| #[trigger] pair_in(p, pt, k, x, y) ==>
        d.accepting_states@.contains(x) == d.accepting_states@.contains(y) && (x == DEAD_STATE_ID ==> y == DEAD_STATE_ID)
}

/// the set s tells the states x and y apart
spec fn sep(s: ISet<u32>, x: u32, y: u32) -> bool { s.contains(x) != s.contains(y) }

/// block w of the work list (not the dead state's) tells x and y apart
spec fn wit(p: Seq<ISet<u32>>, wl: ISet<SetId>, w: SetId, x: u32, y: u32) -> bool {
    wl.contains(w) && !blk(p, w).contains(DEAD_STATE_ID) && sep(blk(p, w), x, y)
}

/// Hopcroft's invariant: two states of one block whose a-successors lie in different blocks are
/// still going to be told apart: by a block waiting in the work list, or by the splitter `cur`
/// that is being applied
#[verifier::opaque]
spec fn hop_ok(d: DFA, p: Seq<ISet<u32>>, pt: ISet<SetId>, wl: ISet<SetId>, cur: Option<ISet<u32>>) -> bool {
    forall|k: SetId, x: u32, y: u32, a: InpId| #[trigger] pair_in(p, pt, k, x, y) && !same(p, pt, #[trigger] nxt(d, x, a), nxt(d, y, a)) ==>
        (exists|w: SetId| #[trigger] wit(p, wl, w, nxt(d, x, a), nxt(d, y, a)))
        || (cur is Some && !cur->0.contains(DEAD_STATE_ID) && sep(cur->0, nxt(d, x, a), nxt(d, y, a)))
}

/// no block of the partition is cut by the set f
#[verifier::opaque]
spec fn pure(p: Seq<ISet<u32>>, pt: ISet<SetId>, f: ISet<u32>) -> bool {
    forall|k: SetId, x: u32, y: u32| #[trigger] pair_in(p, pt, k, x, y) ==> f.contains(x) == f.contains(y)
}

/// the pool only grows
spec fn pool_ext(p0: Seq<ISet<u32>>, p1: Seq<ISet<u32>>) -> bool {
    p0.len() <= p1.len() && (forall|i: int| 0 <= i < p0.len() ==> p1[i] == p0[i])
}

/// what the whole merge loop keeps
spec fn min_inv(d: DFA, p: Seq<ISet<u32>>, pt: ISet<SetId>, wl: ISet<SetId>) -> bool {
    setpool_wf(p) && part_ok(d, p, pt) && acc_ok(d, p, pt) && (forall|k: SetId| #[trigger] wl.contains(k) ==> pt.contains(k))
}

/// the states with an a-transition of the image into the set g
#[verifier::opaque]
spec fn pre_img(im: Seq<Transition>, n: int, g: ISet<u32>, a: InpId, x: u32) -> bool {
    exists|m: int| 0 <= m < n && m < im.len() && g.contains((#[trigger] im[m]).to) && im[m].input == a && im[m].from == x
}

} // verus!
verus! {

/// how the work list follows a split of block c into c1 and c2
spec fn wl_after(wl0: ISet<SetId>, c: SetId, c1: SetId, c2: SetId, wl1: ISet<SetId>) -> bool {
    (wl0.contains(c) && wl1 == wl0.remove(c).insert(c1).insert(c2))
    || (!wl0.contains(c) && (wl1 == wl0.insert(c1) || wl1 == wl0.insert(c2)))
}

/// block c is cut by f into c1 (inside f) and c2 (outside), both non-empty
#[verifier::opaque]
spec fn is_split(p0: Seq<ISet<u32>>, p1: Seq<ISet<u32>>, c: SetId, c1: SetId, c2: SetId, f: ISet<u32>) -> bool {
    c1.0 < p1.len() && c2.0 < p1.len()
    && (forall|x: u32| #[trigger] blk(p1, c1).contains(x) <==> blk(p0, c).contains(x) && f.contains(x))
    && (forall|x: u32| #[trigger] blk(p1, c2).contains(x) <==> blk(p0, c).contains(x) && !f.contains(x))
    && (exists|x: u32| #[trigger] blk(p1, c1).contains(x)) && (exists|x: u32| #[trigger] blk(p1, c2).contains(x))
}

/// with every block in the work list, every pair of blocks is going to be told apart
proof fn lemma_hop_init(d: DFA, p: Seq<ISet<u32>>, pt: ISet<SetId>)
    requires part_ok(d, p, pt), acc_ok(d, p, pt), no_zero(d)
    ensures hop_ok(d, p, pt, pt, None)
{
    reveal(no_zero);
    reveal(part_ok);
    reveal(acc_ok);
    reveal(hop_ok);
    assert forall|k: SetId, x: u32, y: u32, a: InpId| #[trigger] pair_in(p, pt, k, x, y) && !same(p, pt, #[trigger] nxt(d, x, a), nxt(d, y, a)) implies
        (exists|w: SetId| #[trigger] wit(p, pt, w, nxt(d, x, a), nxt(d, y, a))) by {
        let nx = nxt(d, x, a);
        let ny = nxt(d, y, a);
        lemma_nxt_all(d, x, a);
        lemma_nxt_all(d, y, a);
        assert(same(p, pt, nx, nx));
        assert(same(p, pt, ny, ny));
        let kx = choose|k: SetId| #[trigger] pair_in(p, pt, k, nx, nx);
        let ky = choose|k: SetId| #[trigger] pair_in(p, pt, k, ny, ny);
        if blk(p, kx).contains(ny) { assert(pair_in(p, pt, kx, nx, ny)); }
        if blk(p, ky).contains(nx) { assert(pair_in(p, pt, ky, nx, ny)); }
        if nx != DEAD_STATE_ID {
            if blk(p, kx).contains(DEAD_STATE_ID) { assert(pair_in(p, pt, kx, DEAD_STATE_ID, nx)); }
            assert(wit(p, pt, kx, nx, ny));
        } else {
            assert(ny != DEAD_STATE_ID) by { if ny == DEAD_STATE_ID { assert(pair_in(p, pt, kx, nx, ny)); } }
            if blk(p, ky).contains(DEAD_STATE_ID) { assert(pair_in(p, pt, ky, DEAD_STATE_ID, ny)); }
            assert(wit(p, pt, ky, nx, ny));
        }
    }
}

/// a successor is a state of the automaton (or the dead state)
proof fn lemma_nxt_all(d: DFA, x: u32, a: InpId)
    ensures all_st(d, nxt(d, x, a))
{
    if used(d, x, a) { assert(is_end(d, d.transitions@[x][a])); }
}

proof fn lemma_split(d: DFA, p0: Seq<ISet<u32>>, p1: Seq<ISet<u32>>, pt0: ISet<SetId>, wl0: ISet<SetId>, pt1: ISet<SetId>, wl1: ISet<SetId>, c: SetId, c1: SetId, c2: SetId, f: ISet<u32>, cur: Option<ISet<u32>>)
    requires
        min_inv(d, p0, pt0, wl0), hop_ok(d, p0, pt0, wl0, cur), pool_ext(p0, p1), setpool_wf(p1),
        pt0.contains(c), is_split(p0, p1, c, c1, c2, f),
        pt1 == pt0.remove(c).insert(c1).insert(c2),
        wl_after(wl0, c, c1, c2, wl1),
    ensures
        min_inv(d, p1, pt1, wl1), hop_ok(d, p1, pt1, wl1, cur),
        forall|g: ISet<u32>| pure(p0, pt0, g) ==> #[trigger] pure(p1, pt1, g),
        pt1.contains(c1) && pt1.contains(c2) && !pt1.contains(c),
        forall|k: SetId| #![trigger pt0.contains(k)] #![trigger pt1.contains(k)] pt0.contains(k) && k != c ==> pt1.contains(k) && blk(p1, k) == blk(p0, k) && k != c1 && k != c2,
        forall|k: SetId| #[trigger] pt1.contains(k) ==> k == c1 || k == c2 || (pt0.contains(k) && k != c),
{
    reveal(is_split);
    reveal(part_ok);
    reveal(acc_ok);
    reveal(hop_ok);
    reveal(pure);
    let xa = choose|x: u32| #[trigger] blk(p1, c1).contains(x);
    let xb = choose|x: u32| #[trigger] blk(p1, c2).contains(x);
    assert(blk(p0, c).contains(xa) && f.contains(xa));
    assert(blk(p0, c).contains(xb) && !f.contains(xb));
    assert(c.0 < p0.len());
    // the new ids are new to the partition
    assert(c1 != c2);
    assert(c1 != c) by { if c1 == c { assert(blk(p1, c1) == blk(p0, c)); assert(blk(p1, c1).contains(xb)); } }
    assert(c2 != c) by { if c2 == c { assert(blk(p1, c2) == blk(p0, c)); assert(blk(p1, c2).contains(xa)); } }
    assert forall|k: SetId| #![trigger pt0.contains(k)] #![trigger pt1.contains(k)] pt0.contains(k) && k != c implies pt1.contains(k) && blk(p1, k) == blk(p0, k) && k != c1 && k != c2 by {
        assert(k.0 < p0.len());
        assert(blk(p1, k) == blk(p0, k));
        if k == c1 { assert(blk(p0, k).contains(xa)); }
        if k == c2 { assert(blk(p0, k).contains(xb)); }
    }
    assert(!pt1.contains(c));
    // every new block lies inside an old one
    assert forall|k: SetId, x: u32, y: u32| #[trigger] pair_in(p1, pt1, k, x, y) implies pair_in(p0, pt0, par(k, c, c1, c2), x, y) by {
        if k != c1 && k != c2 { assert(pt0.contains(k) && k != c); }
    }
    // part_ok
    assert forall|k: SetId| #[trigger] pt1.contains(k) implies k.0 < p1.len() && exists|x: u32| #[trigger] blk(p1, k).contains(x) by {
        if k != c1 && k != c2 {
            assert(pt0.contains(k) && k != c);
            let x = choose|x: u32| #[trigger] blk(p0, k).contains(x);
            assert(blk(p1, k).contains(x));
        }
    }
    assert forall|k1: SetId, k2: SetId, x: u32| pt1.contains(k1) && pt1.contains(k2) && #[trigger] blk(p1, k1).contains(x) && #[trigger] blk(p1, k2).contains(x) implies k1 == k2 by {
        assert(pair_in(p1, pt1, k1, x, x));
        assert(pair_in(p1, pt1, k2, x, x));
        assert(par(k1, c, c1, c2) == par(k2, c, c1, c2));
    }
    assert forall|k: SetId, x: u32| pt1.contains(k) && #[trigger] blk(p1, k).contains(x) implies all_st(d, x) by {
        assert(pair_in(p1, pt1, k, x, x));
        assert(pair_in(p0, pt0, par(k, c, c1, c2), x, x));
    }
    assert forall|x: u32| #[trigger] all_st(d, x) implies same(p1, pt1, x, x) by {
        assert(same(p0, pt0, x, x));
        let k = choose|k: SetId| #[trigger] pair_in(p0, pt0, k, x, x);
        if k == c {
            if f.contains(x) { assert(pair_in(p1, pt1, c1, x, x)); } else { assert(pair_in(p1, pt1, c2, x, x)); }
        } else {
            assert(pt1.contains(k));
            assert(pair_in(p1, pt1, k, x, x));
        }
    }
    assert(part_ok(d, p1, pt1));
    assert(acc_ok(d, p1, pt1)) by {
        assert forall|k: SetId, x: u32, y: u32| #[trigger] pair_in(p1, pt1, k, x, y) implies
            d.accepting_states@.contains(x) == d.accepting_states@.contains(y) && (x == DEAD_STATE_ID ==> y == DEAD_STATE_ID) by {
            assert(pair_in(p0, pt0, par(k, c, c1, c2), x, y));
        }
    }
    assert forall|k: SetId| #[trigger] wl1.contains(k) implies pt1.contains(k) by {
        if k != c1 && k != c2 { assert(wl0.contains(k)); }
    }
    assert forall|g: ISet<u32>| pure(p0, pt0, g) implies #[trigger] pure(p1, pt1, g) by {
        assert forall|k: SetId, x: u32, y: u32| #[trigger] pair_in(p1, pt1, k, x, y) implies g.contains(x) == g.contains(y) by {
            assert(pair_in(p0, pt0, par(k, c, c1, c2), x, y));
        }
    }
    // the dead state's block is never cut
    assert(!blk(p0, c).contains(DEAD_STATE_ID)) by {
        if blk(p0, c).contains(DEAD_STATE_ID) {
            assert(pair_in(p0, pt0, c, DEAD_STATE_ID, xa));
            assert(pair_in(p0, pt0, c, DEAD_STATE_ID, xb));
        }
    }
    // Hopcroft's invariant
    assert forall|k: SetId, x: u32, y: u32, a: InpId| #[trigger] pair_in(p1, pt1, k, x, y) && !same(p1, pt1, #[trigger] nxt(d, x, a), nxt(d, y, a)) implies
        (exists|w: SetId| #[trigger] wit(p1, wl1, w, nxt(d, x, a), nxt(d, y, a)))
        || (cur is Some && !cur->0.contains(DEAD_STATE_ID) && sep(cur->0, nxt(d, x, a), nxt(d, y, a))) by {
        let nx = nxt(d, x, a);
        let ny = nxt(d, y, a);
        let k0 = par(k, c, c1, c2);
        assert(pair_in(p0, pt0, k0, x, y));
        if same(p0, pt0, nx, ny) {
            let kk = choose|kk: SetId| #[trigger] pair_in(p0, pt0, kk, nx, ny);
            if kk != c { assert(pair_in(p1, pt1, kk, nx, ny)); }
            // both successors lie in the block that is cut, on different sides
            if f.contains(nx) == f.contains(ny) {
                if f.contains(nx) { assert(pair_in(p1, pt1, c1, nx, ny)); } else { assert(pair_in(p1, pt1, c2, nx, ny)); }
            }
            if wl1.contains(c1) { assert(wit(p1, wl1, c1, nx, ny)); } else { assert(wl1.contains(c2)); assert(wit(p1, wl1, c2, nx, ny)); }
        } else {
            if exists|w: SetId| #[trigger] wit(p0, wl0, w, nx, ny) {
                let w = choose|w: SetId| #[trigger] wit(p0, wl0, w, nx, ny);
                assert(pt0.contains(w));
                if w != c {
                    assert(wl1.contains(w));
                    assert(wit(p1, wl1, w, nx, ny));
                } else {
                    assert(wl1.contains(c1) && wl1.contains(c2));
                    if blk(p0, c).contains(nx) {
                        if f.contains(nx) { assert(wit(p1, wl1, c1, nx, ny)); } else { assert(wit(p1, wl1, c2, nx, ny)); }
                    } else {
                        if f.contains(ny) { assert(wit(p1, wl1, c1, nx, ny)); } else { assert(wit(p1, wl1, c2, nx, ny)); }
                    }
                }
            }
        }
    }
}

/// the block of the old partition a block of the new one lies in
spec fn par(k: SetId, c: SetId, c1: SetId, c2: SetId) -> SetId { if k == c1 || k == c2 { c } else { k } }

} // verus!
verus! {

spec fn pure_blk(b: ISet<u32>, f: ISet<u32>) -> bool {
    forall|x: u32, y: u32| b.contains(x) && b.contains(y) ==> f.contains(x) == f.contains(y)
}

spec fn nonempty(s: ISet<u32>) -> bool { exists|x: u32| s.contains(x) }

proof fn lemma_nonempty(s: ISet<u32>)
    ensures nonempty(s) <==> s != ISet::<u32>::empty()
{
    if !nonempty(s) { assert(s =~= ISet::<u32>::empty()); }
    if nonempty(s) { let x = choose|x: u32| s.contains(x); assert(!ISet::<u32>::empty().contains(x)); }
}

/// the initial partition: the dead state, the accepting states, the others (empty blocks left out)
proof fn lemma_initial(d: DFA, p: Seq<ISet<u32>>, pt: ISet<SetId>, allv: ISet<u32>, dead: ISet<u32>, nonacc: ISet<u32>)
    requires
        no_zero(d), states_occur(d),
        forall|s: u32| allv.contains(s) <==> all_st(d, s),
        forall|s: u32| dead.contains(s) <==> s == DEAD_STATE_ID,
        forall|s: u32| nonacc.contains(s) <==> allv.contains(s) && !d.accepting_states@.contains(s) && !dead.contains(s),
        forall|k: SetId| #[trigger] pt.contains(k) ==> k.0 < p.len() && (blk(p, k) == dead || (blk(p, k) == d.accepting_states@ && nonempty(d.accepting_states@)) || (blk(p, k) == nonacc && nonempty(nonacc))),
        exists|k: SetId| #[trigger] pt.contains(k) && blk(p, k) == dead,
        nonempty(d.accepting_states@) ==> exists|k: SetId| #[trigger] pt.contains(k) && blk(p, k) == d.accepting_states@,
        nonempty(nonacc) ==> exists|k: SetId| #[trigger] pt.contains(k) && blk(p, k) == nonacc,
        setpool_wf(p),
    ensures part_ok(d, p, pt), acc_ok(d, p, pt)
{
    reveal(no_zero);
    reveal(states_occur);
    reveal(part_ok);
    reveal(acc_ok);
    let acc = d.accepting_states@;
    assert forall|k: SetId| #[trigger] pt.contains(k) implies k.0 < p.len() && exists|x: u32| #[trigger] blk(p, k).contains(x) by {
        if blk(p, k) == dead { assert(blk(p, k).contains(DEAD_STATE_ID)); }
        else if blk(p, k) == acc { let x = choose|x: u32| acc.contains(x); assert(blk(p, k).contains(x)); }
        else { let x = choose|x: u32| nonacc.contains(x); assert(blk(p, k).contains(x)); }
    }
    assert forall|k1: SetId, k2: SetId, x: u32| pt.contains(k1) && pt.contains(k2) && #[trigger] blk(p, k1).contains(x) && #[trigger] blk(p, k2).contains(x) implies k1 == k2 by {
        assert(blk(p, k1) == blk(p, k2));
        if k1.0 < k2.0 { assert(p[k1.0 as int] != p[k2.0 as int]); }
        if k2.0 < k1.0 { assert(p[k2.0 as int] != p[k1.0 as int]); }
    }
    assert forall|k: SetId, x: u32| pt.contains(k) && #[trigger] blk(p, k).contains(x) implies all_st(d, x) by { }
    assert forall|x: u32| #[trigger] all_st(d, x) implies same(p, pt, x, x) by {
        if x == DEAD_STATE_ID {
            let k = choose|k: SetId| #[trigger] pt.contains(k) && blk(p, k) == dead;
            assert(pair_in(p, pt, k, x, x));
        } else if acc.contains(x) {
            assert(nonempty(acc));
            let k = choose|k: SetId| #[trigger] pt.contains(k) && blk(p, k) == acc;
            assert(pair_in(p, pt, k, x, x));
        } else {
            assert(nonacc.contains(x));
            assert(nonempty(nonacc));
            let k = choose|k: SetId| #[trigger] pt.contains(k) && blk(p, k) == nonacc;
            assert(pair_in(p, pt, k, x, x));
        }
    }
}

/// taking the splitter out of the work list: it is the one being applied now
proof fn lemma_pop(d: DFA, p: Seq<ISet<u32>>, pt: ISet<SetId>, wl: ISet<SetId>, s: SetId)
    requires hop_ok(d, p, pt, wl, None)
    ensures hop_ok(d, p, pt, wl.remove(s), Some(blk(p, s)))
{
    reveal(hop_ok);
    let wl1 = wl.remove(s);
    let cur = Some(blk(p, s));
    assert forall|k: SetId, x: u32, y: u32, a: InpId| #[trigger] pair_in(p, pt, k, x, y) && !same(p, pt, #[trigger] nxt(d, x, a), nxt(d, y, a)) implies
        (exists|w: SetId| #[trigger] wit(p, wl1, w, nxt(d, x, a), nxt(d, y, a)))
        || (cur is Some && !cur->0.contains(DEAD_STATE_ID) && sep(cur->0, nxt(d, x, a), nxt(d, y, a))) by {
        let w = choose|w: SetId| #[trigger] wit(p, wl, w, nxt(d, x, a), nxt(d, y, a));
        if w != s { assert(wit(p, wl1, w, nxt(d, x, a), nxt(d, y, a))); }
    }
}

/// the states whose a-successor lies in gs
spec fn preset(d: DFA, gs: ISet<u32>, a: InpId) -> ISet<u32> { ISet::new(|x: u32| gs.contains(nxt(d, x, a))) }

/// once no block is cut by the splitter's pre-images the splitter has nothing left to tell apart
proof fn lemma_cur_done(d: DFA, p: Seq<ISet<u32>>, pt: ISet<SetId>, wl: ISet<SetId>, gs: ISet<u32>)
    requires
        hop_ok(d, p, pt, wl, Some(gs)),
        !gs.contains(DEAD_STATE_ID) ==> forall|a: InpId| pure(p, pt, #[trigger] preset(d, gs, a)),
    ensures hop_ok(d, p, pt, wl, None)
{
    reveal(hop_ok);
    reveal(pure);
    assert forall|k: SetId, x: u32, y: u32, a: InpId| #[trigger] pair_in(p, pt, k, x, y) && !same(p, pt, #[trigger] nxt(d, x, a), nxt(d, y, a)) implies
        (exists|w: SetId| #[trigger] wit(p, wl, w, nxt(d, x, a), nxt(d, y, a))) by {
        if !gs.contains(DEAD_STATE_ID) {
            assert(pure(p, pt, preset(d, gs, a)));
            assert(preset(d, gs, a).contains(x) == preset(d, gs, a).contains(y));
        }
    }
}

/// every block is non-empty and its id is in the pool
proof fn lemma_blk_ok(d: DFA, p: Seq<ISet<u32>>, pt: ISet<SetId>, k: SetId)
    requires part_ok(d, p, pt), pt.contains(k)
    ensures k.0 < p.len(), nonempty(blk(p, k)), blk(p, k) != ISet::<u32>::empty()
{
    reveal(part_ok);
    let x = choose|x: u32| #[trigger] blk(p, k).contains(x);
    assert(blk(p, k).contains(x));
    lemma_nonempty(blk(p, k));
}

/// a set no state is in cuts no block
proof fn lemma_pure_empty(p: Seq<ISet<u32>>, pt: ISet<SetId>, f: ISet<u32>)
    requires forall|x: u32| !f.contains(x)
    ensures pure(p, pt, f)
{
    reveal(pure);
}

proof fn lemma_pure_eq(p: Seq<ISet<u32>>, pt: ISet<SetId>, f: ISet<u32>, g: ISet<u32>)
    requires pure(p, pt, f), forall|x: u32| f.contains(x) == g.contains(x)
    ensures pure(p, pt, g)
{
    reveal(pure);
}

/// every block is inside f, outside f, or still to be cut: at the end of the pass no block is cut
proof fn lemma_all_pure(p: Seq<ISet<u32>>, pt: ISet<SetId>, f: ISet<u32>)
    requires forall|k: SetId| #[trigger] pt.contains(k) ==> pure_blk(blk(p, k), f)
    ensures pure(p, pt, f)
{
    reveal(pure);
    assert forall|k: SetId, x: u32, y: u32| #[trigger] pair_in(p, pt, k, x, y) implies f.contains(x) == f.contains(y) by {
        assert(pure_blk(blk(p, k), f));
    }
}

/// no transition of the image leads into the splitter: none of its pre-images has a state
proof fn lemma_no_trans(d: DFA, im: Seq<Transition>, gmin: u32, gmax: u32, gs: ISet<u32>, a: InpId)
    requires
        image_ok(d, im),
        forall|i: int| 0 <= i < im.len() ==> !in_group(#[trigger] im[i], gmin, gmax),
        forall|s: u32| gs.contains(s) ==> gmin <= s <= gmax,
        !gs.contains(DEAD_STATE_ID),
    ensures forall|x: u32| !preset(d, gs, a).contains(x)
{
    reveal(image_ok);
    assert forall|x: u32| !preset(d, gs, a).contains(x) by {
        if gs.contains(nxt(d, x, a)) {
            assert(used(d, x, a));
            let m = choose|m: int| 0 <= m < im.len() && #[trigger] tr_is(im[m], x, a, d.transitions@[x][a]);
            assert(in_group(im[m], gmin, gmax));
        }
    }
}

/// the bookkeeping of one split besides lemma_split: the blocks still to be cut are untouched, the
/// new blocks are not cut by f
proof fn lemma_split_rest(p0: Seq<ISet<u32>>, p1: Seq<ISet<u32>>, pt0: ISet<SetId>, pt1: ISet<SetId>, c: SetId, c1: SetId, c2: SetId, f: ISet<u32>, ov: Seq<SetId>, i3: int)
    requires
        0 <= i3 < ov.len(), ov[i3] == c,
        forall|m1: int, m2: int| 0 <= m1 < m2 < ov.len() ==> #[trigger] ov[m1] != #[trigger] ov[m2],
        is_split(p0, p1, c, c1, c2, f),
        forall|k: SetId| #![trigger pt0.contains(k)] #![trigger pt1.contains(k)] pt0.contains(k) && k != c ==> pt1.contains(k) && blk(p1, k) == blk(p0, k) && k != c1 && k != c2,
        forall|k: SetId| #[trigger] pt1.contains(k) ==> k == c1 || k == c2 || (pt0.contains(k) && k != c),
        forall|m: int| i3 <= m < ov.len() ==> pt0.contains(#[trigger] ov[m]) && !blk(p0, ov[m]).disjoint(f),
        forall|k: SetId| #[trigger] pt0.contains(k) ==> pure_blk(blk(p0, k), f) || exists|m: int| i3 <= m < ov.len() && #[trigger] ov[m] == k,
    ensures
        forall|m: int| i3 + 1 <= m < ov.len() ==> pt1.contains(#[trigger] ov[m]) && !blk(p1, ov[m]).disjoint(f),
        forall|k: SetId| #[trigger] pt1.contains(k) ==> pure_blk(blk(p1, k), f) || exists|m: int| i3 + 1 <= m < ov.len() && #[trigger] ov[m] == k,
{
    reveal(is_split);
    assert forall|m: int| i3 + 1 <= m < ov.len() implies pt1.contains(#[trigger] ov[m]) && !blk(p1, ov[m]).disjoint(f) by {
        assert(ov[i3] != ov[m]);
        assert(pt0.contains(ov[m]));
    }
    assert forall|k: SetId| #[trigger] pt1.contains(k) implies pure_blk(blk(p1, k), f) || exists|m: int| i3 + 1 <= m < ov.len() && #[trigger] ov[m] == k by {
        if k == c1 { assert(pure_blk(blk(p1, k), f)); }
        else if k == c2 { assert(pure_blk(blk(p1, k), f)); }
        else {
            assert(pt0.contains(k) && k != c);
            if !pure_blk(blk(p0, k), f) {
                let m = choose|m: int| i3 <= m < ov.len() && #[trigger] ov[m] == k;
                assert(m != i3);
            }
        }
    }
}

/// a block that lies inside f is not cut by f (the `continue` of the split loop)
proof fn lemma_skip_rest(p0: Seq<ISet<u32>>, pt0: ISet<SetId>, c: SetId, f: ISet<u32>, ov: Seq<SetId>, i3: int)
    requires
        0 <= i3 < ov.len(), ov[i3] == c,
        forall|x: u32| blk(p0, c).contains(x) ==> f.contains(x),
        forall|k: SetId| #[trigger] pt0.contains(k) ==> pure_blk(blk(p0, k), f) || exists|m: int| i3 <= m < ov.len() && #[trigger] ov[m] == k,
    ensures
        forall|k: SetId| #[trigger] pt0.contains(k) ==> pure_blk(blk(p0, k), f) || exists|m: int| i3 + 1 <= m < ov.len() && #[trigger] ov[m] == k,
{
    assert forall|k: SetId| #[trigger] pt0.contains(k) implies pure_blk(blk(p0, k), f) || exists|m: int| i3 + 1 <= m < ov.len() && #[trigger] ov[m] == k by {
        if !pure_blk(blk(p0, k), f) {
            let m = choose|m: int| i3 <= m < ov.len() && #[trigger] ov[m] == k;
            assert(m != i3);
        }
    }
}

proof fn lemma_pre_img_step(im: Seq<Transition>, n: int, g: ISet<u32>, a: InpId, x: u32)
    requires 0 <= n < im.len()
    ensures pre_img(im, n + 1, g, a, x) == (pre_img(im, n, g, a, x) || (g.contains(im[n].to) && im[n].input == a && im[n].from == x))
{
    reveal(pre_img);
    if pre_img(im, n + 1, g, a, x) {
        let m = choose|m: int| 0 <= m < n + 1 && m < im.len() && g.contains((#[trigger] im[m]).to) && im[m].input == a && im[m].from == x;
        if m < n { assert(pre_img(im, n, g, a, x)); }
    }
    if pre_img(im, n, g, a, x) {
        let m = choose|m: int| 0 <= m < n && m < im.len() && g.contains((#[trigger] im[m]).to) && im[m].input == a && im[m].from == x;
        assert(g.contains(im[m].to));
    }
    if g.contains(im[n].to) && im[n].input == a && im[n].from == x { assert(g.contains(im[n].to)); }
}

/// the pre-image collected from the slice of the image is the pre-image under the transition function
proof fn lemma_pre_is_nxt(d: DFA, im: Seq<Transition>, sl: Seq<Transition>, lo: int, hi: int, gmin: u32, gmax: u32, gs: ISet<u32>, a: InpId, x: u32)
    requires
        image_ok(d, im), is_exact_range(im, sl, lo, hi, gmin, gmax),
        forall|s: u32| gs.contains(s) ==> gmin <= s <= gmax,
        !gs.contains(DEAD_STATE_ID),
    ensures pre_img(sl, sl.len() as int, gs, a, x) == gs.contains(nxt(d, x, a))
{
    reveal(pre_img);
    reveal(is_exact_range);
    reveal(image_ok);
    if pre_img(sl, sl.len() as int, gs, a, x) {
        let m = choose|m: int| 0 <= m < sl.len() && m < sl.len() && gs.contains((#[trigger] sl[m]).to) && sl[m].input == a && sl[m].from == x;
        assert(sl[m] == im[lo + m]);
    }
    if gs.contains(nxt(d, x, a)) {
        assert(used(d, x, a));
        let m = choose|m: int| 0 <= m < im.len() && #[trigger] tr_is(im[m], x, a, d.transitions@[x][a]);
        assert(in_group(im[m], gmin, gmax));
        assert(sl[m - lo] == im[m]);
        assert(gs.contains(sl[m - lo].to));
    }
}

} // verus!
verus! {

/// the map collected so far holds, per symbol, the sources of the first n transitions into gs
#[verifier::opaque]
spec fn pre_ok(gt: Map<InpId, RoaringBitmap>, im: Seq<Transition>, n: int, gs: ISet<u32>) -> bool {
    forall|a: InpId, x: u32| #![trigger gt[a]@.contains(x)] #![trigger pre_img(im, n, gs, a, x)]
        (gt.contains_key(a) && gt[a]@.contains(x)) <==> pre_img(im, n, gs, a, x)
}

proof fn lemma_pre_start(gt: Map<InpId, RoaringBitmap>, im: Seq<Transition>, gs: ISet<u32>)
    requires gt == Map::<InpId, RoaringBitmap>::empty()
    ensures pre_ok(gt, im, 0, gs)
{
    reveal(pre_img);
    reveal(pre_ok);
}

proof fn lemma_pre_skip(gt: Map<InpId, RoaringBitmap>, im: Seq<Transition>, n: int, gs: ISet<u32>)
    requires pre_ok(gt, im, n, gs), 0 <= n < im.len(), !gs.contains(im[n].to)
    ensures pre_ok(gt, im, n + 1, gs)
{
    reveal(pre_img);
    reveal(pre_ok);
    assert forall|a: InpId, x: u32| #![trigger gt[a]@.contains(x)] #![trigger pre_img(im, n + 1, gs, a, x)]
        (gt.contains_key(a) && gt[a]@.contains(x)) <==> pre_img(im, n + 1, gs, a, x) by {
        lemma_pre_img_step(im, n, gs, a, x);
        assert((gt.contains_key(a) && gt[a]@.contains(x)) <==> pre_img(im, n, gs, a, x));
    }
}

proof fn lemma_pre_add(gt0: Map<InpId, RoaringBitmap>, gt1: Map<InpId, RoaringBitmap>, im: Seq<Transition>, n: int, gs: ISet<u32>)
    requires
        pre_ok(gt0, im, n, gs), 0 <= n < im.len(), gs.contains(im[n].to),
        gt1.dom() == gt0.dom().insert(im[n].input),
        gt0.contains_key(im[n].input) ==> gt1[im[n].input]@ == gt0[im[n].input]@.insert(im[n].from),
        !gt0.contains_key(im[n].input) ==> gt1[im[n].input]@ == ISet::<u32>::empty().insert(im[n].from),
        forall|j: InpId| j != im[n].input && gt0.contains_key(j) ==> #[trigger] gt1[j] == gt0[j],
    ensures pre_ok(gt1, im, n + 1, gs)
{
    reveal(pre_img);
    reveal(pre_ok);
    let k = im[n].input;
    assert forall|a: InpId, x: u32| #![trigger gt1[a]@.contains(x)] #![trigger pre_img(im, n + 1, gs, a, x)]
        (gt1.contains_key(a) && gt1[a]@.contains(x)) <==> pre_img(im, n + 1, gs, a, x) by {
        lemma_pre_img_step(im, n, gs, a, x);
        assert((gt0.contains_key(a) && gt0[a]@.contains(x)) <==> pre_img(im, n, gs, a, x));
        assert(gt1.contains_key(a) == (gt0.contains_key(a) || a == k));
        if a != k && gt0.contains_key(a) { assert(gt1[a] == gt0[a]); }
    }
}

} // verus!
verus! {

spec fn img_all(d: DFA, ts: Seq<Transition>) -> bool { forall|m: int| 0 <= m < ts.len() ==> img_entry(d, #[trigger] ts[m]) }

/// every transition leaving q is in the list
spec fn row_listed(d: DFA, ts: Seq<Transition>, q: u32) -> bool {
    forall|a: InpId| #[trigger] used(d, q, a) ==> ts.contains(Transition { from: q, to: d.transitions@[q][a], input: a })
}

spec fn img_rows(d: DFA, ts: Seq<Transition>, rowk: Seq<u32>, n: int) -> bool {
    forall|i: int| 0 <= i < n && i < rowk.len() ==> row_listed(d, ts, #[trigger] rowk[i])
}

/// the dead-state fillers of state q for the first n symbols of the pool are in the list
spec fn fill_listed(d: DFA, ts: Seq<Transition>, q: u32, n: int) -> bool {
    forall|i: int| 0 <= i < n && i < d.inputs@.len() && !used(d, q, #[trigger] id_of(i)) ==> ts.contains(Transition { from: q, to: DEAD_STATE_ID, input: id_of(i) })
}

spec fn img_fill(d: DFA, ts: Seq<Transition>, rowk: Seq<u32>, n: int) -> bool {
    forall|r: int| 0 <= r < n && r < rowk.len() ==> fill_listed(d, ts, #[trigger] rowk[r], d.inputs@.len() as int)
}

proof fn lemma_img_push(d: DFA, ts: Seq<Transition>, t: Transition, rowk: Seq<u32>, n: int)
    requires img_all(d, ts), img_rows(d, ts, rowk, n), img_fill(d, ts, rowk, n), img_entry(d, t)
    ensures
        img_all(d, ts.push(t)), img_rows(d, ts.push(t), rowk, n), img_fill(d, ts.push(t), rowk, n),
        forall|x: Transition| ts.contains(x) ==> ts.push(t).contains(x), ts.push(t).contains(t),
        forall|q: u32, k: int| fill_listed(d, ts, q, k) ==> #[trigger] fill_listed(d, ts.push(t), q, k),
{
    let t2 = ts.push(t);
    assert forall|x: Transition| ts.contains(x) implies t2.contains(x) by {
        let m = choose|m: int| 0 <= m < ts.len() && ts[m] == x;
        assert(t2[m] == x);
    }
    assert(t2[ts.len() as int] == t);
    assert forall|m: int| 0 <= m < t2.len() implies img_entry(d, #[trigger] t2[m]) by {
        if m < ts.len() { assert(t2[m] == ts[m]); }
    }
    assert forall|i: int| 0 <= i < n && i < rowk.len() implies row_listed(d, t2, #[trigger] rowk[i]) by {
        assert(row_listed(d, ts, rowk[i]));
    }
    assert forall|r: int| 0 <= r < n && r < rowk.len() implies fill_listed(d, t2, #[trigger] rowk[r], d.inputs@.len() as int) by {
        assert(fill_listed(d, ts, rowk[r], d.inputs@.len() as int));
    }
}

/// the list, sorted and without repetitions, is the image the splitter needs
proof fn lemma_image(d: DFA, ts: Seq<Transition>, out: Seq<Transition>, rowk: Seq<u32>)
    requires
        img_all(d, ts), img_rows(d, ts, rowk, rowk.len() as int), img_fill(d, ts, rowk, rowk.len() as int),
        forall|q: u32| d.transitions@.contains_key(q) ==> exists|i: int| 0 <= i < rowk.len() && #[trigger] rowk[i] == q,
        sorted_by_to(out),
        forall|t: Transition| out.contains(t) <==> ts.contains(t),
    ensures image_ok(d, out)
{
    reveal(image_ok);
    assert forall|q: u32, a: InpId| #[trigger] used(d, q, a) implies exists|m: int| 0 <= m < out.len() && #[trigger] tr_is(out[m], q, a, d.transitions@[q][a]) by {
        let i = choose|i: int| 0 <= i < rowk.len() && #[trigger] rowk[i] == q;
        assert(row_listed(d, ts, rowk[i]));
        let t = Transition { from: q, to: d.transitions@[q][a], input: a };
        assert(ts.contains(t));
        assert(out.contains(t));
        let m = choose|m: int| 0 <= m < out.len() && out[m] == t;
        assert(tr_is(out[m], q, a, d.transitions@[q][a]));
    }
    assert forall|m: int| 0 <= m < out.len() implies img_entry(d, #[trigger] out[m]) by {
        assert(out.contains(out[m]));
        assert(ts.contains(out[m]));
        let k = choose|k: int| 0 <= k < ts.len() && ts[k] == out[m];
        assert(img_entry(d, ts[k]));
    }
    assert forall|q: u32, i: int| d.transitions@.contains_key(q) && 0 <= i < d.inputs@.len() && !(#[trigger] used(d, q, id_of(i))) implies out.contains(Transition { from: q, to: DEAD_STATE_ID, input: id_of(i) }) by {
        let r = choose|r: int| 0 <= r < rowk.len() && #[trigger] rowk[r] == q;
        assert(fill_listed(d, ts, rowk[r], d.inputs@.len() as int));
        assert(ts.contains(Transition { from: q, to: DEAD_STATE_ID, input: id_of(i) }));
    }
}

} // verus!
verus! {

proof fn lemma_pre_get(gt: Map<InpId, RoaringBitmap>, im: Seq<Transition>, n: int, gs: ISet<u32>, a: InpId, x: u32)
    requires pre_ok(gt, im, n, gs)
    ensures (gt.contains_key(a) && gt[a]@.contains(x)) == pre_img(im, n, gs, a, x)
{
    reveal(pre_ok);
}

} // verus!
