// C04 / C06: what the DFA getters (the functions the table builders and the emitters read the
// automaton through) return, stated over the automaton's own fields.
verus! {

/// state q has a transition on the symbol id
spec fn used(d: DFA, q: u32, id: InpId) -> bool {
    d.transitions@.contains_key(q) && d.transitions@[q].contains_key(id)
}

/// every symbol id of the table is an index of the symbol pool
spec fn dfa_wf(d: DFA) -> bool {
    forall|q: u32, id: InpId| #[trigger] used(d, q, id) ==> 0 <= ix_of(id) < d.inputs@.len()
}

/// every within-word symbol of the pool names an automaton of the automaton pool
spec fn subs_wf(d: DFA) -> bool {
    forall|i: int| 0 <= i < d.inputs@.len() ==> ((#[trigger] d.inputs@[i]) is Subword ==> 0 <= dfa_ix(d.inputs@[i]->subdfa) < d.subdfas.store@.len())
}

/// x labels some transition
spec fn on_edge(d: DFA, x: Inp) -> bool {
    exists|q: u32, id: InpId| #[trigger] used(d, q, id) && 0 <= ix_of(id) < d.inputs@.len() && d.inputs@[ix_of(id)] == x
}

/// s is the within-word automaton of some transition
spec fn is_subword_of(d: DFA, s: DFA) -> bool {
    exists|x: Inp| #[trigger] on_edge(d, x) && x is Subword && 0 <= dfa_ix(x->subdfa) < d.subdfas.store@.len() && d.subdfas.store@[dfa_ix(x->subdfa)] == s
}

spec fn has_command(d: DFA) -> bool { exists|x: Inp| #[trigger] on_edge(d, x) && x is Command }
spec fn has_compadd(d: DFA) -> bool { exists|x: Inp| #[trigger] on_edge(d, x) && x is Compadd }
spec fn has_star(d: DFA) -> bool { exists|x: Inp| #[trigger] on_edge(d, x) && x is Star }

/// the within-word automata are well-formed too (one level: they hold no further automata)
spec fn subs_ok(d: DFA) -> bool {
    forall|s: DFA| #[trigger] is_subword_of(d, s) ==> dfa_wf(s)
}

} // verus!
